INIT EnumInit
NEXT EnumNext
CONSTANTS
  Inputs <- AllInputs
  SrcKinds = {"slice", "variadic", "chan", "list"}
  GenFaults <- Faults03
  Datas <- Datas3
  Pipes = {}
  BufSizes = {}
  Preds = {}
  Maps = {}
  MapFaults <- Faults03
  MapOps = {}
  JsonData = {}
  NaryOps = {}
  MaxArity = 1
  MaxDepth = 0
  RootReduce = TRUE
  SimSteps = 0
INVARIANT SaneInv
CONSTRAINT Emit
CHECK_DEADLOCK FALSE
