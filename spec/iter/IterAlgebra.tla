---------------------------- MODULE IterAlgebra ----------------------------
(* Property C02: any composition of the order-preserving iterator operations  *)
(* of tychoish/fun yields exactly the sequence obtained by applying the       *)
(* corresponding pure functions to the input slices, truncated at the first   *)
(* element for which a user function returns a non-skip error;                *)
(* ErrIteratorSkip removes exactly that element.                              *)
(*                                                                             *)
(* This module is the FUNCTIONAL SPECIFICATION (denotational): terms are       *)
(* operator trees, Eval(t) is defined by recursion on the tree with filter /   *)
(* map / concat / identity / fold / dedupe-first / enumerate / flatten on      *)
(* sequences - no cursor, no stage, no retry loop.  (The operational machine   *)
(* of the stateful nodes, and the proof obligation Operational = Denotational, *)
(* are in IterOp.tla.)                                                         *)
(*                                                                             *)
(* Terms  (record fields: op kids data datas fn fault k n)                     *)
(*   sources   slice variadic chan list (data) | gen (data, fault at element   *)
(*             k) | mslices msi (datas: MergeSlices / MergeSliceIterators)      *)
(*   unary     filter(fn) map(fn,fault,k) convert(fn,fault,k) buffer(n)         *)
(*             split1 channel bufchannel(n) uniq dropzero indexed listrt        *)
(*             stackrt slicert jsonrt unjson(data)                              *)
(*   n-ary     join chain                                                       *)
(*   root only reduce(fault,k)  (Iterator.Reduce / itertool.Reduce with +)      *)
(* User-function vocabulary: predicates ne0 ne1 lt2, mappers inc dbl, and a     *)
(* fault = none | err | skip | eof at the k-th element the function sees.       *)
(*                                                                             *)
(* Readings.  The statement truncates THE sequence at the first non-skip       *)
(* error.  Eval is evaluated under the two readings the text allows:           *)
(*   strict    concat (join/chain/unjson) stops at the first operand that was   *)
(*             cut by ANY non-skip error (io.EOF returned by a user function    *)
(*             included) - the literal text;                                    *)
(*   eoflocal  as strict, but a user function returning io.EOF only ends its    *)
(*             own operand (io.EOF is how every source says "done").            *)
(* Accepted outputs = {strict, eoflocal}.  A third construction, NSet, is not   *)
(* a specification: it enumerates the outputs of an implementation whose        *)
(* concat operators go on after a failed operand, only to give that deviation   *)
(* a stable name when the code shows exactly it.                                *)
(***************************************************************************)
EXTENDS Integers, Sequences, FiniteSets, TLC, Json

CONSTANTS Inputs,        \* set of input sequences for sources at depth 0
          SrcKinds,      \* subset of {"slice","variadic","chan","list"}
          GenFaults,     \* set of <<fault, k>> for generator sources (<<"none",0>> = plain generator)
          Datas,         \* set of sequences of sequences for mslices / msi
          Pipes,         \* parameterless unary ops
          BufSizes,      \* n for buffer / bufchannel ({} = not used)
          Preds, Maps,   \* predicate / mapper names
          MapFaults,     \* set of <<fault, k>> for map / convert
          MapOps,        \* subset of {"map","convert"}
          JsonData,      \* set of sequences appended by unjson
          NaryOps,       \* subset of {"join","chain"}
          MaxArity,
          MaxDepth,
          RootReduce,    \* BOOLEAN: also emit reduce(...) roots
          SimSteps

\* ready-made universes for the cfg files (CONSTANT X <- Name)
AllInputs == UNION {[1..j -> {0, 1, 2}] : j \in 0..3}              \* Seq({0,1,2}) of length <= 3: 40 inputs
Inputs5   == {<<>>, <<0>>, <<1, 0>>, <<2, 0, 2>>, <<0, 1, 1>>}
Inputs3   == {<<>>, <<1, 0>>, <<0, 2, 2>>}
Inputs2   == {<<>>, <<1, 0>>}
FaultsAt(ks) == {<<"none", 0>>} \cup {<<f, j>> : f \in {"err", "skip", "eof"}, j \in ks}
Faults03  == FaultsAt(0..3)
Faults02  == FaultsAt(0..2)
FaultsES  == {<<"none", 0>>, <<"err", 0>>, <<"err", 1>>, <<"skip", 0>>, <<"skip", 1>>}
FaultsE1  == {<<"none", 0>>, <<"err", 1>>, <<"skip", 1>>}
FaultsGen1 == {<<"err", 1>>, <<"skip", 1>>}
NoFault   == {<<"none", 0>>}
FaultsNoEof == {<<"none", 0>>} \cup {<<f, j>> : f \in {"err", "skip"}, j \in 0..3}   \* see Sim.cfg
Datas3    == {<<>>, << <<>> >>, << <<0, 1>>, <<>>, <<2>> >>, << <<1>>, <<1, 0>> >>}
AllPipes  == {"split1", "channel", "uniq", "dropzero", "indexed", "listrt", "stackrt", "slicert", "jsonrt"}
JsonD     == {<<>>, <<2, 0>>}
Json1     == {<<2, 0>>}
GenES1    == {<<"err", 1>>, <<"skip", 1>>}
MapE0     == {<<"err", 0>>}
FaultsOp  == FaultsES \cup {<<"eof", 1>>}
GenE1     == {<<"err", 1>>}
MapNE0    == {<<"none", 0>>, <<"err", 0>>}
GenOp     == {<<"none", 0>>, <<"err", 1>>, <<"skip", 1>>, <<"eof", 1>>}

--------------------------------------------------------------------------
Tm(op, kids, data, datas, fn, fault, k, n) ==
  [op |-> op, kids |-> kids, data |-> data, datas |-> datas, fn |-> fn, fault |-> fault, k |-> k, n |-> n]

Src(kind, d)        == Tm(kind, <<>>, d, <<>>, "", "none", 0, 0)
Gen(d, f)           == Tm("gen", <<>>, d, <<>>, "", f[1], f[2], 0)
MSrc(kind, ds)      == Tm(kind, <<>>, <<>>, ds, "", "none", 0, 0)
Pipe(op, x)         == Tm(op, <<x>>, <<>>, <<>>, "", "none", 0, 0)
Buf(op, n, x)       == Tm(op, <<x>>, <<>>, <<>>, "", "none", 0, n)
Filter(p, x)        == Tm("filter", <<x>>, <<>>, <<>>, p, "none", 0, 0)
Map(op, m, f, x)    == Tm(op, <<x>>, <<>>, <<>>, m, f[1], f[2], 0)
UnJson(d, x)        == Tm("unjson", <<x>>, d, <<>>, "", "none", 0, 0)
Nary(op, xs)        == Tm(op, xs, <<>>, <<>>, "", "none", 0, 0)
Reduce(f, x)        == Tm("reduce", <<x>>, <<>>, <<>>, "sum", f[1], f[2], 0)

Sources == {Src(s, d) : s \in SrcKinds, d \in Inputs}
             \cup {Gen(d, f) : d \in Inputs, f \in GenFaults}
             \cup {MSrc(s, ds) : s \in {"mslices", "msi"}, ds \in Datas}

Unaries(x) == {Pipe(o, x) : o \in Pipes}
                \cup {Buf(o, n, x) : o \in {"buffer", "bufchannel"}, n \in BufSizes}
                \cup {Filter(p, x) : p \in Preds}
                \cup {Map(o, m, f, x) : o \in MapOps, m \in Maps, f \in MapFaults}
                \cup {UnJson(d, x) : d \in JsonData}

Tuples(S, n) == UNION {[1..j -> S] : j \in 1..n}

RECURSIVE Terms(_)
Terms(d) == IF d = 0 THEN Sources
            ELSE LET S == Terms(d - 1) IN
                 S \cup UNION {Unaries(x) : x \in S}
                   \cup {Nary(o, xs) : o \in NaryOps, xs \in Tuples(S, MaxArity)}

--------------------------------------------------------------------------
\* the vocabulary of pure user functions
P(fn, v) == CASE fn = "ne0" -> v # 0 [] fn = "ne1" -> v # 1 [] fn = "lt2" -> v < 2
F(fn, v) == CASE fn = "inc" -> v + 1 [] fn = "dbl" -> 2 * v

\* the pure sequence functions
MapSeq(fn, s)  == [i \in 1..Len(s) |-> F(fn, s[i])]
FilterSeq(fn, s) == SelectSeq(s, LAMBDA v : P(fn, v))
Prefix(s, j)   == SubSeq(s, 1, j)                                   \* the first j elements
Remove(s, j)   == SubSeq(s, 1, j) \o SubSeq(s, j + 2, Len(s))        \* without element number j (0-based)
Reverse(s)     == [i \in 1..Len(s) |-> s[Len(s) + 1 - i]]
DropZero(s)    == SelectSeq(s, LAMBDA v : v # 0)
Enumerate(s)   == [i \in 1..Len(s) |-> 10 * (i - 1) + s[i]]          \* the pair (index, value), folded into one int by the harness' converter
RECURSIVE DedupeFirst(_), Flatten(_), SumSeq(_)
DedupeFirst(s) == IF s = <<>> THEN <<>>
                  ELSE LET r == DedupeFirst(Prefix(s, Len(s) - 1)) IN
                       IF \E i \in 1..(Len(s) - 1) : s[i] = s[Len(s)] THEN r ELSE Append(r, s[Len(s)])
Flatten(ss)    == IF ss = <<>> THEN <<>> ELSE Head(ss) \o Flatten(Tail(ss))
SumSeq(s)      == IF s = <<>> THEN 0 ELSE Head(s) + SumSeq(Tail(s))

\* a user function with a fault at the k-th element (0-based) it sees, applied to its input
\* sequence: where it cuts (cut = "" | "err" | "eof") or which element it drops
Faulted(s, fault, k) ==
  IF fault = "none" \/ k >= Len(s) THEN [seq |-> s, cut |-> "", hit |-> FALSE]
  ELSE CASE fault = "skip" -> [seq |-> Remove(s, k), cut |-> "", hit |-> FALSE]
         [] fault = "err"  -> [seq |-> Prefix(s, k), cut |-> "err", hit |-> TRUE]
         [] fault = "eof"  -> [seq |-> Prefix(s, k), cut |-> "eof", hit |-> FALSE]

Child(p, i) == p \o "." \o ToString(i)
Concat == {"join", "chain", "unjson"}

\* Result: seq, cut (why it ended early), err (path of the user function whose error cut it),
\*         may (paths of err-faults whose position exists at all: the only user errors that can be raised)
R(seq, cut, err, may) == [seq |-> seq, cut |-> cut, err |-> err, may |-> may]
Plain(seq) == R(seq, "", "", {})

RECURSIVE Eval(_, _, _), Cat(_, _, _, _)

\* concatenation of the operands rs[i..]; acc = what has been produced so far
Cat(rs, i, acc, mode) ==
  IF i > Len(rs) THEN acc
  ELSE LET r == rs[i]
           stop == r.cut = "err" \/ (r.cut = "eof" /\ mode = "strict")
           nxt  == R(acc.seq \o r.seq, r.cut, r.err, acc.may \cup r.may) IN
       IF stop THEN nxt ELSE Cat(rs, i + 1, nxt, mode)

\* mode: "strict" | "eoflocal"
Eval(t, p, mode) ==
  LET kid(i) == Eval(t.kids[i], Child(p, i), mode) IN
  CASE t.op \in {"slice", "variadic", "chan", "list"} -> Plain(t.data)
    [] t.op \in {"mslices", "msi"} -> Plain(Flatten(t.datas))
    [] t.op = "gen" ->
         LET f == Faulted(t.data, t.fault, t.k) IN
         R(f.seq, f.cut, IF f.hit THEN p ELSE "", IF f.hit THEN {p} ELSE {})
    [] t.op = "filter" -> LET r == kid(1) IN [r EXCEPT !.seq = FilterSeq(t.fn, r.seq)]
    [] t.op \in {"map", "convert"} ->
         LET r == kid(1)
             f == Faulted(r.seq, t.fault, t.k) IN
         IF f.cut = "" THEN [r EXCEPT !.seq = MapSeq(t.fn, f.seq)]
         ELSE R(MapSeq(t.fn, f.seq), f.cut, IF f.hit THEN p ELSE "", r.may \cup (IF f.hit THEN {p} ELSE {}))
    [] t.op \in {"buffer", "split1", "channel", "bufchannel", "listrt", "slicert", "jsonrt"} -> kid(1)
    [] t.op = "stackrt"  -> LET r == kid(1) IN [r EXCEPT !.seq = Reverse(r.seq)]
    [] t.op = "uniq"     -> LET r == kid(1) IN [r EXCEPT !.seq = DedupeFirst(r.seq)]
    [] t.op = "dropzero" -> LET r == kid(1) IN [r EXCEPT !.seq = DropZero(r.seq)]
    [] t.op = "indexed"  -> LET r == kid(1) IN [r EXCEPT !.seq = Enumerate(r.seq)]
    [] t.op = "unjson"   -> Cat(<<kid(1), Plain(t.data)>>, 1, Plain(<<>>), mode)
    [] t.op \in {"join", "chain"} -> Cat([i \in 1..Len(t.kids) |-> kid(i)], 1, Plain(<<>>), mode)

--------------------------------------------------------------------------
(* Naming deviations.  NOT a specification: NSet(t) is the set of outputs obtained when every concat      *)
(* operator (join / chain / unjson), at every operand that failed with a user error and is not the last,  *)
(* either stops (what the statement demands) or goes on with the next operand.  An output of the code     *)
(* that is not accepted but lies in this set is reported under the stable key                              *)
(* iter/<op>/continues-after-operand-error, with                                                           *)
(*   div   the concat operators that went on ("~hidden" when the failure could not be seen at the         *)
(*         operand: it happened behind a bare channel or an eager conversion, which drop the error;       *)
(*         "unjson~closehook" when UnmarshalJSON, which joins onto the iterator's own producer, met a     *)
(*         failure that only the operand's Close() hook reports: Buffer, Chain),                          *)
(*   fail  the result carries a user error (possibly one that a concat operator went past),               *)
(*   vis   how that error can be seen at this node's iterator: "raw" returned by its own producer,       *)
(*         "close" only reported by its Close() (channel-backed iterators with a close hook),            *)
(*         "hid" not at all.                                                                              *)
(* Anything else that differs from the accepted outputs is an unclassified sequence mismatch.             *)
Hides == {"split1", "channel", "bufchannel", "listrt", "stackrt", "slicert", "jsonrt"}
N(seq, fail, vis, div, done) == [seq |-> seq, fail |-> fail, vis |-> vis, div |-> div, done |-> done]

\* visibility of an operand's failure at the result of a concat operator: Producer.Join returns it,
\* Chain's pipe is a channel with a close hook, UnmarshalJSON keeps the iterator it was called on
VisThrough(op, v) == IF v = "hid" THEN "hid" ELSE IF op = "chain" THEN "close" ELSE IF op = "join" THEN "raw" ELSE v
\* Join / Chain read their operands with readOrFail / Close(): they see "raw" and "close" failures;
\* UnmarshalJSON joins onto the operand's own producer: it sees "raw" failures only
DivKey(op, v) == IF v = "hid" THEN op \o "~hidden"
                 ELSE IF op = "unjson" /\ v = "close" THEN "unjson~closehook" ELSE op
\* a derived iterator that reads its source with readOrFail returns the source's failure from its own producer
Raise(v) == IF v = "hid" THEN "hid" ELSE "raw"

RECURSIVE NSet(_, _), NCat(_, _, _, _)

NCat(rsets, i, accs, op) ==
  IF i > Len(rsets) THEN accs
  ELSE LET last == i = Len(rsets)
           step(acc, r) ==
             IF acc.done THEN {acc}
             ELSE LET sq == acc.seq \o r.seq
                      fl == acc.fail \/ r.fail
                      vs == IF r.fail THEN VisThrough(op, r.vis) ELSE acc.vis
                      dv == acc.div \cup r.div IN
                  IF r.fail /\ ~last
                    THEN {N(sq, TRUE, vs, dv, TRUE),
                          N(sq, TRUE, vs, dv \cup {DivKey(op, r.vis)}, FALSE)}
                    ELSE {N(sq, fl, vs, dv, FALSE)} IN
       NCat(rsets, i + 1, UNION {step(acc, r) : acc \in accs, r \in rsets[i]}, op)

NSet(t, p) ==
  LET kid(i) == NSet(t.kids[i], Child(p, i))
      lift(f(_)) == {[r EXCEPT !.seq = f(r.seq), !.vis = Raise(@)] : r \in kid(1)}
      undone(S) == {[r EXCEPT !.done = FALSE] : r \in S} IN
  CASE t.op \in {"slice", "variadic", "chan", "list"} -> {N(t.data, FALSE, "raw", {}, FALSE)}
    [] t.op \in {"mslices", "msi"} -> {N(Flatten(t.datas), FALSE, "raw", {}, FALSE)}
    [] t.op = "gen" -> LET f == Faulted(t.data, t.fault, t.k) IN {N(f.seq, f.hit, "raw", {}, FALSE)}
    [] t.op = "filter" -> lift(LAMBDA s : FilterSeq(t.fn, s))
    [] t.op \in {"map", "convert"} ->
         {LET f == Faulted(r.seq, t.fault, t.k) IN
          IF f.hit THEN N(MapSeq(t.fn, f.seq), TRUE, "raw", r.div, FALSE)
          ELSE [r EXCEPT !.seq = MapSeq(t.fn, f.seq), !.vis = Raise(@)]
          : r \in kid(1)}
    [] t.op = "buffer"   -> {[r EXCEPT !.vis = IF @ = "hid" THEN "hid" ELSE "close"] : r \in kid(1)}
    [] t.op \in Hides \ {"stackrt"} -> {[r EXCEPT !.vis = "hid"] : r \in kid(1)}
    [] t.op = "stackrt"  -> {[r EXCEPT !.seq = Reverse(r.seq), !.vis = "hid"] : r \in kid(1)}
    [] t.op = "uniq"     -> lift(DedupeFirst)
    [] t.op = "dropzero" -> lift(DropZero)
    [] t.op = "indexed"  -> lift(Enumerate)
    [] t.op = "unjson"   -> undone(NCat(<<kid(1), {N(t.data, FALSE, "raw", {}, FALSE)}>>, 1, {N(<<>>, FALSE, "raw", {}, FALSE)}, "unjson"))
    [] t.op \in {"join", "chain"} ->
         undone(NCat([i \in 1..Len(t.kids) |-> kid(i)], 1, {N(<<>>, FALSE, "raw", {}, FALSE)}, t.op))

--------------------------------------------------------------------------
\* reduce root: fold with +, the reducer has its own fault
RedOf(seq, t) == LET f == Faulted(seq, t.fault, t.k) IN [seq |-> <<SumSeq(f.seq)>>, rerr |-> f.hit]

Res(t, mode) ==
  IF t.op = "reduce"
    THEN LET r == Eval(t.kids[1], "r.1", mode)  v == RedOf(r.seq, t) IN
         [seq |-> v.seq, rerr |-> v.rerr, may |-> r.may, err |-> ""]
    ELSE LET r == Eval(t, "r", mode) IN [seq |-> r.seq, rerr |-> FALSE, may |-> r.may, err |-> r.err]

Alts(t) ==
  IF t.op = "reduce"
    THEN {LET v == RedOf(r.seq, t) IN [seq |-> v.seq, rerr |-> v.rerr, div |-> r.div] : r \in {x \in NSet(t.kids[1], "r.1") : x.div # {}}}
    ELSE {[seq |-> r.seq, rerr |-> FALSE, div |-> r.div] : r \in {x \in NSet(t, "r") : x.div # {}}}

\* every err-fault whose position exists in some output of the going-on model can be raised
Obs(t) ==
  LET s == Res(t, "strict")  e == Res(t, "eoflocal") IN
  [ term   |-> t,
    kind   |-> IF t.op = "reduce" THEN "reduce" ELSE "iter",
    accept |-> {s.seq, e.seq},
    rerr   |-> {s.rerr, e.rerr},
    alts   |-> Alts(t),
    err    |-> s.err ]

--------------------------------------------------------------------------
\* sanity of the functional spec (TLC checks it on every enumerated term)
Sane(t) ==
  t.op # "reduce" =>
    LET s == Eval(t, "r", "strict")  e == Eval(t, "r", "eoflocal")  ns == NSet(t, "r") IN
    /\ (s.err # "" => s.err \in s.may)
    /\ \E r \in ns : r.div = {} /\ r.seq = e.seq          \* "every concat stops at a failed operand" is the eoflocal reading
    /\ (\A r \in ns : r.div = {}) => Cardinality(ns) = 1   \* no failed non-last operand: nothing to choose

--------------------------------------------------------------------------
VARIABLES t, stk, n
vars == <<t, stk, n>>

Roots == LET S == Terms(MaxDepth) IN
         IF RootReduce THEN S \cup {Reduce(f, x) : f \in MapFaults, x \in S} ELSE S

EnumInit == t \in Roots /\ stk = <<>> /\ n = 0
EnumNext == FALSE /\ UNCHANGED vars
Emit == PrintT(<<"BEH", ToJson(Obs(t))>>)
SaneInv == Sane(t)

\* random deeper terms (-simulate): postfix construction, one successor per action
Min(a, b) == IF a < b THEN a ELSE b
Dummy == Src("slice", <<>>)
SimInit == t = Dummy /\ stk = <<>> /\ n = 0
PushSrc == stk' = Append(stk, RandomElement(Sources))
ApplyUn == /\ Len(stk) >= 1
           /\ stk' = [stk EXCEPT ![Len(stk)] = RandomElement(Unaries(@))]
ApplyN  == /\ Len(stk) >= 1 /\ NaryOps # {}
           /\ LET j == RandomElement(1..Min(MaxArity, Len(stk))) IN
              stk' = SubSeq(stk, 1, Len(stk) - j) \o
                     <<Nary(RandomElement(NaryOps), SubSeq(stk, Len(stk) - j + 1, Len(stk)))>>
Finish  == /\ n = SimSteps /\ Len(stk) >= 1
           /\ t' = (IF Len(stk) = 1 THEN stk[1] ELSE Nary("chain", stk)) /\ stk' = <<>> /\ n' = n + 1
SimNext == \/ n < SimSteps /\ n' = n + 1 /\ UNCHANGED t /\ (PushSrc \/ ApplyUn \/ ApplyUn \/ ApplyN)
           \/ Finish
SimEmit == n <= SimSteps \/ PrintT(<<"BEH", ToJson(Obs(t))>>)
SimSane == n <= SimSteps \/ Sane(t)
=============================================================================
