INIT EnumInit
NEXT EnumNext
CONSTANTS
  Inputs <- Inputs2
  SrcKinds = {"slice"}
  GenFaults <- GenE1
  Datas = {}
  Pipes = {"split1"}
  BufSizes = {1}
  Preds = {}
  Maps = {"inc"}
  MapFaults <- MapNE0
  MapOps = {"map"}
  JsonData = {}
  NaryOps = {"join", "chain"}
  MaxArity = 2
  MaxDepth = 2
  RootReduce = FALSE
  SimSteps = 0
INVARIANT SaneInv
CONSTRAINT Emit
CHECK_DEADLOCK FALSE
