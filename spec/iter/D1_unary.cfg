INIT EnumInit
NEXT EnumNext
CONSTANTS
  Inputs <- AllInputs
  SrcKinds = {"slice"}
  GenFaults <- FaultsGen1
  Datas = {}
  Pipes <- AllPipes
  BufSizes = {0, 2}
  Preds = {"ne0", "ne1", "lt2"}
  Maps = {"inc", "dbl"}
  MapFaults <- Faults03
  MapOps = {"map", "convert"}
  JsonData <- JsonD
  NaryOps = {}
  MaxArity = 1
  MaxDepth = 1
  RootReduce = FALSE
  SimSteps = 0
INVARIANT SaneInv
CONSTRAINT Emit
CHECK_DEADLOCK FALSE
