INIT EnumInit
NEXT EnumNext
CONSTANTS
  Inputs <- Inputs3
  SrcKinds = {"slice"}
  GenFaults <- FaultsGen1
  Datas = {}
  Pipes <- AllPipes
  BufSizes = {1}
  Preds = {"ne0"}
  Maps = {"inc"}
  MapFaults <- FaultsES
  MapOps = {"map"}
  JsonData <- Json1
  NaryOps = {}
  MaxArity = 1
  MaxDepth = 2
  RootReduce = FALSE
  SimSteps = 0
INVARIANT SaneInv
CONSTRAINT Emit
CHECK_DEADLOCK FALSE
