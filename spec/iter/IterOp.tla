------------------------------- MODULE IterOp -------------------------------
(* Property C02, implementation-shaped half: the OPERATIONAL machine of the      *)
(* stateful, goroutine-free iterator nodes of tychoish/fun, written after the    *)
(* Go code, and the obligation  Operational = Denotational  that TLC checks on   *)
(* every enumerated term (IterAlgebra.Eval is the functional specification).     *)
(*                                                                               *)
(* Every node is an Iterator: a producer `Op` wrapped by the ReadOne loop         *)
(* (iterator.go:231-254):  closed -> io.EOF;  nil -> value;  ErrIteratorSkip ->   *)
(* retry;  io.EOF -> close, io.EOF;  any other error -> AddError, close, io.EOF.  *)
(* Per-node state: cur (cursor / call counter), closed, errs (the error           *)
(* collector read by Close()), seen (Uniq), stg (the stage and sticky error of    *)
(* every Producer.Join, producer.go:111-175), kids.                               *)
(*   sources      SliceIterator cursor (iterator.go:103-113), Generator           *)
(*   filter       loop over ReadOne of the input (iterator.go:260-273)            *)
(*   map/convert  Transform.Producer retry loop (transform.go:130-150)            *)
(*   uniq dropzero indexed          (itertool.go)                                 *)
(*   join         Iterator.Join = left fold of Producer.Join over the READERS     *)
(*                of the operands (iterator.go:440-446)                           *)
(*   unjson       UnmarshalJSON: operation := operation.Join(decoder)             *)
(* Close hooks (IteratorWithHook): Uniq and DropZeroValues add the Close() error  *)
(* of their input to their own collector when they are closed.                    *)
(*                                                                               *)
(* JoinFix selects the code as pinned (FALSE) or as repaired by /repo 0350f9b +   *)
(* fb02575 (TRUE): Iterator.Join reads its operands with readOrFail (an operand   *)
(* that ended with a collected error yields that error instead of io.EOF, which   *)
(* Producer.Join makes sticky), and Filter / Transform.Process (hence Indexed,     *)
(* ConvertIterator) read their source with readOrFail too, so that the failure    *)
(* travels down the pipeline as an error and a producer joined onto the derived   *)
(* iterator (UnmarshalJSON) sees it; itertool.Uniq / DropZeroValues return their  *)
(* input's Close() error at io.EOF likewise (they keep their close hooks).        *)
(*   Op_fixed.cfg   JoinFix = TRUE : OpEqDen, Terminal, Reported hold             *)
(*   Op_asis.cfg    JoinFix = FALSE: only OpInNSet holds (the output is one of    *)
(*                  the "concat went on after a failed operand" outputs), and     *)
(*                  OpEqDen for terms where no operand before the last fails      *)
(*   Op_asis_strict.cfg  JoinFix = FALSE with OpEqDen for all terms: TLC must     *)
(*                  report a violation (non-vacuity self-test; the counterexample *)
(*                  is the minimal failing term of the replay)                    *)
(***************************************************************************)
EXTENDS IterAlgebra

CONSTANT JoinFix

OpOps == {"slice", "variadic", "chan", "list", "gen", "filter", "map", "convert",
          "uniq", "dropzero", "indexed", "join", "unjson"}

RECURSIVE InSubset(_)
InSubset(x) == x.op \in OpOps /\ \A i \in 1..Len(x.kids) : InSubset(x.kids[i])

RECURSIVE Init0(_)
Init0(x) == [cur |-> 0, closed |-> FALSE, errs |-> {}, seen |-> {},
             stg |-> [i \in 1..(Len(x.kids) + 1) |-> [s |-> 0, e |-> ""]],
             kids |-> [i \in 1..Len(x.kids) |-> Init0(x.kids[i])]]

Ret(res, v, e, st) == [res |-> res, v |-> v, e |-> e, st |-> st]
Eof(st) == Ret("eof", 0, "", st)

\* which iterators add their input's Close() error to their own collector when they are closed
HookOps == {"uniq", "dropzero"}
\* which iterators read their input with readOrFail (fb02575)
RofOps == IF JoinFix THEN {"filter", "map", "convert", "indexed", "uniq", "dropzero"} ELSE {}

RECURSIVE CloseIt(_, _)
\* doClose (once) + what Close() then returns is st.errs
CloseIt(x, st) ==
  IF st.closed THEN st
  ELSE LET hooked == IF x.op = "unjson" THEN x.kids[1] ELSE x   \* UnmarshalJSON keeps the iterator, hence its hook
           \* the state of the iterator whose Close() the hook calls
           src == IF x.op = "unjson" THEN st.kids[1].kids ELSE st.kids IN
       IF hooked.op \in HookOps
         THEN LET k == CloseIt(hooked.kids[1], src[1]) IN
              IF x.op = "unjson"
                THEN [st EXCEPT !.closed = TRUE, !.errs = @ \cup k.errs, !.kids[1].kids[1] = k]
                ELSE [st EXCEPT !.closed = TRUE, !.errs = @ \cup k.errs, !.kids[1] = k]
         ELSE [st EXCEPT !.closed = TRUE]

RECURSIVE ReadOne(_, _, _), Op(_, _, _), JP(_, _, _, _), Reader(_, _, _, _)

\* Iterator.ReadOne
ReadOne(x, st, p) ==
  IF st.closed THEN Eof(st)
  ELSE LET r == Op(x, st, p) IN
       CASE r.res = "val"  -> r
         [] r.res = "skip" -> ReadOne(x, r.st, p)
         [] r.res = "eof"  -> Eof(CloseIt(x, r.st))
         [] r.res = "err"  -> Eof(CloseIt(x, [r.st EXCEPT !.errs = @ \cup {r.e}]))

\* how Iterator.Join reads operand i: ReadOne, or readOrFail with the fix
Reader(x, st, p, i) ==
  LET r  == ReadOne(x.kids[i], st.kids[i], Child(p, i))
      s2 == [st EXCEPT !.kids[i] = r.st] IN
  IF r.res = "eof" /\ JoinFix /\ r.st.errs # {}
    THEN Ret("err", 0, CHOOSE e \in r.st.errs : TRUE, s2)
    ELSE Ret(r.res, r.v, "", s2)

\* Producer.Join over the first j readers: ((r1 J r2) J r3) ...; stage constants of producer.go:112-118
\* 0 runFirstFunc, 1 firstFunctionErrored, 2 runSecondFunc, 3 secondFunctionErrored, 4 eof
JP(x, st, p, j) ==
  IF j = 1 THEN Reader(x, st, p, 1)
  ELSE LET sg == st.stg[j] IN
       CASE sg.s \in {1, 3} -> Ret("err", 0, sg.e, st)
         [] sg.s = 0 ->
              LET r == JP(x, st, p, j - 1) IN
              (CASE r.res = "val"  -> r
                 [] r.res = "skip" -> JP(x, r.st, p, j)
                 [] r.res = "err"  -> Ret("err", 0, r.e, [r.st EXCEPT !.stg[j] = [s |-> 1, e |-> r.e]])
                 [] r.res = "eof"  -> JP(x, [r.st EXCEPT !.stg[j].s = 2], p, j))
         [] sg.s = 2 ->
              LET q == Reader(x, st, p, j) IN
              (CASE q.res = "val"  -> q
                 [] q.res = "skip" -> JP(x, q.st, p, j)
                 [] q.res = "err"  -> Ret("err", 0, q.e, [q.st EXCEPT !.stg[j] = [s |-> 3, e |-> q.e]])
                 [] q.res = "eof"  -> Eof([q.st EXCEPT !.stg[j].s = 4]))
         [] sg.s = 4 -> Eof(st)

\* the user function with a fault at the i-th element it sees
FaultAt(x, i) == IF x.fault # "none" /\ i = x.k THEN x.fault ELSE "none"

\* the producer of each kind of node
Op(x, st, p) ==
  LET rd1 == ReadOne(x.kids[1], st.kids[1], Child(p, 1))         \* evaluated only for unary nodes
      \* readOrFail: at io.EOF the source's collected error (its Close()) is returned instead
      in1 == IF x.op \in RofOps /\ rd1.res = "eof" /\ rd1.st.errs # {}
               THEN Ret("err", 0, CHOOSE e \in rd1.st.errs : TRUE, rd1.st) ELSE rd1
      st1 == [st EXCEPT !.kids[1] = in1.st] IN
  CASE x.op \in {"slice", "variadic", "chan", "list"} ->
         IF st.cur >= Len(x.data) THEN Eof(st)
         ELSE Ret("val", x.data[st.cur + 1], "", [st EXCEPT !.cur = @ + 1])
    [] x.op = "gen" ->
         IF st.cur >= Len(x.data) THEN Eof(st)
         ELSE LET f == FaultAt(x, st.cur)  s2 == [st EXCEPT !.cur = @ + 1] IN
              (CASE f = "none" -> Ret("val", x.data[st.cur + 1], "", s2)
                 [] f = "skip" -> Ret("skip", 0, "", s2)
                 [] f = "err"  -> Ret("err", 0, p, s2)
                 [] f = "eof"  -> Eof(s2))
    [] x.op = "filter" ->
         IF in1.res = "eof" THEN Eof(st1)
         ELSE IF in1.res = "err" THEN Ret("err", 0, in1.e, st1)
         ELSE IF P(x.fn, in1.v) THEN Ret("val", in1.v, "", st1) ELSE Op(x, st1, p)
    [] x.op = "dropzero" ->
         IF in1.res = "eof" THEN Eof(st1)
         ELSE IF in1.res = "err" THEN Ret("err", 0, in1.e, st1)
         ELSE IF in1.v # 0 THEN Ret("val", in1.v, "", st1) ELSE Op(x, st1, p)
    [] x.op = "uniq" ->
         IF in1.res = "eof" THEN Eof(st1)
         ELSE IF in1.res = "err" THEN Ret("err", 0, in1.e, st1)
         ELSE IF in1.v \in st1.seen THEN Op(x, st1, p)
              ELSE Ret("val", in1.v, "", [st1 EXCEPT !.seen = @ \cup {in1.v}])
    [] x.op = "indexed" ->
         IF in1.res = "eof" THEN Eof(st1)
         ELSE IF in1.res = "err" THEN Ret("err", 0, in1.e, st1)
         ELSE Ret("val", 10 * st1.cur + in1.v, "", [st1 EXCEPT !.cur = @ + 1])
    [] x.op \in {"map", "convert"} ->                              \* Transform.Producer: for { prod; mpf; switch }
         IF in1.res = "eof" THEN Eof(st1)
         ELSE IF in1.res = "err" THEN Ret("err", 0, in1.e, st1)    \* default: return zero, err
         ELSE LET fm == FaultAt(x, st1.cur)  sm == [st1 EXCEPT !.cur = @ + 1] IN
              (CASE fm = "none" -> Ret("val", F(x.fn, in1.v), "", sm)
                 [] fm = "skip" -> Op(x, sm, p)                      \* errors.Is(err, ErrIteratorSkip): continue
                 [] fm = "err"  -> Ret("err", 0, p, sm)
                 [] fm = "eof"  -> Eof(sm))
    [] x.op = "join" -> JP(x, st, p, Len(x.kids))
    [] x.op = "unjson" ->                                          \* operation.Join(decoder), stage in stg[2]
         LET sg == st.stg[2] IN
         (CASE sg.s \in {1, 3} -> Ret("err", 0, sg.e, st)
           [] sg.s = 0 ->
                LET ru == Op(x.kids[1], st.kids[1], Child(p, 1))   \* the iterator's OWN producer, not its ReadOne
                    su == [st EXCEPT !.kids[1] = ru.st] IN
                (CASE ru.res = "val"  -> Ret("val", ru.v, "", su)
                   [] ru.res = "skip" -> Op(x, su, p)
                   [] ru.res = "err"  -> Ret("err", 0, ru.e, [su EXCEPT !.stg[2] = [s |-> 1, e |-> ru.e]])
                   [] ru.res = "eof"  -> Op(x, [su EXCEPT !.stg[2].s = 2], p))
           [] sg.s = 2 ->
                IF st.cur >= Len(x.data) THEN Eof([st EXCEPT !.stg[2].s = 4])
                ELSE Ret("val", x.data[st.cur + 1], "", [st EXCEPT !.cur = @ + 1])
           [] sg.s = 4 -> Eof(st))

\* drain with ReadOne until it reports an error
RECURSIVE Drain(_, _, _, _)
Drain(x, st, acc, fuel) ==
  LET r == ReadOne(x, st, "r") IN
  IF r.res = "val" /\ fuel > 0 THEN Drain(x, r.st, Append(acc, r.v), fuel - 1)
  ELSE [seq |-> acc, st |-> r.st, ended |-> r.res = "eof"]

Run(x) == Drain(x, Init0(x), <<>>, 200)

--------------------------------------------------------------------------
\* the obligations, per enumerated term
Den(x) == Eval(x, "r", "eoflocal")
NoDiv(x) == \A r \in NSet(x, "r") : r.div = {}

OpEqDenOf(x)  == InSubset(x) => Run(x).seq = Den(x).seq
OpInNSetOf(x) == InSubset(x) => LET d == Run(x) IN
                                /\ d.seq \in {r.seq : r \in NSet(x, "r")}
                                /\ (NoDiv(x) => d.seq = Den(x).seq)
\* once ReadOne has returned an error the iterator yields nothing further
TerminalOf(x) == InSubset(x) => LET d == Run(x) IN d.ended /\ ReadOne(x, d.st, "r").res = "eof"
\* with the fix the error that cut the sequence is reported by Close() of the outermost iterator
ReportedOf(x) == InSubset(x) => LET d == Run(x)  e == Den(x) IN e.err # "" => e.err \in d.st.errs

\* with the fix UnmarshalJSON (like Join and Chain) still goes on when the failure is hidden behind a channel /
\* eager conversion; none of those operators is in OpOps, so inside this machine nothing is excused
NoUnjson(x) == TRUE

\* behaviour emission: the term with the functional expectations AND the operational machine's output and
\* Close() error set, so that the replay also tells whether this machine still describes the code
EmitOp == PrintT(<<"BEH", ToJson(Obs(t) @@ [opseq |-> Run(t).seq, operrs |-> Run(t).st.errs])>>)

OpEqDen  == n = 0 => (IF JoinFix THEN NoUnjson(t) => OpEqDenOf(t) ELSE OpEqDenOf(t))
OpInNSet == n = 0 => OpInNSetOf(t)
Terminal == n = 0 => TerminalOf(t)
Reported == n = 0 => (NoUnjson(t) => ReportedOf(t))
=============================================================================
