INIT EnumInit
NEXT EnumNext
CONSTANTS
  Inputs <- Inputs5
  SrcKinds = {"slice", "chan"}
  GenFaults <- Faults02
  Datas = {}
  Pipes = {}
  BufSizes = {}
  Preds = {}
  Maps = {}
  MapFaults <- NoFault
  MapOps = {}
  JsonData = {}
  NaryOps = {"join", "chain"}
  MaxArity = 2
  MaxDepth = 1
  RootReduce = FALSE
  SimSteps = 0
INVARIANT SaneInv
CONSTRAINT Emit
CHECK_DEADLOCK FALSE
