INIT EnumInit
NEXT EnumNext
CONSTANTS
  Inputs <- Inputs2
  SrcKinds = {"slice"}
  GenFaults <- GenES1
  Datas = {}
  Pipes = {"uniq", "dropzero", "indexed"}
  BufSizes = {}
  Preds = {"ne0"}
  Maps = {"inc"}
  MapFaults <- FaultsOp
  MapOps = {"map"}
  JsonData <- Json1
  NaryOps = {"join"}
  MaxArity = 2
  MaxDepth = 1
  RootReduce = FALSE
  SimSteps = 0
  JoinFix = FALSE
INVARIANT OpEqDen
CHECK_DEADLOCK FALSE
