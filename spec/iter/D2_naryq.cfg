INIT EnumInit
NEXT EnumNext
CONSTANTS
  Inputs <- Inputs2
  SrcKinds = {"slice"}
  GenFaults <- GenES1
  Datas = {}
  Pipes = {"uniq"}
  BufSizes = {1}
  Preds = {"ne0"}
  Maps = {"inc"}
  MapFaults <- MapE0
  MapOps = {"map"}
  JsonData = {}
  NaryOps = {"join", "chain"}
  MaxArity = 2
  MaxDepth = 2
  RootReduce = FALSE
  SimSteps = 0
INVARIANT SaneInv
CONSTRAINT Emit
CHECK_DEADLOCK FALSE
