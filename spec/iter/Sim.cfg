INIT SimInit
NEXT SimNext
CONSTANTS
  Inputs <- AllInputs
  SrcKinds = {"slice", "variadic", "chan", "list"}
  GenFaults <- Faults03
  Datas <- Datas3
  Pipes <- AllPipes
  BufSizes = {0, 1, 3}
  Preds = {"ne0", "ne1", "lt2"}
  Maps = {"inc", "dbl"}
  MapFaults <- FaultsNoEof
  MapOps = {"map", "convert"}
  JsonData <- JsonD
  NaryOps = {"join", "chain"}
  MaxArity = 3
  MaxDepth = 0
  RootReduce = FALSE
  SimSteps = 10
INVARIANT SimSane
CONSTRAINT SimEmit
CHECK_DEADLOCK FALSE
