INIT EnumInit
NEXT EnumNext
CONSTANTS
  Inputs <- Inputs3
  SrcKinds = {"slice"}
  GenFaults <- GenES1
  Datas = {}
  Pipes = {"uniq", "dropzero", "indexed"}
  BufSizes = {}
  Preds = {"ne0"}
  Maps = {"inc"}
  MapFaults <- FaultsOp
  MapOps = {"map"}
  JsonData <- Json1
  NaryOps = {"join"}
  MaxArity = 2
  MaxDepth = 2
  RootReduce = FALSE
  SimSteps = 0
  JoinFix = FALSE
INVARIANT OpInNSet
INVARIANT Terminal
CONSTRAINT EmitOp
CHECK_DEADLOCK FALSE
