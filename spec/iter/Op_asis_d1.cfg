INIT EnumInit
NEXT EnumNext
CONSTANTS
  Inputs <- Inputs5
  SrcKinds = {"slice"}
  GenFaults <- GenOp
  Datas = {}
  Pipes = {"uniq", "dropzero", "indexed"}
  BufSizes = {}
  Preds = {"ne0"}
  Maps = {"inc"}
  MapFaults <- FaultsOp
  MapOps = {"map"}
  JsonData <- Json1
  NaryOps = {"join"}
  MaxArity = 3
  MaxDepth = 1
  RootReduce = FALSE
  SimSteps = 0
  JoinFix = FALSE
INVARIANT OpInNSet
INVARIANT Terminal
CONSTRAINT EmitOp
CHECK_DEADLOCK FALSE
