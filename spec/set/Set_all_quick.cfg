SPECIFICATION Spec
CONSTANTS
  V = {1, 2}
  Sets = {"A", "B"}
  Mut = {"A"}
  Ops = {"add", "addcheck", "delete", "deletecheck", "populate", "extend", "json", "order", "sortquick", "sortmerge", "sync"}
  OrdChoices = {TRUE, FALSE}
  SyncChoices = {FALSE}
  MaxPop = 2
  Depth = 3
INVARIANT Inv
PROPERTY ActionProps
CONSTRAINT EmitAll
CHECK_DEADLOCK FALSE
