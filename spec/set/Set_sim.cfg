SPECIFICATION SimSpec
CONSTANTS
  V = {1, 2, 3}
  Sets = {"A", "B"}
  Mut = {"A", "B"}
  Ops = {"add", "addcheck", "delete", "deletecheck", "populate", "fromslice", "extend", "json", "order", "sortquick", "sortmerge", "sync"}
  OrdChoices = {TRUE, FALSE}
  SyncChoices = {TRUE, FALSE}
  MaxPop = 2
  Depth = 30
INVARIANT Inv
PROPERTY ActionProps
CHECK_DEADLOCK FALSE
