SPECIFICATION Spec
CONSTANTS
  V = {1, 2}
  Sets = {"A", "B"}
  Mut = {"A", "B"}
  Ops = {"add", "addcheck", "delete", "deletecheck", "populate", "fromslice", "extend", "json", "order", "sortquick", "sortmerge", "sync"}
  OrdChoices = {TRUE, FALSE}
  SyncChoices = {FALSE}
  MaxPop = 2
  Depth = 12
INVARIANT Inv
PROPERTY ActionProps
VIEW view
ACTION_CONSTRAINT EmitEdge
CHECK_DEADLOCK FALSE
