--------------------------- MODULE SetLinTrace ---------------------------
(* Code -> model: linearizability of a synchronized dt.Set (property C18). *)
(* Histories recorded by `vh-set record` (call / ret events of Add, Delete,*)
(* Check, Len, AddCheck, DeleteCheck issued by three goroutines, stamped   *)
(* with a global sequence) are validated against the sequential meaning of *)
(* the set (the same transitions as SetSpec, single set): an operation is  *)
(* pending between its call and ret; the silent step Lin applies it        *)
(* atomically somewhere in that window and fixes its result; ret must find *)
(* the operation linearised with exactly the logged result.  The `final`   *)
(* event (all callers done) must show the abstract members, and for an     *)
(* ordered set the abstract first-insertion order of the chosen            *)
(* linearisation.  Histories are concatenated with `reset` events.         *)
(***************************************************************************)
EXTENDS Integers, Sequences, FiniteSets, TLC, Json

Trace == ndJsonDeserialize("trace.ndjson")

VARIABLES l, mem, ord, isord, pend
vars == <<l, mem, ord, isord, pend>>

Ev == Trace[l]
More == l <= Len(Trace)
B(b) == IF b THEN "true" ELSE "false"
Range(q) == {q[i] : i \in 1..Len(q)}

Init == l = 1 /\ mem = {} /\ ord = <<>> /\ isord = FALSE /\ pend = {}

Reset == /\ More /\ Ev.ev = "reset"
         /\ mem' = {} /\ ord' = <<>> /\ isord' = FALSE /\ pend' = {} /\ l' = l + 1

Config == /\ More /\ Ev.ev = "config"
          /\ isord' = (Ev.ordered = 1)
          /\ l' = l + 1 /\ UNCHANGED <<mem, ord, pend>>

Call == /\ More /\ Ev.ev = "call"
        /\ pend' = pend \cup {[id |-> Ev.id, op |-> Ev.op, arg |-> Ev.arg, lin |-> FALSE, res |-> "?"]}
        /\ l' = l + 1 /\ UNCHANGED <<mem, ord, isord>>

Done(p, r) == pend' = (pend \ {p}) \cup {[p EXCEPT !.lin = TRUE, !.res = r]}

Lin == \E p \in pend :
         /\ ~p.lin
         /\ \/ /\ p.op \in {"add", "addcheck"}
               /\ mem' = mem \cup {p.arg}
               /\ ord' = IF p.arg \in mem THEN ord ELSE Append(ord, p.arg)
               /\ Done(p, IF p.op = "add" THEN "-" ELSE B(p.arg \in mem))
            \/ /\ p.op \in {"delete", "deletecheck"}
               /\ mem' = mem \ {p.arg}
               /\ ord' = SelectSeq(ord, LAMBDA x : x # p.arg)
               /\ Done(p, IF p.op = "delete" THEN "-" ELSE B(p.arg \in mem))
            \/ /\ p.op = "check" /\ Done(p, B(p.arg \in mem)) /\ UNCHANGED <<mem, ord>>
            \/ /\ p.op = "len" /\ Done(p, ToString(Cardinality(mem))) /\ UNCHANGED <<mem, ord>>
         /\ UNCHANGED <<l, isord>>

Ret == /\ More /\ Ev.ev = "ret"
       /\ \E p \in pend : p.id = Ev.id /\ p.lin /\ p.res = Ev.res /\ pend' = pend \ {p}
       /\ l' = l + 1 /\ UNCHANGED <<mem, ord, isord>>

\* every caller has returned: the set must hold the abstract members (in the abstract order when ordered)
Final == /\ More /\ Ev.ev = "final"
         /\ pend = {}
         /\ Ev.n = Cardinality(mem)
         /\ Len(Ev.items) = Cardinality(mem) /\ Range(Ev.items) = mem
         /\ isord => Ev.items = ord
         /\ l' = l + 1 /\ UNCHANGED <<mem, ord, isord, pend>>

Next == Reset \/ Config \/ Call \/ Lin \/ Ret \/ Final
Spec == Init /\ [][Next]_vars

HighWater == TLCSet(1, IF TLCGet(1) < l THEN l ELSE TLCGet(1))
Accepted == \/ TLCGet(1) = Len(Trace) + 1
            \/ PrintT(<<"REJECTED", ToJson([at |-> TLCGet(1), event |-> Trace[TLCGet(1)]])>>) /\ FALSE
ASSUME TLCSet(1, 0)
=============================================================================
