----------------------------- MODULE SetSpec -----------------------------
(* Abstract specification of dt.Set (property C18): a mathematical set,    *)
(* optionally insertion-ordered, optionally synchronized.  Two sets (Sets) *)
(* over a small value domain V so that Extend / Equal / JSON transfer have *)
(* a partner.  Every action is one public call on the real Set; `hist`     *)
(* records the call together with the return value and the complete        *)
(* projected state the real code must then show:                           *)
(*   Check(v) for every v in V (mem / absent), Len, the iterator's output  *)
(*   (as a bag; as the sequence `seq` when the set is ordered), Equal in   *)
(*   both directions, Equal with itself, the JSON form.                    *)
(* harness/cmd/vh-set replays each behaviour and compares after every step.*)
(*                                                                          *)
(* Readings (DESIGN.md 5.0): Equal between an ordered and an unordered set  *)
(* with the same members is not judged ("any"); with different members it   *)
(* must be false.  Where the resulting order of an ordered set is not       *)
(* determined by the calls (Extend / JSON from an UNordered source adding   *)
(* two or more new members: Go map order) the spec picks every permutation  *)
(* and marks the step `free = k`: the last k positions are compared as a    *)
(* bag and the replay of that behaviour stops there if the real order is a  *)
(* different permutation (a sibling behaviour has the matching one).        *)
(***************************************************************************)
EXTENDS Integers, Sequences, FiniteSets, TLC, Json

CONSTANTS V,            \* value domain (integers)
          Sets,         \* {"A","B"}
          Mut,          \* sets that mutating calls may target
          Ops,          \* enabled operation names
          OrdChoices,   \* initial orderedness choices, subset of BOOLEAN
          SyncChoices,  \* initial synchronization choices
          MaxPop,       \* longest argument of Populate / NewSetFromSlice
          Depth         \* calls per behaviour

VARIABLES mem,      \* [Sets -> SUBSET V]
          ord,      \* [Sets -> Seq(V)]   iteration order when ordered, <<>> otherwise
          ordered,  \* [Sets -> BOOLEAN]
          synced,   \* [Sets -> BOOLEAN]
          how,      \* ghost, coverage only: how the set became ordered / whether a merge sort of >= 2 elements happened
          hist

vars == <<mem, ord, ordered, synced, how, hist>>
view == <<mem, ord, ordered, synced, how>>

Range(q) == {q[i] : i \in 1..Len(q)}
Perms(S) == {q \in [1..Cardinality(S) -> S] : \A i, j \in 1..Cardinality(S) : i # j => q[i] # q[j]}
Sorted(S, dir) == CHOOSE q \in Perms(S) : \A i, j \in 1..Cardinality(S) :
                      i < j => IF dir = "asc" THEN q[i] < q[j] ELSE q[i] > q[j]
Without(q, v) == SelectSeq(q, LAMBDA x : x # v)
\* the elements of q (in order) that are not in S, first occurrence only
RECURSIVE NewOf(_, _)
NewOf(q, S) == IF q = <<>> THEN <<>>
               ELSE IF Head(q) \in S THEN NewOf(Tail(q), S)
               ELSE <<Head(q)>> \o NewOf(Tail(q), S \cup {Head(q)})
Pos(q, v) == CHOOSE i \in 1..Len(q) : q[i] = v
B(b) == IF b THEN "true" ELSE "false"
AsSeq(S) == IF S = {} THEN <<>> ELSE Sorted(S, "asc")
PopSeqs == UNION {[1..n -> V] : n \in 1..MaxPop}

\* ---------------------------------------------------------------- observations
Eq(m, o, od, s, t) ==
    IF od[s] = od[t]
    THEN B(m[s] = m[t] /\ (od[s] => o[s] = o[t]))
    ELSE IF m[s] # m[t] THEN "false" ELSE "any"

\* projected state of one set: o/y = ordered/synchronized (0/1), n = Len(), m = members (Check(v) is true
\* exactly for these, false for the rest of V), q = iterator output when ordered (when unordered the
\* iterator output is compared with m as a bag), self = expected s.Equal(s) ("skip": not exercised on a
\* synchronized set, where a set locking itself twice is outside the property)
Bit(b) == IF b THEN 1 ELSE 0
P(m, o, od, sy, s) == [o |-> Bit(od[s]), y |-> Bit(sy[s]), n |-> Cardinality(m[s]), m |-> m[s], q |-> o[s],
                       self |-> IF sy[s] THEN "skip" ELSE "true"]

\* call: record describing the call (op, s, and where used t, v, arg, dir, free), ret: its return value
Rec(call, ret) ==
    hist' = Append(hist, call @@ [ret |-> ret,
                          st |-> [x \in Sets |-> P(mem', ord', ordered', synced', x)],
                          ab |-> Eq(mem', ord', ordered', "A", "B"),
                          ba |-> Eq(mem', ord', ordered', "B", "A")])

\* ---------------------------------------------------------------- actions
Init == /\ mem = [s \in Sets |-> {}] /\ ord = [s \in Sets |-> <<>>]
        /\ ordered \in [Sets -> OrdChoices] /\ synced \in [Sets -> SyncChoices]
        /\ how = [s \in Sets |-> <<IF ordered[s] THEN "order" ELSE "none", FALSE>>]
        /\ hist = <<[op |-> "new", dom |-> V, ret |-> "-",
                     st |-> [x \in Sets |-> P(mem, ord, ordered, synced, x)],
                     ab |-> Eq(mem, ord, ordered, "A", "B"), ba |-> Eq(mem, ord, ordered, "B", "A")]>>

\* Add / AddCheck: AddCheck reports whether the value HAD been a member
AddOp(s, v, chk) ==
    /\ (IF chk THEN "addcheck" ELSE "add") \in Ops
    /\ mem' = [mem EXCEPT ![s] = @ \cup {v}]
    /\ ord' = [ord EXCEPT ![s] = IF ordered[s] /\ v \notin mem[s] THEN Append(@, v) ELSE @]
    /\ UNCHANGED <<ordered, synced, how>>
    /\ Rec([op |-> IF chk THEN "addcheck" ELSE "add", s |-> s, v |-> v], IF chk THEN B(v \in mem[s]) ELSE "-")

DelOp(s, v, chk) ==
    /\ (IF chk THEN "deletecheck" ELSE "delete") \in Ops
    /\ mem' = [mem EXCEPT ![s] = @ \ {v}]
    /\ ord' = [ord EXCEPT ![s] = Without(@, v)]
    /\ UNCHANGED <<ordered, synced, how>>
    /\ Rec([op |-> IF chk THEN "deletecheck" ELSE "delete", s |-> s, v |-> v], IF chk THEN B(v \in mem[s]) ELSE "-")

Populate(s, q) ==
    /\ "populate" \in Ops
    /\ mem' = [mem EXCEPT ![s] = @ \cup Range(q)]
    /\ ord' = [ord EXCEPT ![s] = IF ordered[s] THEN @ \o NewOf(q, mem[s]) ELSE @]
    /\ UNCHANGED <<ordered, synced, how>>
    /\ Rec([op |-> "populate", s |-> s, arg |-> q], "-")

\* s := NewSetFromSlice(q)
FromSlice(s, q) ==
    /\ "fromslice" \in Ops
    /\ mem' = [mem EXCEPT ![s] = Range(q)]
    /\ ord' = [ord EXCEPT ![s] = <<>>]
    /\ ordered' = [ordered EXCEPT ![s] = FALSE]
    /\ synced' = [synced EXCEPT ![s] = FALSE]
    /\ how' = [how EXCEPT ![s] = <<"none", FALSE>>]
    /\ Rec([op |-> "fromslice", s |-> s, arg |-> q], "-")

\* s.Extend(t), and  json.Unmarshal(json.Marshal(t), s)  - both add t's members in t's iteration order
Transfer(op, s, t) ==
    /\ op \in Ops
    /\ UNCHANGED <<ordered, synced, how>>
    /\ LET new == mem[t] \ mem[s] IN
       /\ mem' = [mem EXCEPT ![s] = @ \cup new]
       /\ IF ~ordered[s] THEN ord' = ord /\ Rec([op |-> op, s |-> s, t |-> t, arg |-> IF ordered[t] THEN ord[t] ELSE AsSeq(mem[t])], "-")
          ELSE IF ordered[t]
          THEN /\ ord' = [ord EXCEPT ![s] = @ \o NewOf(ord[t], mem[s])]
               /\ Rec([op |-> op, s |-> s, t |-> t, arg |-> ord[t]], "-")
          ELSE \E p \in Perms(new) :
               /\ ord' = [ord EXCEPT ![s] = @ \o p]
               /\ Rec([op |-> op, s |-> s, t |-> t, arg |-> AsSeq(mem[t]), free |-> IF Cardinality(new) >= 2 THEN Cardinality(new) ELSE 0], "-")

\* Order(): documented to panic on a populated unordered set - that call is outside the property
OrderOp(s) ==
    /\ "order" \in Ops
    /\ (ordered[s] \/ mem[s] = {})
    /\ ordered' = [ordered EXCEPT ![s] = TRUE]
    /\ how' = [how EXCEPT ![s] = IF ordered[s] THEN @ ELSE <<"order", FALSE>>]
    /\ UNCHANGED <<mem, ord, synced>>
    /\ Rec([op |-> "order", s |-> s], "-")

SyncOp(s) ==
    /\ "sync" \in Ops
    /\ ~synced[s]
    /\ synced' = [synced EXCEPT ![s] = TRUE]
    /\ UNCHANGED <<mem, ord, ordered, how>>
    /\ Rec([op |-> "sync", s |-> s], "-")

\* SortQuick / SortMerge with a strict total order (asc: <, desc: >); an unordered set becomes ordered
SortOp(s, kind, dir) ==
    /\ kind \in Ops
    /\ ordered' = [ordered EXCEPT ![s] = TRUE]
    /\ ord' = [ord EXCEPT ![s] = IF mem[s] = {} THEN <<>> ELSE Sorted(mem[s], dir)]
    /\ how' = [how EXCEPT ![s] = <<IF ordered[s] THEN @[1] ELSE "forced",
                                     @[2] \/ (kind = "sortmerge" /\ Cardinality(mem[s]) >= 2)>>]
    /\ UNCHANGED <<mem, synced>>
    /\ Rec([op |-> kind, s |-> s, dir |-> dir], "-")

Step == \/ \E s \in Mut, v \in V, chk \in BOOLEAN : AddOp(s, v, chk) \/ DelOp(s, v, chk)
        \/ \E s \in Mut, q \in PopSeqs : Populate(s, q) \/ FromSlice(s, q)
        \/ \E s \in Mut, t \in Sets : Transfer("extend", s, t) \/ Transfer("json", s, t)
        \/ \E s \in Mut : OrderOp(s) \/ SyncOp(s)
        \/ \E s \in Mut, kind \in {"sortquick", "sortmerge"}, dir \in {"asc", "desc"} : SortOp(s, kind, dir)

Next == Len(hist) < Depth + 1 /\ Step
Spec == Init /\ [][Next]_vars

\* ---------------------------------------------------------------- properties of the spec itself
\* the order list is a permutation of the members (bijection between index and order list)
OrderIsPermutation ==
    \A s \in Sets : IF ordered[s]
                    THEN Len(ord[s]) = Cardinality(mem[s]) /\ Range(ord[s]) = mem[s]
                    ELSE ord[s] = <<>>
TypeOK == /\ mem \in [Sets -> SUBSET V] /\ ordered \in [Sets -> BOOLEAN] /\ synced \in [Sets -> BOOLEAN]
Inv == TypeOK /\ OrderIsPermutation

LastOp == hist'[Len(hist')]
\* except across a sort, surviving members keep their relative order and new members go behind all old ones
\* (first-insertion order); in particular re-adding a present value does not move it
StableOrder ==
    \A s \in Sets : (ordered[s] /\ ordered'[s] /\ ~(LastOp.s = s /\ LastOp.op \in {"sortquick", "sortmerge", "fromslice"})) =>
        /\ \A x, y \in mem[s] \cap mem'[s] : Pos(ord[s], x) < Pos(ord[s], y) => Pos(ord'[s], x) < Pos(ord'[s], y)
        /\ \A x \in mem[s] \cap mem'[s], y \in mem'[s] \ mem[s] : Pos(ord'[s], x) < Pos(ord'[s], y)
ReAddDoesNotMove ==
    (LastOp.op \in {"add", "addcheck"} /\ LastOp.v \in mem[LastOp.s]) => (ord' = ord /\ mem' = mem)
SortSorts ==
    (LastOp.op \in {"sortquick", "sortmerge"}) =>
        LET q == ord'[LastOp.s] IN \A i \in 1..(Len(q) - 1) : IF LastOp.dir = "asc" THEN q[i] < q[i + 1] ELSE q[i] > q[i + 1]
ActionProps == [][StableOrder /\ ReAddDoesNotMove /\ SortSorts]_vars

\* ---------------------------------------------------------------- behaviour emission
EmitAll  == Len(hist) < Depth + 1 \/ PrintT(<<"BEH", ToJson(hist)>>)
EmitEdge == PrintT(<<"BEH", ToJson(hist')>>)
\* -simulate: a CONSTRAINT is evaluated on every successor the simulator considers, so the behaviour is
\* printed by an action that only the state actually reached at full length can take
SimNext == \/ Next
           \/ Len(hist) = Depth + 1 /\ PrintT(<<"BEH", ToJson(hist)>>) /\ UNCHANGED vars
SimSpec == Init /\ [][SimNext]_vars
=============================================================================
