SPECIFICATION Spec
CONSTANTS
  Fam = "millis"
  Span = 12
  NLeaf = 3
  MaxList = 3
  ZeroMultiple = "panic"
  TieValue = "negative"
  ExactToward = "same"
  ExactAway = "next"
  JoinRoot = "last-child"
  StackRoot = "first-child"
  ExtractDrops = {"nil", "empty", "fnnil"}
INVARIANT Inv
CONSTRAINT Emit
CHECK_DEADLOCK FALSE
