------------------------------ MODULE XHelpers ------------------------------
\* Extra check X06: error filters (ers/filter.go), integer helpers (intish/math.go).
\* There is no state machine here: every "behaviour" is ONE call (a term) with the result the documentation
\* promises.  TLC enumerates the finite set Cases (as initial states) and prints each case with its expected
\* result; harness/cmd/vh-xhelpers evaluates the real functions on the same arguments and compares.
\*
\* Where a doc comment is silent or contradicts the code the choice is a named CONSTANT, set "as observed" in
\* the registered configurations and listed as documented_vs_actual in the evidence (never judged):
\*   ZeroMultiple  "panic" | "value"  RoundToX: multiple 0 (math.go:106,131 `max % multiple`) - doc silent
\*   TieValue      "negative" | "positive"  |a| = |b| with different signs: which argument is "the value"
\*                 (math.go:109-121 roundedSign) - doc silent
\*   ExactToward   "same" | "lower"   RoundToMultipleTowardZero of an exact multiple: doc (math.go:129) "always
\*                 has a lower absolute value than the input value", code returns the input
\*   ExactAway     "next" | "same"    RoundToMultipleAwayFromZero of an exact multiple: doc (math.go:96,101)
\*                 "nearest multiple" vs "always has a higher absolute value": code returns the next multiple
\*   JoinRoot      "last-child" | "deep"   FilterToRoot (filter.go:99-110) on an errors.Join node: doc "the
\*                 root/MOST wrapped error", code returns the last joined child as it is (not its root)
\*   StackRoot     "first-child" | "deep"  the same for an ers.Join node (*ers.Stack unwinds newest first)
\*   ExtractDrops  subset of {"nil","empty","fnnil"}  ExtractErrors (filter.go:52-77): items dropped from both
\*                 results - doc only says "removes the errors from the list"
\*
EXTENDS Integers, Sequences, FiniteSets, TLC, Json

CONSTANTS Fam,            \* "int" | "millis" | "filter" | "extract" | "removeok"
          Span,           \* arguments range over -Span..Span
          NLeaf,          \* number of sentinel errors (leaves)
          MaxList,        \* longest argument list of ExtractErrors / RemoveOk
          ZeroMultiple, TieValue, ExactToward, ExactAway, JoinRoot, StackRoot, ExtractDrops

VARIABLE c
vars == <<c>>

\* ---------------- integers (intish/math.go)
AbsV(x) == IF x < 0 THEN -x ELSE x                 \* :25 "the absolute value of the integer"
MinV(a, b) == IF a <= b THEN a ELSE b              \* :33 "the lowest value"
MaxV(a, b) == IF a >= b THEN a ELSE b              \* :62 "the highest value"
Sgn(x) == IF x < 0 THEN -1 ELSE 1
SetMax(S) == CHOOSE x \in S : \A y \in S : y <= x
SetMin(S) == CHOOSE x \in S : \A y \in S : x <= y

\* :96-99 "The argument with the smaller absolute value is always the multiple and value with larger absolute
\* value is rounded."
Multiple(a, b) == MinV(AbsV(a), AbsV(b))
Value(a, b) == IF AbsV(a) > AbsV(b) THEN a
               ELSE IF AbsV(b) > AbsV(a) THEN b
               ELSE IF TieValue = "negative" THEN MinV(a, b) ELSE MaxV(a, b)
Multiples(m, v) == {k * m : k \in 0..(v + 1)}      \* non-negative multiples of m > 0 up to one beyond v >= 0
AwayMag(v, m) == SetMin({x \in Multiples(m, v) : IF ExactAway = "next" THEN x > v ELSE x >= v})
TowardMag(v, m) == SetMax({x \in Multiples(m, v) : IF ExactToward = "same" THEN x <= v ELSE x < v})
R(p, x) == [pan |-> p, v |-> x]
Round(a, b, away) ==
    LET m == Multiple(a, b)  v == Value(a, b) IN
    IF m = 0 THEN (IF ZeroMultiple = "panic" THEN R(1, 0) ELSE R(0, v))
    ELSE R(0, Sgn(v) * (IF away THEN AwayMag(AbsV(v), m) ELSE TowardMag(AbsV(v), m)))
\* :139-143 "rounds to smaller numbers ... always smaller than the input value": the smaller of the two neighbours
Pick(a, b, F(_, _)) == LET t == Round(a, b, FALSE)  w == Round(a, b, TRUE) IN
                       IF t.pan = 1 \/ w.pan = 1 THEN R(1, 0) ELSE R(0, F(t.v, w.v))

IntCase(a, b) ==
    [fam |-> "int", a |-> a, b |-> b,
     abs |-> AbsV(a), min |-> MinV(a, b), max |-> MaxV(a, b),
     range |-> <<MinV(a, b), MaxV(a, b)>>,                              \* :41 "(lower, higher)"
     bounds |-> <<MaxV(0, MinV(a, b)), MaxV(0, MaxV(a, b))>>,           \* :44 "(min,max): values less than zero become zero"
     absbounds |-> <<MinV(AbsV(a), AbsV(b)), MaxV(AbsV(a), AbsV(b))>>,  \* :48
     absmax |-> MaxV(AbsV(a), AbsV(b)), absmin |-> MinV(AbsV(a), AbsV(b)),
     diff |-> AbsV(a - b),                                              \* :69 "absolute value of the difference"
     away |-> Round(a, b, TRUE), toward |-> Round(a, b, FALSE),
     smallest |-> Pick(a, b, MinV), largest |-> Pick(a, b, MaxV)]

\* :72-88 Millis "one thousandth of the units of the original"; k eighths are exactly representable floats
MillisCase(k) == [fam |-> "millis", eighths |-> k, millis |-> 125 * k]

\* ---------------- error terms
Nil == [k |-> "nil"]
Leaf(i) == [k |-> "leaf", i |-> i]
LeafT == {Leaf(i) : i \in 1..NLeaf}
WrapOf(S) == {[k |-> "wrap", x |-> t] : t \in S}                         \* fmt.Errorf("w: %w", t)
Simple == LeafT \cup WrapOf(LeafT)
JoinT == {[k |-> j, l |-> a, r |-> b] : j \in {"join", "ejoin"}, a \in Simple, b \in Simple}  \* errors.Join / ers.Join
Terms == {Nil} \cup Simple \cup JoinT \cup WrapOf(WrapOf(LeafT) \cup JoinT)

RECURSIVE Leaves(_), RootPath(_), Sub(_, _)
Leaves(t) == CASE t.k = "nil" -> {}
               [] t.k = "leaf" -> {t.i}
               [] t.k = "wrap" -> Leaves(t.x)
               [] OTHER -> Leaves(t.l) \cup Leaves(t.r)
Sub(t, p) == IF p = <<>> THEN t
             ELSE Sub(CASE Head(p) = "x" -> t.x [] Head(p) = "l" -> t.l [] OTHER -> t.r, Tail(p))
\* filter.go:99 "always returns only the root/MOST wrapped error present in an error object"
RootPath(t) == CASE t.k = "leaf" -> <<>>
                 [] t.k = "wrap" -> <<"x">> \o RootPath(t.x)
                 [] t.k = "join" -> IF JoinRoot = "deep" THEN <<"r">> \o RootPath(t.r) ELSE <<"r">>
                 [] t.k = "ejoin" -> IF StackRoot = "deep" THEN <<"l">> \o RootPath(t.l) ELSE <<"l">>

\* results: nil, the input (sub)error at a path (identity), or the filter's own output error
RNil == [k |-> "nil", path |-> <<>>, is |-> {}]
RIn(t, p) == [k |-> "in", path |-> p, is |-> Leaves(Sub(t, p))]
ROut(i) == [k |-> "out", path |-> <<>>, is |-> {i}]

Filters ==
    {[f |-> "noop", xs |-> {}]}                                           \* :27 "always returns the original error"
    \cup {[f |-> "exclude", xs |-> X] : X \in SUBSET (1..NLeaf)}          \* :17-19
    \cup {[f |-> "check", xs |-> X] : X \in {{}, {1}, 1..NLeaf}}          \* :30 predicate "is one of xs" ({} = never); + always below
    \cup {[f |-> "checkalways", xs |-> {}]}
    \cup {[f |-> "convert", xs |-> {NLeaf}], [f |-> "convertnil", xs |-> {}]}   \* :41-42
    \cup {[f |-> "toroot", xs |-> {}]}

Apply(fl, t) ==
    CASE fl.f = "noop" -> IF t = Nil THEN RNil ELSE RIn(t, <<>>)
      \* "returns nil if the error is nil, or if the error (or one of its wrapped errors,) is in the exclusion list"
      [] fl.f = "exclude" -> IF t = Nil \/ Leaves(t) \cap fl.xs # {} THEN RNil ELSE RIn(t, <<>>)
      \* "returns nil when the check is true" and the error otherwise
      [] fl.f = "check" -> IF t = Nil \/ Leaves(t) \cap fl.xs # {} THEN RNil ELSE RIn(t, <<>>)
      [] fl.f = "checkalways" -> RNil
      \* "returns the provided output error for all non-nil errors, and returns nil otherwise"
      [] fl.f = "convert" -> IF t = Nil THEN RNil ELSE ROut(NLeaf)
      [] fl.f = "convertnil" -> RNil
      [] fl.f = "toroot" -> IF t = Nil THEN RNil ELSE RIn(t, RootPath(t))

FilterCase(t) == [fam |-> "filter", t |-> t,
                  exp |-> {[f |-> fl.f, xs |-> fl.xs, r |-> Apply(fl, t)] : fl \in Filters}]

\* ---------------- ExtractErrors / RemoveOk
SeqsUpTo(S, n) == UNION {[1..m -> S] : m \in 0..n}
ItemKinds == {"nil", "err", "wrap", "fnerr", "fnnil", "empty", "str", "int"}
\* errors in order of appearance: "err" is leaf 1, "wrap" is wrap(leaf 2), "fnerr" is a func() error returning leaf 3
ErrOf(kd) == CASE kd = "err" -> 1 [] kd = "wrap" -> 2 [] kd = "fnerr" -> 3 [] OTHER -> 0
RECURSIVE Extract(_)
Extract(s) == IF s = <<>> THEN [rest |-> <<>>, errs |-> <<>>]
              ELSE LET h == Head(s)  t == Extract(Tail(s)) IN
                   IF ErrOf(h) # 0 THEN [rest |-> t.rest, errs |-> <<ErrOf(h)>> \o t.errs]
                   ELSE IF h \in ExtractDrops THEN t
                   ELSE [rest |-> <<h>> \o t.rest, errs |-> t.errs]
ExtractCase(s) == [fam |-> "extract", items |-> s, rest |-> Extract(s).rest, errs |-> Extract(s).errs]
\* filter.go:87 "removes all nil errors from a slice of errors, returning the consolidated slice"; 0 = nil
\* `after`: the argument slice after the call ("returning the consolidated slice": a new slice, the argument is left alone)
RemoveOkCase(s) == [fam |-> "removeok", items |-> s, out |-> SelectSeq(s, LAMBDA x : x # 0), after |-> s]

Cases == CASE Fam = "int" -> {IntCase(a, b) : a \in (0-Span)..Span, b \in (0-Span)..Span}
           [] Fam = "millis" -> {MillisCase(k) : k \in (0-Span)..Span}
           [] Fam = "filter" -> {FilterCase(t) : t \in Terms}
           [] Fam = "extract" -> {ExtractCase(s) : s \in SeqsUpTo(ItemKinds, MaxList)}
           [] Fam = "removeok" -> {RemoveOkCase(s) : s \in SeqsUpTo(0..NLeaf, MaxList)}

Init == c \in Cases
Next == UNCHANGED c
Spec == Init /\ [][Next]_vars
Emit == PrintT(<<"BEH", ToJson(c)>>)

\* ---------------- model-level properties (checked by TLC)
\* the promises of the doc comments about the rounding functions, as state predicates over an "int" case
IsMult(x, m) == m # 0 /\ x % m = 0
RoundSane == (Fam = "int" /\ c.away.pan = 0 /\ Multiple(c.a, c.b) # 0) =>
    LET m == Multiple(c.a, c.b)  v == Value(c.a, c.b) IN
    /\ IsMult(c.away.v, m) /\ IsMult(c.toward.v, m)
    /\ AbsV(c.away.v) >= AbsV(v) /\ AbsV(c.toward.v) <= AbsV(v)
    /\ AbsV(c.away.v) - AbsV(c.toward.v) <= 2 * m                     \* neighbours
    /\ c.smallest.v <= c.largest.v
\* math.go:101 "always has a higher absolute value", :129 "always has a lower absolute value",
\* :143 "always smaller than the input value", :153 "always larger": hold only with ExactToward = "lower"
DocStrict == (Fam = "int" /\ c.away.pan = 0) =>
    LET v == Value(c.a, c.b) IN
    /\ AbsV(c.away.v) > AbsV(v) /\ AbsV(c.toward.v) < AbsV(v)
    /\ c.smallest.v < v /\ c.largest.v > v
\* filter.go:99: the result of FilterToRoot wraps nothing ("root/MOST wrapped"): holds only with JoinRoot = StackRoot = "deep"
RootIsLeaf == Fam = "filter" =>
    \A e \in c.exp : (e.f = "toroot" /\ e.r.k = "in") => Sub(c.t, e.r.path).k = "leaf"
\* a filter never invents an error: the result is nil, the input, part of the input, or the configured output
FilterSane == Fam = "filter" =>
    \A e \in c.exp : /\ (c.t = Nil => e.r.k = "nil")
                     /\ (e.r.k = "in" => e.r.is \subseteq Leaves(c.t))
Inv == RoundSane /\ FilterSane
=============================================================================
