SPECIFICATION Spec
CONSTANTS
  Ops = {"when", "whenf", "whens", "check", "collect", "recover", "recovercall", "recoverdo", "recoverhook", "stream", "consume"}
  Depth = 2
  PanicAdds = 2
INVARIANT Inv
PROPERTY Grows
CONSTRAINT EmitAll
CHECK_DEADLOCK FALSE
