------------------------------ MODULE ErcStep ------------------------------
\* Extra check X06, part 3: the helper functions of erc/helpers.go on an erc.Collector, as a sequential model in which
\* the collector is the sequence of the errors added so far.  Error ids: 0 = nil, 1 and 2 = sentinels, 3 = the error
\* made from the panic string "msg-3" (ers.ParsePanic: ers.New(string)), 4 = the error made from the string "msg-4"
\* (ers.When: ers.Error(string)), 8 = an error without a comparable identity, 9 = ErrRecoveredPanic.
\* After every call the harness compares the return value, Collector.Len, Resolve() == nil and errors.Is(Resolve(), id)
\* for every id in {1, 2, 3, 4, 9}.
\*
\* As observed (doc silent): a recovered panic adds TWO errors (the payload and ErrRecoveredPanic; helpers.go:61
\* "converts it to an error that is populated in the collector", ers/panic.go ParsePanic joins both and Collector.Add
\* flattens); RecoverHook turns a non-error payload into fmt.Errorf("%v") (id 8), Recover into ers.New (id 3).
EXTENDS Integers, Sequences, FiniteSets, TLC, Json

CONSTANTS Ops, Depth, PanicAdds    \* PanicAdds: 2 as observed (payload + ErrRecoveredPanic), 1 = one joined error

VARIABLES errs, hist
vars == <<errs, hist>>

Range(s) == {s[i] : i \in DOMAIN s}
NonNil(s) == SelectSeq(s, LAMBDA x : x # 0)
Rec(call, ret) == hist' = Append(hist, call @@ [ret |-> ret, len |-> Len(errs'), is |-> Range(errs') \ {8}])
Adds(s) == errs' = errs \o NonNil(s)
Bit(b) == IF b THEN 1 ELSE 0
Panicked(x) == IF PanicAdds = 2 THEN <<x, 9>> ELSE <<9>>   \* the 1-error reading still satisfies Is for both; only Len differs

Init == errs = <<>> /\ hist = <<[op |-> "new", ret |-> 0, len |-> 0, is |-> {}]>>

\* helpers.go:42 When "If the condition is true, then When creates an error with the string value and adds it";
\* :47 Whenf "as When ... but permits Sprintf/Errorf formating" (template "f: %w" around sentinel e)
WhenOp(op, c, e) == /\ op \in Ops
                    /\ Adds(IF c THEN <<e>> ELSE <<>>)
                    /\ Rec([op |-> op, c |-> Bit(c), e |-> e], 0)
\* :86 Check "if it returns an error, adds it to the collector"; :127 Collect "collect the error from a function and
\* add it to the collector returning the result" (the value 7 is passed through)
CheckOp(op, e) == /\ op \in Ops /\ Adds(<<e>>) /\ Rec([op |-> op, e |-> e], IF op = "collect" THEN 7 ELSE 0)
\* :53 WithRecoverDo "catches a panic ... adds that panic to the collector. If there is no panic, the return value is
\* the return value of the provided function" (42; the zero value after a panic), :57 WithRecoverCall, :62 Recover
RecoverOp(op, p) == /\ op \in Ops
                    /\ Adds(IF p = 0 THEN <<>> ELSE Panicked(p))
                    /\ Rec([op |-> op, p |-> p], IF op = "recoverdo" /\ p = 0 THEN 42 ELSE 0)
\* :67 RecoverHook "adds the output of recover() to the error collector, and runs the specified hook ... If there was
\* no panic, this function is a noop"; ret = number of hook invocations
HookOp(p) == /\ "recoverhook" \in Ops
             /\ Adds(IF p = 0 THEN <<>> ELSE <<IF p = 1 THEN 1 ELSE 8, 9>>)
             /\ Rec([op |-> "recoverhook", p |-> p], Bit(p # 0))
\* :93 Stream "collects all errors from an error channel ... until ... the error channel is closed", :103 Consume
FeedOp(op, es) == /\ op \in Ops /\ Adds(es) /\ Rec([op |-> op, es |-> es], 0)

Step == \/ \E op \in {"when", "whenf"}, c \in BOOLEAN, e \in {1, 2} : WhenOp(op, c, e)
        \/ \E c \in BOOLEAN : WhenOp("whens", c, 4)
        \/ \E op \in {"check", "collect"}, e \in {0, 1, 2} : CheckOp(op, e)
        \/ \E op \in {"recover", "recovercall", "recoverdo"}, p \in {0, 1, 3} : RecoverOp(op, p)
        \/ \E p \in {0, 1, 3} : HookOp(p)
        \/ \E op \in {"stream", "consume"}, es \in {<<>>, <<1>>, <<1, 2>>, <<2, 0, 1>>} : FeedOp(op, es)

Next == Len(hist) < Depth + 1 /\ Step
Spec == Init /\ [][Next]_vars

\* a collector only grows, and nil is never collected
Inv == 0 \notin Range(errs)
Grows == [][Len(errs') >= Len(errs) /\ SubSeq(errs', 1, Len(errs)) = errs]_vars

EmitAll == Len(hist) < Depth + 1 \/ PrintT(<<"BEH", ToJson(hist)>>)
SimNext == \/ Next
           \/ Len(hist) = Depth + 1 /\ PrintT(<<"BEH", ToJson(hist)>>) /\ UNCHANGED vars
SimSpec == Init /\ [][SimNext]_vars
=============================================================================
