SPECIFICATION Spec
CONSTANTS
  Fam = "extract"
  Span = 0
  NLeaf = 3
  MaxList = 3
  ZeroMultiple = "panic"
  TieValue = "negative"
  ExactToward = "same"
  ExactAway = "next"
  JoinRoot = "last-child"
  StackRoot = "first-child"
  ExtractDrops = {"nil", "empty", "fnnil"}
INVARIANT Inv
CONSTRAINT Emit
CHECK_DEADLOCK FALSE
