SPECIFICATION SimSpec
CONSTANTS
  Ops = {"when", "whenf", "whens", "check", "collect", "recover", "recovercall", "recoverdo", "recoverhook", "stream", "consume"}
  Depth = 6
  PanicAdds = 2
INVARIANT Inv
PROPERTY Grows

CHECK_DEADLOCK FALSE
