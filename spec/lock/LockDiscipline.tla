--------------------------- MODULE LockDiscipline ---------------------------
(* C13 - lock discipline of the types tychoish/fun documents as safe for     *)
(* concurrent use.                                                            *)
(*                                                                            *)
(* A TLA+ specification cannot observe Go memory accesses.  What this module  *)
(* contributes is (1) the TABLE: for every public method and every closure    *)
(* handed out by these types, the sequence of lock operations and of reads /  *)
(* writes of guarded cells, transcribed from the code (file:line per entry);  *)
(* (2) a model check of the table - two or three threads each running any     *)
(* method of one component - for                                              *)
(*     Lockset               every R/W(c) step happens with Guard[c] held by   *)
(*                           that thread (or c atomic / once-published)       *)
(*     HelperGuard           every "caller must hold the lock" helper is only *)
(*                           entered with that lock held                      *)
(*     NoConcurrentConflict  no two threads are simultaneously poised at       *)
(*                           conflicting accesses of a non-atomic cell        *)
(*     Balanced              a method returns holding nothing                 *)
(* and (3) the two lists that drive the observers on the real code            *)
(* (harness/cmd/vh-race):  PAIRS - the method pairs that touch a common cell   *)
(* with at least one write (to be overlapped under the Go race detector) and  *)
(* CHOKES - the (method, helper) choke points for the TryLock guard probes.   *)
(*                                                                            *)
(* A violated table entry is a MODEL finding; it counts only once confirmed   *)
(* on the real code by one of the observers (BUILDING.md rule 1).             *)
(*                                                                            *)
(* Deliberate deviations / over-approximations                                *)
(*  - one linear path per method: the steps of all branches in program order  *)
(*    (a superset of the accesses of every real path); loops are unrolled     *)
(*    once; a cond.Wait is Unlock followed by Lock.  Where branches differ in *)
(*    their LOCKING (limitExec's fast path) the path uses IFF/IFNF/RET.        *)
(*  - background goroutines of a method (the Broker's dispatcher and worker,  *)
(*    the ctx-helper goroutines) run as steps of the calling thread or as     *)
(*    separate internal methods any thread may run; which goroutine performs  *)
(*    an access is irrelevant for the lockset.                                *)
(*  - sync.Map, sync.Pool, atomic.Value, channels are "atomic" cells (they    *)
(*    synchronise internally); they still appear in PAIRS so that a mutant    *)
(*    replacing one by a plain field is overlapped.                           *)
(*  - "every path through the code" is NOT proved: the table covers the       *)
(*    methods it lists; a new unguarded method is invisible until listed      *)
(*    (the harness's `list` cross-check only detects renamed/removed ones).   *)
(*                                                                            *)
(* Line numbers refer to /repo at the commit the table was transcribed from   *)
(* (0350f9b).                                                                 *)
(***************************************************************************)
EXTENDS LockTable

(***************************************************************************)
(* The model: threads of one component, each repeatedly running a method.   *)
(***************************************************************************)
VARIABLES comp, meth, pc, holds, rholds, once, onceBy, passed, frozen
vars == <<comp, meth, pc, holds, rholds, once, onceBy, passed, frozen>>

Init == /\ comp \in ModelComps
        /\ meth   = [t \in Threads |-> "idle"]
        /\ pc     = [t \in Threads |-> 1]
        /\ holds  = [t \in Threads |-> {}]
        /\ rholds = [t \in Threads |-> {}]
        /\ once   = [o \in Onces |-> "new"]
        /\ onceBy = [o \in Onces |-> "none"]
        /\ passed = [t \in Threads |-> {}]
        /\ frozen = {}

Active(t) == meth[t] # "idle" /\ pc[t] <= Len(FlatOf[meth[t]])
Cur(t)    == FlatOf[meth[t]][pc[t]]

Start(t) == /\ meth[t] = "idle"
            /\ \E m \in MethodsOf(comp) : meth' = [meth EXCEPT ![t] = m]
            /\ pc' = [pc EXCEPT ![t] = 1]
            /\ passed' = [passed EXCEPT ![t] = {}]
            /\ UNCHANGED <<comp, holds, rholds, once, onceBy, frozen>>

Finish(t) == /\ meth[t] # "idle" /\ pc[t] > Len(FlatOf[meth[t]])
             /\ meth' = [meth EXCEPT ![t] = "idle"]
             /\ UNCHANGED <<comp, pc, holds, rholds, once, onceBy, passed, frozen>>

WriteHeld(x) == \E u \in Threads : x \in holds[u]
ReadHeld(x)  == \E u \in Threads : x \in rholds[u]

\* index just after the FI / OE matching the block opened at position i (blocks are not nested in the table)
After(t, kind) == CHOOSE j \in (pc[t] + 1)..(Len(FlatOf[meth[t]]) + 1) :
                     /\ FlatOf[meth[t]][j - 1].k = kind
                     /\ \A i \in (pc[t] + 1)..(j - 2) : FlatOf[meth[t]][i].k # kind
Goto(t, j) == pc' = [pc EXCEPT ![t] = j]
Adv(t)     == Goto(t, pc[t] + 1)

Step(t) ==
  /\ Active(t)
  /\ LET s == Cur(t) IN
     CASE s.k = "L"  -> /\ ~WriteHeld(s.a) /\ ~ReadHeld(s.a)
                        /\ holds' = [holds EXCEPT ![t] = @ \cup {s.a}] /\ Adv(t)
                        /\ UNCHANGED <<comp, meth, rholds, once, onceBy, passed, frozen>>
       [] s.k = "U"  -> /\ holds' = [holds EXCEPT ![t] = @ \ {s.a}] /\ Adv(t)
                        /\ UNCHANGED <<comp, meth, rholds, once, onceBy, passed, frozen>>
       [] s.k = "RL" -> /\ ~WriteHeld(s.a)
                        /\ rholds' = [rholds EXCEPT ![t] = @ \cup {s.a}] /\ Adv(t)
                        /\ UNCHANGED <<comp, meth, holds, once, onceBy, passed, frozen>>
       [] s.k = "RU" -> /\ rholds' = [rholds EXCEPT ![t] = @ \ {s.a}] /\ Adv(t)
                        /\ UNCHANGED <<comp, meth, holds, once, onceBy, passed, frozen>>
       [] s.k \in {"R", "W", "E", "BLK", "FI"} ->
                        /\ Adv(t) /\ UNCHANGED <<comp, meth, holds, rholds, once, onceBy, passed, frozen>>
       [] s.k = "FZ" -> /\ Adv(t) /\ (frozen' = frozen \cup {s.a} \/ frozen' = frozen)
                        /\ UNCHANGED <<comp, meth, holds, rholds, once, onceBy, passed>>
       [] s.k = "IFF"  -> /\ IF s.a \in frozen THEN Adv(t) ELSE Goto(t, After(t, "FI"))
                          /\ UNCHANGED <<comp, meth, holds, rholds, once, onceBy, passed, frozen>>
       [] s.k = "IFNF" -> /\ IF s.a \notin frozen THEN Adv(t) ELSE Goto(t, After(t, "FI"))
                          /\ UNCHANGED <<comp, meth, holds, rholds, once, onceBy, passed, frozen>>
       [] s.k = "RET" -> /\ Goto(t, Len(FlatOf[meth[t]]) + 1)
                         /\ UNCHANGED <<comp, meth, holds, rholds, once, onceBy, passed, frozen>>
       [] s.k = "OB" -> \/ /\ once[s.a] = "new"
                           /\ once' = [once EXCEPT ![s.a] = "running"]
                           /\ onceBy' = [onceBy EXCEPT ![s.a] = t] /\ Adv(t)
                           /\ UNCHANGED <<comp, meth, holds, rholds, passed, frozen>>
                        \/ /\ once[s.a] = "done"        \* sync.Once: later callers return after the first completed
                           /\ Goto(t, After(t, "OE"))
                           /\ passed' = [passed EXCEPT ![t] = @ \cup {s.a}]
                           /\ UNCHANGED <<comp, meth, holds, rholds, once, onceBy, frozen>>
       [] s.k = "OE" -> /\ once' = [once EXCEPT ![s.a] = "done"]
                        /\ onceBy' = [onceBy EXCEPT ![s.a] = "none"]
                        /\ passed' = [passed EXCEPT ![t] = @ \cup {s.a}] /\ Adv(t)
                        /\ UNCHANGED <<comp, meth, holds, rholds, frozen>>

Next == \E t \in Threads : Start(t) \/ Step(t) \/ Finish(t)
Spec == Init /\ [][Next]_vars

(***************************************************************************)
(* Properties                                                               *)
(***************************************************************************)
GuardOK(t, s) ==
  LET g == Guard[s.a] IN
  CASE g.kind = "atomic"    -> TRUE
    [] g.kind = "immutable" -> s.k = "R"
    [] g.kind = "mutex"     -> IF s.k = "W" THEN g.by \in holds[t] /\ s.a \notin frozen
                               ELSE g.by \in holds[t] \/ g.by \in rholds[t] \/ s.a \in frozen
    [] g.kind = "once"      -> IF s.k = "W" THEN onceBy[g.by] = t
                               ELSE onceBy[g.by] = t \/ g.by \in passed[t]

Judged(t) == meth[t] \notin Unjudged

Lockset == \A t \in Threads : (Active(t) /\ Judged(t) /\ IsAccess(Cur(t))) => GuardOK(t, Cur(t))

HelperGuard == \A t \in Threads :
  (Active(t) /\ Judged(t) /\ Cur(t).k = "E" /\ Needs(Cur(t).a) # "none") => Needs(Cur(t).a) \in holds[t]

NoConcurrentConflict == \A t1, t2 \in Threads :
  (t1 # t2 /\ Active(t1) /\ Active(t2) /\ Judged(t1) /\ Judged(t2)
   /\ IsAccess(Cur(t1)) /\ IsAccess(Cur(t2)) /\ Cur(t1).a = Cur(t2).a
   /\ (Cur(t1).k = "W" \/ Cur(t2).k = "W"))
  => Guard[Cur(t1).a].kind = "atomic"

Balanced == \A t \in Threads : meth[t] = "idle" => holds[t] = {} /\ rholds[t] = {}

TypeOK == /\ comp \in Comps
          /\ \A t \in Threads : meth[t] \in Methods \cup {"idle"} /\ holds[t] \subseteq Mutexes

=============================================================================
