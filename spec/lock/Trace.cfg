SPECIFICATION TSpec
CONSTANTS
  Threads = {"t1", "t2"}
  Fixed = {"queue-distributor-len", "set-producer-lock", "set-equal-other", "collector-resolve-copy"}
  JudgeHandedOut = TRUE
  OnlyComps = {}
  EmitObligations = FALSE
CONSTRAINT HighWater
POSTCONDITION Accepted
CHECK_DEADLOCK FALSE
