----------------------------- MODULE LockTrace -----------------------------
(* Code -> model for C13: judges what the two observers reported about the     *)
(* real code (harness/cmd/vh-race) against the table of LockDiscipline.tla.    *)
(*                                                                            *)
(* trace.ndjson, one event per line (all events carry the same fields):       *)
(*   pair   comp cls m1 m2 sh   sh = number of schedule shapes (LockTable!     *)
(*                              Shapes) the job ran the pair in;               *)
(*                              ok = 0 iff the race detector reported, and the *)
(*                                   isolated re-run reproduced, a data race   *)
(*                                   between two accesses made through the     *)
(*                                   library while m1 || m2 ran on one object  *)
(*   multi  comp cls            ok   same for a randomised multi-method run    *)
(*   probe  comp cls m1 point   ok = 1 iff every guard probe at `point` during *)
(*                                   the single-goroutine call of m1 found the *)
(*                                   mutex held (TryLock failed)               *)
(*   end                        ok = 1 iff the guard probes were available     *)
(*                                                                            *)
(* Obligations: every pair must be one the table lists (an unlisted pair means *)
(* harness and spec disagree), every judged pair / multi run must have ok = 1, *)
(* every probe must have ok = 1, and at `end` every (component, class, pair)   *)
(* the table lists - and, when probes are available, every (method, choke      *)
(* point) - must have been exercised.  All offending events are collected      *)
(* (register 2) and printed by the postcondition; run/props/c13.py turns       *)
(* race / unheld entries into violations (they are facts about the real code)  *)
(* and unlisted / missing entries into exit 2 (coverage obligation).           *)
(***************************************************************************)
EXTENDS LockTable

Trace == ndJsonDeserialize("trace.ndjson")

VARIABLES l, todoPairs, todoChokes, bad
tvars == <<l, todoPairs, todoChokes, bad>>

Ev   == Trace[l]
More == l <= Len(Trace)

UPairs  == [c \in Comps |-> UPairsOf(c)]
Chokes  == [c \in Comps |-> ChokePairs(c)]
ClassSet(c) == Range(ClassesOf(c))

AllPairs  == UNION {{<<c, cls, p[1], p[2]>> : cls \in ClassSet(c), p \in UPairs[c]} : c \in Comps}
\* the helpers a Broker method reaches run in the broker's goroutines, some time after the call: they are probed
\* when they fire, but not REQUIRED (the queue / deque components reach the same helpers synchronously)
AsyncComps == {"broker." \o k : k \in BrokerKinds}
AllChokes == UNION {{<<c, q[1], q[2]>> : q \in Chokes[c]} : c \in Comps \ AsyncComps}

TInit == /\ l = 1 /\ todoPairs = AllPairs /\ todoChokes = AllChokes /\ bad = {}

Flag(why, what) == bad' = bad \cup {[i |-> l, why |-> why, what |-> what]}

Pair == /\ More /\ Ev.ev = "pair"
        /\ LET listed == Ev.comp \in Comps /\ <<Ev.m1, Ev.m2>> \in UPairs[Ev.comp] /\ Ev.cls \in ClassSet(Ev.comp)
               judged == Ev.m1 \notin Unjudged /\ Ev.m2 \notin Unjudged
           IN  /\ IF ~listed THEN Flag("unlisted-pair", Ev.m1 \o " || " \o Ev.m2)
                  ELSE IF judged /\ Ev.ok = 0 THEN Flag("race", Ev.m1 \o " || " \o Ev.m2)
                  ELSE UNCHANGED bad
               \* the obligation is met only when the pair ran in every schedule shape
               /\ todoPairs' = IF Ev.sh >= Len(Shapes) THEN todoPairs \ {<<Ev.comp, Ev.cls, Ev.m1, Ev.m2>>} ELSE todoPairs
        /\ l' = l + 1 /\ UNCHANGED todoChokes

Multi == /\ More /\ Ev.ev = "multi"
         /\ IF Ev.ok = 0 THEN Flag("race", "multi " \o Ev.comp) ELSE UNCHANGED bad
         /\ l' = l + 1 /\ UNCHANGED <<todoPairs, todoChokes>>

ProbeEv == /\ More /\ Ev.ev = "probe"
           /\ IF Ev.ok = 0 THEN Flag("unheld", Ev.point \o " in " \o Ev.m1) ELSE UNCHANGED bad
           /\ todoChokes' = todoChokes \ {<<Ev.comp, Ev.m1, Ev.point>>}
           /\ l' = l + 1 /\ UNCHANGED todoPairs

End == /\ More /\ Ev.ev = "end"
       /\ bad' = bad \cup {[i |-> l, why |-> "missing-pair", what |-> p[1] \o " " \o p[2] \o " " \o p[3] \o " || " \o p[4]] : p \in todoPairs}
                      \cup (IF Ev.ok = 1
                            THEN {[i |-> l, why |-> "missing-probe", what |-> q[2] \o " @ " \o q[3]] : q \in todoChokes}
                            ELSE {})
       /\ l' = l + 1 /\ UNCHANGED <<todoPairs, todoChokes>>

\* run/vlib/trace.py starts every history with a reset event
Reset == /\ More /\ Ev.ev = "reset"
         /\ l' = l + 1 /\ UNCHANGED <<todoPairs, todoChokes, bad>>

TNext == Reset \/ Pair \/ Multi \/ ProbeEv \/ End
TSpec == TInit /\ [][TNext]_tvars

\* acceptance (needs -workers 1): the whole trace was read and nothing was flagged
HighWater == /\ TLCSet(1, IF TLCGet(1) < l THEN l ELSE TLCGet(1))
             /\ TLCSet(2, TLCGet(2) \cup bad)
Accepted == \/ (TLCGet(1) = Len(Trace) + 1 /\ TLCGet(2) = {})
            \/ PrintT(<<"REJECTED", ToJson([at |-> TLCGet(1), bad |-> SetToSeq(TLCGet(2))])>>) /\ FALSE
ASSUME TLCSet(1, 0) /\ TLCSet(2, {})
=============================================================================
