----------------------------- MODULE LockTable ------------------------------
(* C13 - the lock-discipline TABLE of the types tychoish/fun documents as     *)
(* safe for concurrent use (constants and definitions only; the model that    *)
(* checks it is LockDiscipline.tla, the judge of the observers' reports is    *)
(* LockTrace.tla).  See LockDiscipline.tla for the conventions.               *)
(***************************************************************************)
EXTENDS Integers, Sequences, FiniteSets, TLC, Json

CONSTANTS Threads,        \* model values / strings
          Fixed,          \* subset of FixNames: which proposed repairs the table includes
          JudgeHandedOut, \* BOOLEAN: are uses of values handed out by a method judged?
          OnlyComps,      \* {} = all components, else restrict the model check
          EmitObligations \* BOOLEAN: print the OBLIG lines (PAIRS / CHOKES per component)

FixNames == {"queue-distributor-len",   \* fixes/queue-distributor-len-locked.diff
             "set-producer-lock",       \* fixes/set-producer-holds-lock.diff
             "set-equal-other",         \*   (same diff) Equal reads other.list under other's lock and ranges over its own map directly
             "collector-resolve-copy"}  \* fixes/collector-resolve-snapshot.diff
ASSUME Fixed \subseteq FixNames


(***************************************************************************)
(* Step constructors                                                        *)
(***************************************************************************)
L(x)    == [k |-> "L",    a |-> x]   \* mutex Lock
U(x)    == [k |-> "U",    a |-> x]   \* mutex Unlock
RL(x)   == [k |-> "RL",   a |-> x]   \* RWMutex RLock
RU(x)   == [k |-> "RU",   a |-> x]   \* RWMutex RUnlock
CW(x)   == [k |-> "CW",   a |-> x]   \* cond.Wait on mutex x (Unlock ; Lock)
R(c)    == [k |-> "R",    a |-> c]   \* read of a cell
W(c)    == [k |-> "W",    a |-> c]   \* write of a cell
C(h)    == [k |-> "C",    a |-> h]   \* call of a helper / another method (inlined)
OB(o)   == [k |-> "OB",   a |-> o]   \* sync.Once.Do(o) begins: first caller runs the body, others wait / skip
OE(o)   == [k |-> "OE",   a |-> o]   \* ... end of the body
FZ(c)   == [k |-> "FZ",   a |-> c]   \* maybe publish c for good (no write follows): nondeterministic
IFF(c)  == [k |-> "IFF",  a |-> c]   \* if c is frozen  ... FI
IFNF(c) == [k |-> "IFNF", a |-> c]   \* if c is not frozen ... FI
FI      == [k |-> "FI",   a |-> "-"]
RET     == [k |-> "RET",  a |-> "-"] \* return
BLK     == [k |-> "BLK",  a |-> "-"] \* may block on a channel / context (no cell)

(***************************************************************************)
(* Cells and their guards                                                   *)
(***************************************************************************)
Mx(x)  == [kind |-> "mutex",     by |-> x]
At     == [kind |-> "atomic",    by |-> "-"]
Imm    == [kind |-> "immutable", by |-> "-"]
On(o)  == [kind |-> "once",      by |-> o]

FnTypes   == {"Operation", "Worker", "Processor", "Producer", "Future", "Handler", "Transform"}
LimitFns  == {"Worker", "Processor", "Producer", "Future"}        \* built on limitExec (process.go:403)
OnceFns   == {"Operation", "Worker", "Processor", "Producer", "Future", "Handler"}
BrokerKinds == {"chan", "queue", "deque", "lifo"}

Guard ==
  \* pubsub.Queue (queue.go:51-62): mu protects the fields below
     "queue.tracker"  :> Mx("queue.mu")      \* counters inside the limit tracker (tracker.go)
  @@ "queue.closed"   :> Mx("queue.mu")
  @@ "queue.list"     :> Mx("queue.mu")      \* front, back and the entries' links
  @@ "queue.iter"     :> Mx("queue.mu")      \* `next` captured by the Producer closure (queue.go:367)
  @@ "queue.fields"   :> Imm                 \* q.tracker (the interface value), q.nempty, q.nupdates: set in makeQueue only
  \* pubsub.Deque (deque.go:23-32)
  @@ "deque.list"     :> Mx("deque.mtx")     \* root and the elements' next/prev
  @@ "deque.tracker"  :> Mx("deque.mtx")
  @@ "deque.closed"   :> Mx("deque.mtx")
  @@ "deque.iter"     :> Mx("deque.mtx")     \* `current` captured by confProducer's closure (deque.go:310)
  \* pubsub.Broker (broker.go:23-33): everything else is confined to its goroutines or a channel
  @@ "broker.chans"   :> At                  \* publishCh subCh unsubCh stats
  @@ "broker.subs"    :> At                  \* adt.Map (sync.Map) local to startQueueWorkers (broker.go:145)
  @@ "broker.close"   :> Imm                 \* set before the goroutines start (broker.go:86)
  @@ "broker.wg"      :> At                  \* fun.WaitGroup (its own mutex; component waitgroup)
  @@ "chan.buf"       :> At                  \* DistributorChannel
  \* fun.WaitGroup (sync.go:28-32)
  @@ "wg.counter"     :> Mx("wg.mu")
  @@ "wg.cond"        :> Mx("wg.mu")         \* lazily created in init (sync.go:34)
  \* erc.Collector (errors.go:34-37)
  @@ "collector.stack" :> Mx("collector.mu") \* the head node of the ers.Stack, rewritten in place by Push (merged.go:145)
  @@ "collector.tail"  :> Imm                \* nodes behind the head are never modified
  @@ "collector.copy"  :> Imm                \* a copy of the head made under the lock
  \* adt.Synchronized (locked.go:32-35)
  @@ "sync.obj"       :> Mx("sync.mtx")
  @@ "sync.cb"        :> Mx("sync.mtx")      \* state touched by the function given to With / Using
  \* adt.Atomic (atomics.go:101)
  @@ "atomic.val"     :> At
  \* adt.Once (atomics.go:40-46)
  @@ "once.ctor"      :> At
  @@ "once.called"    :> At
  @@ "once.defined"   :> At
  @@ "once.comp"      :> On("once.once")
  \* adt.Map (map.go:17-25)
  @@ "map.mp"         :> At
  \* adt.Pool (pool.go:28-35)
  @@ "pool.fields"    :> On("pool.once")     \* hook constructor pool typeIsPtr, assigned in doInit (pool.go:40)
  @@ "pool.hook"      :> At                  \* contents of the two adt.Atomic
  @@ "pool.locked"    :> At
  @@ "pool.pool"      :> At                  \* sync.Pool
  \* dt.Set with a mutex (set.go:31-35); `o` is a second set (Equal / Extend)
  @@ "set.hash"       :> Mx("set.mtx")
  @@ "set.list"       :> Mx("set.mtx")       \* the *List pointer and the list's links
  @@ "set.mtxp"       :> At                  \* the atomic holding the optional mutex
  @@ "set.iter"       :> Mx("set.mtx")       \* position captured by the producer closure
  @@ "set.snap"       :> Imm                 \* keys copied under the lock (proposed fix, unordered set)
  @@ "oset.hash"      :> Mx("oset.mtx")
  @@ "oset.list"      :> Mx("oset.mtx")
  @@ "oset.mtxp"      :> At
  @@ "oset.iter"      :> Mx("oset.mtx")
  @@ "oset.snap"      :> Imm
  \* adt.AccessorsWithLock / AccessorsWithReadLock (locked.go:13,21)
  @@ "acc.body"       :> Mx("acc.mtx")       \* whatever the wrapped getter/setter touch
  @@ "rwacc.body"     :> Mx("rwacc.mtx")
  \* function wrappers: w.body = state touched by the wrapped function
  @@ "lock.body"      :> Mx("lock.mtx")      \* X.Lock / X.WithLock
  @@ "once.body"      :> On("w.once")        \* X.Once
  @@ "once.result"    :> On("w.once")        \* the captured err / out of X.Once
  @@ "limit.counter"  :> At                  \* limitExec (process.go:405)
  @@ "limit.output"   :> Mx("limit.mtx")     \* process.go:408; read without the mutex once the counter reached the limit
  @@ "limit.body"     :> Mx("limit.mtx")
  @@ "oplimit.counter" :> At                 \* Operation.Limit (operation.go:182): executions may overlap by contract

Cells == DOMAIN Guard

(***************************************************************************)
(* Helpers: functions that are not part of the API.  needs = the mutex the  *)
(* code documents / relies on being held by the caller ("none" otherwise).  *)
(* These are the choke points of the guard probes (verifGuard in /repo,     *)
(* fixes/hook-c13-guard-probes.addonly.diff); probe = name of the probe point,  *)
(* "-" where there is none.                                                 *)
(***************************************************************************)
H(needs, probe, steps) == [needs |-> needs, probe |-> probe, s |-> steps]

Helper ==
  \* tracker.go:16-19,31-47,64-106 - the three queueLimitTracker implementations.
  \* len and cap have NO PROBE POINT (probe "-"): they are one-line functions in all three implementations and the
  \* hook patch must be add-only (it may not rewrite a line); the unlimited tracker's add is a one-liner too, so
  \* tracker.add is probed only on the limit / capacity trackers.  HelperGuard still checks them in the model and the
  \* race observer still covers them on the code.
     "qtracker.len"    :> H("queue.mu", "-",    <<R("queue.tracker")>>)
  @@ "qtracker.cap"    :> H("queue.mu", "-",    <<R("queue.tracker")>>)
  @@ "qtracker.add"    :> H("queue.mu", "pubsub.tracker.add",    <<R("queue.tracker"), W("queue.tracker")>>)
  @@ "qtracker.remove" :> H("queue.mu", "pubsub.tracker.remove", <<R("queue.tracker"), W("queue.tracker")>>)
  @@ "dtracker.len"    :> H("deque.mtx", "-",    <<R("deque.tracker")>>)
  @@ "dtracker.cap"    :> H("deque.mtx", "-",    <<R("deque.tracker")>>)
  @@ "dtracker.add"    :> H("deque.mtx", "pubsub.tracker.add",    <<R("deque.tracker"), W("deque.tracker")>>)
  @@ "dtracker.remove" :> H("deque.mtx", "pubsub.tracker.remove", <<R("deque.tracker"), W("deque.tracker")>>)
  \* queue.go:109 doAdd
  @@ "Queue.doAdd" :> H("queue.mu", "pubsub.Queue.doAdd",
        <<R("queue.closed"), C("qtracker.add"), R("queue.list"), W("queue.list"), C("qtracker.len")>>)
  \* queue.go:274 popFront "Preconditions: The caller holds q.mu"
  @@ "Queue.popFront" :> H("queue.mu", "pubsub.Queue.popFront",
        <<R("queue.list"), W("queue.list"), C("qtracker.remove")>>)
  \* queue.go:203 unsafeWaitWhileEmpty "caller must hold the lock"; spawns Queue.ctxHelper (queue.go:206)
  @@ "Queue.unsafeWaitWhileEmpty" :> H("queue.mu", "pubsub.Queue.unsafeWaitWhileEmpty",
        <<C("qtracker.len"), R("queue.closed"), CW("queue.mu"), C("qtracker.len")>>)
  \* queue.go:235 unsafeWaitForLink "caller must hold the lock"
  @@ "Queue.unsafeWaitForLink" :> H("queue.mu", "pubsub.Queue.unsafeWaitForLink",
        <<R("queue.list"), R("queue.closed"), CW("queue.mu"), R("queue.list")>>)
  \* deque.go:354 addAfter
  @@ "Deque.addAfter" :> H("deque.mtx", "pubsub.Deque.addAfter",
        <<R("deque.closed"), C("dtracker.add"), R("deque.list"), W("deque.list")>>)
  \* deque.go:388 pop
  @@ "Deque.pop" :> H("deque.mtx", "pubsub.Deque.pop",
        <<R("deque.closed"), R("deque.list"), C("dtracker.remove"), W("deque.list")>>)
  \* deque.go:454 element.wait "callers must hold the *list's* lock"; spawns Deque.ctxHelper (deque.go:471)
  @@ "Deque.element.wait" :> H("deque.mtx", "pubsub.Deque.element.wait",
        <<R("deque.list"), R("deque.closed"), CW("deque.mtx"), R("deque.list")>>)
  \* deque.go:414 waitPop
  @@ "Deque.waitPop" :> H("deque.mtx", "pubsub.Deque.waitPop",
        <<R("deque.list"), C("Deque.pop"), C("Deque.element.wait"), R("deque.list"), C("Deque.pop")>>)
  \* deque.go:222 waitPushAfter
  @@ "Deque.waitPushAfter" :> H("deque.mtx", "pubsub.Deque.waitPushAfter",
        <<C("dtracker.cap"), C("dtracker.len"), R("deque.closed"), CW("deque.mtx"),
          C("dtracker.cap"), C("dtracker.len"), R("deque.list"), C("Deque.addAfter")>>)
  \* deque.go:311 the closure built by confProducer; only handed out wrapped in WithLock(dq.mtx).
  \* Only the blocking producers wait (deque.go:316-319).
  @@ "Deque.confProducer()" :> H("deque.mtx", "pubsub.Deque.confProducer",
        <<R("deque.iter"), W("deque.iter"), R("deque.list"), W("deque.iter")>>)
  @@ "Deque.confProducer(blocking)()" :> H("deque.mtx", "pubsub.Deque.confProducer",
        <<R("deque.iter"), W("deque.iter"), R("deque.list"), C("Deque.element.wait"), R("deque.list"), W("deque.iter")>>)
  \* sync.go:34 WaitGroup.init (called with wg.mu held from Add and Wait)
  @@ "WaitGroup.init" :> H("wg.mu", "fun.WaitGroup.init", <<R("wg.cond"), W("wg.cond")>>)
  \* adt.Once.populate atomics.go:74 (runs inside o.once)
  @@ "Once.populate" :> H("none", "-", <<W("once.called"), R("once.ctor"), W("once.comp"), W("once.ctor")>>)
  \* adt.Pool.init pool.go:38 / doInit pool.go:40
  @@ "Pool.init" :> H("none", "-", <<OB("pool.once"), W("pool.fields"), W("pool.hook"), OE("pool.once")>>)
  \* dt.Set.lock set.go:116: load the mutex, lock it, lazily make the map.  (Unlock is s.with, set.go:115)
  @@ "Set.lock"  :> H("none", "-", <<R("set.mtxp"), L("set.mtx"), R("set.hash"), C("Set.init")>>)
  @@ "Set.init"  :> H("set.mtx", "-", <<W("set.hash")>>)                    \* set.go:114  no probe point: one-line function, add-only hook rule
  @@ "oSet.lock" :> H("none", "-", <<R("oset.mtxp"), L("oset.mtx"), R("oset.hash"), C("oSet.init")>>)
  @@ "oSet.init" :> H("oset.mtx", "-", <<W("oset.hash")>>)
  \* set.go:92 forceSetupOrdered
  @@ "Set.forceSetupOrdered" :> H("set.mtx", "dt.Set.forceSetupOrdered",
        <<R("set.list"), W("set.list"), R("set.hash"), W("set.hash")>>)
  @@ "oSet.forceSetupOrdered" :> H("oset.mtx", "dt.Set.forceSetupOrdered",
        <<R("oset.list"), W("oset.list"), R("oset.hash"), W("oset.hash")>>)
  \* set.go:112 isOrdered (no probe point: one-line function, add-only hook rule), set.go:184 unsafeIterator
  @@ "Set.isOrdered"  :> H("set.mtx",  "-", <<R("set.list")>>)
  @@ "oSet.isOrdered" :> H("oset.mtx", "-", <<R("oset.list")>>)
  @@ "Set.unsafeIterator" :> H("set.mtx", "dt.Set.unsafeIterator", <<R("set.list"), R("set.hash")>>)
  \* limitExec process.go:403-424: fast path without the mutex once the counter has reached the limit
  @@ "limitExec()" :> H("none", "-",
        <<R("limit.counter"),                                  \* CompareAndSwap(in, in)  process.go:410
          IFF("limit.output"), R("limit.output"), RET, FI,     \* ... succeeded: return output
          L("limit.mtx"), R("limit.counter"),                  \* process.go:414-416
          IFNF("limit.output"),                                \* num < in
            W("limit.body"), W("limit.output"),                \* output = op()           process.go:419
            FZ("limit.output"), W("limit.counter"),            \* counter.Store(min(in, num+1)): the last one publishes
          FI,
          R("limit.output"), U("limit.mtx")>>)

(***************************************************************************)
(* The method table.  c = component (one shared object per component),      *)
(* p = TRUE for public methods / handed-out closures (drivable by the       *)
(* harness), s = steps.  A name ending in "()" is the call of a closure the *)
(* method of that name hands out.                                           *)
(***************************************************************************)
M(c, p, s) == [c |-> c, p |-> p, s |-> s]
Locked(x, body) == <<L(x)>> \o body \o <<U(x)>>

QueueTable(F) ==
     "Queue.Add"    :> M("queue", TRUE, Locked("queue.mu", <<C("Queue.doAdd")>>))                     \* queue.go:94
  @@ "Queue.Len"    :> M("queue", TRUE, Locked("queue.mu", <<C("qtracker.len")>>))                    \* queue.go:103
  @@ "Queue.BlockingAdd" :> M("queue", TRUE, Locked("queue.mu",                                       \* queue.go:137
        <<R("queue.closed"), C("qtracker.cap"), C("qtracker.len"), R("queue.closed"),
          CW("queue.mu"), C("qtracker.cap"), C("qtracker.len"), C("Queue.doAdd")>>))
  @@ "Queue.Remove" :> M("queue", TRUE, Locked("queue.mu", <<C("qtracker.len"), C("Queue.popFront")>>)) \* queue.go:174
  @@ "Queue.Wait"   :> M("queue", TRUE, Locked("queue.mu",                                            \* queue.go:190
        <<C("Queue.unsafeWaitWhileEmpty"), C("Queue.popFront")>>))
  @@ "Queue.Close"  :> M("queue", TRUE, Locked("queue.mu", <<W("queue.closed")>>))                    \* queue.go:261
  @@ "Queue.Producer"   :> M("queue", TRUE, <<R("queue.fields")>>)                                     \* queue.go:366 (constructor)
  @@ "Queue.Producer()" :> M("queue", TRUE, Locked("queue.mu",                                        \* queue.go:368-392
        <<R("queue.iter"), W("queue.iter"), R("queue.list"), C("Queue.unsafeWaitForLink"),
          R("queue.list"), W("queue.iter")>>))
  @@ "Queue.Iterator"   :> M("queue", TRUE, <<C("Queue.Producer")>>)                                   \* queue.go:343
  @@ "Queue.Iterator().ReadOne" :> M("queue", TRUE, <<C("Queue.Producer()")>>)                         \* iterator.go:231 (documented safe)
  @@ "Queue.Iterator().Close"   :> M("queue", TRUE, <<BLK>>)                                           \* iterator.go:177 (once + atomics)
  @@ "Queue.Distributor" :> M("queue", TRUE, <<R("queue.fields")>>)                                    \* queue.go:348: q.tracker.len is bound here
  @@ "Queue.Distributor().Send"    :> M("queue", TRUE, <<C("Queue.Add")>>)                             \* queue.go:350
  @@ "Queue.Distributor().Receive" :> M("queue", TRUE, <<C("Queue.Remove"), C("Queue.Wait")>>)        \* queue.go:351-358
  @@ "Queue.Distributor().Len"     :> M("queue", TRUE,                                                 \* queue.go:359 size: q.tracker.len
        IF "queue-distributor-len" \in F THEN <<C("Queue.Len")>> ELSE <<C("qtracker.len")>>)
  @@ "Queue.Distributor().Iterator().ReadOne" :> M("queue", TRUE, <<C("Queue.Distributor().Receive")>>) \* buffer.go:77
  \* internal: the goroutine `<-ctx.Done(); q.mu.Lock(); defer q.mu.Unlock(); cond.Broadcast()` queue.go:153,206,238
  @@ "Queue.ctxHelper" :> M("queue", FALSE, Locked("queue.mu", <<>>))
  \* internal, currently without callers: queue.go:226
  @@ "Queue.waitForNew" :> M("queue", FALSE, Locked("queue.mu", <<R("queue.list"), C("Queue.unsafeWaitForLink")>>))

DequeProducer(name, helper) ==
     name :> M("deque", TRUE, Locked("deque.mtx", <<>>))                               \* constructor: takes the lock, builds the closure
  @@ (name \o "()") :> M("deque", TRUE, Locked("deque.mtx", <<C(helper)>>))            \* .WithLock(dq.mtx)  producer.go:343

DequeTable ==
     "Deque.Len"        :> M("deque", TRUE, Locked("deque.mtx", <<C("dtracker.len")>>))                         \* deque.go:113
  @@ "Deque.Close"      :> M("deque", TRUE, Locked("deque.mtx", <<W("deque.closed")>>))                        \* deque.go:118
  @@ "Deque.PushFront"  :> M("deque", TRUE, Locked("deque.mtx", <<R("deque.list"), C("Deque.addAfter")>>))      \* deque.go:131
  @@ "Deque.PushBack"   :> M("deque", TRUE, Locked("deque.mtx", <<R("deque.list"), C("Deque.addAfter")>>))      \* deque.go:139
  @@ "Deque.PopFront"   :> M("deque", TRUE, Locked("deque.mtx", <<R("deque.list"), C("Deque.pop")>>))           \* deque.go:146
  @@ "Deque.PopBack"    :> M("deque", TRUE, Locked("deque.mtx", <<R("deque.list"), C("Deque.pop")>>))           \* deque.go:153
  @@ "Deque.WaitFront"  :> M("deque", TRUE, Locked("deque.mtx", <<C("Deque.waitPop")>>))                        \* deque.go:161
  @@ "Deque.WaitBack"   :> M("deque", TRUE, Locked("deque.mtx", <<C("Deque.waitPop")>>))                        \* deque.go:169
  @@ "Deque.ForcePushFront" :> M("deque", TRUE, Locked("deque.mtx",                                             \* deque.go:178
        <<C("dtracker.cap"), C("dtracker.len"), R("deque.list"), C("Deque.pop"), C("Deque.addAfter")>>))
  @@ "Deque.ForcePushBack"  :> M("deque", TRUE, Locked("deque.mtx",                                             \* deque.go:192
        <<C("dtracker.cap"), C("dtracker.len"), R("deque.list"), C("Deque.pop"), C("Deque.addAfter")>>))
  @@ "Deque.WaitPushFront"  :> M("deque", TRUE, Locked("deque.mtx", <<C("Deque.waitPushAfter")>>))              \* deque.go:206
  @@ "Deque.WaitPushBack"   :> M("deque", TRUE, Locked("deque.mtx", <<C("Deque.waitPushAfter")>>))              \* deque.go:216
  @@ DequeProducer("Deque.Producer", "Deque.confProducer()")                                  \* deque.go:273
  @@ DequeProducer("Deque.ProducerBlocking", "Deque.confProducer(blocking)()")               \* deque.go:284
  @@ DequeProducer("Deque.ProducerReverse", "Deque.confProducer()")                           \* deque.go:293
  @@ DequeProducer("Deque.ProducerReverseBlocking", "Deque.confProducer(blocking)()")        \* deque.go:304
  @@ "Deque.Iterator"        :> M("deque", TRUE, <<C("Deque.Producer")>>)                                       \* deque.go:258
  @@ "Deque.IteratorReverse" :> M("deque", TRUE, <<C("Deque.ProducerReverse")>>)                                \* deque.go:265
  @@ "Deque.Iterator().ReadOne"        :> M("deque", TRUE, <<C("Deque.Producer()")>>)
  @@ "Deque.IteratorReverse().ReadOne" :> M("deque", TRUE, <<C("Deque.ProducerReverse()")>>)
  @@ "Deque.Distributor().Send"    :> M("deque", TRUE, <<C("Deque.WaitPushBack")>>)                             \* deque.go:337
  @@ "Deque.Distributor().Receive" :> M("deque", TRUE, <<C("Deque.WaitFront")>>)                                \* deque.go:338
  @@ "Deque.Distributor().Len"     :> M("deque", TRUE, <<C("Deque.Len")>>)                                      \* deque.go:339
  @@ "Deque.DistributorNonBlocking().Send"    :> M("deque", TRUE, <<C("Deque.ForcePushBack")>>)                 \* deque.go:348
  @@ "Deque.DistributorNonBlocking().Receive" :> M("deque", TRUE, <<C("Deque.WaitFront")>>)
  @@ "Deque.DistributorNonBlocking().Len"     :> M("deque", TRUE, <<C("Deque.Len")>>)
  \* internal: deque.go:233,471
  @@ "Deque.ctxHelper" :> M("deque", FALSE, Locked("deque.mtx", <<>>))

\* Broker (broker.go).  The public methods only use channels; the state is touched by the dispatcher
\* goroutine (broker.go:147-179) and the workers (broker.go:188-197), inlined here into the method that
\* triggers them.  send/recv/len are the Distributor's three functions for the kind of broker.
BrokerTable(kind, send, recv, len) ==
  LET c == "broker." \o kind
      n(m) == "Broker[" \o kind \o "]." \o m
  IN   n("Publish")     :> M(c, TRUE, <<BLK, W("broker.chans"), C(send), C(recv), R("broker.subs")>>)   \* broker.go:322,162,191-195
    @@ n("Subscribe")   :> M(c, TRUE, <<BLK, W("broker.chans"), W("broker.subs")>>)                      \* broker.go:294,154
    @@ n("Unsubscribe") :> M(c, TRUE, <<BLK, W("broker.chans"), W("broker.subs")>>)                      \* broker.go:308,156
    @@ n("Stats")       :> M(c, TRUE, <<BLK, W("broker.chans"), R("broker.subs"), C(len)>>)              \* broker.go:244,157-161
    @@ n("Populate()")  :> M(c, TRUE, <<C(n("Publish"))>>)                                               \* broker.go:229 the worker it returns publishes every item
    @@ n("Stop")        :> M(c, TRUE, Locked("broker.mu", <<R("broker.close")>>))                        \* broker.go:271
    @@ n("Wait")        :> M(c, TRUE, Locked("broker.mu", <<BLK, R("broker.wg")>>))                      \* broker.go:280 (blocks holding b.mu)

ChanDist == "chan.send" :> M("broker.chan", FALSE, <<BLK, W("chan.buf")>>)       \* buffer.go:87 ChanOp
         @@ "chan.recv" :> M("broker.chan", FALSE, <<BLK, W("chan.buf")>>)
         @@ "chan.len"  :> M("broker.chan", FALSE, <<R("chan.buf")>>)

WaitGroupTable ==
     "WaitGroup.Add"    :> M("waitgroup", TRUE, Locked("wg.mu", <<C("WaitGroup.init"), R("wg.counter"), W("wg.counter"), R("wg.cond")>>)) \* sync.go:43
  @@ "WaitGroup.Done"   :> M("waitgroup", TRUE, <<C("WaitGroup.Add")>>)                                  \* sync.go:58
  @@ "WaitGroup.Inc"    :> M("waitgroup", TRUE, <<C("WaitGroup.Add")>>)                                  \* sync.go:61
  @@ "WaitGroup.Num"    :> M("waitgroup", TRUE, Locked("wg.mu", <<R("wg.counter")>>))                    \* sync.go:64
  @@ "WaitGroup.IsDone" :> M("waitgroup", TRUE, Locked("wg.mu", <<R("wg.counter")>>))                    \* sync.go:72
  @@ "WaitGroup.Wait"   :> M("waitgroup", TRUE, Locked("wg.mu",                                          \* sync.go:118
        <<R("wg.counter"), C("WaitGroup.init"), R("wg.cond"), CW("wg.mu"), R("wg.counter")>>))
  @@ "WaitGroup.Operation()" :> M("waitgroup", TRUE, <<C("WaitGroup.Wait")>>)                            \* sync.go:80
  @@ "WaitGroup.Worker()"    :> M("waitgroup", TRUE, <<C("WaitGroup.Wait")>>)                            \* sync.go:97
  @@ "WaitGroup.Launch"      :> M("waitgroup", TRUE, <<C("WaitGroup.Inc"), C("WaitGroup.Done")>>)        \* sync.go:90 (Done from the background goroutine)
  @@ "WaitGroup.DoTimes"     :> M("waitgroup", TRUE, <<C("WaitGroup.Launch")>>)                          \* sync.go:84
  @@ "WaitGroup.ctxHelper"   :> M("waitgroup", FALSE, Locked("wg.mu", <<R("wg.cond")>>))                 \* sync.go:137

CollectorTable(F) ==
     "Collector.Add"       :> M("collector", TRUE, Locked("collector.mu", <<R("collector.stack"), W("collector.stack")>>)) \* errors.go:46
  @@ "Collector.Handler()" :> M("collector", TRUE, <<C("Collector.Add")>>)                               \* errors.go:57
  @@ "Collector.Len"       :> M("collector", TRUE, Locked("collector.mu", <<R("collector.stack")>>))     \* errors.go:70
  @@ "Collector.Iterator"  :> M("collector", TRUE, Locked("collector.mu", <<R("collector.stack")>>))     \* errors.go:76 (copies the head: merged.go:229-236)
  \* an iterator of the Collector is private to the goroutine that made it (its producer's position is not
  \* synchronised, merged.go:237-244; ReadOne is safe only for producers that are): only the nodes are shared
  @@ "Collector.Iterator().ReadOne" :> M("collector", TRUE, <<C("Collector.Iterator"), R("collector.copy"), R("collector.tail")>>)
  @@ "Collector.Resolve"   :> M("collector", TRUE, Locked("collector.mu", <<R("collector.stack")>>))     \* errors.go:85 returns &ec.stack
  @@ "Collector.Future()"  :> M("collector", TRUE, <<C("Collector.Resolve")>>)                           \* errors.go:62
  @@ "Collector.HasErrors" :> M("collector", TRUE, <<C("Collector.Len")>>)                               \* errors.go:97
  @@ "Collector.Ok"        :> M("collector", TRUE, <<C("Collector.Len")>>)                               \* errors.go:101
  \* use of the *ers.Stack handed out by Resolve (Error / Unwind / errors.Is): it IS ec.stack (errors.go:92).
  \* Not a method of the Collector: judged only when JudgeHandedOut (DESIGN 5.0: weakest obligation).
  @@ "Collector.Resolve().use" :> M("collector", TRUE,
        IF "collector-resolve-copy" \in F THEN <<R("collector.copy"), R("collector.tail")>>
                                        ELSE <<R("collector.stack"), R("collector.tail")>>)

SynchronizedTable ==
     "Synchronized.With"   :> M("synchronized", TRUE, Locked("sync.mtx", <<R("sync.obj"), W("sync.cb")>>))   \* locked.go:62
  @@ "Synchronized.Using"  :> M("synchronized", TRUE, Locked("sync.mtx", <<W("sync.cb")>>))                  \* locked.go:78
  @@ "Synchronized.Set"    :> M("synchronized", TRUE, Locked("sync.mtx", <<W("sync.obj")>>))                 \* locked.go:66
  @@ "Synchronized.Store"  :> M("synchronized", TRUE, Locked("sync.mtx", <<W("sync.obj")>>))                 \* locked.go:67
  @@ "Synchronized.Get"    :> M("synchronized", TRUE, Locked("sync.mtx", <<R("sync.obj")>>))                 \* locked.go:73
  @@ "Synchronized.Load"   :> M("synchronized", TRUE, Locked("sync.mtx", <<R("sync.obj")>>))                 \* locked.go:74
  @@ "Synchronized.String" :> M("synchronized", TRUE, <<C("Synchronized.Get")>>)                             \* locked.go:70
  @@ "Synchronized.Swap"   :> M("synchronized", TRUE, Locked("sync.mtx", <<R("sync.obj"), W("sync.obj")>>))  \* locked.go:81
  @@ "Synchronized.CompareAndSwap" :> M("synchronized", TRUE, Locked("sync.mtx", <<R("sync.obj"), W("sync.obj")>>)) \* atomics.go:142-148

AtomicTable ==
     "Atomic.Set"   :> M("atomic", TRUE, <<W("atomic.val")>>)   \* atomics.go:107
  @@ "Atomic.Store" :> M("atomic", TRUE, <<W("atomic.val")>>)   \* atomics.go:110
  @@ "Atomic.Get"   :> M("atomic", TRUE, <<R("atomic.val")>>)   \* atomics.go:114
  @@ "Atomic.Load"  :> M("atomic", TRUE, <<R("atomic.val")>>)   \* atomics.go:118
  @@ "Atomic.Swap"  :> M("atomic", TRUE, <<W("atomic.val")>>)   \* atomics.go:124
  @@ "Atomic.CompareAndSwap" :> M("atomic", TRUE, <<W("atomic.val")>>) \* atomics.go:140

OnceTable ==
     "Once.Do" :> M("once", TRUE, <<OB("once.once"), W("once.ctor"), W("once.defined"), C("Once.populate"), OE("once.once")>>) \* atomics.go:66
  @@ "Once.Resolve" :> M("once", TRUE, <<OB("once.once"), C("Once.populate"), OE("once.once"), R("once.comp")>>)           \* atomics.go:73
  @@ "Once.Set"     :> M("once", TRUE, <<R("once.called"), W("once.defined"), W("once.ctor")>>)                            \* atomics.go:80
  @@ "Once.Called"  :> M("once", TRUE, <<R("once.called")>>)                                                               \* atomics.go:86
  @@ "Once.Defined" :> M("once", TRUE, <<R("once.defined")>>)                                                              \* atomics.go:91

MapTable ==
     "Map.Delete"      :> M("map", TRUE, <<W("map.mp")>>)   \* map.go:29
  @@ "Map.Store"       :> M("map", TRUE, <<W("map.mp")>>)   \* map.go:33
  @@ "Map.Set"         :> M("map", TRUE, <<W("map.mp")>>)   \* map.go:36
  @@ "Map.Ensure"      :> M("map", TRUE, <<C("Pool.Make"), W("map.mp")>>)   \* map.go:42
  @@ "Map.Check"       :> M("map", TRUE, <<R("map.mp")>>)   \* map.go:45
  @@ "Map.Load"        :> M("map", TRUE, <<R("map.mp")>>)   \* map.go:51
  @@ "Map.EnsureStore" :> M("map", TRUE, <<W("map.mp")>>)   \* map.go:55
  @@ "Map.EnsureSet"   :> M("map", TRUE, <<W("map.mp")>>)   \* map.go:59
  @@ "Map.Get"         :> M("map", TRUE, <<C("Pool.Get"), W("map.mp"), C("Pool.Put")>>) \* map.go:71
  @@ "Map.EnsureDefault" :> M("map", TRUE, <<W("map.mp")>>) \* map.go:90
  @@ "Map.MarshalJSON"   :> M("map", TRUE, <<R("map.mp")>>) \* map.go:100
  @@ "Map.UnmarshalJSON" :> M("map", TRUE, <<W("map.mp")>>) \* map.go:109
  @@ "Map.Len"         :> M("map", TRUE, <<R("map.mp")>>)   \* map.go:132
  @@ "Map.Range"       :> M("map", TRUE, <<R("map.mp")>>)   \* map.go:148
  @@ "Map.Iterator"    :> M("map", TRUE, <<BLK, R("map.mp")>>) \* map.go:159 (+ consuming it: a goroutine ranges, map.go:184)
  @@ "Map.Keys"        :> M("map", TRUE, <<BLK, R("map.mp")>>) \* map.go:169
  @@ "Map.Values"      :> M("map", TRUE, <<BLK, R("map.mp")>>) \* map.go:180
  @@ "Map.Swap"        :> M("map", TRUE, <<W("map.mp")>>)   \* map_go120.go:5

PoolTable(c) ==
     "Pool.FinalizeSetup"  :> M(c, TRUE, <<C("Pool.init"), W("pool.locked")>>)                                       \* pool.go:53
  @@ "Pool.SetCleanupHook" :> M(c, TRUE, <<C("Pool.init"), R("pool.locked"), R("pool.fields"), W("pool.hook")>>)     \* pool.go:58
  @@ "Pool.SetConstructor" :> M(c, TRUE, <<C("Pool.init"), R("pool.locked"), R("pool.fields"), W("pool.hook")>>)     \* pool.go:66
  @@ "Pool.Get"  :> M(c, TRUE, <<C("Pool.init"), R("pool.fields"), W("pool.pool"), R("pool.hook")>>)                 \* pool.go:74
  @@ "Pool.Put"  :> M(c, TRUE, <<C("Pool.init"), R("pool.fields"), R("pool.hook"), W("pool.pool")>>)                 \* pool.go:79
  @@ "Pool.Make" :> M(c, TRUE, <<C("Pool.init"), R("pool.fields"), W("pool.pool"), R("pool.hook"), R("pool.fields")>>) \* pool.go:94

\* dt.Set with a mutex.  `pre` selects the receiver: "" = the set itself, "o" = the other set of Equal / Extend
\* (its methods are drivable as "<name>@o").
SetProducerCall(F, cp) ==      \* the closure returned by Producer (set.go:195-206)
  IF "set-producer-lock" \in F
  THEN Locked(cp \o ".mtx", <<R(cp \o ".iter"), W(cp \o ".iter"), R(cp \o ".list"), R(cp \o ".snap")>>)
  ELSE \* as is: the deferred function computes out.WithLock(mu) and drops it (set.go:197); the list producer walks the
       \* list (list.go:323-332) and the map producer ranges over the map in its own goroutine (map.go:216-230)
       <<R(cp \o ".iter"), W(cp \o ".iter"), R(cp \o ".list"), R(cp \o ".hash")>>

SetTable(F) ==
     "Set.Synchronize" :> M("set", TRUE, <<W("set.mtxp")>>)                                                      \* set.go:57 (CompareAndSwap)
  @@ "Set.Order"      :> M("set", TRUE, <<C("Set.lock"), R("set.list"), R("set.hash"), W("set.list"), U("set.mtx")>>)  \* set.go:62
  @@ "Set.SortQuick"  :> M("set", TRUE, <<C("Set.lock"), R("set.list"), C("Set.forceSetupOrdered"), W("set.list"), U("set.mtx")>>) \* set.go:76
  @@ "Set.SortMerge"  :> M("set", TRUE, <<C("Set.lock"), R("set.list"), C("Set.forceSetupOrdered"), W("set.list"), U("set.mtx")>>) \* set.go:86
  @@ "Set.AddCheck"   :> M("set", TRUE, <<C("Set.lock"), R("set.hash"), R("set.list"), W("set.list"), W("set.hash"), U("set.mtx")>>) \* set.go:157
  @@ "Set.Add"        :> M("set", TRUE, <<C("Set.AddCheck")>>)                                                   \* set.go:124
  @@ "Set.Len"        :> M("set", TRUE, <<C("Set.lock"), R("set.hash"), U("set.mtx")>>)                          \* set.go:127
  @@ "Set.Check"      :> M("set", TRUE, <<C("Set.lock"), R("set.hash"), U("set.mtx")>>)                          \* set.go:130
  @@ "Set.DeleteCheck" :> M("set", TRUE, <<C("Set.lock"), R("set.hash"), W("set.list"), W("set.hash"), U("set.mtx")>>) \* set.go:141
  @@ "Set.Delete"     :> M("set", TRUE, <<C("Set.DeleteCheck")>>)                                                \* set.go:133
  @@ "Set.Producer"   :> M("set", TRUE, <<C("Set.lock"), R("set.mtxp"), R("set.list"), R("set.hash"), U("set.mtx")>>) \* set.go:195
  @@ "Set.Producer()" :> M("set", TRUE, SetProducerCall(F, "set"))
  @@ "Set.Iterator"   :> M("set", TRUE, <<C("Set.Producer")>>)                                                   \* set.go:137
  @@ "Set.Iterator().ReadOne" :> M("set", TRUE, <<C("Set.Producer()")>>)
  @@ "Set.MarshalJSON"   :> M("set", TRUE, <<C("Set.Iterator"), C("Set.Producer()")>>)                           \* set.go:240
  @@ "Set.Populate"      :> M("set", TRUE, <<C("Set.Add")>>)                                                     \* set.go:177
  @@ "Set.UnmarshalJSON" :> M("set", TRUE, <<C("Set.Populate")>>)                                                \* set.go:245
  @@ "Set.Extend"     :> M("set", TRUE, <<C("Set.Producer@o"), C("Set.Producer()@o"), C("Set.Add")>>)            \* set.go:182
  @@ "Set.Equal"      :> M("set", TRUE,                                                                           \* set.go:209-237
        <<C("Set.lock"), R("set.hash"), C("Set.Len@o"), C("Set.isOrdered")>>
        \o (IF "set-equal-other" \in F THEN <<C("oSet.lock"), C("oSet.isOrdered"), U("oset.mtx")>> ELSE <<C("oSet.isOrdered")>>)
        \o <<C("Set.unsafeIterator"), R("set.list"), R("set.hash"),
             C("Set.Producer@o"), C("Set.Producer()@o"), C("Set.Check@o"), U("set.mtx")>>
        \* as is, unordered set: unsafeIterator is the map's Keys() iterator, whose goroutine (map.go:216-230) goes on
        \* ranging over s.hash after an early `return false` (set.go:232-234) has released the lock
        \o (IF "set-equal-other" \in F THEN <<>> ELSE <<R("set.hash")>>))
  \* the same methods with the other set as receiver (only those Equal / Extend read against)
  @@ "Set.Len@o"      :> M("set", FALSE, <<C("oSet.lock"), R("oset.hash"), U("oset.mtx")>>)
  @@ "Set.Check@o"    :> M("set", FALSE, <<C("oSet.lock"), R("oset.hash"), U("oset.mtx")>>)
  @@ "Set.Producer@o" :> M("set", FALSE, <<C("oSet.lock"), R("oset.mtxp"), R("oset.list"), R("oset.hash"), U("oset.mtx")>>)
  @@ "Set.Producer()@o" :> M("set", FALSE, SetProducerCall(F, "oset"))
  @@ "Set.Add@o"      :> M("set", TRUE, <<C("oSet.lock"), R("oset.hash"), R("oset.list"), W("oset.list"), W("oset.hash"), U("oset.mtx")>>)
  @@ "Set.Delete@o"   :> M("set", TRUE, <<C("oSet.lock"), R("oset.hash"), W("oset.list"), W("oset.hash"), U("oset.mtx")>>)
  @@ "Set.SortQuick@o" :> M("set", TRUE, <<C("oSet.lock"), R("oset.list"), C("oSet.forceSetupOrdered"), W("oset.list"), U("oset.mtx")>>)

AccessorTable ==
     "AccessorsWithLock.get"     :> M("accessors", TRUE, Locked("acc.mtx", <<R("acc.body")>>))      \* locked.go:13-16, future.go:62
  @@ "AccessorsWithLock.set"     :> M("accessors", TRUE, Locked("acc.mtx", <<W("acc.body")>>))      \* handler.go:125
  @@ "AccessorsWithReadLock.get" :> M("accessors.rw", TRUE, <<RL("rwacc.mtx"), R("rwacc.body"), RU("rwacc.mtx")>>) \* locked.go:21-24
  @@ "AccessorsWithReadLock.set" :> M("accessors.rw", TRUE, Locked("rwacc.mtx", <<W("rwacc.body")>>))

\* function wrappers; one component (= one wrapped function instance) per function type and wrapper kind
\*   Lock/WithLock: operation.go:208,212  worker.go:263,267  process.go:235,239  producer.go:340,343
\*                  future.go:59,62  handler.go:122,125  transform.go:222,229
\*   Once:          operation.go:59  worker.go:157  process.go:225  producer.go:249  future.go:33 (ft.OnceDo ft.go:242)  handler.go:115
\*   Limit:         worker.go:245  process.go:248  producer.go:387  future.go:100  (limitExec process.go:403);  Operation.Limit operation.go:180
Merge(S, f(_)) == LET RECURSIVE mg(_)
                      mg(T) == IF T = {} THEN <<>> ELSE LET x == CHOOSE y \in T : TRUE IN f(x) @@ mg(T \ {x})
                  IN mg(S)

\* The wrapped function may fail: it returns an ordinary error, it is interrupted by its context while it runs
\* (BLK: the call then blocks inside the wrapper, holding its mutex / its once), or it panics.  The lock discipline
\* must hold on these paths as well (state classes err / ctxerr / ctxwait / panic below).
CtxFns == {"Operation", "Worker", "Processor", "Producer", "Transform"}     \* the wrapped function receives a context
ErrFns == {"Worker", "Processor", "Producer", "Transform"}                  \* ... and returns an error
Run(f, steps) == IF f \in CtxFns THEN <<BLK>> \o steps ELSE steps

WrapTable ==
     Merge(FnTypes,  LAMBDA f : (f \o ".Lock()")     :> M("wrap." \o f \o ".Lock",     TRUE, Locked("lock.mtx", Run(f, <<W("lock.body")>>))))
  @@ Merge(FnTypes,  LAMBDA f : (f \o ".WithLock()") :> M("wrap." \o f \o ".WithLock", TRUE, Locked("lock.mtx", Run(f, <<W("lock.body")>>))))
  @@ Merge(OnceFns,  LAMBDA f : (f \o ".Once()")     :> M("wrap." \o f \o ".Once",     TRUE,
                                   <<OB("w.once")>> \o Run(f, <<W("once.body"), W("once.result")>>) \o <<OE("w.once"), R("once.result")>>))
  @@ Merge(LimitFns, LAMBDA f : (f \o ".Limit()")    :> M("wrap." \o f \o ".Limit",    TRUE, Run(f, <<C("limitExec()")>>)))
  @@ "Operation.Limit()" :> M("wrap.Operation.Limit", TRUE, <<BLK, R("oplimit.counter"), W("oplimit.counter")>>)
  @@ "Mnemonize()" :> M("wrap.Mnemonize", TRUE, <<OB("w.once"), W("once.body"), W("once.result"), OE("w.once"), R("once.result")>>) \* atomics.go:34

\* state classes of a wrapper: how often it ran before it is shared, and how the wrapped function ends
FailClasses(f) == IF f \in ErrFns THEN <<"err", "ctxerr", "panic">>
                  ELSE IF f \in CtxFns THEN <<"ctxwait", "panic">>       \* Operation: no error to return
                  ELSE <<"panic">>                                        \* Future / Handler: neither context nor error
WrapClasses ==
     Merge(FnTypes,  LAMBDA f : ("wrap." \o f \o ".Lock")     :> (<<"fresh", "used">> \o FailClasses(f)))
  @@ Merge(FnTypes,  LAMBDA f : ("wrap." \o f \o ".WithLock") :> (<<"fresh", "used">> \o FailClasses(f)))
  @@ Merge(OnceFns,  LAMBDA f : ("wrap." \o f \o ".Once")     :> (<<"fresh", "used">> \o FailClasses(f)))
  @@ Merge(LimitFns, LAMBDA f : ("wrap." \o f \o ".Limit")    :> (<<"fresh", "exhausted">> \o FailClasses(f)))
  @@ "wrap.Operation.Limit" :> <<"fresh", "used", "ctxwait", "panic">>
  @@ "wrap.Mnemonize"       :> <<"fresh", "used", "panic">>

\* the table for a given set F of repairs
MethodF(F) ==
     QueueTable(F) @@ DequeTable
  @@ BrokerTable("chan",  "chan.send", "chan.recv", "chan.len") @@ ChanDist
  @@ BrokerTable("queue", "Queue.Distributor().Send", "Queue.Distributor().Receive", "Queue.Distributor().Len")
  @@ BrokerTable("deque", "Deque.Distributor().Send", "Deque.Distributor().Receive", "Deque.Distributor().Len")
  @@ BrokerTable("lifo",  "Deque.DistributorNonBlocking().Send", "Deque.DistributorNonBlocking().Receive", "Deque.DistributorNonBlocking().Len")
  @@ WaitGroupTable @@ CollectorTable(F) @@ SynchronizedTable @@ AtomicTable @@ OnceTable @@ MapTable
  @@ PoolTable("pool") @@ SetTable(F) @@ AccessorTable @@ WrapTable

Method    == MethodF(Fixed)             \* what the model checks
MethodAlt == MethodF(FixNames \ Fixed)  \* every repair flipped: the obligations for the observers are taken from both,
                                        \* so that they do not depend on which repairs the repository carries

Methods == DOMAIN Method

\* state classes (configuration/state) each component's pairs and probes are to be run in
Classes ==
  \* iter-at-back: non-empty, and every handed-out producer / iterator has already been advanced to the newest entry
  \* (it rests ON the back entry, outside any call, when the next Add / Push arrives)
     "queue"  :> <<"unlimited/empty", "unlimited/nonempty", "unlimited/iter-at-back", "unlimited/closed", "limit/empty", "limit/full", "limit/closed">>
  @@ "deque"  :> <<"cap/empty", "cap/nonempty", "cap/full", "cap/closed", "unlimited/empty", "unlimited/nonempty", "unlimited/iter-at-back", "quota/nonempty">>
  @@ "broker.chan"  :> <<"serial/idle", "serial/subscribed", "parallel/subscribed", "serial/stopped">>
  @@ "broker.queue" :> <<"serial/idle", "serial/subscribed", "parallel/subscribed", "serial/stopped">>
  @@ "broker.deque" :> <<"serial/idle", "serial/subscribed", "parallel/subscribed", "serial/stopped">>
  @@ "broker.lifo"  :> <<"serial/idle", "serial/subscribed", "parallel/subscribed", "serial/stopped">>
  @@ "waitgroup"    :> <<"zero", "positive">>
  @@ "collector"    :> <<"empty", "nonempty">>
  @@ "synchronized" :> <<"any", "cb-panics">>          \* cb-panics: the function given to With / Using panics
  @@ "atomic"       :> <<"unset", "set">>
  @@ "once"         :> <<"new", "defined", "done">>
  @@ "map"          :> <<"empty", "nonempty">>
  @@ "pool"         :> <<"new", "configured", "finalized">>
  \* fresh: Synchronize() only, the map not made yet; differs: the other set has as many members, but different ones
  @@ "set"          :> <<"unordered/fresh", "unordered/empty", "unordered/nonempty", "unordered/differs", "ordered/empty", "ordered/nonempty", "ordered/differs">>
  @@ "accessors"    :> <<"any", "panic">>              \* panic: the wrapped getter / setter panic
  @@ "accessors.rw" :> <<"any", "panic">>

ClassesOf(c) == IF c \in DOMAIN Classes THEN Classes[c] ELSE WrapClasses[c]

\* schedule shapes every pair job is run in (round r uses shape r mod 4).  A paced thread idles between two of its calls
\* (no synchronisation involved), so that the other one gets ahead: with "first-paced" the second method keeps catching
\* up with the first (an iterator parked at the tail when the next Add lands), with "second-paced" the first one is ahead
\* (an iterator resting on the back entry, outside any call, when the next Add lands), "both-paced" alternates.
Shapes == <<"free", "first-paced", "second-paced", "both-paced">>

(***************************************************************************)
(* Flattening                                                               *)
(***************************************************************************)
BodyT(T, n) == IF n \in DOMAIN Helper THEN Helper[n].s ELSE T[n].s
Body(n)  == BodyT(Method, n)
Needs(n) == IF n \in DOMAIN Helper THEN Helper[n].needs ELSE "none"
Probe(n) == IF n \in DOMAIN Helper THEN Helper[n].probe ELSE "-"

RECURSIVE FlatT(_, _)
FlatT(T, s) == IF s = <<>> THEN <<>>
               ELSE LET h == Head(s)
                    IN (CASE h.k = "C"  -> <<[k |-> "E", a |-> h.a]>> \o FlatT(T, BodyT(T, h.a))
                          [] h.k = "CW" -> <<U(h.a), L(h.a)>>
                          [] OTHER      -> <<h>>) \o FlatT(T, Tail(s))
Flat(s) == FlatT(Method, s)

FlatOf  == [m \in Methods |-> FlatT(Method, Method[m].s)]
FlatAlt == [m \in Methods |-> FlatT(MethodAlt, MethodAlt[m].s)]
Range(f) == {f[i] : i \in DOMAIN f}

Comps    == {Method[m].c : m \in Methods}
ModelComps == IF OnlyComps = {} THEN Comps ELSE Comps \cap OnlyComps
\* what a thread may run in the model of component c: its own methods and the internal goroutines;
\* a broker's component also runs its distributor's methods through C(...)
MethodsOf(c) == {m \in Methods : Method[m].c = c}
Public(c)    == {m \in MethodsOf(c) : Method[m].p}

Mutexes == {Guard[c].by : c \in {d \in Cells : Guard[d].kind = "mutex"}} \cup {"broker.mu"}
Onces   == {Guard[c].by : c \in {d \in Cells : Guard[d].kind = "once"}}

IsAccess(s) == s.k \in {"R", "W"}

Unjudged == IF JudgeHandedOut THEN {} ELSE {"Collector.Resolve().use"}

(***************************************************************************)
(* Static sanity of the table (ASSUME: evaluated once)                      *)
(***************************************************************************)
StepsWellFormed ==
  \A m \in Methods : \A i \in DOMAIN FlatOf[m] :
     LET s == FlatOf[m][i] IN
       /\ s.k \in {"L", "U", "RL", "RU", "R", "W", "E", "OB", "OE", "FZ", "IFF", "IFNF", "FI", "RET", "BLK"}
       /\ (s.k \in {"R", "W", "FZ", "IFF", "IFNF"} => s.a \in Cells)
       /\ (s.k \in {"L", "U", "RL", "RU"} => s.a \in Mutexes)
       /\ (s.k = "E" => s.a \in DOMAIN Helper \cup Methods)
ASSUME StepsWellFormed

(***************************************************************************)
(* What the observers have to do (printed once, parsed by run/props/c13.py) *)
(***************************************************************************)
Acc(m) == {<<s.a, s.k>> : s \in {x \in Range(FlatOf[m]) \cup Range(FlatAlt[m]) : IsAccess(x)}}
Conflict(m1, m2) == \E a1 \in Acc(m1), a2 \in Acc(m2) :
                       /\ a1[1] = a2[1] /\ (a1[2] = "W" \/ a2[2] = "W")
                       /\ Guard[a1[1]].kind # "immutable"
RECURSIVE HasBlock(_)
HasBlock(s) == /\ s # <<>>
               /\ \/ Head(s).k \in {"CW", "BLK"}
                  \/ (Head(s).k = "C" /\ HasBlock(Body(Head(s).a)))
                  \/ HasBlock(Tail(s))
Blocks(m) == HasBlock(Method[m].s)

SetToSeq(S) == LET RECURSIVE ts(_)
                   ts(T) == IF T = {} THEN <<>> ELSE LET x == CHOOSE y \in T : TRUE IN <<x>> \o ts(T \ {x})
               IN ts(S)

PubSeqOf == [c \in Comps |-> SetToSeq(Public(c))]
IdxOf == [c \in Comps |-> [m \in Public(c) |-> CHOOSE i \in DOMAIN PubSeqOf[c] : PubSeqOf[c][i] = m]]
\* unordered pairs (m1 = m2 included): one orientation each
UPairsOf(c) == {p \in (Public(c) \X Public(c)) : IdxOf[c][p[1]] <= IdxOf[c][p[2]] /\ Conflict(p[1], p[2])}

\* (public method, probe point) for every "caller must hold the lock" helper on the method's path that has a probe point
ChokePairs(c) == UNION {{<<m, Probe(e.a)>> : e \in {x \in Range(FlatOf[m]) \cup Range(FlatAlt[m]) : x.k = "E" /\ Needs(x.a) # "none" /\ Probe(x.a) # "-"}} : m \in Public(c)}

Obligations(c) ==
  [comp     |-> c,
   classes  |-> ClassesOf(c),
   shapes   |-> Shapes,
   public   |-> PubSeqOf[c],
   blocking |-> SetToSeq({m \in Public(c) : Blocks(m)}),
   unjudged |-> SetToSeq(Unjudged \cap Public(c)),
   pairs    |-> SetToSeq(UPairsOf(c)),
   chokes   |-> SetToSeq(ChokePairs(c))]

Emit == \A c \in Comps : PrintT(<<"OBLIG", ToJson(Obligations(c))>>)
ASSUME EmitObligations => Emit
=============================================================================
