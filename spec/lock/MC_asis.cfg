\* the table as the code is at 0350f9b (no repair): TLC must report a violation (non-vacuity self-test)
SPECIFICATION Spec
CONSTANTS
  Threads = {"t1", "t2"}
  Fixed = {}
  JudgeHandedOut = TRUE
  OnlyComps = {}
  EmitObligations = FALSE
INVARIANTS TypeOK Lockset HelperGuard NoConcurrentConflict Balanced
CHECK_DEADLOCK FALSE
