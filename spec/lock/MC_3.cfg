\* thorough tier: three threads on the components with once / frozen / rw guards, waitgroup, collector and queue
\* (deque and set with three threads do not finish in the budget: two threads only, MC.cfg)
SPECIFICATION Spec
CONSTANTS
  Threads = {"t1", "t2", "t3"}
  Fixed = {"queue-distributor-len", "set-producer-lock", "set-equal-other", "collector-resolve-copy"}
  JudgeHandedOut = TRUE
  OnlyComps = {"once", "pool", "accessors.rw", "accessors", "wrap.Future.Limit", "wrap.Worker.Once", "wrap.Operation.Lock", "synchronized", "collector", "waitgroup", "queue"}
  EmitObligations = FALSE
INVARIANTS TypeOK Lockset HelperGuard NoConcurrentConflict Balanced
CHECK_DEADLOCK FALSE
