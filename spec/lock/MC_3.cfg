\* thorough tier: three threads, every component
SPECIFICATION Spec
CONSTANTS
  Threads = {"t1", "t2", "t3"}
  Fixed = {"queue-distributor-len", "set-producer-lock", "set-equal-other", "collector-resolve-copy"}
  JudgeHandedOut = FALSE
  OnlyComps = {}
  EmitObligations = FALSE
INVARIANTS TypeOK Lockset HelperGuard NoConcurrentConflict Balanced
CHECK_DEADLOCK FALSE
