\* the table with the proposed repairs: must satisfy the discipline (2 threads, every component)
SPECIFICATION Spec
CONSTANTS
  Threads = {"t1", "t2"}
  Fixed = {"queue-distributor-len", "set-producer-lock", "set-equal-other", "collector-resolve-copy"}
  JudgeHandedOut = TRUE
  OnlyComps = {}
  EmitObligations = TRUE
INVARIANTS TypeOK Lockset HelperGuard NoConcurrentConflict Balanced
CHECK_DEADLOCK FALSE
