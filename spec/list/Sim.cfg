SPECIFICATION Spec
CONSTANTS
  MaxElems = 8
  SetVals = {0, 3}
  Cmps = {"lt", "gt", "mod2", "div2"}
  Fam = {"push", "pop", "new", "append", "remove", "drop", "swap", "set", "extend", "copy", "json", "sort", "issorted", "innil"}
  Depth = 30
  Stride = 20
  EmitOps = {"*"}
INVARIANT Inv
INVARIANT SortInv
CONSTRAINT EmitAll
CHECK_DEADLOCK FALSE
