SPECIFICATION Spec
CONSTANTS
  MaxElems = 3
  SetVals = {0, 3}
  Cmps = {"lt", "gt", "mod2"}
  Fam = {"push", "pop", "new", "append", "remove", "drop", "swap", "set", "extend", "copy", "json", "sort", "issorted", "innil"}
  Depth = 12
  Stride = 1
  EmitOps = {"PushBack", "PushFront", "AppendMany", "NewElement", "PopFront", "PopBack", "Extend", "ExtendCopy", "JSONRound", "SortQuick", "SortMerge", "IsSorted", "In", "Remove", "Drop", "Set", "SetJSON"}
INVARIANT Inv
INVARIANT SortInv
VIEW view
ACTION_CONSTRAINT EmitEdge
CHECK_DEADLOCK FALSE
