SPECIFICATION Spec
CONSTANTS
  N = 3
  MaxTmp = 2
  MaxOps = 6
  AppendFixed = TRUE
  SwapFixed = FALSE
  SortMergeFixed = TRUE
INVARIANT Conform
INVARIANT AbsInv
CHECK_DEADLOCK FALSE
