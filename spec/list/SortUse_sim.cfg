SPECIFICATION Spec
CONSTANTS
  MaxElems = 6
  SetVals = {3}
  Cmps = {"lt", "gt", "mod2", "div2"}
  Fam = {"push", "pop", "remove", "sort", "issorted"}
  Depth = 12
  Stride = 6
  EmitOps = {"*"}
INVARIANT Inv
INVARIANT SortInv
CONSTRAINT EmitAll
CHECK_DEADLOCK FALSE
