SPECIFICATION Spec
CONSTANTS
  MaxItems = 4
  Fam = {"push", "pop", "new", "append", "remove", "json"}
  Depth = 4
  Stride = 1
  EmitOps = {"*"}
INVARIANT Inv
CONSTRAINT EmitAll
CHECK_DEADLOCK FALSE
