SPECIFICATION Spec
CONSTANTS
  MaxElems = 4
  SetVals = {0, 3}
  Cmps = {"lt", "gt", "mod2"}
  Fam = {"push", "pop", "new", "append", "remove", "drop", "swap", "set", "extend", "copy", "json", "sort", "issorted", "innil"}
  Depth = 2
  Stride = 1
  EmitOps = {"*"}
INVARIANT Inv
INVARIANT SortInv
CONSTRAINT EmitAll
CHECK_DEADLOCK FALSE
