SPECIFICATION Spec
CONSTANTS
  MaxItems = 4
  Fam = {"push", "pop", "new", "append", "remove", "json"}
  Depth = 12
  Stride = 1
  EmitOps = {"*"}
INVARIANT Inv
VIEW view
ACTION_CONSTRAINT EmitEdge
CHECK_DEADLOCK FALSE
