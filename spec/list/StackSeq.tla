------------------------------ MODULE StackSeq ------------------------------
(* Sequential meaning of dt.Stack (property C16, LIFO half): two stacks S and  *)
(* T as sequences of item identities, TOP FIRST, the value of every item ever  *)
(* created, and the handle pool (items, the two bottom sentinels, nil).        *)
(* Same shape as ListSeq: every action appends the operation, its arguments,   *)
(* the expected return value and the full expected state to `hist`;            *)
(* harness/cmd/vh-list (mode `stack`) replays on real dt.Stack objects and     *)
(* compares Head()..Next() walk, Iterator, MarshalJSON, Len, In, Ok, Value     *)
(* after every step and drains with PopIterator at the end.                    *)
(*                                                                             *)
(* Handles: k > 0 item k, 0 nil, -1 / -2 the sentinel at the bottom of S / T   *)
(* (what Head() returns for an empty stack).                                   *)
(*                                                                             *)
(* Readings: Item.Append(n) pushes n on top of the receiver's stack; the       *)
(* documentation ("after the following item") fixes the meaning only for the   *)
(* current head, so the receiver is the head of a stack (its top item, or the  *)
(* sentinel of an empty stack) or a detached item (rejected).  Detach/Attach   *)
(* and Item.Set are not among the operations C16 lists for Stack and are not   *)
(* judged.                                                                     *)
(***************************************************************************)
EXTENDS Integers, Sequences, FiniteSets, TLC, Json

CONSTANTS MaxItems, Fam, Depth, Stride, EmitOps

VARIABLES stacks, val, made, hist

vars == <<stacks, val, made, hist>>
view == <<stacks, val, made>>

ValSeq   == <<2, -1, 2, 0, 1, -1, 3, 0>>
ASSUME MaxItems <= Len(ValSeq)

Stacks   == {"S", "T"}
Other(X) == IF X = "S" THEN "T" ELSE "S"
SentOf(X) == IF X = "S" THEN -1 ELSE -2
Items    == 1..made
Name(h)  == IF h = 0 THEN "nil" ELSE IF h = -1 THEN "bS" ELSE IF h = -2 THEN "bT" ELSE "i" \o ToString(h)

Range(s)     == {s[i] : i \in 1..Len(s)}
Without(s,x) == SelectSeq(s, LAMBDA y : y # x)
StackOf(h) == IF h = -1 THEN "S" ELSE IF h = -2 THEN "T"
              ELSE IF h > 0 /\ h \in Range(stacks["S"]) THEN "S"
              ELSE IF h > 0 /\ h \in Range(stacks["T"]) THEN "T" ELSE "none"
\* the handle Head() returns
HeadOf(X) == IF stacks[X] = <<>> THEN SentOf(X) ELSE Head(stacks[X])

Proj(ns, nv, nm) == [S |-> ns["S"], T |-> ns["T"], val |-> [i \in 1..nm |-> nv[i]]]
Do(op, cs, a, iv, ret, ns, nv, nm) ==
    /\ stacks' = ns /\ val' = nv /\ made' = nm
    /\ hist' = Append(hist, [op |-> op, cs |-> cs, a |-> a, iv |-> iv, ret |-> ret] @@ Proj(ns, nv, nm))
Same(op, cs, a, iv, ret) == Do(op, cs, a, iv, ret, stacks, val, made)

Init == /\ stacks = [X \in Stacks |-> <<>>] /\ val = [i \in 1..MaxItems |-> 0] /\ made = 0 /\ hist = <<>>

Push(X) == /\ "push" \in Fam /\ made < MaxItems
           /\ LET n == made + 1 IN
              Do("Push", "ok", <<X>>, <<ValSeq[n]>>, "-", [stacks EXCEPT ![X] = <<n>> \o @], [val EXCEPT ![n] = ValSeq[n]], n)

\* s.Append(v1, v2): pushes v1, then v2
PushMany(X) == /\ "push" \in Fam /\ made + 2 <= MaxItems
               /\ LET n == made + 1  m == made + 2 IN
                  Do("PushMany", "ok", <<X>>, <<ValSeq[n], ValSeq[m]>>, "-",
                     [stacks EXCEPT ![X] = <<m, n>> \o @], [val EXCEPT ![n] = ValSeq[n], ![m] = ValSeq[m]], m)

NewItem == /\ "new" \in Fam /\ made < MaxItems
           /\ LET n == made + 1 IN Do("NewItem", "ok", <<>>, <<ValSeq[n]>>, Name(n), stacks, [val EXCEPT ![n] = ValSeq[n]], n)

\* Pop on an empty stack returns an item whose Ok() is false ("none")
Pop(X) == /\ "pop" \in Fam
          /\ IF stacks[X] = <<>> THEN Same("Pop", "empty", <<X>>, <<>>, "none")
             ELSE Do("Pop", "ok", <<X>>, <<>>, Name(Head(stacks[X])), [stacks EXCEPT ![X] = Tail(@)], val, made)

\* it.Append(n), receiver = head of a stack or a detached item
ItemAppend(it, n) ==
    /\ "append" \in Fam /\ it # 0
    /\ (IF StackOf(it) = "none" THEN TRUE ELSE it = HeadOf(StackOf(it)))
    /\ LET X == StackOf(it) IN
       IF X = "none"             THEN Same("Append", "rej-receiver-detached", <<Name(it), Name(n)>>, <<>>, Name(it))
       ELSE IF n = 0             THEN Same("Append", "rej-nil", <<Name(it), Name(n)>>, <<>>, Name(it))
       ELSE IF n < 0             THEN Same("Append", "rej-sentinel", <<Name(it), Name(n)>>, <<>>, Name(it))
       ELSE IF StackOf(n) = X    THEN Same("Append", "rej-owned-same-stack", <<Name(it), Name(n)>>, <<>>, Name(it))
       ELSE IF StackOf(n) # "none" THEN Same("Append", "rej-owned-other-stack", <<Name(it), Name(n)>>, <<>>, Name(it))
       ELSE Do("Append", IF it < 0 THEN "on-empty" ELSE "ok", <<Name(it), Name(n)>>, <<>>, Name(n),
               [stacks EXCEPT ![X] = <<n>> \o @], val, made)

\* it.Remove(), any handle incl. nil
ItemRemove(it) ==
    /\ "remove" \in Fam
    /\ IF it = 0 THEN Same("Remove", "rej-nil", <<Name(it)>>, <<>>, "false")
       ELSE IF it < 0 THEN Same("Remove", "rej-sentinel", <<Name(it)>>, <<>>, "false")
       ELSE IF StackOf(it) = "none" THEN Same("Remove", "rej-detached", <<Name(it)>>, <<>>, "false")
       ELSE LET X == StackOf(it) IN
            Do("Remove", IF it = Head(stacks[X]) THEN "head" ELSE IF it = stacks[X][Len(stacks[X])] THEN "bottom" ELSE "middle",
               <<Name(it)>>, <<>>, "true", [stacks EXCEPT ![X] = Without(@, it)], val, made)

\* X.UnmarshalJSON(Y.MarshalJSON()): new items with Y's values are pushed so that they appear,
\* in Y's order, above the old content of X
JSONRound(X, Y) ==
    /\ "json" \in Fam /\ made + Len(stacks[Y]) <= MaxItems
    /\ LET n   == Len(stacks[Y])
           new == [i \in 1..n |-> made + i]
       IN Do("JSONRound", IF n = 0 THEN "empty" ELSE IF X = Y THEN "self" ELSE "ok", <<X, Y>>,
             [i \in 1..n |-> val[stacks[Y][i]]], "-",
             [stacks EXCEPT ![X] = new \o @],
             [i \in 1..MaxItems |-> IF i > made /\ i <= made + n THEN val[stacks[Y][i - made]] ELSE val[i]],
             made + n)

Handles == Items \cup {0, -1, -2}

Step == \/ \E X \in Stacks : Push(X) \/ PushMany(X) \/ Pop(X) \/ \E Y \in Stacks : JSONRound(X, Y)
        \/ NewItem
        \/ \E it \in Handles : ItemRemove(it) \/ \E n \in Handles : ItemAppend(it, n)

Next == Len(hist) < Depth /\ Step
Spec == Init /\ [][Next]_vars

Inv == /\ made \in 0..MaxItems
       /\ \A X \in Stacks : Range(stacks[X]) \subseteq Items /\ Cardinality(Range(stacks[X])) = Len(stacks[X])
       /\ Range(stacks["S"]) \cap Range(stacks["T"]) = {}

\* (in -simulate mode TLC evaluates the constraint on every successor of the last state of a walk:
\*  Stride > 1 keeps a random 1/Stride of those)
EmitAll  == Len(hist) < Depth \/ (Stride > 1 /\ RandomElement(1..Stride) # 1) \/ PrintT(<<"BEH", ToJson(hist)>>)
\* Stride > 1 thins the edge cover to a random 1/Stride sample (quick tier; seeded by TLC's -seed);
\* EmitOps selects the operations whose edges are printed
EmitSel  == "*" \in EmitOps \/ hist'[Len(hist')].op \in EmitOps
EmitEdge == (~EmitSel) \/ (Stride > 1 /\ RandomElement(1..Stride) # 1) \/ PrintT(<<"BEH", ToJson(hist')>>)
=============================================================================
