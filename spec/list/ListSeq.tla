------------------------------ MODULE ListSeq ------------------------------
(* Sequential meaning of dt.List (property C16): two lists A and B as          *)
(* sequences of element identities, the value and Ok flag of every element     *)
(* ever created, and the handle pool  (every element ever returned, the two    *)
(* root sentinels, nil).  Every action is one public operation; it appends to  *)
(* `hist` a record with the operation, its handle / value arguments, the       *)
(* return value the real code must produce and the FULL projected state the    *)
(* real lists must then show (both lists as identity sequences, value and Ok   *)
(* of every element; Len and In(list) follow from the sequences).              *)
(* harness/cmd/vh-list replays every behaviour on real dt.List objects and     *)
(* compares after every step.                                                  *)
(*                                                                             *)
(* Handles are integers inside the spec:  k > 0 element k,  0 nil,             *)
(* -1 root of A, -2 root of B;  Name(h) is what the harness sees.              *)
(*                                                                             *)
(* Readings (DESIGN.md 5.0 / C16):                                             *)
(*  - a list is the ring  root, e1 .. en ; Swap exchanges two ring positions,  *)
(*    so swapping with the root rotates the list (documented "move the head"). *)
(*  - Append is rejected (returns the receiver, nothing changes) when the      *)
(*    argument is nil, not Ok, or owned by a list (incl. a root), or when the  *)
(*    receiver is not in a list.                                               *)
(*  - Set succeeds on every non-nil non-root element (UnmarshalJSON depends    *)
(*    on Set working for a detached element).                                  *)
(*  - SortMerge may produce any sorted permutation (C17), so it is offered     *)
(*    only where that permutation is unique (no two elements equivalent);      *)
(*    SortQuick must be stable and is offered everywhere.                      *)
(***************************************************************************)
EXTENDS Integers, Sequences, FiniteSets, TLC, Json

CONSTANTS MaxElems,   \* element identities are 1..MaxElems
          SetVals,    \* values written by Set
          Cmps,       \* comparator names, subset of {"lt","gt","mod2","div2"}
          Fam,        \* enabled operation families (sizes the configuration)
          Depth,
          Stride,     \* 1 = emit everything; k > 1: a random 1/k sample
          EmitOps     \* edge cover: print only edges whose operation is in this set ({"*"} = all), so that a
                      \* complete cover can be produced and replayed in several parts

VARIABLES lists, val, ok, made, hist

vars == <<lists, val, ok, made, hist>>
view == <<lists, val, ok, made>>

\* ValSeq[k] = value of the k-th element created by Push* / NewElement: duplicates, a negative
\* value first-but-one, zero (the sentinel's value) - a cfg file cannot hold a tuple
ValSeq   == <<2, -1, 2, 0, 1, -1, 3, 0>>
ASSUME MaxElems <= Len(ValSeq)

Lists    == {"A", "B"}
Other(L) == IF L = "A" THEN "B" ELSE "A"
RootOf(L) == IF L = "A" THEN -1 ELSE -2
Elems    == 1..made
Name(h)  == IF h = 0 THEN "nil" ELSE IF h = -1 THEN "rA" ELSE IF h = -2 THEN "rB" ELSE "e" \o ToString(h)

Range(s)   == {s[i] : i \in 1..Len(s)}
IdxOf(s,x) == CHOOSE i \in 1..Len(s) : s[i] = x
Without(s,x) == SelectSeq(s, LAMBDA y : y # x)
InsAfter(s,i,x) == SubSeq(s, 1, i) \o <<x>> \o SubSeq(s, i+1, Len(s))      \* i = 0: at the front

\* the list a handle belongs to ("none" for detached elements and nil)
ListOf(h) == IF h = -1 THEN "A" ELSE IF h = -2 THEN "B"
             ELSE IF h > 0 /\ h \in Range(lists["A"]) THEN "A"
             ELSE IF h > 0 /\ h \in Range(lists["B"]) THEN "B" ELSE "none"
\* position in its list, 0 for the root
PosOf(h) == IF h < 0 THEN 0 ELSE IdxOf(lists[ListOf(h)], h)

\* ------------------------------------------------------------- comparators
Key(c, x) == CASE c = "lt"   -> x
               [] c = "gt"   -> 0 - x
               [] c = "mod2" -> x % 2
               [] c = "div2" -> x \div 2
Less(c, x, y) == Key(c, x) < Key(c, y)
\* stable insertion sort of a sequence of element ids by the key of their values
InsSorted(s, e, c) == LET k == Cardinality({i \in 1..Len(s) : Key(c, val[s[i]]) <= Key(c, val[e])})
                      IN  InsAfter(s, k, e)
RECURSIVE StableSort(_, _, _)
StableSort(s, n, c) == IF n = 0 THEN <<>> ELSE InsSorted(StableSort(s, n-1, c), s[n], c)
SortedSeq(s, c) == \A i \in 1..(Len(s)-1) : ~Less(c, val[s[i+1]], val[s[i]])
DistinctKeys(s, c) == \A i, j \in 1..Len(s) : i # j => Key(c, val[s[i]]) # Key(c, val[s[j]])

\* ------------------------------------------------------------- bookkeeping
Proj(nl, nv, nk, nm) == [A |-> nl["A"], B |-> nl["B"],
                         val |-> [i \in 1..nm |-> nv[i]], ok |-> [i \in 1..nm |-> nk[i]]]

\* op: operation, cs: case label (diagnostics only), a: handle/list names, iv: integer args,
\* ret: expected return ("-" none, "true"/"false", a handle name, "none" = an element with Ok()=false (PopFront
\* on an empty list), "none-detached" = a non-nil element with Ok()=false that is in no list (PopBack, as documented))
Do(op, cs, a, iv, ret, nl, nv, nk, nm) ==
    /\ lists' = nl /\ val' = nv /\ ok' = nk /\ made' = nm
    /\ hist' = Append(hist, [op |-> op, cs |-> cs, a |-> a, iv |-> iv, ret |-> ret] @@ Proj(nl, nv, nk, nm))
Same(op, cs, a, iv, ret) == Do(op, cs, a, iv, ret, lists, val, ok, made)

Init == /\ lists = [L \in Lists |-> <<>>]
        /\ val = [i \in 1..MaxElems |-> 0] /\ ok = [i \in 1..MaxElems |-> FALSE]
        /\ made = 0 /\ hist = <<>>

\* ------------------------------------------------------------- list-level operations
PushBack(L) == /\ "push" \in Fam /\ made < MaxElems
               /\ LET n == made + 1 IN
                  Do("PushBack", "ok", <<L>>, <<ValSeq[n]>>, "-",
                     [lists EXCEPT ![L] = Append(@, n)], [val EXCEPT ![n] = ValSeq[n]], [ok EXCEPT ![n] = TRUE], n)

PushFront(L) == /\ "push" \in Fam /\ made < MaxElems
                /\ LET n == made + 1 IN
                   Do("PushFront", "ok", <<L>>, <<ValSeq[n]>>, "-",
                      [lists EXCEPT ![L] = <<n>> \o @], [val EXCEPT ![n] = ValSeq[n]], [ok EXCEPT ![n] = TRUE], n)

\* l.Append(v1, v2)
AppendMany(L) == /\ "push" \in Fam /\ made + 2 <= MaxElems
                 /\ LET n == made + 1  m == made + 2 IN
                    Do("AppendMany", "ok", <<L>>, <<ValSeq[n], ValSeq[m]>>, "-",
                       [lists EXCEPT ![L] = @ \o <<n, m>>],
                       [val EXCEPT ![n] = ValSeq[n], ![m] = ValSeq[m]], [ok EXCEPT ![n] = TRUE, ![m] = TRUE], m)

\* dt.NewElement(v): a detached, valid element
NewElement == /\ "new" \in Fam /\ made < MaxElems
              /\ LET n == made + 1 IN
                 Do("NewElement", "ok", <<>>, <<ValSeq[n]>>, Name(n),
                    lists, [val EXCEPT ![n] = ValSeq[n]], [ok EXCEPT ![n] = TRUE], n)

PopFront(L) == /\ "pop" \in Fam
               /\ IF lists[L] = <<>> THEN Same("PopFront", "empty", <<L>>, <<>>, "none")
                  ELSE Do("PopFront", "ok", <<L>>, <<>>, Name(Head(lists[L])),
                          [lists EXCEPT ![L] = Tail(@)], val, ok, made)

PopBack(L) == /\ "pop" \in Fam
              /\ IF lists[L] = <<>> THEN Same("PopBack", "empty", <<L>>, <<>>, "none-detached")
                 ELSE Do("PopBack", "ok", <<L>>, <<>>, Name(lists[L][Len(lists[L])]),
                         [lists EXCEPT ![L] = SubSeq(@, 1, Len(@)-1)], val, ok, made)

\* L.Extend(M), M # L : every element of M moves, in order, to the back of L
Extend(L) == /\ "extend" \in Fam
             /\ LET M == Other(L) IN
                Do("Extend", IF lists[M] = <<>> THEN "empty" ELSE "ok", <<L, M>>, <<>>, "-",
                   [lists EXCEPT ![L] = @ \o lists[M], ![M] = <<>>], val, ok, made)

\* L.Extend(M.Copy()) and  L.UnmarshalJSON(M.MarshalJSON()): new elements carrying M's values
\* are appended to L; M (possibly L itself) keeps its elements.
Clone(op, fam, L, M) ==
    /\ fam \in Fam /\ made + Len(lists[M]) <= MaxElems
    /\ LET n   == Len(lists[M])
           new == [i \in 1..n |-> made + i]
       IN Do(op, IF n = 0 THEN "empty" ELSE IF L = M THEN "self" ELSE "ok", <<L, M>>,
             [i \in 1..n |-> val[lists[M][i]]], "-",
             [lists EXCEPT ![L] = @ \o new],
             [i \in 1..MaxElems |-> IF i > made /\ i <= made + n THEN val[lists[M][i - made]] ELSE val[i]],
             [i \in 1..MaxElems |-> IF i > made /\ i <= made + n THEN TRUE ELSE ok[i]],
             made + n)
ExtendCopy(L, M) == Clone("ExtendCopy", "copy", L, M)
JSONRound(L, M)  == Clone("JSONRound", "json", L, M)

SortQuick(L, c) == /\ "sort" \in Fam /\ c \in Cmps
                   /\ Do("SortQuick", IF SortedSeq(lists[L], c) THEN "sorted" ELSE "unsorted", <<L, c>>, <<>>, "-",
                         [lists EXCEPT ![L] = StableSort(@, Len(@), c)], val, ok, made)

SortMerge(L, c) == /\ "sort" \in Fam /\ c \in Cmps /\ DistinctKeys(lists[L], c)
                   /\ Do("SortMerge", IF SortedSeq(lists[L], c) THEN "sorted" ELSE "unsorted", <<L, c>>, <<>>, "-",
                         [lists EXCEPT ![L] = StableSort(@, Len(@), c)], val, ok, made)

IsSorted(L, c) == /\ "issorted" \in Fam /\ c \in Cmps
                  /\ Same("IsSorted", "ok", <<L, c>>, <<>>, IF SortedSeq(lists[L], c) THEN "true" ELSE "false")

\* ------------------------------------------------------------- element-level operations
\* e.Append(f):  e any non-nil handle, f any handle
ElemAppend(e, f) ==
    /\ "append" \in Fam /\ e # 0
    /\ LET Le == ListOf(e) IN
       IF Le = "none"                 THEN Same("Append", "rej-receiver-detached", <<Name(e), Name(f)>>, <<>>, Name(e))
       ELSE IF f = 0                  THEN Same("Append", "rej-nil", <<Name(e), Name(f)>>, <<>>, Name(e))
       ELSE IF f = e                  THEN Same("Append", "rej-self", <<Name(e), Name(f)>>, <<>>, Name(e))
       ELSE IF f < 0                  THEN Same("Append", "rej-root", <<Name(e), Name(f)>>, <<>>, Name(e))
       ELSE IF ListOf(f) = Le         THEN Same("Append", "rej-owned-same-list", <<Name(e), Name(f)>>, <<>>, Name(e))
       ELSE IF ListOf(f) # "none"     THEN Same("Append", "rej-owned-other-list", <<Name(e), Name(f)>>, <<>>, Name(e))
       ELSE IF ~ok[f]                 THEN Same("Append", "rej-not-ok", <<Name(e), Name(f)>>, <<>>, Name(e))
       ELSE Do("Append", IF e < 0 THEN "after-root" ELSE "ok", <<Name(e), Name(f)>>, <<>>, Name(f),
               [lists EXCEPT ![Le] = InsAfter(@, PosOf(e), f)], val, ok, made)

\* e.Remove()
ElemRemove(e) ==
    /\ "remove" \in Fam /\ e # 0
    /\ IF e < 0 THEN Same("Remove", "rej-root", <<Name(e)>>, <<>>, "false")
       ELSE IF ListOf(e) = "none" THEN Same("Remove", "rej-detached", <<Name(e)>>, <<>>, "false")
       ELSE Do("Remove", "ok", <<Name(e)>>, <<>>, "true",
               [lists EXCEPT ![ListOf(e)] = Without(@, e)], val, ok, made)

\* e.Drop(): Remove and, if that succeeded, forget the value and clear Ok
ElemDrop(e) ==
    /\ "drop" \in Fam /\ e # 0
    /\ IF e < 0 THEN Same("Drop", "rej-root", <<Name(e)>>, <<>>, "-")
       ELSE IF ListOf(e) = "none" THEN Same("Drop", "rej-detached", <<Name(e)>>, <<>>, "-")
       ELSE Do("Drop", "ok", <<Name(e)>>, <<>>, "-",
               [lists EXCEPT ![ListOf(e)] = Without(@, e)], [val EXCEPT ![e] = 0], [ok EXCEPT ![e] = FALSE], made)

\* e.Swap(f) on the ring root, e1..en
SwapRing(L, e, f) ==
    LET r  == <<RootOf(L)>> \o lists[L]
        i  == IdxOf(r, e)
        j  == IdxOf(r, f)
        s  == [k \in 1..Len(r) |-> IF k = i THEN r[j] ELSE IF k = j THEN r[i] ELSE r[k]]
        p  == IdxOf(s, RootOf(L))
    IN  SubSeq(s, p+1, Len(s)) \o SubSeq(s, 1, p-1)
Dist(L, e, f) == LET n == Len(lists[L]) + 1
                     d == (PosOf(e) - PosOf(f)) % n
                 IN  IF d = 1 \/ d = n - 1 THEN "adjacent" ELSE "far"
ElemSwap(e, f) ==
    /\ "swap" \in Fam
    /\ IF e = 0 \/ f = 0 THEN Same("Swap", "rej-nil", <<Name(e), Name(f)>>, <<>>, "false")
       ELSE IF e = f THEN Same("Swap", "rej-self", <<Name(e), Name(f)>>, <<>>, "false")
       ELSE IF ListOf(e) = "none" \/ ListOf(f) = "none" THEN Same("Swap", "rej-detached", <<Name(e), Name(f)>>, <<>>, "false")
       ELSE IF ListOf(e) # ListOf(f) THEN Same("Swap", "rej-across-lists", <<Name(e), Name(f)>>, <<>>, "false")
       ELSE LET L == ListOf(e) IN
            Do("Swap", (IF e < 0 \/ f < 0 THEN "root-" ELSE "") \o Dist(L, e, f), <<Name(e), Name(f)>>, <<>>, "true",
               [lists EXCEPT ![L] = SwapRing(L, e, f)], val, ok, made)

\* e.Set(v)  (op "Set")  and  e.UnmarshalJSON(v)  (op "SetJSON", no return value)
ElemSet(op, e, v) ==
    /\ "set" \in Fam
    /\ LET ret(b) == IF op = "Set" THEN b ELSE "-" IN
       IF e = 0 THEN Same(op, "rej-nil", <<Name(e)>>, <<v>>, ret("false"))
       ELSE IF e < 0 THEN Same(op, "rej-root", <<Name(e)>>, <<v>>, ret("false"))
       ELSE Do(op, IF ListOf(e) = "none" THEN "detached" ELSE "ok", <<Name(e)>>, <<v>>, ret("true"),
               lists, [val EXCEPT ![e] = v], [ok EXCEPT ![e] = TRUE], made)

\* (*Element)(nil).In(L): documented to return false
InNil(L) == /\ "innil" \in Fam /\ Same("In", "nil-receiver", <<"nil", L>>, <<>>, "false")

Handles == Elems \cup {0, -1, -2}

Step == \/ \E L \in Lists : \/ PushBack(L) \/ PushFront(L) \/ AppendMany(L) \/ PopFront(L) \/ PopBack(L)
                            \/ Extend(L) \/ InNil(L)
                            \/ \E M \in Lists : ExtendCopy(L, M) \/ JSONRound(L, M)
                            \/ \E c \in Cmps : SortQuick(L, c) \/ SortMerge(L, c) \/ IsSorted(L, c)
        \/ NewElement
        \/ \E e \in Handles : \/ ElemRemove(e) \/ ElemDrop(e)
                              \/ \E f \in Handles : ElemAppend(e, f) \/ ElemSwap(e, f)
                              \/ \E v \in SetVals : ElemSet("Set", e, v) \/ ElemSet("SetJSON", e, v)

Next == Len(hist) < Depth /\ Step
Spec == Init /\ [][Next]_vars

\* ------------------------------------------------------------- sanity of the model
Inv == /\ made \in 0..MaxElems
       /\ \A L \in Lists : Range(lists[L]) \subseteq Elems
       /\ \A L \in Lists : Cardinality(Range(lists[L])) = Len(lists[L])          \* no element twice in a list
       /\ Range(lists["A"]) \cap Range(lists["B"]) = {}                          \* each element in at most one list
       /\ \A e \in Elems : ListOf(e) # "none" => ok[e]                           \* listed elements are Ok
       /\ \A e \in (1..MaxElems) \ Elems : ~ok[e] /\ val[e] = 0

\* after a sort step the list is sorted, a permutation, and (both) stable
SortInv == hist # <<>> /\ hist[Len(hist)].op \in {"SortQuick", "SortMerge"} =>
             LET L == hist[Len(hist)].a[1]  c == hist[Len(hist)].a[2] IN SortedSeq(lists[L], c)

\* (in -simulate mode TLC evaluates the constraint on every successor of the last state of a walk:
\*  Stride > 1 keeps a random 1/Stride of those)
EmitAll  == Len(hist) < Depth \/ (Stride > 1 /\ RandomElement(1..Stride) # 1) \/ PrintT(<<"BEH", ToJson(hist)>>)
\* Stride > 1 thins the edge cover to a random 1/Stride sample (quick tier; seeded by TLC's -seed);
\* EmitOps selects the operations whose edges are printed
EmitSel  == "*" \in EmitOps \/ hist'[Len(hist')].op \in EmitOps
EmitEdge == (~EmitSel) \/ (Stride > 1 /\ RandomElement(1..Stride) # 1) \/ PrintT(<<"BEH", ToJson(hist')>>)
=============================================================================
