SPECIFICATION Spec
CONSTANTS
  MaxElems = 4
  SetVals = {3}
  Cmps = {"lt", "mod2"}
  Fam = {"push", "pop", "new", "append", "remove", "drop", "swap", "set", "extend", "copy", "json", "sort", "issorted", "innil"}
  Depth = 14
  Stride = 20
  EmitOps = {"*"}
INVARIANT Inv
INVARIANT SortInv
VIEW view
ACTION_CONSTRAINT EmitEdge
CHECK_DEADLOCK FALSE
