------------------------------ MODULE ListImpl ------------------------------
(* Implementation-shaped model of dt.List (dt/list.go, dt/cmp.go SortMerge):   *)
(* cells with next / prev / list (owner) / ok fields, one root sentinel per    *)
(* list, a length per list - and, carried along in lock step, the sequence     *)
(* model of ListSeq (`abs`).  The invariant Conform is the refinement link     *)
(* that the conformance harness checks on the real code after every step:      *)
(* forward walk = reversed backward walk = abs, both end at the root, length,  *)
(* ownership.                                                                  *)
(*                                                                             *)
(* The code is transcribed AS IT IS; BOOLEAN constants select the repairs      *)
(* proposed in /verif/fixes (rule 5 of BUILDING.md):                           *)
(*   AppendFixed     appendable() also requires new.list == nil                *)
(*                   (fixes/list-append-owned.diff)                            *)
(*   SwapFixed       Swap keeps a POINTER to with.prev and handles the         *)
(*                   adjacent case, instead of appending to a struct COPY      *)
(*                   `wprev := *with.prev`  (no diff shipped: the repository's *)
(*                   own test demands the broken result - known finding)       *)
(*   SortMergeFixed  the merged elements are moved back into l instead of      *)
(*                   `*l = *merged` (fixes/list-sortmerge-ownership.diff)      *)
(* Impl_fixed.cfg: all TRUE, Conform holds.  Impl_asis_*.cfg: one constant     *)
(* FALSE each, TLC must report Conform violated (non-vacuity self-tests, and   *)
(* the model-level demonstration of the three defects).                        *)
(***************************************************************************)
EXTENDS Integers, Sequences, FiniteSets, TLC

CONSTANTS N,          \* elements are cells 1..N
          MaxTmp,     \* temporary cells: struct copies made by the as-is Swap, roots of merged lists
          MaxOps,     \* operations per behaviour
          AppendFixed, SwapFixed, SortMergeFixed

VARIABLES nxt, prv, own, okf, len, rootp, made, tmps, abs, crashed, nops

vars == <<nxt, prv, own, okf, len, rootp, made, tmps, abs, crashed, nops>>

Lists  == {"A", "B"}
Roots  == {-1, -2}
Tmps   == {100 + i : i \in 1..MaxTmp}
Cells  == (1..N) \cup Roots \cup Tmps
ValSeq == <<2, -1, 2, 0, 1, -1, 3, 0>>
ASSUME N <= Len(ValSeq)
Val(e) == ValSeq[e]

Range(s)     == {s[i] : i \in 1..Len(s)}
IdxOf(s, x)  == CHOOSE i \in 1..Len(s) : s[i] = x
Without(s,x) == SelectSeq(s, LAMBDA y : y # x)
InsAfter(s, i, x) == SubSeq(s, 1, i) \o <<x>> \o SubSeq(s, i+1, Len(s))

\* ------------------------------------------------------------- the pointer state as a value
St == [nxt |-> nxt, prv |-> prv, own |-> own, len |-> len]

\* uncheckedAppend: e.list.length++; new.list = e.list; new.prev = e; new.next = e.next;
\*                  new.prev.next = new; new.next.prev = new
UA(s, e, n) == LET L  == s.own[e]
                   s1 == [s  EXCEPT !.len[L] = @ + 1, !.own[n] = L, !.prv[n] = e, !.nxt[n] = s.nxt[e]]
                   s2 == [s1 EXCEPT !.nxt[s1.prv[n]] = n]
               IN  [s2 EXCEPT !.prv[s2.nxt[n]] = n]
\* uncheckedRemove: e.list.length--; e.prev.next = e.next; e.next.prev = e.prev; e.list = nil
UR(s, e)    == LET L  == s.own[e]
                   s1 == [s  EXCEPT !.len[L] = @ - 1]
                   s2 == [s1 EXCEPT !.nxt[s1.prv[e]] = s1.nxt[e]]
                   s3 == [s2 EXCEPT !.prv[s2.nxt[e]] = s2.prv[e]]
               IN  [s3 EXCEPT !.own[e] = "none"]

Set(s) == /\ nxt' = s.nxt /\ prv' = s.prv /\ own' = s.own /\ len' = s.len

\* ------------------------------------------------------------- the abstract side (as in ListSeq)
AbsListOf(h) == IF h = -1 THEN "A" ELSE IF h = -2 THEN "B"
                ELSE IF h \in Range(abs["A"]) THEN "A" ELSE IF h \in Range(abs["B"]) THEN "B" ELSE "none"
AbsPos(h) == IF h < 0 THEN 0 ELSE IdxOf(abs[AbsListOf(h)], h)
AbsRoot(L) == IF L = "A" THEN -1 ELSE -2
SwapRing(L, e, f) ==
    LET r == <<AbsRoot(L)>> \o abs[L]
        i == IdxOf(r, e)
        j == IdxOf(r, f)
        s == [k \in 1..Len(r) |-> IF k = i THEN r[j] ELSE IF k = j THEN r[i] ELSE r[k]]
        p == IdxOf(s, AbsRoot(L))
    IN  SubSeq(s, p+1, Len(s)) \o SubSeq(s, 1, p-1)
InsSorted(s, e) == LET k == Cardinality({i \in 1..Len(s) : Val(s[i]) <= Val(e)}) IN InsAfter(s, k, e)
RECURSIVE StableSort(_, _)
StableSort(s, n) == IF n = 0 THEN <<>> ELSE InsSorted(StableSort(s, n-1), s[n])

Init == /\ nxt = [c \in Cells |-> IF c \in Roots THEN c ELSE 0]
        /\ prv = [c \in Cells |-> IF c \in Roots THEN c ELSE 0]
        /\ own = [c \in Cells |-> IF c = -1 THEN "A" ELSE IF c = -2 THEN "B" ELSE "none"]
        /\ okf = [c \in Cells |-> FALSE]
        /\ len = [L \in {"A", "B", "T"} |-> 0]
        /\ rootp = [L \in Lists |-> AbsRoot(L)]
        /\ made = 0 /\ tmps = 0 /\ abs = [L \in Lists |-> <<>>] /\ crashed = FALSE /\ nops = 0

Tick == nops' = nops + 1 /\ UNCHANGED crashed
Keep == UNCHANGED <<made, tmps, rootp, okf>>

\* ------------------------------------------------------------- operations
\* Element.Append(new) with its guard
ImplAppend(s, e, f) == IF f # 0 /\ okf[f] /\ s.own[e] # "none" /\ (AppendFixed => s.own[f] = "none")
                       THEN UA(s, e, f) ELSE s

Push(L, back) ==
    /\ made < N
    /\ LET n == made + 1
           r == rootp[L]
           s == [St EXCEPT !.own[n] = "none"]
       IN  /\ Set(UA(s, IF back THEN prv[r] ELSE r, n))         \* makeElem is valid and unowned: the guard passes
           /\ okf' = [okf EXCEPT ![n] = TRUE] /\ made' = n
           /\ abs' = [abs EXCEPT ![L] = IF back THEN Append(@, n) ELSE <<n>> \o @]
    /\ UNCHANGED <<tmps, rootp>> /\ Tick

\* pop(it): removable(it) /\ it.list == l
Pop(L, back) ==
    /\ LET r  == rootp[L]
           it == IF back THEN prv[r] ELSE nxt[r]
           can == own[it] # "none" /\ (own[it] \in Lists => rootp[own[it]] # it) /\ len[own[it]] > 0 /\ own[it] = L
       IN  /\ Set(IF can THEN UR(St, it) ELSE St)
           /\ abs' = IF abs[L] = <<>> THEN abs
                     ELSE [abs EXCEPT ![L] = IF back THEN SubSeq(@, 1, Len(@)-1) ELSE Tail(@)]
    /\ Keep /\ Tick

ElemAppend(e, f) ==
    /\ e \in (1..made) \cup Roots /\ f \in (1..made) \cup Roots \cup {0}
    /\ Set(ImplAppend(St, e, f))
    /\ abs' = IF AbsListOf(e) # "none" /\ f > 0 /\ AbsListOf(f) = "none" /\ okf[f]
              THEN [abs EXCEPT ![AbsListOf(e)] = InsAfter(@, AbsPos(e), f)] ELSE abs
    /\ Keep /\ Tick

\* Element.Remove(): removable = e.list # nil /\ e.list.root # e /\ e.list.length > 0
Remove(e) ==
    /\ e \in (1..made) \cup Roots
    /\ LET can == own[e] # "none" /\ (own[e] \in Lists => rootp[own[e]] # e) /\ len[own[e]] > 0
       IN  Set(IF can THEN UR(St, e) ELSE St)
    /\ abs' = IF e > 0 /\ AbsListOf(e) # "none" THEN [abs EXCEPT ![AbsListOf(e)] = Without(@, e)] ELSE abs
    /\ Keep /\ Tick

\* Element.Swap(with)
Swap(e, w) ==
    /\ e \in (1..made) \cup Roots /\ w \in (1..made) \cup Roots
    /\ LET eligible == own[e] # "none" /\ own[e] = own[w] /\ e # w IN
       IF ~eligible THEN Set(St) /\ UNCHANGED tmps
       ELSE IF SwapFixed
            THEN LET p  == prv[w]
                     s1 == UA(UR(St, w), UR(St, w).prv[e], w)
                 IN  /\ Set(IF p = e THEN s1 ELSE UA(UR(s1, e), p, e))
                     /\ UNCHANGED tmps
            ELSE /\ tmps < MaxTmp                                     \* wprev := *with.prev  (a COPY of the neighbour)
                 /\ LET c  == 100 + tmps + 1
                        p  == prv[w]
                        s0 == [St EXCEPT !.nxt[c] = nxt[p], !.prv[c] = prv[p], !.own[c] = own[p]]
                        s1 == UR(s0, w)                               \* with.uncheckedRemove()
                        s2 == UA(s1, s1.prv[e], w)                    \* e.prev.uncheckedAppend(with)
                        s3 == UR(s2, e)                               \* e.uncheckedRemove()
                    IN  /\ Set(UA(s3, c, e))                          \* wprev.uncheckedAppend(e)
                        /\ tmps' = tmps + 1
    /\ okf' = IF SwapFixed \/ ~(own[e] # "none" /\ own[e] = own[w] /\ e # w) THEN okf
              ELSE [okf EXCEPT ![100 + tmps + 1] = okf[prv[w]]]       \* the copy copies the ok flag too
    /\ abs' = IF AbsListOf(e) # "none" /\ AbsListOf(e) = AbsListOf(w) /\ e # w
              THEN [abs EXCEPT ![AbsListOf(e)] = SwapRing(AbsListOf(e), e, w)] ELSE abs
    /\ UNCHANGED <<made, rootp>> /\ Tick

\* List.SortMerge(lt), taken as one step: the merge moves every element into a fresh list `out`
\* (a new root, owner "T") in sorted order and leaves l empty; as shipped `*l = *out` then copies
\* root pointer and length, so the elements stay owned by out; fixed: l.Extend(out) re-owns them.
SortMerge(L) ==
    /\ Len(abs[L]) >= 2
    /\ LET srt == StableSort(abs[L], Len(abs[L]))
           n   == Len(srt)
       IN IF SortMergeFixed
          THEN LET r    == rootp[L]
                   ring == <<r>> \o srt
                   at(k) == ring[((k - 1) % (n + 1)) + 1]
               IN /\ nxt' = [c \in Cells |-> IF c \in Range(ring) THEN at(IdxOf(ring, c) + 1) ELSE nxt[c]]
                  /\ prv' = [c \in Cells |-> IF c \in Range(ring) THEN at(IdxOf(ring, c) + n) ELSE prv[c]]
                  /\ UNCHANGED <<own, len, rootp, tmps, okf>>
          ELSE /\ tmps < MaxTmp
               /\ LET t    == 100 + tmps + 1
                      old  == rootp[L]
                      ring == <<t>> \o srt
                      at(k) == ring[((k - 1) % (n + 1)) + 1]
                  IN /\ nxt' = [c \in Cells |-> IF c \in Range(ring) THEN at(IdxOf(ring, c) + 1) ELSE IF c = old THEN old ELSE nxt[c]]
                     /\ prv' = [c \in Cells |-> IF c \in Range(ring) THEN at(IdxOf(ring, c) + n) ELSE IF c = old THEN old ELSE prv[c]]
                     /\ own' = [c \in Cells |-> IF c \in Range(ring) THEN "T" ELSE own[c]]
                     /\ len' = [len EXCEPT !["T"] = n]                 \* len[L] keeps n: copied from out
                     /\ rootp' = [rootp EXCEPT ![L] = t]
                     /\ tmps' = tmps + 1 /\ UNCHANGED okf
    /\ abs' = [abs EXCEPT ![L] = StableSort(@, Len(@))]
    /\ UNCHANGED made /\ Tick

Step == \/ \E L \in Lists : \E b \in BOOLEAN : Push(L, b) \/ Pop(L, b)
        \/ \E L \in Lists : SortMerge(L)
        \/ \E e \in Cells \cup {0} : \E f \in Cells \cup {0} : ElemAppend(e, f) \/ Swap(e, f)
        \/ \E e \in Cells : Remove(e)

Next == nops < MaxOps /\ ~crashed /\ Step
Spec == Init /\ [][Next]_vars

\* ------------------------------------------------------------- the refinement link
RECURSIVE Walk(_, _, _, _)
\* follow f from cell c while the cell is a valid (ok) element, at most k steps: <<cells, where it ended>>
Walk(f, c, k, acc) == IF k = 0 \/ c = 0 \/ ~okf[c] THEN <<acc, c>> ELSE Walk(f, f[c], k - 1, Append(acc, c))
Rev(s) == [i \in 1..Len(s) |-> s[Len(s) + 1 - i]]

Conform ==
    /\ ~crashed
    /\ \A L \in Lists :
         LET fw == Walk(nxt, nxt[rootp[L]], N + 3, <<>>)
             bw == Walk(prv, prv[rootp[L]], N + 3, <<>>)
         IN /\ fw[1] = abs[L] /\ fw[2] = rootp[L]                       \* Front()..Next()
            /\ Rev(bw[1]) = abs[L] /\ bw[2] = rootp[L]                  \* Back()..Previous(), reversed
            /\ len[L] = Len(abs[L])                                     \* Len()
    /\ \A e \in 1..made : own[e] = AbsListOf(e)                         \* In(list)
    /\ \A L \in Lists : rootp[L] = AbsRoot(L)                           \* a root handle stays the list's root

AbsInv == /\ Range(abs["A"]) \cap Range(abs["B"]) = {}
          /\ \A L \in Lists : Cardinality(Range(abs[L])) = Len(abs[L]) /\ Range(abs[L]) \subseteq 1..made
=============================================================================
