#!/usr/bin/env python3
"""Regenerates the ListSeq / StackSeq cfg files of this directory (they are committed; this is only
the one place where their parameters are written down)."""
FULL = '{"push", "pop", "new", "append", "remove", "drop", "swap", "set", "extend", "copy", "json", "sort", "issorted", "innil"}'
ALL = '{"*"}'


def lcfg(name, maxe, setv, cmps, fam, depth, stride, mode, ops=ALL):
    body = ("SPECIFICATION Spec\nCONSTANTS\n  MaxElems = %d\n  SetVals = %s\n  Cmps = %s\n  Fam = %s\n  Depth = %d\n"
            "  Stride = %d\n  EmitOps = %s\nINVARIANT Inv\nINVARIANT SortInv\n" % (maxe, setv, cmps, fam, depth, stride, ops))
    body += ("VIEW view\nACTION_CONSTRAINT EmitEdge\n" if mode == "edge" else "CONSTRAINT EmitAll\n") + "CHECK_DEADLOCK FALSE\n"
    open(name, "w").write(body)


def scfg(name, maxi, depth, stride, mode):
    body = ('SPECIFICATION Spec\nCONSTANTS\n  MaxItems = %d\n  Fam = {"push", "pop", "new", "append", "remove", "json"}\n'
            "  Depth = %d\n  Stride = %d\n  EmitOps = %s\nINVARIANT Inv\n" % (maxi, depth, stride, ALL))
    body += ("VIEW view\nACTION_CONSTRAINT EmitEdge\n" if mode == "edge" else "CONSTRAINT EmitAll\n") + "CHECK_DEADLOCK FALSE\n"
    open(name, "w").write(body)


C3 = '{"lt", "gt", "mod2"}'
C2 = '{"lt", "mod2"}'
HANDLE2 = '{"Append", "Swap"}'                      # the operations taking two handles: about half of all edges
REST = ('{"PushBack", "PushFront", "AppendMany", "NewElement", "PopFront", "PopBack", "Extend", "ExtendCopy", "JSONRound", '
        '"SortQuick", "SortMerge", "IsSorted", "In", "Remove", "Drop", "Set", "SetJSON"}')
lcfg("Edge_q.cfg", 3, "{3}", C2, FULL, 12, 4, "edge")                     # quick: random quarter of the 3-element edge cover
lcfg("Edge_3a.cfg", 3, "{0, 3}", C3, FULL, 12, 1, "edge", HANDLE2)        # thorough: the complete 3-element edge cover, part 1
lcfg("Edge_3b.cfg", 3, "{0, 3}", C3, FULL, 12, 1, "edge", REST)           #           ... part 2
lcfg("Edge_4.cfg", 4, "{3}", C2, FULL, 14, 20, "edge")                    # thorough: 1/20 of the 4-element edge cover
lcfg("All_d2.cfg", 4, "{0, 3}", C3, FULL, 2, 1, "all")
lcfg("All_d3.cfg", 4, "{3}", C2, '{"push", "pop", "new", "append", "remove", "drop", "swap", "set", "extend", "copy", "sort"}', 3, 1, "all")
lcfg("Sim.cfg", 8, "{0, 3}", '{"lt", "gt", "mod2", "div2"}', FULL, 30, 20, "all")
lcfg("SortUse_sim.cfg", 6, "{3}", '{"lt", "gt", "mod2", "div2"}', '{"push", "pop", "remove", "sort", "issorted"}', 12, 6, "all")   # C17
lcfg("SortUse_all.cfg", 4, "{3}", C2, '{"push", "pop", "sort"}', 4, 1, "all")                                                      # C17
scfg("Stack_edge.cfg", 4, 12, 1, "edge")
scfg("Stack_edge_q.cfg", 4, 12, 3, "edge")
scfg("Stack_all.cfg", 4, 4, 1, "all")
scfg("Stack_all_d3.cfg", 4, 3, 1, "all")
scfg("Stack_sim.cfg", 8, 30, 8, "all")
