SPECIFICATION Spec
CONSTANTS
  N = 4
  MaxTmp = 2
  MaxOps = 8
  AppendFixed = TRUE
  SwapFixed = TRUE
  SortMergeFixed = TRUE
INVARIANT Conform
INVARIANT AbsInv
CHECK_DEADLOCK FALSE
