SPECIFICATION Spec
CONSTANTS
  N = 3
  MaxTmp = 2
  MaxOps = 6
  AppendFixed = TRUE
  SwapFixed = TRUE
  SortMergeFixed = TRUE
INVARIANT Conform
INVARIANT AbsInv
CHECK_DEADLOCK FALSE
