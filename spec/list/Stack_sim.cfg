SPECIFICATION Spec
CONSTANTS
  MaxItems = 8
  Fam = {"push", "pop", "new", "append", "remove", "json"}
  Depth = 30
  Stride = 8
  EmitOps = {"*"}
INVARIANT Inv
CONSTRAINT EmitAll
CHECK_DEADLOCK FALSE
