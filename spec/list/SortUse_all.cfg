SPECIFICATION Spec
CONSTANTS
  MaxElems = 4
  SetVals = {3}
  Cmps = {"lt", "mod2"}
  Fam = {"push", "pop", "sort"}
  Depth = 4
  Stride = 1
  EmitOps = {"*"}
INVARIANT Inv
INVARIANT SortInv
CONSTRAINT EmitAll
CHECK_DEADLOCK FALSE
