SPECIFICATION Spec
CONSTANTS
  Shapes <- ShapesOffPow
  CandKind = "ends"
  Mode = "merge"
  Windows = {0, 2}
  MaxTotal = 6
  Depth = 3
  BoundaryFixed = TRUE
INVARIANT Inv
INVARIANT InvRange
INVARIANT Laws
VIEW view
ACTION_CONSTRAINT EmitEdge
CHECK_DEADLOCK FALSE
