SPECIFICATION Spec
CONSTANTS
  Shapes <- ShapesExh
  CandKind = "core"
  Mode = "canon"
  Windows = {0}
  MaxTotal = 4
  Depth = 4
  BoundaryFixed = TRUE
INVARIANT Inv
INVARIANT InvRange
INVARIANT LawsStatic
CONSTRAINT EmitAll
CHECK_DEADLOCK FALSE
