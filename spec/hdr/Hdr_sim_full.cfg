SPECIFICATION SimSpec
CONSTANTS
  Shapes <- ShapesExh
  CandKind = "core"
  Mode = "full"
  Windows = {0, 0, 2, 3}
  MaxTotal = 12
  Depth = 8
  BoundaryFixed = TRUE
INVARIANT Inv
INVARIANT InvRange
INVARIANT LawsStatic
CHECK_DEADLOCK FALSE
