SPECIFICATION Spec
CONSTANTS
  Shapes <- ShapesBoundary
  CandKind = "core"
  Mode = "full"
  Windows = {0, 2}
  MaxTotal = 8
  Depth = 3
  BoundaryFixed = TRUE
INVARIANT Inv
INVARIANT InvRange
INVARIANT Laws
VIEW view
ACTION_CONSTRAINT EmitEdge
CHECK_DEADLOCK FALSE
