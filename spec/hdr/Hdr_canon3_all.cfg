SPECIFICATION Spec
CONSTANTS
  Shapes <- ShapesExh
  CandKind = "all"
  Mode = "canon"
  Windows = {0}
  MaxTotal = 3
  Depth = 3
  BoundaryFixed = TRUE
INVARIANT Inv
INVARIANT InvRange
CONSTRAINT EmitAll
CHECK_DEADLOCK FALSE
