SPECIFICATION Spec
CONSTANTS
  Shapes <- ShapesExh
  CandKind = "all"
  Mode = "canon"
  Windows = {0}
  MaxTotal = 3
  Depth = 3
  BoundaryFixed = TRUE
INVARIANT Inv
INVARIANT InvRange
INVARIANT Laws
CONSTRAINT EmitAll
CHECK_DEADLOCK FALSE
