------------------------------- MODULE Hdr -------------------------------
(* HDR histogram (dt/hdrhist, property C19).                                *)
(*                                                                          *)
(* Two things live here.                                                    *)
(* 1. The bucket geometry of hdr.go transcribed with integer arithmetic     *)
(*    only (unit magnitude, sub-bucket count 2^ceil(log2(2*10^sf)), bucket  *)
(*    index through the bit length, sub-bucket index, counts index, lowest/ *)
(*    highest equivalent value), the `counts` array it induces, and the     *)
(*    cumulative walk that answers a quantile.  TLC checks on it that the   *)
(*    DESIGN satisfies the property (invariants below).  BoundaryFixed      *)
(*    selects the code as it is (FALSE: `for smallest < max`) or with the   *)
(*    proposed repair (TRUE: `<=`); MC_asis.cfg must violate IndexInRange.  *)
(* 2. The property-level oracle that is independent of that geometry's      *)
(*    walk: the recorded multiset kept as a sorted sequence; the r-th order *)
(*    statistic is simply its r-th entry.  `hist` records every call with   *)
(*    the expected TotalCount, the sorted multiset, and for every rank the  *)
(*    admissible interval of ValueAtQuantile(100 r / total):                *)
(*        exact <= Q,   Q - exact < bucket width at exact   (hi)            *)
(*        Q - exact <= max(2^floor(log2 min), exact / 10^sf) (prec)         *)
(*    Min / Max brackets likewise; Export/Import, Merge into an empty       *)
(*    histogram give Equal histograms with nothing dropped; recording an    *)
(*    in-range value never fails.  harness/cmd/vh-hdr replays each          *)
(*    behaviour on a real Histogram.                                        *)
(* 3. Large magnitudes.  TLC integers are 32-bit, the library's are 64-bit. *)
(*    The geometry is invariant under two transformations, stated below as  *)
(*    ScaleLaw (the whole shape and every value times 2^c: unit magnitude   *)
(*    + c, same counts indices) and LiftLaw (max times 2^k, every value at  *)
(*    or above the upper half of bucket 0 times 2^k: bucket index + k, same *)
(*    sub-bucket), with TransExpect the induced transformation of the       *)
(*    expectations.  TLC checks both laws for every shape and candidate     *)
(*    value of the cfgs and ExpectLaw in every reachable state, for all     *)
(*    k + c in 1..3 that keep the model below 2^30.  vh-hdr replays the     *)
(*    same behaviours at (k, c) up to max * 2^(k+c) < 2^61 and judges them  *)
(*    with TransExpect.                                                     *)
(***************************************************************************)
EXTENDS Integers, Sequences, FiniteSets, TLC, Json

CONSTANTS Shapes,         \* set of <<min, max, sigfigs>>
          CandKind,       \* "core" | "all" | "ends" : which boundary-directed values are recorded
          Mode,           \* "canon": only Record, values non-decreasing (one path per multiset); "full": every call;
                          \* "merge": Record in any order, Export/Import, both Merge forms, Rotate
          Windows,        \* set of window sizes tried by "new" (0 = plain Histogram, n = WindowedHistogram of n)
          MaxTotal,       \* bound on recorded occurrences
          Depth,          \* calls per behaviour
          BoundaryFixed   \* FALSE: bucket count as in the code; TRUE: with the repair

\* shape sets for the cfg files (a cfg cannot write tuples): Shapes <- ShapesExh etc.
ShapesExh == {<<mn, mx, sf>> : mn \in {1, 2, 3, 1000}, mx \in {100, 1023, 1024, 100000}, sf \in {1, 2}} \ {<<1000, 100, 1>>, <<1000, 100, 2>>}
ShapesBoundary == {<<1, 1024, 1>>, <<1, 1024, 2>>, <<2, 1024, 1>>, <<3, 1024, 2>>, <<1, 32, 1>>, <<1, 256, 2>>, <<1000, 16384, 1>>}
ShapesOne == {<<1, 1024, 1>>}
\* min not a power of two: the bucket that holds min starts below min
ShapesOffPow == {<<3, 100, 1>>, <<100, 100000, 2>>, <<1000, 100000, 1>>, <<1000, 16384, 3>>}
\* sf 3..5: sub-bucket counts 2048 / 32768 / 262144; maxima at and off the bucket-count boundary
ShapesHiSf == {<<1, 1000000, 3>>, <<1, 2097152, 3>>, <<1000, 100000000, 3>>, <<1, 10000000, 4>>, <<1, 33554432, 4>>,
               <<2, 100000000, 4>>, <<1, 268435456, 5>>, <<1, 100000000, 5>>, <<3, 300000000, 5>>}

VARIABLES sh,       \* [min, max, sf]
          cand,     \* Cand(sh), computed once (constant during a behaviour)
          win,      \* window size (0 = plain)
          bags,     \* sequence of sorted sequences: recorded values of each window section (length 1 when plain)
          cur,      \* index of the current section
          gbag,     \* recorded values of the second histogram (Merge source)
          counts,   \* the model of h.counts for the observed histogram: sparse function index -> count
          hist

vars == <<sh, cand, win, bags, cur, gbag, counts, hist>>
view == <<sh, win, bags, cur, gbag, counts>>

\* ---------------------------------------------------------------- integer helpers
Max2(a, b) == IF a > b THEN a ELSE b
RECURSIVE FloorLog2(_)
FloorLog2(x) == IF x < 2 THEN 0 ELSE 1 + FloorLog2(x \div 2)          \* x >= 1
CeilLog2(x)  == IF 2^FloorLog2(x) = x THEN FloorLog2(x) ELSE FloorLog2(x) + 1
BitLen(x) == IF x = 0 THEN 0 ELSE FloorLog2(x) + 1

\* ---------------------------------------------------------------- geometry (hdr.go:46-93, 400-465)
Unit(s)     == FloorLog2(s.min)                      \* unitMagnitude = floor(log2(min))
SubMag(s)   == CeilLog2(2 * 10^s.sf)                 \* subBucketCountMagnitude
SubCount(s) == 2^SubMag(s)
Half(s)     == SubCount(s) \div 2
RECURSIVE Buckets(_, _, _)
Buckets(smallestUntrackable, max, n) ==
    IF (IF BoundaryFixed THEN smallestUntrackable > max ELSE smallestUntrackable >= max) THEN n
    ELSE Buckets(2 * smallestUntrackable, max, n + 1)
BucketCount(s) == Buckets(SubCount(s) * 2^Unit(s), s.max, 1)
CountsLen(s)   == (BucketCount(s) + 1) * Half(s)

\* getBucketIndex: bitLen(v | mask) - unit - subMag; the mask has bit length unit+subMag, so the OR's bit
\* length is the larger of the two
BucketIdx(s, v) == Max2(BitLen(v), Unit(s) + SubMag(s)) - Unit(s) - SubMag(s)
SubIdx(s, v)    == v \div 2^(BucketIdx(s, v) + Unit(s))
CountsIndex(s, b, sub) == (b + 1) * Half(s) + (sub - Half(s))
IndexOf(s, v)   == CountsIndex(s, BucketIdx(s, v), SubIdx(s, v))
Width(s, v)     == 2^(Unit(s) + BucketIdx(s, v))             \* sizeOfEquivalentValueRange
Lowest(s, v)    == SubIdx(s, v) * 2^(BucketIdx(s, v) + Unit(s))
Highest(s, v)   == Lowest(s, v) + Width(s, v) - 1
\* inverse of CountsIndex (what the iterator does while walking (bucket, sub-bucket) pairs)
ValueFromIdx(s, i) == IF i < SubCount(s) THEN i * 2^Unit(s)
                      ELSE (Half(s) + (i % Half(s))) * 2^((i \div Half(s)) - 1 + Unit(s))

\* the precision the property promises, independent of the geometry
Prec(s, v) == Max2(2^FloorLog2(s.min), v \div 10^s.sf)

\* ---------------------------------------------------------------- recorded values
\* boundary-directed values for a shape: the ends of the range, every power of two in it (bucket
\* boundaries are powers of two) and their neighbours; "core" keeps the first and last boundary only
InR(s, S) == {v \in S : s.min <= v /\ v <= s.max}
Pows(s) == {p \in {2^j : j \in 0..30} : s.min <= p /\ p <= s.max}
B0(s) == SubCount(s) * 2^Unit(s)          \* end of bucket 0
PL(s) == 2^FloorLog2(s.max)               \* last power of two in range
Ends(s) == {s.min, s.min + 1, s.max - 1, s.max}
Cand(s) == IF CandKind = "all"
           THEN InR(s, Ends(s) \cup UNION {{p - 1, p, p + 1} : p \in Pows(s)})
           ELSE IF CandKind = "ends" THEN InR(s, Ends(s) \cup {Half(s) * 2^Unit(s), B0(s)})
           ELSE InR(s, Ends(s) \cup {B0(s) - 1, B0(s), B0(s) + 1, PL(s) - 1, PL(s), PL(s) + 1, Half(s) * 2^Unit(s)})

\* sorted insertion / union of sorted sequences
RECURSIVE Ins(_, _)
Ins(q, v) == IF q = <<>> THEN <<v>> ELSE IF v <= Head(q) THEN <<v>> \o q ELSE <<Head(q)>> \o Ins(Tail(q), v)
RECURSIVE InsN(_, _, _)
InsN(q, v, n) == IF n = 0 THEN q ELSE InsN(Ins(q, v), v, n - 1)
RECURSIVE Union(_, _)
Union(q, r) == IF r = <<>> THEN q ELSE Union(Ins(q, Head(r)), Tail(r))
RECURSIVE Flat(_)
Flat(bs) == IF bs = <<>> THEN <<>> ELSE Union(Flat(Tail(bs)), Head(bs))
Obs(bs) == Flat(bs)                       \* what the observed histogram (h, or w.Merge()) holds

AddCount(c, i, n) == IF i \in DOMAIN c THEN [c EXCEPT ![i] = @ + n] ELSE c @@ (i :> n)
RECURSIVE CountsOf(_, _)
CountsOf(s, q) == IF q = <<>> THEN << >> ELSE AddCount(CountsOf(s, Tail(q)), IndexOf(s, Head(q)), 1)
Empty == << >>                            \* function with empty domain

\* ---------------------------------------------------------------- the model's quantile walk (from counts)
RECURSIVE SumTo(_, _)
SumTo(c, S) == IF S = {} THEN 0 ELSE LET i == CHOOSE x \in S : TRUE IN c[i] + SumTo(c, S \ {i})
Total(c) == SumTo(c, DOMAIN c)
Cum(c, i) == SumTo(c, {j \in DOMAIN c : j <= i})
QModel(s, c, r) == LET i == CHOOSE x \in DOMAIN c : Cum(c, x) >= r /\ \A y \in DOMAIN c : (y < x => Cum(c, y) < r)
                   IN Highest(s, ValueFromIdx(s, i))

\* ---------------------------------------------------------------- expectations written into hist
HiSeq(s, q)   == [r \in 1..Len(q) |-> q[r] + Width(s, q[r]) - 1]
PrecSeq(s, q) == [r \in 1..Len(q) |-> Prec(s, q[r])]
Expect(s, q)  == [total |-> Len(q), sorted |-> q, hi |-> HiSeq(s, q), prec |-> PrecSeq(s, q),
                  minlo |-> IF q = <<>> THEN 0 ELSE q[1] - Width(s, q[1]) + 1]
Rec(call) == hist' = Append(hist, call @@ Expect(sh', Obs(bags')))

\* ---------------------------------------------------------------- large magnitudes: scale and lift
\* (k, c): lift k, scale c.  The shape (min, max, sf) becomes (min 2^c, max 2^(k+c), sf); a value below the upper
\* half of bucket 0 (LiftFrom) is multiplied by 2^c, any other value by 2^(k+c).
LiftFrom(s) == Half(s) * 2^Unit(s)
Fac(s, k, c, v) == IF v >= LiftFrom(s) THEN 2^(k + c) ELSE 2^c
TVal(s, k, c, v) == v * Fac(s, k, c, v)
TShape(s, k, c) == [min |-> s.min * 2^c, max |-> s.max * 2^(k + c), sf |-> s.sf]
TSeq(s, k, c, q) == [r \in 1..Len(q) |-> TVal(s, k, c, q[r])]
\* what the replayer computes from the expectation e = Expect(s, q) printed for the untransformed behaviour:
\* order statistics times their factor, the bound "exact + width - 1" by (hi + 1) f - 1, the precision bound
\* from the property's formula on the transformed shape, the total unchanged
TransExpect(s, k, c, e) ==
    [total  |-> e.total,
     sorted |-> [r \in 1..e.total |-> e.sorted[r] * Fac(s, k, c, e.sorted[r])],
     hi     |-> [r \in 1..e.total |-> (e.hi[r] + 1) * Fac(s, k, c, e.sorted[r]) - 1],
     prec   |-> [r \in 1..e.total |-> Max2(2^Unit(s) * 2^c, (e.sorted[r] * Fac(s, k, c, e.sorted[r])) \div 10^s.sf)],
     minlo  |-> IF e.total = 0 THEN 0 ELSE (e.minlo - 1) * Fac(s, k, c, e.sorted[1]) + 1]
\* the model stays below 2^30 (the bucket-count loop doubles once past max)
Fits(s, n) == s.max <= 1073741823 \div 2^n
LawPairs == {p \in (0..3) \X (0..3) : p[1] + p[2] >= 1 /\ p[1] + p[2] <= 3}

\* ---------------------------------------------------------------- actions
Shape(t) == [min |-> t[1], max |-> t[2], sf |-> t[3]]
Init == /\ sh \in {Shape(t) : t \in Shapes} /\ win \in Windows
        /\ cand = Cand(sh)
        /\ bags = [i \in 1..Max2(win, 1) |-> <<>>] /\ cur = 1 /\ gbag = <<>> /\ counts = Empty
        /\ hist = <<[op |-> "new", min |-> sh.min, max |-> sh.max, sf |-> sh.sf, win |-> win,
                      \* what the replayer needs to apply TransExpect (below) at a scale / lift
                      liftfrom |-> LiftFrom(sh), pu |-> 2^Unit(sh), pd |-> 10^sh.sf] @@ Expect(sh, <<>>)>>

Size == Len(Obs(bags))
Rich == Mode \in {"full", "merge"}       \* the calls beyond Record are in play
Last(q) == IF q = <<>> THEN 0 ELSE q[Len(q)]

\* RecordValue(v) / RecordValues(v, n) on the histogram (plain) or on w.Current (windowed): must succeed
Record(v, n) ==
    /\ Size + n <= MaxTotal
    /\ Mode = "canon" => (n = 1 /\ v >= Last(Obs(bags)))
    /\ bags' = [bags EXCEPT ![cur] = InsN(@, v, n)]
    /\ counts' = AddCount(counts, IndexOf(sh, v), n)
    /\ UNCHANGED <<sh, cand, win, cur, gbag>>
    /\ Rec(IF n = 1 THEN [op |-> "rec", v |-> v] ELSE [op |-> "recn", v |-> v, n |-> n])

\* RecordCorrectedValue(v, e): v, and then v-e, v-2e, ... while >= e   (all in range because e >= min)
RECURSIVE Fill(_, _, _)
Fill(q, m, e) == IF m < e THEN q ELSE Fill(Ins(q, m), m - e, e)
Corrected(v, e) ==
    /\ Mode = "full" /\ win = 0 /\ e >= sh.min /\ e < v /\ (v \div e) <= 4
    /\ LET q == Fill(Ins(bags[1], v), v - e, e) IN
       /\ Len(q) <= MaxTotal
       /\ bags' = [bags EXCEPT ![1] = q]
       /\ counts' = CountsOf(sh, q)
    /\ UNCHANGED <<sh, cand, win, cur, gbag>>
    /\ Rec([op |-> "corr", v |-> v, n |-> e])

Reset == /\ Mode = "full" /\ win = 0 /\ bags[1] # <<>>
         /\ bags' = [bags EXCEPT ![1] = <<>>] /\ counts' = Empty
         /\ UNCHANGED <<sh, cand, win, cur, gbag>>
         /\ Rec([op |-> "reset"])

\* h := Import(h.Export()): must be Equal to the original in both directions; the replay continues on the copy
ExportImport == /\ Rich /\ win = 0
                /\ UNCHANGED <<sh, cand, win, bags, cur, gbag, counts>>
                /\ Rec([op |-> "expimp", equal |-> TRUE])

\* c := Import(h.Export()), then the ORIGINAL h goes on being used (n = 0: h.Reset(); n = 1: h.RecordValue(v)) - a
\* valid sequence of calls: Import's "the caller must stop accessing" is about the Snapshot, not about h.  The
\* replay continues on the copy c, which is a histogram of its own: every later observation of c (total count,
\* quantiles, min / max, no invariant panic) is still the one of the recorded data.
ExportImportDisturb(n, v) == /\ Rich /\ win = 0 /\ n \in {0, 1}
                             /\ UNCHANGED <<sh, cand, win, bags, cur, gbag, counts>>
                             /\ Rec([op |-> "expimpd", equal |-> TRUE, n |-> n, v |-> v])

\* e := New(shape); dropped := e.Merge(h): nothing dropped, e Equal h; the replay continues on e
MergeIntoEmpty == /\ Rich /\ win = 0
                  /\ UNCHANGED <<sh, cand, win, bags, cur, gbag, counts>>
                  /\ Rec([op |-> "mergeempty", equal |-> TRUE, dropped |-> 0])

\* a second histogram g of the same shape
GRecord(v) == /\ Rich /\ win = 0 /\ Len(gbag) < 2 /\ Size + Len(gbag) + 1 <= MaxTotal
              /\ gbag' = Ins(gbag, v)
              /\ UNCHANGED <<sh, cand, win, bags, cur, counts>>
              /\ Rec([op |-> "grec", v |-> v])
\* h.Merge(g): h gains g's values, nothing dropped, g unchanged
MergeG == /\ Rich /\ win = 0 /\ gbag # <<>>
          /\ Len(bags[1]) + Len(gbag) <= MaxTotal
          /\ bags' = [bags EXCEPT ![1] = Union(@, gbag)]
          /\ counts' = CountsOf(sh, Union(bags[1], gbag))
          /\ UNCHANGED <<sh, cand, win, cur, gbag>>
          /\ Rec([op |-> "merge", dropped |-> 0])

\* w.Rotate(): the oldest section is reset and becomes current
Rotate == /\ win > 0
          /\ LET nx == (cur % win) + 1 IN
             /\ cur' = nx
             /\ bags' = [bags EXCEPT ![nx] = <<>>]
             /\ counts' = CountsOf(sh, Obs([bags EXCEPT ![nx] = <<>>]))
          /\ UNCHANGED <<sh, cand, win, gbag>>
          /\ Rec([op |-> "rotate"])

Step == \/ \E v \in cand : Record(v, 1)
        \/ Mode = "full" /\ \E v \in cand, n \in {2, 3} : Record(v, n)
        \/ Mode = "full" /\ win = 0 /\ \E v \in cand : \E e \in {x \in cand : x < v /\ (v \div x) <= 4} : Corrected(v, e)
        \/ Reset \/ ExportImport \/ MergeIntoEmpty \/ MergeG \/ Rotate
        \/ ExportImportDisturb(0, 0) \/ (\E v \in cand : ExportImportDisturb(1, v))
        \/ Rich /\ win = 0 /\ \E v \in cand : GRecord(v)

Next == Len(hist) < Depth + 1 /\ Step
Spec == Init /\ [][Next]_vars

\* ---------------------------------------------------------------- what TLC checks on the model
\* every value of the range that can be recorded lands inside the counts array (fails as-is when max is
\* exactly subBucketCount * 2^(unit+k): `for smallestUntrackableValue < maxValue`)
Static == Len(hist) = 1                  \* facts about the shape alone are checked once, in the initial state
IndexInRange == Static => \A v \in cand : 0 <= IndexOf(sh, v) /\ IndexOf(sh, v) < CountsLen(sh)
\* counts conserve occurrences, and hold them where the geometry says
Conservation == Total(counts) = Size /\ counts = CountsOf(sh, Obs(bags))
\* static facts of the geometry, for every candidate value
GeometryOK == Static => \A v \in cand :
                 /\ Lowest(sh, v) <= v /\ v <= Highest(sh, v)
                 /\ IndexOf(sh, Lowest(sh, v)) = IndexOf(sh, v) /\ IndexOf(sh, Highest(sh, v)) = IndexOf(sh, v)
                 /\ ValueFromIdx(sh, IndexOf(sh, v)) = Lowest(sh, v)
                 /\ SubIdx(sh, v) < SubCount(sh)                                  \* the invariant panic of hdr.go:408
                 /\ (BucketIdx(sh, v) > 0 => SubIdx(sh, v) >= Half(sh))
                 /\ Width(sh, v) - 1 <= Prec(sh, v)                               \* bucket width is within the promised precision
                 /\ (BucketIdx(sh, v) > 0 => Width(sh, v) * 10^sh.sf <= v)
\* the walk over counts answers every rank within the bounds the oracle states
QuantileOK == LET q == Obs(bags) IN \A r \in 1..Len(q) :
                 LET x == QModel(sh, counts, r) IN
                 /\ q[r] <= x /\ x - q[r] < Width(sh, q[r]) /\ x - q[r] <= Prec(sh, q[r])
                 /\ x = Highest(sh, q[r])
\* the iterator never runs past the last bucket before it has seen totalCount occurrences (hdr.go:487)
IteratorInBounds == \A i \in DOMAIN counts : (i \div Half(sh)) - 1 < BucketCount(sh)
Inv == Conservation /\ GeometryOK /\ QuantileOK
InvRange == IndexInRange /\ IteratorInBounds

\* ---------------------------------------------------------------- the laws behind the large-magnitude replays
\* ScaleLaw: (min 2^c, max 2^c, sf) has unit magnitude + c and otherwise the same geometry; v 2^c has the bucket,
\* sub-bucket and counts index of v, lowest equivalent times 2^c, highest equivalent (highest + 1) 2^c - 1
ScaleLaw == Static => \A c \in 1..3 : Fits(sh, c) =>
    LET t == TShape(sh, 0, c) IN
    /\ Unit(t) = Unit(sh) + c /\ SubCount(t) = SubCount(sh)
    /\ BucketCount(t) = BucketCount(sh) /\ CountsLen(t) = CountsLen(sh)
    /\ LiftFrom(t) = LiftFrom(sh) * 2^c
    /\ \A v \in cand : LET w == v * 2^c IN
          /\ t.min <= w /\ w <= t.max
          /\ BucketIdx(t, w) = BucketIdx(sh, v) /\ SubIdx(t, w) = SubIdx(sh, v) /\ IndexOf(t, w) = IndexOf(sh, v)
          /\ Lowest(t, w) = Lowest(sh, v) * 2^c
          /\ Width(t, w) = Width(sh, v) * 2^c
          /\ Highest(t, w) = (Highest(sh, v) + 1) * 2^c - 1
          /\ ValueFromIdx(t, IndexOf(t, w)) = ValueFromIdx(sh, IndexOf(sh, v)) * 2^c
          /\ Prec(t, w) = Max2(2^Unit(sh) * 2^c, w \div 10^sh.sf) /\ Prec(t, w) >= Prec(sh, v) * 2^c
          \* RecordCorrectedValue fills the same occurrences
          /\ \A e \in {x \in cand : x < v /\ x >= sh.min /\ (v \div x) <= 4} :
                Fill(<<>>, w - e * 2^c, e * 2^c) = [r \in 1..Len(Fill(<<>>, v - e, e)) |-> Fill(<<>>, v - e, e)[r] * 2^c]
\* LiftLaw: (min, max 2^k, sf) has the geometry of (min, max, sf) with up to k more buckets; a value at or above
\* LiftFrom moves up k buckets keeping its sub-bucket, everything below stays where it is; order is preserved
LiftLaw == Static => \A k \in 1..3 : Fits(sh, k) =>
    LET t == TShape(sh, k, 0) IN
    /\ Unit(t) = Unit(sh) /\ SubCount(t) = SubCount(sh) /\ LiftFrom(t) = LiftFrom(sh)
    /\ BucketCount(sh) <= BucketCount(t) /\ BucketCount(t) <= BucketCount(sh) + k
    /\ \A v \in cand : LET w == TVal(sh, k, 0, v) IN
          /\ t.min <= w /\ w <= t.max /\ IndexOf(t, w) < CountsLen(t)
          /\ SubIdx(t, w) = SubIdx(sh, v)
          /\ IF v >= LiftFrom(sh)
             THEN /\ w = v * 2^k /\ BucketIdx(t, w) = BucketIdx(sh, v) + k /\ SubIdx(sh, v) >= Half(sh)
                  /\ IndexOf(t, w) = IndexOf(sh, v) + k * Half(sh)
                  /\ Lowest(t, w) = Lowest(sh, v) * 2^k /\ Width(t, w) = Width(sh, v) * 2^k
                  /\ Highest(t, w) = (Highest(sh, v) + 1) * 2^k - 1
             ELSE /\ w = v /\ BucketIdx(t, w) = 0 /\ BucketIdx(sh, v) = 0 /\ IndexOf(t, w) = IndexOf(sh, v)
                  /\ Lowest(t, w) = Lowest(sh, v) /\ Highest(t, w) = Highest(sh, v)
          /\ \A u \in cand : (u < v => TVal(sh, k, 0, u) < w)
\* the combination, on the expectations themselves, in every state: judging the transformed behaviour with
\* TransExpect of the printed expectation is judging it with the expectation of the transformed shape and values
\* (with the full candidate sets the pairs that only repeat a static law at a larger exponent are left out: cost)
ExpectPairs == IF CandKind = "all" THEN {<<0, 1>>, <<1, 0>>, <<1, 1>>, <<1, 2>>, <<2, 1>>} ELSE LawPairs
ExpectLaw == LET q == Obs(bags)
                 e == Expect(sh, q) IN
             \A p \in ExpectPairs : Fits(sh, p[1] + p[2]) =>
                 Expect(TShape(sh, p[1], p[2]), TSeq(sh, p[1], p[2], q)) = TransExpect(sh, p[1], p[2], e)
Laws == ScaleLaw /\ LiftLaw /\ ExpectLaw
\* Expect and TransExpect work element by element (and on the first element for minlo), so ExpectLaw over every
\* multiset of two candidate values (canon2_all, canon3_all, hisf_core2, law, merge3, boundary_full3, sim_hisf) covers
\* the larger multisets of the other cfgs, which check the two static laws only
LawsStatic == ScaleLaw /\ LiftLaw
\* non-vacuity (MC_lawvac.cfg must violate it): some shape has a value that is lifted, at a k that fits
LawVacuous == Static => ~ \E v \in cand : v >= LiftFrom(sh) /\ v < sh.max /\ Fits(sh, 3)

\* ---------------------------------------------------------------- behaviour emission
EmitAll  == Len(hist) < Depth + 1 \/ PrintT(<<"BEH", ToJson(hist)>>)
EmitEdge == PrintT(<<"BEH", ToJson(hist')>>)
\* binding self-test of the replayer's transformation: the final expectation of each behaviour under every law pair
EmitLaw == Len(hist) < Depth + 1
           \/ \A p \in {x \in LawPairs : Fits(sh, x[1] + x[2])} :
                 PrintT(<<"LAW", ToJson([k |-> p[1], c |-> p[2], beh |-> hist,
                                         t |-> TransExpect(sh, p[1], p[2], Expect(sh, Obs(bags))) @@
                                               [min |-> TShape(sh, p[1], p[2]).min, max |-> TShape(sh, p[1], p[2]).max]])>>)
SimNext == \/ Next
           \/ Len(hist) = Depth + 1 /\ PrintT(<<"BEH", ToJson(hist)>>) /\ UNCHANGED vars
SimSpec == Init /\ [][SimNext]_vars
=============================================================================
