SPECIFICATION SimSpec
CONSTANTS
  Shapes <- ShapesHiSf
  CandKind = "core"
  Mode = "full"
  Windows = {0, 2}
  MaxTotal = 8
  Depth = 5
  BoundaryFixed = TRUE
INVARIANT Inv
INVARIANT InvRange
INVARIANT Laws
CHECK_DEADLOCK FALSE
