SPECIFICATION Spec
CONSTANTS
  Shapes <- ShapesBoundary
  CandKind = "core"
  Mode = "canon"
  Windows = {0}
  MaxTotal = 2
  Depth = 2
  BoundaryFixed = TRUE
INVARIANT Inv
INVARIANT InvRange
INVARIANT Laws
CONSTRAINT EmitLaw
CHECK_DEADLOCK FALSE
