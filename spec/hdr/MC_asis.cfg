SPECIFICATION Spec
CONSTANTS
  Shapes <- ShapesOne
  CandKind = "all"
  Mode = "canon"
  Windows = {0}
  MaxTotal = 1
  Depth = 1
  BoundaryFixed = FALSE
INVARIANT Inv
INVARIANT InvRange
CHECK_DEADLOCK FALSE
