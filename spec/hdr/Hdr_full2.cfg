SPECIFICATION Spec
CONSTANTS
  Shapes <- ShapesExh
  CandKind = "core"
  Mode = "full"
  Windows = {0, 2}
  MaxTotal = 8
  Depth = 2
  BoundaryFixed = TRUE
INVARIANT Inv
INVARIANT InvRange
INVARIANT LawsStatic
CONSTRAINT EmitAll
CHECK_DEADLOCK FALSE
