SPECIFICATION Spec
CONSTANTS
  Shapes <- ShapesOne
  CandKind = "all"
  Mode = "canon"
  Windows = {0}
  MaxTotal = 1
  Depth = 1
  BoundaryFixed = TRUE
INVARIANT Laws
INVARIANT LawVacuous
CHECK_DEADLOCK FALSE
