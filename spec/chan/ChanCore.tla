------------------------------ MODULE ChanCore ------------------------------
(* The documented result table of fun.ChanOp / ChanSend / ChanReceive          *)
(* (/repo/chan.go) as pure operators: what ONE attempt to send or receive may  *)
(* report, as a function of the channel state, the mode, the state of the      *)
(* context and whether a counterpart is parked on the channel.                 *)
(*                                                                            *)
(* Sources (doc comments are the specification of this component, X01):        *)
(*   chan.go:67-70   Blocking: "block until the context is canceled, the       *)
(*                   channel is canceled [closed], or the send succeeds"       *)
(*   chan.go:72-78   NonBlocking: "will return ErrSkipedNonBlockingSend if     *)
(*                   the channel was full and the object was not sent"         *)
(*   chan.go:331-339 Write: nil = sent; io.EOF = channel closed (or nil);      *)
(*                   context error when the context is canceled; non-blocking: *)
(*                   ErrNonBlockingChannelOperationSkipped when the channel    *)
(*                   did not accept the write                                  *)
(*   chan.go:206-215 Read: io.EOF = closed; context error; non-blocking:       *)
(*                   skipped when empty; zero value with every error           *)
(*   chan.go:80-85   Close: safe on nil and already-closed channels            *)
(*                                                                            *)
(* A channel value is [buf, closed, cap, nil]; buf[1] is the oldest item.      *)
(* Base results of a send: "ok" "eof" "ctx" "skip" | "block" (the caller       *)
(* parks); of a receive: "val" "eof" "ctx" "skip" | "block".                   *)
(*                                                                            *)
(* Named choices where documentation and code differ or the documentation is   *)
(* silent (DESIGN: judged only as far as documented):                          *)
(*   NilSend      chan.go:334 says a send on a nil channel reports io.EOF.     *)
(*                The code (a select with a nil-channel arm) blocks until the  *)
(*                context ends (Blocking) / reports "skipped" (NonBlocking).   *)
(*                "asis" = as observed; "doc" = as documented (MC_doc_nil.cfg  *)
(*                and Step_doc_nil.cfg demonstrate the divergence); "either" = *)
(*                both accepted (all registered configs: the check alarms      *)
(*                neither on the code as it is nor on code repaired to follow  *)
(*                its documentation).                                          *)
(*   both-ready   context cancelled AND the channel arm ready: Go's select     *)
(*                picks either; the docs promise neither, both are allowed.    *)
(*   closed+ctx   likewise io.EOF or the context error.                        *)
(***************************************************************************)
EXTENDS Integers, Sequences, FiniteSets, TLC

CONSTANT NilSend

MkChan(cap, isnil) == [buf |-> <<>>, closed |-> FALSE, cap |-> cap, nil |-> isnil]

SendMeths == {"write", "scheck", "signore", "zero", "signal", "sproc"}
RecvMeths == {"read", "rcheck", "ok", "force", "drop", "rignore", "rprod"}
\* pubsub.DistributorChanOp(op) with an input / output filter (buffer.go:37-54, 87-89):
\*   dsendf  d.WithInputFilter(f).Send     drecvf  d.WithOutputFilter(f).Receive
DistMeths == {"dsendf", "drecvf"}
LoopMeths == {"sconsume", "rconsume", "next"}
\* ChanReceive.Ok() takes no context: its select has no ctx.Done arm (chan.go:188-204)
HasCtxArm(meth) == meth # "ok"

(* ------------------------------------------------------------ one attempt *)
\* arms of the select that are ready for a send; prs: a receiver is parked on the channel
SendArms(c, canc, prs) ==
       (IF canc THEN {"ctx"} ELSE {})
  \cup (IF ~c.nil /\ c.closed THEN {"eof"} ELSE {})                    \* send on closed = recovered panic (chan.go:341-345)
  \cup (IF ~c.nil /\ ~c.closed /\ (prs \/ Len(c.buf) < c.cap) THEN {"ok"} ELSE {})

SendBase(c, nb, canc, prs) ==
  LET a == SendArms(c, canc, prs)
      asis == IF a # {} THEN a ELSE IF nb THEN {"skip"} ELSE {"block"}
      doc == {"eof"} \cup (IF canc THEN {"ctx"} ELSE {})                 \* nil channel, as documented (chan.go:334)
  IN IF ~c.nil \/ NilSend = "asis" THEN asis ELSE IF NilSend = "doc" THEN doc ELSE asis \cup doc

\* pss: a sender is parked on the channel
RecvArms(c, canc, pss) ==
       (IF canc THEN {"ctx"} ELSE {})
  \cup (IF ~c.nil /\ (c.buf # <<>> \/ pss) THEN {"val"} ELSE {})
  \cup (IF ~c.nil /\ c.closed /\ c.buf = <<>> /\ ~pss THEN {"eof"} ELSE {})

RecvBase(c, nb, canc, pss) ==
  LET a == RecvArms(c, canc, pss) IN IF a # {} THEN a ELSE IF nb THEN {"skip"} ELSE {"block"}

(* ------------------------------------------------------------ the method layer *)
\* what each ChanSend method reports for a base result (chan.go:311-329)
SendMethRes(meth, base) ==
  CASE meth \in {"write", "zero", "sproc"} -> base                      \* Write / Zero / Processor(): the error
    [] meth = "scheck"                     -> IF base = "ok" THEN "true" ELSE "false"     \* Check: "true when the send was successful"
    [] meth \in {"signore", "signal"}      -> "done"                    \* Ignore / Signal: no result

\* what each ChanReceive method reports (chan.go:165-204); every failure carries the zero value
RecvMethRes(meth, base, v) ==
  CASE meth \in {"read", "rprod"} -> IF base = "val" THEN "v:" \o v ELSE base
    [] meth = "rcheck"            -> IF base = "val" THEN "v:" \o v ELSE "false"
    [] meth = "ok"                -> IF base = "eof" THEN "false" ELSE "true"     \* "true either when the channel is blocked or an item is read"
    [] meth = "force"             -> IF base = "val" THEN "v:" \o v ELSE "v:"      \* zero value, indistinguishable from a sent zero
    [] meth = "drop"              -> IF base = "val" THEN "true" ELSE "false"
    [] meth = "rignore"           -> "done"

\* value a send method puts on the channel: Zero / Signal send the zero value of T (= "" for strings)
SendVal(meth, v) == IF meth \in {"zero", "signal"} THEN "" ELSE v

RECURSIVE JoinStr(_)
JoinStr(s) == IF s = <<>> THEN "" ELSE IF Len(s) = 1 THEN s[1] ELSE s[1] \o "," \o JoinStr(Tail(s))
=============================================================================
