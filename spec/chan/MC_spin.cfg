SPECIFICATION Spec
CONSTANTS
  NilSend = "either"
  Senders = {"s1"}
  Receivers = {"r1"}
  Cap = 1
  IsNil = FALSE
  OpsPer = 1
  SMeths = {"write"}
  RMeths = {"rconsume"}
  Modes = {"nb"}
  MaxClose = 1
  NBLoops = TRUE
  Variant = "asis"
INVARIANTS TypeOK Conservation ResultsOK NBNeverParks NoParkOnNil NoStuck ParkedAccounted NoCrash
PROPERTIES Settles
CHECK_DEADLOCK FALSE
