------------------------------ MODULE DistCore ------------------------------
(* The Distributor algebra of /repo/pubsub/buffer.go as pure operators.        *)
(*                                                                            *)
(* A Distributor is three functions (push, pop, size) over a backend; the      *)
(* pubsub package builds it over                                               *)
(*   "chan-b" / "chan-nb"  DistributorChannel / DistributorChanOp              *)
(*               (buffer.go:82-89): push = ChanSend.Write, pop =               *)
(*               ChanReceive.Read, size = len(ch) - meaning: ChanCore          *)
(*   "queue"     Queue.Distributor() (queue.go:348-362): push = Add (never     *)
(*               blocks: ErrQueueFull / ErrQueueNoCredit / ErrQueueClosed),    *)
(*               pop = Remove, else Wait(ctx); size = tracker.len              *)
(*               - meaning: QueueCore "dsend" / "drecv" / "dlen"               *)
(*   "deque"     Deque.Distributor() (deque.go:335-341): push = WaitPushBack,  *)
(*               pop = WaitFront, size = Len - DequeCore "dsend" / "drecv"     *)
(*   "deque-nb"  Deque.DistributorNonBlocking() (deque.go:346-352): push =     *)
(*               ForcePushBack - a full deque sheds ONE item from the          *)
(*               opposite end (the front, i.e. the oldest) and accepts -       *)
(*               DequeCore "nbsend"; pop = WaitFront                           *)
(* (QueueCore / DequeCore are the sequential meanings fixed for C05 / C06,     *)
(* reused here through INSTANCE.)                                              *)
(*                                                                            *)
(* Order: every adaptor in the package pushes at the back and pops at the      *)
(* front: FIFO.  There is NO LIFO adaptor in the code: NewLIFOBroker           *)
(* (broker.go:117-128, "distributes messages in a LIFO order") is built on     *)
(* DistributorNonBlocking, i.e. FIFO with shedding of the oldest - see the     *)
(* X01 divergence list.  PopEnd below is the one place that fixes the order;   *)
(* Lifo = TRUE gives the documented LIFO reading of the load-shedding          *)
(* distributor (pop at the back) and is used only by Dist_doc_lifo.cfg.        *)
(*                                                                            *)
(* Filters (buffer.go:37-54), a view = [hasin, in, hasout, out] with in / out  *)
(* the sets of items the composed filters reject:                              *)
(*   WithInputFilter   push.Filter(f).WithoutErrors(ErrCurrentOpSkip): a       *)
(*       rejected item is not pushed and Send reports nil (as observed; docs:  *)
(*       "skipped").  Because ErrNonBlockingChannelOperationSkipped is the     *)
(*       same sentinel, a NonBlocking channel's "full, skipped" is reported as *)
(*       nil too (MaskSkip, as observed).  Filters compose: rejected by any.   *)
(*   WithOutputFilter  pop.Filter(f): the popped item is consumed; when        *)
(*       rejected Receive reports (zero, ErrCurrentOpSkip).                    *)
(*   A view is a copy: the distributor it was derived from is unchanged and    *)
(*   shares the backend.                                                       *)
(*   Iterator()  Producer().Iterator(): ReadOne repeats pop while it reports   *)
(*       ErrCurrentOpSkip, so rejected items are consumed silently; a          *)
(*       terminating error (io.EOF, context) or any other error ends it.       *)
(***************************************************************************)
EXTENDS ChanCore

CONSTANTS Scale, MaskSkip, Lifo

Q == INSTANCE QueueCore
D == INSTANCE DequeCore

(* ------------------------------------------------------------ backends *)
\* setup = [kind, cap, trk, hard]
MkBackend(su) ==
  CASE su.kind \in {"chan-b", "chan-nb"} -> [kind |-> su.kind, st |-> MkChan(su.cap, FALSE)]
    [] su.kind = "queue" -> [kind |-> su.kind, st |-> Q!QNew(IF su.trk = "nolimit" THEN Q!NoLimit ELSE Q!Quota(su.hard, 0, 0))]
    [] OTHER             -> [kind |-> su.kind, st |-> D!QNew(IF su.trk = "nolimit" THEN D!NoLimit ELSE D!Hard(su.hard))]

IsChan(b) == b.kind \in {"chan-b", "chan-nb"}
Items(b) == IF IsChan(b) THEN b.st.buf ELSE b.st.items
BLen(b) == Len(Items(b))
BClosed(b) == b.st.closed
BClose(b) == [b EXCEPT !.st.closed = TRUE]

\* push: the set of outcomes [b, res]; {} = the call blocks
SendOuts(b, v, canc) ==
  CASE IsChan(b) ->
         {[b |-> IF r = "ok" THEN [b EXCEPT !.st.buf = Append(@, v)] ELSE b, res |-> r]
            : r \in SendBase(b.st, b.kind = "chan-nb", canc, FALSE) \ {"block"}}
    [] b.kind = "queue" -> {[b |-> [b EXCEPT !.st = o.q], res |-> o.res] : o \in Q!Apply(b.st, "dsend", v, canc)}
    [] b.kind = "deque" -> {[b |-> [b EXCEPT !.st = o.q], res |-> o.res] : o \in D!Apply(b.st, "dsend", v, canc)}
    [] OTHER            -> {[b |-> [b EXCEPT !.st = o.q], res |-> o.res] : o \in D!Apply(b.st, "nbsend", v, canc)}

ErrWords == {"closed", "ctx", "none", "full", "nocredit", "ok"}
\* the end the deque adaptors pop at: the front (FIFO) - the code; the back for the documented LIFO reading
PopOp == IF Lifo THEN "wback" ELSE "drecv"

\* pop: the set of outcomes [b, res, v] with res = "val" and the item, or an error word; {} = the call blocks
RecvOuts(b, canc) ==
  CASE IsChan(b) ->
         {[b |-> IF r = "val" THEN [b EXCEPT !.st.buf = Tail(@)] ELSE b, res |-> r, v |-> IF r = "val" THEN Head(b.st.buf) ELSE ""]
            : r \in RecvBase(b.st, b.kind = "chan-nb", canc, FALSE) \ {"block"}}
    [] b.kind = "queue" ->
         {[b |-> [b EXCEPT !.st = o.q], res |-> IF o.res \in ErrWords THEN o.res ELSE "val", v |-> IF o.res \in ErrWords THEN "" ELSE o.res]
            : o \in Q!Apply(b.st, "drecv", "", canc)}
    [] OTHER ->
         {[b |-> [b EXCEPT !.st = o.q], res |-> IF o.res \in ErrWords THEN o.res ELSE "val", v |-> IF o.res \in ErrWords THEN "" ELSE o.res]
            : o \in D!Apply(b.st, IF b.kind = "deque-nb" THEN PopOp ELSE "drecv", "", canc)}

(* ------------------------------------------------------------ views (filters) *)
Raw == [hasin |-> FALSE, in |-> {}, hasout |-> FALSE, out |-> {}]
WithIn(d, rej) == [d EXCEPT !.hasin = TRUE, !.in = @ \cup rej]
WithOut(d, rej) == [d EXCEPT !.hasout = TRUE, !.out = @ \cup rej]

\* the items and the views the behaviours use: "x" is rejected by the input filters, "y" by the output filters,
\* the composed views reject both
Vals == {"a", "x", "y"}
Views == [raw  |-> Raw,
          in   |-> WithIn(Raw, {"x"}),
          out  |-> WithOut(Raw, {"y"}),
          both |-> WithOut(WithIn(Raw, {"x"}), {"y"}),
          in2  |-> WithIn(WithIn(Raw, {"x"}), {"y"}),
          out2 |-> WithOut(WithOut(Raw, {"y"}), {"x"})]
ViewNames == DOMAIN Views

\* Distributor.Send through view d: outcomes [b, res]
DSend(b, d, v, canc) ==
  IF d.hasin /\ v \in d.in THEN {[b |-> b, res |-> "ok"]}
  ELSE {[o EXCEPT !.res = IF @ = "skip" /\ d.hasin /\ MaskSkip THEN "ok" ELSE @] : o \in SendOuts(b, v, canc)}

\* Distributor.Receive through view d: outcomes [b, res]; res = "v:<item>" or an error word; "fskip" = rejected by the
\* output filter (reported to the caller as ErrCurrentOpSkip, like the NonBlocking channel's own "skip")
DRecvRaw(b, d, canc) ==
  {IF o.res = "val" /\ d.hasout /\ o.v \in d.out THEN [b |-> o.b, res |-> "fskip", v |-> ""] ELSE o : o \in RecvOuts(b, canc)}
Shown(o) == [b |-> o.b, res |-> CASE o.res = "val" -> "v:" \o o.v [] o.res = "fskip" -> "skip" [] OTHER -> o.res]
DRecv(b, d, canc) == {Shown(o) : o \in DRecvRaw(b, d, canc)}

\* Distributor.Iterator().Next on a fresh iterator: [b, res] with res = "v:<item>" | "false", or {} when it blocks
\* (or, on an empty NonBlocking channel, spins - as observed)
RECURSIVE DNext(_, _)
DNext(b, d) ==
  LET outs == DRecvRaw(b, d, FALSE) IN
  IF outs = {} THEN {}
  ELSE LET o == CHOOSE x \in outs : TRUE IN
       CASE o.res = "val"   -> {[b |-> o.b, res |-> "v:" \o o.v]}
         [] o.res = "fskip" -> DNext(o.b, d)
         [] o.res = "skip"  -> {}
         [] OTHER           -> {[b |-> o.b, res |-> "false"]}
=============================================================================
