SPECIFICATION Spec
CONSTANTS
  NilSend = "either"
  Senders = {"s1"}
  Receivers = {"r1"}
  Cap = 0
  IsNil = FALSE
  OpsPer = 1
  SMeths = {"write"}
  RMeths = {"read", "ok"}
  Modes = {"b", "nb"}
  MaxClose = 1
  NBLoops = FALSE
  Variant = "nbparks"
INVARIANTS TypeOK Conservation ResultsOK NBNeverParks NoParkOnNil NoStuck ParkedAccounted NoCrash

CHECK_DEADLOCK FALSE
