SPECIFICATION Spec
CONSTANTS
  NilSend = "either"
  MaskSkip = TRUE
  Lifo = FALSE
  Scale = 60
  MaxLen = 3
  Depth = 8
  Setups <- AllSetups
INVARIANT Inv
VIEW view
ACTION_CONSTRAINT EmitEdge
CHECK_DEADLOCK FALSE
