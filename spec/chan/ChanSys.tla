------------------------------ MODULE ChanSys -------------------------------
(* Abstract meaning of a channel together with the operations in flight on it: *)
(* a configuration [c, ops, out, itclosed].                                    *)
(*                                                                            *)
(*   c         the channel value of ChanCore                                   *)
(*   ops       id -> operation that has been called and has not returned:      *)
(*             st = "new"    called, has not yet reached its select            *)
(*             st = "parked" blocked in the select (blocking mode only)        *)
(*   out       id -> result of the operations that returned                    *)
(*   itclosed  the fun.Iterator built by ChanReceive.Iterator() is closed      *)
(*                                                                            *)
(* Enter(i) is the one internal step: operation i evaluates its select - ONE   *)
(* atomic look at the channel (Go evaluates all arms under the channel lock),  *)
(* with the outcomes ChanCore allows.  An operation that parks is completed    *)
(* only by somebody else's step, atomically with it, exactly as the Go runtime *)
(* does: a counterpart's Enter (direct hand-off, or the refill of a full       *)
(* buffer from a parked sender), Close (every parked receiver gets io.EOF,     *)
(* every parked sender the recovered panic = io.EOF), or the cancellation of   *)
(* its context (closing ctx.Done() selects that arm).  Which of several parked *)
(* counterparts is served is left open (Go serves the oldest; fun documents    *)
(* nothing).                                                                   *)
(*                                                                            *)
(* The looping methods are operations that re-enter:                           *)
(*   sconsume  ChanSend.Consume(iter)  chan.go:372-379 = Iterator.Process      *)
(*             (iterator.go:407-433) over Write: nil/skip -> next item (a      *)
(*             skipped item is DROPPED - as observed, docs silent); io.EOF     *)
(*             (closed channel) -> the worker returns nil, the item in hand    *)
(*             is lost (as observed); ctx -> the context error                 *)
(*   rconsume  ChanReceive.Consume(proc) chan.go:258-291: Read; proc(item);    *)
(*             io.EOF -> nil; skip -> again (a NonBlocking receiver spins, as  *)
(*             observed); anything else is returned                            *)
(*   next      ChanReceive.Iterator().Next(ctx) iterator.go:208-257: false     *)
(*             without reading when the iterator is closed or ctx is done;     *)
(*             otherwise Read until a value (true), skip -> again; io.EOF /    *)
(*             ctx close the iterator and report false.  All Next calls of one *)
(*             iterator are driven with one context (the iterator binds the    *)
(*             context of the first call, producer.go:367-382 - see X01        *)
(*             divergence list).                                               *)
(*                                                                            *)
(* Filtered distributors over the channel (pubsub/buffer.go:37-54):            *)
(*   dsendf    DistributorChanOp(op).WithInputFilter(f).Send: an item the      *)
(*             filter rejects is not sent and the call reports nil (docs:      *)
(*             "skipped"; the nil is as observed).  The filter wrapper is      *)
(*             push.Filter(f).WithoutErrors(ErrCurrentOpSkip), and             *)
(*             ErrNonBlockingChannelOperationSkipped IS ErrCurrentOpSkip: a    *)
(*             NonBlocking send that was skipped because the channel is full   *)
(*             ALSO reports nil - as observed, see X01 divergence list         *)
(*             (MaskSkip).                                                     *)
(*   drecvf    ...WithOutputFilter(f).Receive: a received item the filter      *)
(*             rejects is consumed and the call reports ErrCurrentOpSkip.      *)
(* `bad` is the set of items the filters reject.                               *)
(***************************************************************************)
EXTENDS ChanCore

\* itcanc: the one context all Next calls of the iterator are driven with has been cancelled
NewSys(cap, isnil) == [c |-> MkChan(cap, isnil), ops |-> <<>>, out |-> <<>>, itclosed |-> FALSE, itcanc |-> FALSE, bad |-> {}]

\* as observed: the input-filter wrapper turns the channel's own "skipped" into nil (TRUE); FALSE = the reading
\* "a Send that did not send says so" (used by Step_doc_mask.cfg to demonstrate the divergence on the real code)
CONSTANT MaskSkip

MkOp(k, meth, nb, val, pre, left) ==
  [k |-> k, meth |-> meth, nb |-> nb, val |-> val, st |-> "new", canc |-> pre, pre |-> pre, left |-> left, acc |-> <<>>]

Ops(s) == DOMAIN s.ops

\* operation id is called (pre: with a context that is already cancelled)
\* (isbad: the filters reject the item this call sends)
StartSucc(s, id, k, meth, nb, val, pre, left, isbad) ==
  LET p == pre \/ (meth = "next" /\ s.itcanc) IN
  [s EXCEPT !.ops = (id :> MkOp(k, meth, nb, val, p, left)) @@ @, !.itcanc = @ \/ (meth = "next" /\ pre),
            !.bad = IF isbad THEN @ \cup {val} ELSE @]
NewOps(s) == {i \in Ops(s) : s.ops[i].st = "new"}
ParkedK(s, k) == {i \in Ops(s) : s.ops[i].st = "parked" /\ s.ops[i].k = k}
Without(f, i) == [j \in DOMAIN f \ {i} |-> f[j]]

\* the call of operation i returns r
Ret(s, i, r) == [s EXCEPT !.ops = Without(@, i), !.out = (i :> r) @@ @]

\* the item a (parked or entering) sender offers
Offer(o) == SendVal(o.meth, IF o.meth = "sconsume" THEN Head(o.left) ELSE o.val)

\* operation i obtained base result b (v: the received item): its method decides what happens next
After(s, i, b, v) ==
  LET o == s.ops[i] IN
  CASE o.meth = "sconsume" ->
         IF b \in {"ok", "skip"}
           THEN [s EXCEPT !.ops[i].left = Tail(@), !.ops[i].st = "new", !.ops[i].pre = FALSE]
           ELSE Ret(s, i, IF b = "eof" THEN "nil" ELSE "ctx")
    [] o.meth = "rconsume" ->
         IF b = "val" THEN [s EXCEPT !.ops[i].acc = Append(@, v), !.ops[i].st = "new"]
         ELSE IF b = "skip" THEN [s EXCEPT !.ops[i].st = "new"]
         ELSE Ret(s, i, (IF b = "eof" THEN "nil" ELSE "ctx") \o "|" \o JoinStr(o.acc))
    [] o.meth = "next" ->
         IF b = "val" THEN Ret(s, i, "v:" \o v)
         ELSE IF b = "skip" THEN [s EXCEPT !.ops[i].st = "new"]
         ELSE Ret([s EXCEPT !.itclosed = TRUE], i, "false")
    [] o.meth = "dsendf" -> Ret(s, i, IF b = "skip" /\ MaskSkip THEN "ok" ELSE b)
    [] o.meth = "drecvf" -> Ret(s, i, IF b = "val" THEN (IF v \in s.bad THEN "skip" ELSE "v:" \o v) ELSE b)
    [] o.k = "send" -> Ret(s, i, SendMethRes(o.meth, b))
    [] OTHER        -> Ret(s, i, RecvMethRes(o.meth, b, v))

\* what a looping method decides before it touches the channel ({}: it goes on to the select)
LoopHead(s, i) ==
  LET o == s.ops[i] IN
  CASE o.meth = "sconsume" ->
         IF o.pre THEN {Ret(s, i, "ctx")}                                \* ReadOne checks ctx.Err() first (iterator.go:234)
         ELSE IF o.left = <<>> THEN {Ret(s, i, "nil")} \cup (IF o.canc THEN {Ret(s, i, "ctx")} ELSE {})
         ELSE {}
    [] o.meth = "next" ->
         IF s.itclosed \/ o.pre THEN {Ret(s, i, "false")} ELSE {}       \* iterator.go:209
    [] o.meth = "dsendf" ->
         IF o.val \in s.bad THEN {Ret(s, i, "ok")} ELSE {}               \* process.go:159-166, buffer.go:42: rejected, not sent, nil
    [] OTHER -> {}

\* operation i (st = "new") evaluates its select
EnterSucc(s, i) ==
  LET o == s.ops[i]
      c == s.c
      canc == o.canc /\ HasCtxArm(o.meth)
      park == [s EXCEPT !.ops[i].st = "parked"]
  IN
  IF LoopHead(s, i) # {} THEN LoopHead(s, i)
  ELSE IF o.k = "send" THEN
    LET prs == ParkedK(s, "recv")
        v == Offer(o)
    IN UNION {
         CASE b = "ok" ->
                IF prs # {} THEN {After(After(s, r, "val", v), i, "ok", "") : r \in prs}          \* direct hand-off
                ELSE {After([s EXCEPT !.c.buf = Append(@, v)], i, "ok", "")}
           [] b = "block" -> {park}
           [] OTHER -> {After(s, i, b, "")}
         : b \in SendBase(c, o.nb, canc, prs # {})}
  ELSE
    LET pss == ParkedK(s, "send") IN
    UNION {
         CASE b = "val" ->
                IF c.buf # <<>>
                  THEN IF pss # {}      \* full buffer with a parked sender: take the head, the sender's item joins the tail
                         THEN {After(After([s EXCEPT !.c.buf = Append(Tail(@), Offer(s.ops[p]))], p, "ok", ""), i, "val", Head(c.buf)) : p \in pss}
                         ELSE {After([s EXCEPT !.c.buf = Tail(@)], i, "val", Head(c.buf))}
                  ELSE {After(After(s, p, "ok", ""), i, "val", Offer(s.ops[p])) : p \in pss}      \* unbuffered rendezvous
           [] b = "block" -> {park}
           [] OTHER -> {After(s, i, b, "")}
         : b \in RecvBase(c, o.nb, canc, pss # {})}

RECURSIVE WakeAll(_, _, _)
WakeAll(s, S, b) == IF S = {} THEN s
                    ELSE LET i == CHOOSE x \in S : TRUE IN WakeAll(After(s, i, b, ""), S \ {i}, b)

\* ChanOp.Close(): close(ch) with every panic swallowed (chan.go:86-89): nothing happens on a nil or closed channel
CloseSucc(s) ==
  IF s.c.nil \/ s.c.closed THEN s
  ELSE WakeAll([s EXCEPT !.c.closed = TRUE], ParkedK(s, "recv") \cup ParkedK(s, "send"), "eof")

\* the context of operation i is cancelled; the reserved name "it" is the one context all Next calls of the
\* iterator are driven with
ItCtx == "it"
CancelSucc(s, i) ==
  IF i = ItCtx
    THEN LET n == {j \in Ops(s) : s.ops[j].meth = "next"}
             s1 == [s EXCEPT !.itcanc = TRUE]
         IN IF n = {} THEN s1
            ELSE LET j == CHOOSE x \in n : TRUE IN
                 IF s1.ops[j].st = "parked" THEN After(s1, j, "ctx", "") ELSE [s1 EXCEPT !.ops[j].canc = TRUE]
  ELSE IF i \notin Ops(s) THEN s
  ELSE IF s.ops[i].st = "parked" /\ HasCtxArm(s.ops[i].meth) THEN After(s, i, "ctx", "")
  ELSE [s EXCEPT !.ops[i].canc = TRUE]

\* Iterator.Close(): cancels the context the iterator's producer runs with and marks it closed
ICloseSucc(s) ==
  LET n == {i \in Ops(s) : s.ops[i].meth = "next"}
      s1 == [s EXCEPT !.itclosed = TRUE]
      wake(i) == IF s1.ops[i].st = "parked" THEN After(s1, i, "ctx", "") ELSE [s1 EXCEPT !.ops[i].canc = TRUE]
  IN IF n = {} THEN s1 ELSE wake(CHOOSE i \in n : TRUE)

(* ------------------------------------------------------------ run to quiescence *)
Succ(s) == UNION {EnterSucc(s, i) : i \in NewOps(s)}
Settled(s) == NewOps(s) = {}

RECURSIVE ReachFrom(_, _)
ReachFrom(front, seen) ==
  IF front = {} THEN seen
  ELSE LET nxt == (UNION {Succ(x) : x \in front}) \ seen IN ReachFrom(nxt, seen \cup nxt)
\* everything reachable from the configurations S by internal steps / the quiescent ones among them
Reach(S) == ReachFrom(S, S)
Final(S) == {x \in Reach(S) : Settled(x)}

\* what the harness sees at a quiescent point
Blk(o) == IF o.meth = "rconsume" THEN "blocked|" \o JoinStr(o.acc) ELSE "blocked"
Obs(s) == [res |-> [i \in DOMAIN s.out \cup Ops(s) |-> IF i \in Ops(s) THEN Blk(s.ops[i]) ELSE s.out[i]],
           len |-> Len(s.c.buf)]

\* sanity of a configuration: receivers park only on an empty channel, senders only on a full one, never both
\* kinds at once, nobody parks on a closed channel, only blocking-mode operations park
SysOK(s) ==
  /\ Len(s.c.buf) <= s.c.cap
  /\ ParkedK(s, "recv") # {} => (s.c.nil \/ (s.c.buf = <<>> /\ ~s.c.closed))
  /\ ParkedK(s, "send") # {} => (s.c.nil \/ (Len(s.c.buf) = s.c.cap /\ ~s.c.closed))
  /\ ~s.c.nil => (ParkedK(s, "recv") = {} \/ ParkedK(s, "send") = {})
  /\ \A i \in Ops(s) : s.ops[i].st = "parked" => ~s.ops[i].nb /\ ~(s.ops[i].canc /\ HasCtxArm(s.ops[i].meth))
=============================================================================
