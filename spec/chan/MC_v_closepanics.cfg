SPECIFICATION Spec
CONSTANTS
  NilSend = "either"
  Senders = {"s1"}
  Receivers = {"r1"}
  Cap = 1
  IsNil = FALSE
  OpsPer = 1
  SMeths = {"write"}
  RMeths = {"read", "ok"}
  Modes = {"b", "nb"}
  MaxClose = 2
  NBLoops = FALSE
  Variant = "closepanics"
INVARIANTS TypeOK Conservation ResultsOK NBNeverParks NoParkOnNil NoStuck ParkedAccounted NoCrash

CHECK_DEADLOCK FALSE
