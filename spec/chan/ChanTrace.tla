------------------------------ MODULE ChanTrace -----------------------------
(* Code -> model: a history recorded from real fun.ChanOp values (vh-chan       *)
(* record, and the histories of the stepped schedules) must be a linearizable  *)
(* history of ChanSys - the channel's sequential meaning with the documented   *)
(* result table of ChanCore - consistent with real-time order, and at every    *)
(* `quiescent` event every call that has not returned must be one the          *)
(* abstract state keeps parked (no operation blocked whose completion          *)
(* condition holds; no operation returned that had to block).                  *)
(*                                                                            *)
(* Events:  reset(cap, nil)                                                    *)
(*          call(id, op, k, meth, nb, val, pre, target, bad)                   *)
(*               op = "start": a ChanSend / ChanReceive method (pre: its       *)
(*                    context was cancelled before the call)                   *)
(*               op = "cancel": cancel the context of call `target`            *)
(*               op = "close" | "iclose" | "len"                               *)
(*          ret(id, res)                                                       *)
(*          quiescent(blocked, len)                                            *)
(* Driver actions are bracketed by call/ret as well: their effect (the silent  *)
(* step LinAux) lies between the two events.  LinEnter is the select of a      *)
(* started call; a parked call is completed by somebody else's step            *)
(* (ChanSys), its result waits in s.out for the `ret` event.                   *)
(***************************************************************************)
EXTENDS ChanSys, Json

Trace == ndJsonDeserialize("trace.ndjson")

VARIABLES l, s, aux
vars == <<l, s, aux>>

Ev == Trace[l]
More == l <= Len(Trace)

Init == l = 1 /\ s = NewSys(0, FALSE) /\ aux = {}

Reset == /\ More /\ Ev.ev = "reset"
         /\ s' = NewSys(Ev.cap, Ev.nil) /\ aux' = {} /\ l' = l + 1

Call == /\ More /\ Ev.ev = "call"
        /\ IF Ev.op = "start"
             THEN /\ s' = StartSucc(s, Ev.id, Ev.k, Ev.meth, Ev.nb, Ev.val, Ev.pre,
                                    IF Ev.meth = "sconsume" THEN <<Ev.val \o "x", Ev.val \o "y">> ELSE <<>>, Ev.bad)
                  /\ UNCHANGED aux
             ELSE /\ aux' = aux \cup {[id |-> Ev.id, op |-> Ev.op, target |-> Ev.target, lin |-> FALSE, res |-> ""]}
                  /\ UNCHANGED s
        /\ l' = l + 1

LinEnter == /\ \E i \in NewOps(s) : \E x \in EnterSucc(s, i) : s' = x
            /\ UNCHANGED <<l, aux>>

LinAux == \E a \in aux :
            /\ ~a.lin
            /\ LET r == CASE a.op = "len" -> ToString(Len(s.c.buf))
                          [] a.op = "iclose" -> "nil"
                          [] OTHER -> "done"
               IN aux' = (aux \ {a}) \cup {[a EXCEPT !.lin = TRUE, !.res = r]}
            /\ s' = CASE a.op = "close"  -> CloseSucc(s)
                      [] a.op = "cancel" -> CancelSucc(s, a.target)
                      [] a.op = "iclose" -> ICloseSucc(s)
                      [] OTHER -> s
            /\ UNCHANGED l

RetEv == /\ More /\ Ev.ev = "ret"
       /\ \/ /\ Ev.id \in DOMAIN s.out /\ s.out[Ev.id] = Ev.res
             /\ s' = [s EXCEPT !.out = Without(@, Ev.id)] /\ UNCHANGED aux
          \/ /\ \E a \in aux : a.id = Ev.id /\ a.lin /\ a.res = Ev.res /\ aux' = aux \ {a}
             /\ UNCHANGED s
       /\ l' = l + 1

\* nothing is running: whoever has not returned is parked in the abstract state as well
Quiet == /\ More /\ Ev.ev = "quiescent"
         /\ NewOps(s) = {} /\ DOMAIN s.out = {} /\ aux = {}
         /\ Ops(s) = {Ev.blocked[i] : i \in 1..Len(Ev.blocked)}
         /\ Ev.len = Len(s.c.buf)
         /\ l' = l + 1 /\ UNCHANGED <<s, aux>>

Next == Reset \/ Call \/ LinEnter \/ LinAux \/ RetEv \/ Quiet
Spec == Init /\ [][Next]_vars

Inv == SysOK(s)

HighWater == TLCSet(1, IF TLCGet(1) < l THEN l ELSE TLCGet(1))
Accepted == \/ TLCGet(1) = Len(Trace) + 1
            \/ PrintT(<<"REJECTED", ToJson([at |-> TLCGet(1), event |-> Trace[TLCGet(1)]])>>) /\ FALSE
ASSUME TLCSet(1, 0)
=============================================================================
