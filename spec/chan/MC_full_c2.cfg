SPECIFICATION Spec
CONSTANTS
  NilSend = "either"
  Senders = {"s1", "s2"}
  Receivers = {"r1", "r2"}
  Cap = 2
  IsNil = FALSE
  OpsPer = 1
  SMeths = {"write"}
  RMeths = {"read", "ok"}
  Modes = {"b", "nb"}
  MaxClose = 2
  NBLoops = FALSE
  Variant = "asis"
INVARIANTS TypeOK Conservation ResultsOK NBNeverParks NoParkOnNil NoStuck ParkedAccounted NoCrash
PROPERTIES Settles CancelReturns
CHECK_DEADLOCK FALSE
