SPECIFICATION Spec
CONSTANTS
  NilSend = "doc"
  MaskSkip = TRUE
  Caps = {0}
  Nils = {TRUE}
  Depth = 2
  MaxPending = 2
  Bursts = FALSE
  Loops = FALSE
  Dists = FALSE
INVARIANT Inv
VIEW view
ACTION_CONSTRAINT EmitEdge
CHECK_DEADLOCK FALSE
