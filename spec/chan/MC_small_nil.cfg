SPECIFICATION Spec
CONSTANTS
  NilSend = "either"
  Senders = {"s1"}
  Receivers = {"r1"}
  Cap = 0
  IsNil = TRUE
  OpsPer = 2
  SMeths = {"write", "scheck", "signore", "zero", "signal", "sproc"}
  RMeths = {"read", "rcheck", "ok", "force", "drop", "rignore", "rprod"}
  Modes = {"b", "nb"}
  MaxClose = 1
  NBLoops = FALSE
  Variant = "asis"
INVARIANTS TypeOK Conservation ResultsOK NBNeverParks NoParkOnNil NoStuck ParkedAccounted NoCrash
PROPERTIES Settles CancelReturns
CHECK_DEADLOCK FALSE
