SPECIFICATION Spec
CONSTANTS
  NilSend = "either"
  MaskSkip = TRUE
  Caps = {0, 1}
  Nils = {FALSE}
  Depth = 6
  MaxPending = 3
  Bursts = FALSE
  Loops = FALSE
  Dists = FALSE
INVARIANT Inv
VIEW view
ACTION_CONSTRAINT EmitEdge
CHECK_DEADLOCK FALSE
