------------------------------- MODULE ChanOp -------------------------------
(* Implementation-shaped specification of fun.ChanOp / ChanSend / ChanReceive  *)
(* (/repo/chan.go) over a Go channel.                                          *)
(*                                                                            *)
(* Processes are goroutines calling one method after another; one action per   *)
(* critical section of the code:                                               *)
(*   Select(p)   chan.go:340-370 Write / 216-248 Read / 188-204 Ok:  the       *)
(*               `select` - Go evaluates every arm under the channel lock:     *)
(*               one of the ready arms is taken (both successors exist when    *)
(*               ctx.Done() and the channel arm are ready), else `default`     *)
(*               (NonBlocking), else the goroutine joins the channel's wait    *)
(*               queue (recvq / sendq, FIFO as in the Go runtime) and parks    *)
(*   Recover(p)  chan.go:341-345: a send that hit a closed channel panics;     *)
(*               the deferred recover turns it into io.EOF                     *)
(*   Resume(p)   a parked goroutine that was woken (hand-off by a counterpart, *)
(*               close, cancellation) computes its return value                *)
(*   the method layer (Check = ers.Ok(err), Drop = IsOk(Check), Force, ...)    *)
(*               is the result mapping of ChanCore applied at return;          *)
(*   LoopHead(p) the loops of ChanSend.Consume (Iterator.Process over Write),  *)
(*               ChanReceive.Consume and Iterator.Next (ReadOne over Read):    *)
(*               what they check before they touch the channel                 *)
(* Client-controlled steps are External: Start (call a method), Cancel (the    *)
(* process's context), Close (ChanOp.Close, chan.go:86-89: close() with any    *)
(* panic swallowed).  Waking a parked goroutine is part of the step that       *)
(* causes it (the runtime dequeues the sudog under the channel lock / closing  *)
(* ctx.Done() selects that arm), so a woken goroutine cannot be "stolen".      *)
(*                                                                            *)
(* Checked: Conservation (accepted = delivered ++ buffered, as sequences: FIFO, *)
(* no loss, no duplication - by a monitor queue), ResultsOK (no result outside the documented table    *)
(* ChanCore, judged against the channel state at the linearization point),     *)
(* NBNeverParks, NoStuck (at quiescence nobody is parked whose completion      *)
(* condition holds), NoCrash (Close never panics), ParkedAccounted, liveness   *)
(* Settles and CancelReturns under weak fairness of the internal steps.        *)
(*                                                                            *)
(* Variant (CONSTANT) selects the code as it is ("asis") or a deliberately     *)
(* wrong variant whose expected TLC violation is a non-vacuity self-test:      *)
(*   "nbparks"      a NonBlocking send without `default`       -> NBNeverParks *)
(*   "noclosewake"  Close does not wake parked senders         -> NoStuck      *)
(*   "norecover"    Write without the deferred recover         -> NoCrash      *)
(*   "closepanics"  Close without its recover (not idempotent) -> NoCrash      *)
(*   "dropdup"      a receive that leaves the item in the buffer -> Conservation *)
(* NilSend = "doc" judges the same code against the table AS DOCUMENTED        *)
(* ("io.EOF if the channel is closed (or nil)", chan.go:334): ResultsOK /      *)
(* NoParkOnNil are then violated - the documented-vs-actual divergence.        *)
(***************************************************************************)
EXTENDS ChanCore

CONSTANTS Senders, Receivers,   \* process identities
          Cap, IsNil,           \* the channel
          OpsPer,               \* calls per process
          SMeths, RMeths,       \* methods explored
          Modes,                \* subset of {"b", "nb"}
          MaxClose,             \* number of Close calls explored (2: idempotence)
          NBLoops,              \* BOOLEAN: also run the looping methods in NonBlocking mode (they spin)
          Variant

Procs == Senders \cup Receivers
None == "-"

VARIABLES buf, closed,        \* the channel
          recvq, sendq,       \* its wait queues (sequences of processes)
          pc,                 \* per process: "idle" "select" "parked" "woken" "panic" "fin"
          cur,                \* per process: the call in progress [meth, nb, val, left, acc]
          wake,               \* per process: how a parked goroutine was woken [base, v]
          done,               \* per process: its context is cancelled
          nops,               \* per process: calls started
          nclose,             \* budget of Close calls
          mq,                 \* monitor: items accepted by the channel and not yet delivered, in order of acceptance
          bad,                \* history: results outside the documented table
          crashed             \* history: a panic escaped

vars == <<buf, closed, recvq, sendq, pc, cur, wake, done, nops, nclose, mq, bad, crashed>>

Chan == [buf |-> buf, closed |-> closed, cap |-> Cap, nil |-> IsNil]
NoCall == [meth |-> None, nb |-> FALSE, val |-> "", left |-> 0, acc |-> 0]
NoWake == [base |-> None, v |-> ""]

Init == /\ buf = <<>> /\ closed = FALSE /\ recvq = <<>> /\ sendq = <<>>
        /\ pc = [p \in Procs |-> "idle"]
        /\ cur = [p \in Procs |-> NoCall]
        /\ wake = [p \in Procs |-> NoWake]
        /\ done = [p \in Procs |-> FALSE]
        /\ nops = [p \in Procs |-> 0]
        /\ nclose = 0
        /\ mq = <<>>
        /\ bad = {} /\ crashed = FALSE

IsSend(p) == p \in Senders
CtxArm(p) == HasCtxArm(cur[p].meth) /\ done[p]
Item(p) == SendVal(cur[p].meth, cur[p].val)
SeqToSet(q) == {q[i] : i \in 1..Len(q)}
Remove(q, p) == SelectSeq(q, LAMBDA x : x # p)

(* ------------------------------------------------------------ External *)
ValOf(p) == ToString(nops[p] + 1) \o p

Start(p) ==
  /\ pc[p] = "idle" /\ nops[p] < OpsPer
  /\ \E m \in (IF IsSend(p) THEN SMeths ELSE RMeths), md \in Modes :
       /\ (m \in LoopMeths /\ md = "nb") => NBLoops
       /\ (m = "ok" /\ md = "b") => ~IsNil              \* a blocking Ok() on a nil channel can never return
       /\ cur' = [cur EXCEPT ![p] = [meth |-> m, nb |-> (md = "nb"), val |-> ValOf(p),
                                     left |-> IF m = "sconsume" THEN 2 ELSE 0, acc |-> 0]]
       /\ pc' = [pc EXCEPT ![p] = IF m \in {"sconsume", "next"} THEN "head" ELSE "select"]
  /\ nops' = [nops EXCEPT ![p] = @ + 1]
  /\ UNCHANGED <<buf, closed, recvq, sendq, wake, done, nclose, mq, bad, crashed>>

\* cancel the context of process p; a goroutine parked in a select with a ctx.Done() arm is woken by it
Cancel(p) ==
  /\ ~done[p]
  /\ done' = [done EXCEPT ![p] = TRUE]
  /\ IF pc[p] = "parked" /\ HasCtxArm(cur[p].meth)
       THEN /\ pc' = [pc EXCEPT ![p] = "woken"]
            /\ wake' = [wake EXCEPT ![p] = [base |-> "ctx", v |-> ""]]
            /\ recvq' = Remove(recvq, p) /\ sendq' = Remove(sendq, p)
       ELSE UNCHANGED <<pc, wake, recvq, sendq>>
  /\ UNCHANGED <<buf, closed, cur, nops, nclose, mq, bad, crashed>>

\* ChanOp.Close(): close(op.ch) under a recover.  close of a nil or closed channel panics -> swallowed.
\* closechan wakes every waiter: receivers get (zero, false), senders panic "send on closed channel".
Close ==
  /\ nclose < MaxClose /\ nclose' = nclose + 1
  /\ IF IsNil \/ closed
       THEN /\ crashed' = (crashed \/ Variant = "closepanics")
            /\ UNCHANGED <<closed, pc, wake, recvq, sendq>>
       ELSE /\ closed' = TRUE /\ crashed' = crashed
            /\ LET ws == SeqToSet(recvq) \cup (IF Variant = "noclosewake" THEN {} ELSE SeqToSet(sendq)) IN
               /\ pc' = [p \in Procs |-> IF p \in ws THEN "woken" ELSE pc[p]]
               /\ wake' = [p \in Procs |-> IF p \in ws THEN [base |-> "eof", v |-> ""] ELSE wake[p]]
            /\ recvq' = <<>> /\ sendq' = (IF Variant = "noclosewake" THEN sendq ELSE <<>>)
  /\ UNCHANGED <<buf, cur, done, nops, mq, bad>>

External == Close \/ \E p \in Procs : Start(p) \/ Cancel(p)

(* ------------------------------------------------------------ return / method layer *)
\* the result vocabulary of every method (what a caller can observe)
Vocabulary(m) ==
  CASE m \in {"write", "zero", "sproc"} -> {"ok", "eof", "ctx", "skip"}
    [] m \in {"scheck", "ok", "drop"}   -> {"true", "false"}
    [] m \in {"signore", "signal", "rignore"} -> {"done"}
    [] m \in {"sconsume", "rconsume"}   -> {"nil", "ctx"}
    [] OTHER -> {"eof", "ctx", "skip", "false"} \cup {"v:" \o x : x \in {""} \cup {ToString(k) \o q : k \in 1..OpsPer, q \in Senders}
                                                                      \cup {ToString(k) \o q \o sfx : k \in 1..OpsPer, q \in Senders, sfx \in {"x", "y"}}}
\* the call of p obtained base result b (item v): check it against the documented table (facts of the
\* linearization point: channel value c, counterpart parked cp), then let the method decide
Judge(p, b, c, cp) ==
  LET tbl == IF IsSend(p) THEN SendBase(c, cur[p].nb, CtxArm(p), cp) ELSE RecvBase(c, cur[p].nb, CtxArm(p), cp)
  IN IF b \in tbl THEN {} ELSE {<<p, cur[p].meth, cur[p].nb, b>>}

\* monitor of deliveries: the item handed to a receiver must be the oldest accepted and undelivered one
Deliver(v, q) == IF q # <<>> /\ Head(q) = v THEN {} ELSE {<<"delivery out of order", v>>}

\* what p does after base result b: returns, or (looping methods) goes round again
Finish(p, b, v, pcs, curs) ==
  LET o == cur[p]
      \* r: what the method reports (ChanCore); it has to be a value of the method's result vocabulary
      ret(r) == /\ pc' = [pcs EXCEPT ![p] = IF nops[p] = OpsPer THEN "fin" ELSE "idle"]
                /\ cur' = [curs EXCEPT ![p] = NoCall] /\ Assert(r \in Vocabulary(o.meth), <<"result outside the vocabulary", o.meth, r>>)
      again(o2) == /\ pc' = [pcs EXCEPT ![p] = IF o.meth = "sconsume" THEN "head" ELSE "select"]
                   /\ cur' = [curs EXCEPT ![p] = o2]
  IN CASE o.meth = "sconsume" ->                       \* iterator.go:407-433 over chan.go:340
            IF b \in {"ok", "skip"} THEN again([o EXCEPT !.left = @ - 1])
            ELSE ret(IF b = "eof" THEN "nil" ELSE "ctx")
       [] o.meth = "rconsume" ->                       \* chan.go:263-291
            IF b = "val" THEN again([o EXCEPT !.acc = @ + 1])
            ELSE IF b = "skip" THEN again(o)
            ELSE ret(IF b = "eof" THEN "nil" ELSE "ctx")
       [] o.meth = "next" ->                           \* iterator.go:208-257
            IF b = "val" THEN ret("v:" \o v) ELSE IF b = "skip" THEN again(o) ELSE ret("false")
       [] IsSend(p) -> ret(SendMethRes(o.meth, b))
       [] OTHER -> ret(RecvMethRes(o.meth, b, v))

(* ------------------------------------------------------------ Internal *)
\* the select statement of p
Select(p) ==
  /\ pc[p] = "select"
  /\ LET o == cur[p]
         chanReady == IF IsSend(p)
                        THEN ~IsNil /\ (closed \/ recvq # <<>> \/ Len(buf) < Cap)
                        ELSE ~IsNil /\ (buf # <<>> \/ sendq # <<>> \/ closed)
     IN
     \/ \* case <-ctx.Done()
        /\ CtxArm(p)
        /\ bad' = bad \cup Judge(p, "ctx", Chan, FALSE)
        /\ Finish(p, "ctx", "", pc, cur)
        /\ UNCHANGED <<buf, closed, recvq, sendq, wake, mq, crashed>>
     \/ \* case sm.ch <- it
        /\ IsSend(p) /\ chanReady
        /\ IF closed THEN                       \* panic: send on closed channel
             /\ pc' = [pc EXCEPT ![p] = "panic"]
             /\ UNCHANGED <<buf, closed, recvq, sendq, cur, wake, mq, bad, crashed>>
           ELSE IF recvq # <<>> THEN            \* direct hand-off to the oldest parked receiver
             LET r == Head(recvq) IN
             /\ recvq' = Tail(recvq)
             /\ wake' = [wake EXCEPT ![r] = [base |-> "val", v |-> Item(p)]]
             /\ bad' = bad \cup Judge(p, "ok", Chan, TRUE) \cup Deliver(Item(p), Append(mq, Item(p)))
             /\ mq' = Tail(Append(mq, Item(p)))
             /\ Finish(p, "ok", "", [pc EXCEPT ![r] = "woken"], cur)
             /\ UNCHANGED <<buf, closed, sendq, crashed>>
           ELSE
             /\ buf' = Append(buf, Item(p)) /\ mq' = Append(mq, Item(p))
             /\ bad' = bad \cup Judge(p, "ok", Chan, FALSE)
             /\ Finish(p, "ok", "", pc, cur)
             /\ UNCHANGED <<closed, recvq, sendq, wake, crashed>>
     \/ \* case obj, ok := <-ro.ch
        /\ ~IsSend(p) /\ chanReady
        /\ IF buf # <<>> THEN
             /\ bad' = bad \cup Judge(p, "val", Chan, sendq # <<>>) \cup Deliver(Head(buf), mq)
             /\ IF sendq # <<>> THEN            \* full buffer: the oldest parked sender's item joins the tail
                  LET w == Head(sendq) IN
                  /\ buf' = Append(IF Variant = "dropdup" THEN buf ELSE Tail(buf), Item(w)) /\ sendq' = Tail(sendq)
                  /\ mq' = Append(Tail(mq), Item(w))
                  /\ wake' = [wake EXCEPT ![w] = [base |-> "ok", v |-> ""]]
                  /\ Finish(p, "val", Head(buf), [pc EXCEPT ![w] = "woken"], cur)
                ELSE
                  /\ buf' = (IF Variant = "dropdup" THEN buf ELSE Tail(buf))
                  /\ mq' = Tail(mq)
                  /\ Finish(p, "val", Head(buf), pc, cur)
                  /\ UNCHANGED <<sendq, wake>>
             /\ UNCHANGED <<closed, recvq, crashed>>
           ELSE IF sendq # <<>> THEN            \* unbuffered rendezvous with the oldest parked sender
             LET w == Head(sendq) IN
             /\ sendq' = Tail(sendq)
             /\ wake' = [wake EXCEPT ![w] = [base |-> "ok", v |-> ""]]
             /\ bad' = bad \cup Judge(p, "val", Chan, TRUE) \cup Deliver(Item(w), Append(mq, Item(w)))
             /\ mq' = Tail(Append(mq, Item(w)))
             /\ Finish(p, "val", Item(w), [pc EXCEPT ![w] = "woken"], cur)
             /\ UNCHANGED <<buf, closed, recvq, crashed>>
           ELSE                                 \* closed and drained: (zero, false) -> io.EOF
             /\ bad' = bad \cup Judge(p, "eof", Chan, FALSE)
             /\ Finish(p, "eof", "", pc, cur)
             /\ UNCHANGED <<buf, closed, recvq, sendq, wake, mq, crashed>>
     \/ \* default: / no arm ready
        /\ ~CtxArm(p) /\ ~chanReady
        /\ IF o.nb /\ ~(Variant = "nbparks" /\ IsSend(p)) THEN
             /\ bad' = bad \cup Judge(p, "skip", Chan, FALSE)
             /\ Finish(p, "skip", "", pc, cur)
             /\ UNCHANGED <<buf, closed, recvq, sendq, wake, mq, crashed>>
           ELSE                                 \* gopark on the channel's wait queue
             /\ pc' = [pc EXCEPT ![p] = "parked"]
             /\ IF IsSend(p) THEN sendq' = Append(sendq, p) /\ UNCHANGED recvq
                             ELSE recvq' = Append(recvq, p) /\ UNCHANGED sendq
             /\ UNCHANGED <<buf, closed, cur, wake, mq, bad, crashed>>
  /\ UNCHANGED <<done, nops, nclose>>

\* what the looping methods check before they touch the channel:
\*   sconsume  Iterator.ReadOne (iterator.go:230-236): ctx.Err() -> the context error; the slice iterator is
\*             exhausted -> io.EOF -> Process returns nil
\*   next      Iterator.Next (iterator.go:209): ctx.Err() != nil -> false (every call here is on a fresh iterator)
LoopHead(p) ==
  /\ pc[p] = "head"
  /\ LET o == cur[p]
         ret(r) == /\ pc' = [pc EXCEPT ![p] = IF nops[p] = OpsPer THEN "fin" ELSE "idle"]
                   /\ cur' = [cur EXCEPT ![p] = NoCall]
     IN IF done[p] THEN ret(IF o.meth = "next" THEN "false" ELSE "ctx")
        ELSE IF o.meth = "sconsume" /\ o.left = 0 THEN ret("nil")
        ELSE pc' = [pc EXCEPT ![p] = "select"] /\ UNCHANGED <<cur>>
  /\ UNCHANGED <<buf, closed, recvq, sendq, wake, done, nops, nclose, mq, bad, crashed>>

\* the deferred recover of Write turns the panic into io.EOF (the item is dropped)
Recover(p) ==
  /\ pc[p] = "panic"
  /\ IF Variant = "norecover"
       THEN /\ crashed' = TRUE /\ pc' = [pc EXCEPT ![p] = "fin"] /\ UNCHANGED <<cur, bad>>
       ELSE /\ bad' = bad \cup Judge(p, "eof", Chan, FALSE)
            /\ Finish(p, "eof", "", pc, cur) /\ UNCHANGED crashed
  /\ UNCHANGED <<buf, closed, recvq, sendq, wake, done, nops, nclose, mq>>

\* a woken goroutine runs again: a sender woken by close panics (-> Recover), everybody else returns
Resume(p) ==
  /\ pc[p] = "woken"
  /\ wake' = [wake EXCEPT ![p] = NoWake]
  /\ IF IsSend(p) /\ wake[p].base = "eof"
       THEN /\ pc' = [pc EXCEPT ![p] = "panic"] /\ UNCHANGED <<cur, bad>>
       ELSE \* judged against the channel as it is now: a hand-off implies the counterpart was there
            /\ bad' = bad \cup (IF wake[p].base \in {"ok", "val"} THEN {} ELSE Judge(p, wake[p].base, Chan, FALSE))
            /\ Finish(p, wake[p].base, wake[p].v, pc, cur)
  /\ UNCHANGED <<buf, closed, recvq, sendq, done, nops, nclose, mq, crashed>>

Internal == \E p \in Procs : LoopHead(p) \/ Select(p) \/ Recover(p) \/ Resume(p)

Next == Internal \/ External
Spec == Init /\ [][Next]_vars /\ WF_vars(Internal)

(* ------------------------------------------------------------ Properties *)
TypeOK == /\ Len(buf) <= Cap
          /\ \A p \in Procs : pc[p] \in {"idle", "head", "select", "parked", "woken", "panic", "fin"}
          /\ SeqToSet(recvq) \subseteq Receivers /\ SeqToSet(sendq) \subseteq Senders

Quiescent == ~ENABLED Internal

\* item conservation, as sequences (FIFO, no loss, no duplication): what the channel accepted and has not
\* delivered is exactly the buffer, in order of acceptance, and every delivery hands out the oldest such item
\* (Deliver puts a mark into `bad` otherwise)
Conservation == mq = buf

\* no result outside the documented table
ResultsOK == bad = {}

\* a NonBlocking operation never blocks
NBNeverParks == \A p \in Procs : pc[p] = "parked" => ~cur[p].nb

\* as documented a send on a nil channel reports io.EOF: nobody can be parked sending on it
NoParkOnNil == (NilSend = "doc" /\ IsNil) => \A p \in Senders : pc[p] # "parked"

\* at quiescence nobody is parked whose completion condition holds (ChanCore: the table says "block")
NoStuck == Quiescent => \A p \in Procs : pc[p] = "parked" =>
             IF IsSend(p) THEN "block" \in SendBase(Chan, FALSE, CtxArm(p), recvq # <<>>)
                          ELSE "block" \in RecvBase(Chan, FALSE, CtxArm(p), sendq # <<>>)

\* wait-queue bookkeeping: parked = queued; receivers wait only on an empty channel, senders on a full one
ParkedAccounted == /\ \A p \in Procs : pc[p] = "parked" <=> (p \in SeqToSet(recvq) \cup SeqToSet(sendq))
                   /\ recvq # <<>> => (IsNil \/ buf = <<>>)
                   /\ (sendq # <<>> /\ Variant # "noclosewake") => (IsNil \/ (Len(buf) = Cap /\ ~closed))
                   /\ ~IsNil => (recvq = <<>> \/ sendq = <<>>)

\* no panic escapes: Close is safe on nil and closed channels, send on closed is recovered
NoCrash == ~crashed

\* liveness: with finitely many client steps everything settles ...
Settles == <>[]Quiescent
\* ... and a call whose context is cancelled returns (Ok() has no context)
CancelReturns == \A p \in Procs : (done[p] /\ pc[p] \in {"head", "select", "parked"} /\ HasCtxArm(cur[p].meth)) ~> (pc[p] \in {"idle", "fin"})
=============================================================================
