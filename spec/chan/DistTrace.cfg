SPECIFICATION Spec
CONSTANTS
  NilSend = "either"
  MaskSkip = TRUE
  Lifo = FALSE
  Scale = 60
INVARIANT Inv
CONSTRAINT HighWater
POSTCONDITION Accepted
CHECK_DEADLOCK FALSE
