SPECIFICATION Spec
CONSTANTS
  NilSend = "doc"
  Senders = {"s1"}
  Receivers = {"r1"}
  Cap = 0
  IsNil = TRUE
  OpsPer = 1
  SMeths = {"write"}
  RMeths = {"read", "ok"}
  Modes = {"b", "nb"}
  MaxClose = 1
  NBLoops = FALSE
  Variant = "asis"
INVARIANTS TypeOK Conservation ResultsOK NBNeverParks NoParkOnNil NoStuck ParkedAccounted NoCrash

CHECK_DEADLOCK FALSE
