SPECIFICATION Spec
CONSTANTS
  NilSend = "either"
  Senders = {"s1", "s2"}
  Receivers = {"r1"}
  Cap = 1
  IsNil = FALSE
  OpsPer = 1
  SMeths = {"write", "sconsume"}
  RMeths = {"read", "rconsume", "next"}
  Modes = {"b", "nb"}
  MaxClose = 1
  NBLoops = FALSE
  Variant = "asis"
INVARIANTS TypeOK Conservation ResultsOK NBNeverParks NoParkOnNil NoStuck ParkedAccounted NoCrash
PROPERTIES Settles CancelReturns
CHECK_DEADLOCK FALSE
