SPECIFICATION Spec
CONSTANTS
  NilSend = "either"
  MaskSkip = TRUE
  Lifo = TRUE
  Scale = 60
  MaxLen = 3
  Depth = 4
  Setups <- LifoSetups
INVARIANT Inv
VIEW view
ACTION_CONSTRAINT EmitEdge
CHECK_DEADLOCK FALSE
