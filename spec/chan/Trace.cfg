SPECIFICATION Spec
CONSTANTS
  NilSendEOF = FALSE
  MaskSkip = TRUE
INVARIANT Inv
CONSTRAINT HighWater
POSTCONDITION Accepted
CHECK_DEADLOCK FALSE
