SPECIFICATION Spec
CONSTANTS
  NilSendEOF = FALSE
INVARIANT Inv
CONSTRAINT HighWater
POSTCONDITION Accepted
CHECK_DEADLOCK FALSE
