SPECIFICATION Spec
CONSTANTS
  NilSend = "either"
  MaskSkip = TRUE
INVARIANT Inv
CONSTRAINT HighWater
POSTCONDITION Accepted
CHECK_DEADLOCK FALSE
