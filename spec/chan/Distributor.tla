----------------------------- MODULE Distributor ----------------------------
(* Sequential behaviours of pubsub.Distributor for model->code replay with     *)
(* exact comparison (X01): every operation is issued when it cannot block, or  *)
(* with an already-cancelled context when it would, so DistCore determines     *)
(* its result.  One behaviour drives SEVERAL views of one backend              *)
(*     raw   the distributor as built by the adaptor                           *)
(*     in    raw.WithInputFilter(rejects "x")                                  *)
(*     out   raw.WithOutputFilter(rejects "y")                                 *)
(*     both  in.WithOutputFilter(rejects "y")                                  *)
(*     in2   in.WithInputFilter(rejects "y")    - filters compose              *)
(*     out2  out.WithOutputFilter(rejects "x")                                 *)
(* so that "a view is a copy sharing the backend" is exercised.  hist[1] is    *)
(* the setup; every later record carries op, view, arg, cancelled, the         *)
(* expected result, Len() and the backend's contents.                          *)
(***************************************************************************)
EXTENDS DistCore, Json

CONSTANTS Setups, Depth, MaxLen

Setup(kind, cap, trk, hard) == [kind |-> kind, cap |-> cap, trk |-> trk, hard |-> hard]
AllSetups == {Setup("chan-b", c, "", 0) : c \in {1, 2}} \cup {Setup("chan-nb", c, "", 0) : c \in {0, 1, 2}}
             \cup {Setup("queue", 0, "nolimit", 0), Setup("queue", 0, "quota", 2)}
             \cup {Setup("deque", 0, "nolimit", 0), Setup("deque", 0, "hard", 2), Setup("deque-nb", 0, "hard", 2),
                   Setup("deque-nb", 0, "hard", 1)}
SmallSetups == {Setup("chan-b", 1, "", 0), Setup("chan-nb", 1, "", 0), Setup("queue", 0, "quota", 2),
                Setup("deque", 0, "hard", 2), Setup("deque-nb", 0, "hard", 2)}
LifoSetups == {Setup("deque-nb", 0, "hard", 2)}

VARIABLES b, hist
vars == <<b, hist>>
view == <<b>>

Init == \E su \in Setups :
          /\ b = MkBackend(su)
          /\ hist = <<[op |-> "new", view |-> su.kind, arg |-> su.trk, canc |-> FALSE, res |-> "", len |-> 0, items |-> <<>>,
                       cap |-> su.cap, hard |-> su.hard, closed |-> FALSE]>>

Rec(op, vw, arg, canc, o) ==
  /\ b' = o.b
  /\ hist' = Append(hist, [op |-> op, view |-> vw, arg |-> arg, canc |-> canc, res |-> o.res, len |-> BLen(o.b),
                           items |-> Items(o.b), cap |-> 0, hard |-> 0, closed |-> BClosed(o.b)])

\* issued live when it cannot block; with a cancelled context when it would
Send(vw, v) ==
  \/ /\ DSend(b, Views[vw], v, FALSE) # {} /\ \E o \in DSend(b, Views[vw], v, FALSE) : Rec("send", vw, v, FALSE, o)
  \/ /\ DSend(b, Views[vw], v, FALSE) = {} /\ \E o \in DSend(b, Views[vw], v, TRUE) : Rec("send", vw, v, TRUE, o)
  \* a NonBlocking channel never blocks: cancelled when no arm is ready (then the context error, not "skipped")
  \/ /\ b.kind = "chan-nb" /\ \A o \in DSend(b, Raw, v, FALSE) : o.res = "skip"
     /\ ~(Views[vw].hasin /\ v \in Views[vw].in)
     /\ \E o \in DSend(b, Views[vw], v, TRUE) : Rec("send", vw, v, TRUE, o)

Recv(vw) ==
  \/ /\ DRecv(b, Views[vw], FALSE) # {} /\ \E o \in DRecv(b, Views[vw], FALSE) : Rec("recv", vw, "", FALSE, o)
  \/ /\ DRecv(b, Views[vw], FALSE) = {} /\ \E o \in DRecv(b, Views[vw], TRUE) : Rec("recv", vw, "", TRUE, o)
  \/ /\ b.kind = "chan-nb" /\ \A o \in DRecv(b, Raw, FALSE) : o.res = "skip"
     /\ \E o \in DRecv(b, Views[vw], TRUE) : Rec("recv", vw, "", TRUE, o)

Next1(vw) == \E o \in DNext(b, Views[vw]) : Rec("next", vw, "", FALSE, o)

LenOp(vw) == Rec("len", vw, "", FALSE, [b |-> b, res |-> ToString(BLen(b))])

Close == ~BClosed(b) /\ Rec("close", "raw", "", FALSE, [b |-> BClose(b), res |-> "done"])

\* an unlimited backend is not filled beyond MaxLen items
Bounded == IF IsChan(b) THEN TRUE ELSE b.st.tr.kind # "nolimit"
Step == \/ \E vw \in ViewNames : (\E v \in Vals : (IF Bounded THEN TRUE ELSE BLen(b) < MaxLen) /\ Send(vw, v)) \/ Recv(vw) \/ Next1(vw) \/ LenOp(vw)
        \/ Close

Next == Len(hist) <= Depth /\ Step
Spec == Init /\ [][Next]_vars

\* sanity: the backends keep their own invariants, a bounded backend never exceeds its bound
Inv == /\ IsChan(b) => Len(b.st.buf) <= b.st.cap
       /\ b.kind = "queue" => Q!QOK(b.st)
       /\ b.kind \in {"deque", "deque-nb"} => D!QOK(b.st)

EmitAll == Len(hist) <= Depth \/ PrintT(<<"BEH", ToJson(hist)>>)
EmitEdge == PrintT(<<"BEH", ToJson(hist')>>)
=============================================================================
