SPECIFICATION Spec
CONSTANTS
  NilSend = "either"
  Caps = {0, 1, 2, 3}
  Nils = {FALSE}
  Depth = 14
  MaxPending = 4
  Bursts = TRUE
  Loops = TRUE
  Dists = TRUE
  MaskSkip = TRUE
INVARIANT Inv
CONSTRAINT EmitAll
CHECK_DEADLOCK FALSE
