SPECIFICATION Spec
CONSTANTS
  NilSend = "either"
  Caps = {0, 1, 2}
  Nils = {FALSE, TRUE}
  Depth = 8
  MaxPending = 2
  Bursts = TRUE
  Loops = TRUE
  Dists = TRUE
  MaskSkip = TRUE
INVARIANT Inv
VIEW view
ACTION_CONSTRAINT EmitEdge
CHECK_DEADLOCK FALSE
