SPECIFICATION Spec
CONSTANTS
  NilSend = "either"
  MaskSkip = FALSE
  Caps = {0, 1}
  Nils = {FALSE}
  Depth = 3
  MaxPending = 2
  Bursts = FALSE
  Loops = FALSE
  Dists = TRUE
INVARIANT Inv
VIEW view
ACTION_CONSTRAINT EmitEdge
CHECK_DEADLOCK FALSE
