------------------------------ MODULE ChanStep ------------------------------
(* Quiescence-stepped driver schedules for fun.ChanOp (X01) with the SET of     *)
(* observations the abstract meaning (ChanSys over the documented table of     *)
(* ChanCore) allows at the next quiescent point.                               *)
(*                                                                            *)
(* A driver step is taken only from a settled configuration (the spec          *)
(* counterpart of rt.Quiesce).  It consists of one action, or of two actions   *)
(* issued back to back with NO quiescent point in between (a BURST: the second *)
(* action lands while the goroutines woken by the first are still on their     *)
(* way - every interleaving of the pending select evaluations with the second  *)
(* action is allowed).  Actions:                                               *)
(*    start   call a ChanSend / ChanReceive method in its own goroutine        *)
(*            (mode b / nb; pre = its context is already cancelled)            *)
(*    cancel  cancel the context of a parked operation                         *)
(*    close   ChanOp.Close()                                                   *)
(*    iclose  Close() of the iterator                                          *)
(* hist[1] describes the channel; every later record carries the actions, the  *)
(* set `allowed` of observations [res: id -> result | "blocked", len] at the   *)
(* next quiescent point, and `br`, the one this behaviour continues with.      *)
(* harness/cmd/vh-chan executes the actions on a real channel wrapped by       *)
(* fun.Blocking / fun.NonBlocking, observes at rt.Quiesce and demands          *)
(* membership in `allowed`; when the real outcome is allowed but differs from  *)
(* `br` (two parked receivers and one item; context cancelled and channel      *)
(* ready) the rest of the schedule does not apply and is dropped - TLC         *)
(* explores one branch per outcome, so some behaviour follows the real one.    *)
(***************************************************************************)
EXTENDS ChanSys, Json

CONSTANTS Caps,        \* channel capacities to explore
          Nils,        \* subset of BOOLEAN: explore nil channels
          Depth,       \* driver steps per behaviour
          MaxPending,  \* bound on simultaneously blocked operations
          Bursts,      \* BOOLEAN: emit burst steps
          Loops,       \* BOOLEAN: emit the looping methods (Consume / Iterator)
          Dists        \* BOOLEAN: emit the filtered distributor operations over the channel

\* S: the settled configurations consistent with everything observed so far.  The observation (results, blocked
\* calls, Len) does not always determine the configuration - after a burst of two sends the order of the two items
\* in the buffer is unknown - so the spec tracks the whole set; `allowed` is what any member allows, and the
\* behaviour continues with the members that agree with `br`.  All members have the same calls in flight.
VARIABLES S, hist
vars == <<S, hist>>
s == CHOOSE x \in S : TRUE

Id == "o" \o ToString(Len(hist) + 1)
Id2 == "p" \o ToString(Len(hist) + 1)       \* second action of a burst
ValOf(id) == "a" \o id

Act(op, id, k, meth, nb, pre, target) ==
  [op |-> op, id |-> id, k |-> k, meth |-> meth, nb |-> nb, val |-> IF k = "send" THEN ValOf(id) ELSE "",
   pre |-> pre, target |-> target, bad |-> FALSE]
\* the same send with an item the distributor filters reject (named "!..." so that the harness' filter knows)
Bad(a) == [a EXCEPT !.val = "!" \o a.val, !.bad = TRUE]

\* items a ChanSend.Consume call pushes
Items(id) == <<ValOf(id) \o "x", ValOf(id) \o "y">>

ApplyAct(x, a) ==
  CASE a.op = "start"  -> StartSucc(x, a.id, a.k, a.meth, a.nb, a.val, a.pre, IF a.meth = "sconsume" THEN Items(a.id) ELSE <<>>, a.bad)
    [] a.op = "close"  -> [CloseSucc(x) EXCEPT !.out = (a.id :> "done") @@ @]
    [] a.op = "cancel" -> CancelSucc(x, a.target)
    [] a.op = "iclose" -> [ICloseSucc(x) EXCEPT !.out = (a.id :> "nil") @@ @]

NPending == Cardinality(Ops(s))
HasNext == \E i \in Ops(s) : s.ops[i].meth = "next"

\* the actions the driver may issue in configuration s (id: the identity a started call gets)
Starts(id) ==
       {Act("start", id, "send", m, nb, pre, "") : m \in SendMeths, nb \in BOOLEAN, pre \in BOOLEAN}
  \cup {Act("start", id, "recv", m, nb, pre, "") : m \in RecvMeths \ {"ok"}, nb \in BOOLEAN, pre \in BOOLEAN}
  \* a blocking Ok() on a nil channel can never return (no context arm): not started
  \cup {Act("start", id, "recv", "ok", nb, FALSE, "") : nb \in (IF s.c.nil THEN {TRUE} ELSE BOOLEAN)}
  \cup (IF Dists
          THEN LET ds == {Act("start", id, "send", m, nb, pre, "") : m \in {"dsendf", "write"}, nb \in BOOLEAN, pre \in BOOLEAN}
               IN {Bad(a) : a \in ds} \cup {a \in ds : a.meth = "dsendf"}
                  \cup {Act("start", id, "recv", "drecvf", nb, pre, "") : nb \in BOOLEAN, pre \in BOOLEAN}
          ELSE {})
  \cup (IF Loops
          THEN {Act("start", id, "send", "sconsume", nb, pre, "") : nb \in BOOLEAN, pre \in BOOLEAN}
               \cup {Act("start", id, "recv", "rconsume", FALSE, FALSE, "")}
               \cup (IF HasNext THEN {} ELSE {Act("start", id, "recv", "next", FALSE, pre, "") : pre \in BOOLEAN})
          ELSE {})
Cancels(id) == {Act("cancel", id, "", "", FALSE, FALSE, IF s.ops[t].meth = "next" THEN ItCtx ELSE t) :
                  t \in {i \in Ops(s) : HasCtxArm(s.ops[i].meth)}}
Others(id) == {Act("close", id, "", "", FALSE, FALSE, "")}
              \cup (IF Loops /\ ~s.itclosed THEN {Act("iclose", id, "", "", FALSE, FALSE, "")} ELSE {})
Acts(id) == (IF NPending < MaxPending THEN Starts(id) ELSE {}) \cup Cancels(id) \cup Others(id)

\* the reduced alphabet of burst steps
BurstActs(id) ==
       (IF NPending + 1 < MaxPending
          THEN {Act("start", id, k, IF k = "send" THEN "write" ELSE "read", nb, FALSE, "") : k \in {"send", "recv"}, nb \in BOOLEAN}
          ELSE {})
  \cup Cancels(id) \cup {Act("close", id, "", "", FALSE, FALSE, "")}

Rec(acts, alw, br) == [acts |-> acts, allowed |-> alw, br |-> br, cap |-> 0, nil |-> FALSE]

Fresh == {[x EXCEPT !.out = <<>>] : x \in S}

Single == \E a \in Acts(Id) :
            LET fin == Final({ApplyAct(x, a) : x \in Fresh}) IN
            \E o \in {Obs(x) : x \in fin} :
               /\ S' = {x \in fin : Obs(x) = o}
               /\ hist' = Append(hist, Rec(<<a>>, {Obs(x) : x \in fin}, o))

Burst == /\ Bursts
         /\ \E a \in BurstActs(Id) :
            \E b \in BurstActs(Id2) \cup (IF a.op = "start" THEN {Act("cancel", Id2, "", "", FALSE, FALSE, a.id)} ELSE {}) :
              /\ ~(a.op = "cancel" /\ b.op = "cancel" /\ a.target = b.target)
              /\ LET mid == Reach({ApplyAct(x, a) : x \in Fresh})
                     fin == Final({ApplyAct(x, b) : x \in mid})
                 IN \E o \in {Obs(x) : x \in fin} :
                      /\ S' = {x \in fin : Obs(x) = o}
                      /\ hist' = Append(hist, Rec(<<a, b>>, {Obs(x) : x \in fin}, o))

Init == \E cap \in Caps, n \in Nils :
          /\ S = {NewSys(cap, n)}
          /\ hist = <<[acts |-> <<>>, allowed |-> {}, br |-> [res |-> <<>>, len |-> 0], cap |-> cap, nil |-> n]>>

Next == Len(hist) < Depth + 1 /\ (Single \/ Burst)
Spec == Init /\ [][Next]_vars

\* operation identities, item names and the results of finished calls do not influence what can happen next
Shape(o) == <<o.k, IF o.meth \in LoopMeths THEN o.meth ELSE IF o.meth = "ok" THEN "ok" ELSE "", Len(o.left)>>
View1(x) == <<Len(x.c.buf), x.c.closed, x.c.cap, x.c.nil, x.itclosed, x.itcanc,
             {<<sh, Cardinality({i \in Ops(x) : Shape(x.ops[i]) = sh})>> : sh \in {Shape(x.ops[i]) : i \in Ops(x)}}>>
view == {View1(x) : x \in S}

Inv == /\ S # {}
       /\ \A x \in S : SysOK(x) /\ Settled(x) /\ Obs(x) = Obs(s)

EmitAll == Len(hist) < Depth + 1 \/ PrintT(<<"BEH", ToJson(hist)>>)
EmitEdge == PrintT(<<"BEH", ToJson(hist')>>)
=============================================================================
