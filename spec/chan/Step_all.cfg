SPECIFICATION Spec
CONSTANTS
  NilSend = "either"
  Caps = {0, 1}
  Nils = {FALSE}
  Depth = 2
  MaxPending = 3
  Bursts = TRUE
  Loops = TRUE
  Dists = TRUE
  MaskSkip = TRUE
INVARIANT Inv
CONSTRAINT EmitAll
CHECK_DEADLOCK FALSE
