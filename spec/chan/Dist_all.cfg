SPECIFICATION Spec
CONSTANTS
  NilSend = "either"
  MaskSkip = TRUE
  Lifo = FALSE
  Scale = 60
  MaxLen = 3
  Depth = 2
  Setups <- SmallSetups
INVARIANT Inv
CONSTRAINT EmitAll
CHECK_DEADLOCK FALSE
