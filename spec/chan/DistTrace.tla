------------------------------ MODULE DistTrace -----------------------------
(* Code -> model: a history recorded from concurrent Send / Receive / Len /     *)
(* Close calls on the views of one Queue- or Deque-backed pubsub.Distributor   *)
(* (vh-chan drecord) must be a linearizable history of DistCore - every call   *)
(* takes effect atomically between its `call` and `ret` with exactly the       *)
(* logged result, filters included - and at every `quiescent` event no call    *)
(* that has not returned may be enabled in the abstract state.                 *)
(* (Channel-backed distributors need the rendezvous semantics of ChanSys:      *)
(* their histories are validated by ChanTrace, methods dsendf / drecvf.)       *)
(*                                                                            *)
(* Events: reset(kind, trk, hard) / call(id, op, view, arg) / ret(id, res) /   *)
(*         cancel(id) / quiescent(blocked, len).                               *)
(* A `cancel` event is logged before the context is cancelled: from then on    *)
(* the call MAY report the context error; by the next quiescent point it must  *)
(* have returned.                                                              *)
(***************************************************************************)
EXTENDS DistCore, Json

Trace == ndJsonDeserialize("trace.ndjson")

VARIABLES l, b, pend, cancelled
vars == <<l, b, pend, cancelled>>

Ev == Trace[l]
More == l <= Len(Trace)

Setup0 == [kind |-> "queue", cap |-> 0, trk |-> "nolimit", hard |-> 0]
Init == l = 1 /\ b = MkBackend(Setup0) /\ pend = {} /\ cancelled = {}

Reset == /\ More /\ Ev.ev = "reset"
         /\ b' = MkBackend([kind |-> Ev.kind, cap |-> 0, trk |-> Ev.trk, hard |-> Ev.hard])
         /\ pend' = {} /\ cancelled' = {} /\ l' = l + 1

Call == /\ More /\ Ev.ev = "call"
        /\ pend' = pend \cup {[id |-> Ev.id, op |-> Ev.op, view |-> Ev.view, arg |-> Ev.arg, lin |-> FALSE, res |-> "-"]}
        /\ l' = l + 1 /\ UNCHANGED <<b, cancelled>>

Outs(p) == LET c == p.id \in cancelled IN
  CASE p.op = "send"  -> DSend(b, Views[p.view], p.arg, c)
    [] p.op = "recv"  -> DRecv(b, Views[p.view], c)
    [] p.op = "len"   -> {[b |-> b, res |-> ToString(BLen(b))]}
    [] p.op = "close" -> {[b |-> BClose(b), res |-> "done"]}

Lin == \E p \in pend :
         /\ ~p.lin
         /\ \E o \in Outs(p) : /\ b' = o.b
                               /\ pend' = (pend \ {p}) \cup {[p EXCEPT !.lin = TRUE, !.res = o.res]}
         /\ UNCHANGED <<l, cancelled>>

RetEv == /\ More /\ Ev.ev = "ret"
         /\ \E p \in pend : p.id = Ev.id /\ p.lin /\ p.res = Ev.res /\ pend' = pend \ {p}
         /\ l' = l + 1 /\ UNCHANGED <<b, cancelled>>

Cancel == /\ More /\ Ev.ev = "cancel"
          /\ cancelled' = cancelled \cup {Ev.id}
          /\ l' = l + 1 /\ UNCHANGED <<b, pend>>

Quiet == /\ More /\ Ev.ev = "quiescent"
         /\ \A p \in pend : ~p.lin /\ Outs(p) = {}
         /\ {p.id : p \in pend} = {Ev.blocked[i] : i \in 1..Len(Ev.blocked)}
         /\ Ev.len = BLen(b)
         /\ l' = l + 1 /\ UNCHANGED <<b, pend, cancelled>>

Next == Reset \/ Call \/ Lin \/ RetEv \/ Cancel \/ Quiet
Spec == Init /\ [][Next]_vars

Inv == /\ b.kind = "queue" => Q!QOK(b.st)
       /\ b.kind \in {"deque", "deque-nb"} => D!QOK(b.st)

HighWater == TLCSet(1, IF TLCGet(1) < l THEN l ELSE TLCGet(1))
Accepted == \/ TLCGet(1) = Len(Trace) + 1
            \/ PrintT(<<"REJECTED", ToJson([at |-> TLCGet(1), event |-> Trace[TLCGet(1)]])>>) /\ FALSE
ASSUME TLCSet(1, 0)
=============================================================================
