---------------------------- MODULE BrokerTrace ----------------------------
(* Code -> model: a history recorded from a real pubsub.Broker (vh-broker     *)
(* replay / record) is checked against the abstract broker of BrokerAbs.      *)
(*                                                                            *)
(* Events (one JSON object per line, DESIGN.md 2.3a):                         *)
(*   reset(backend,cap,w,par,buf)           a new broker                      *)
(*   call(id,c,op,s,p,i) / ret(id,res)      op in sub unsub pub stats stop wait; c = context id    *)
(*   recv(s,p,i)                            subscriber s received <<p,i>>     *)
(*   readon(s) / readoff(s)                 s starts / stops receiving        *)
(*   cancel(c)                              context c of an API call ended    *)
(*   cancelparent                           the constructor's context ended   *)
(*   quiescent(depth,live)                  nothing is runnable: distributor  *)
(*                                          length, live broker goroutines    *)
(*   skip                                   a schedule step that was not applicable *)
(*                                                                            *)
(* The abstract state is determined by the event order alone (no search):     *)
(* which publications exist, which <<s,m>> pairs are owed (C08 window), what  *)
(* each subscriber received so far (sequences), who is receiving, which calls *)
(* are pending with which context.  Every event has a guard; the first event  *)
(* whose guard fails ends the run with `verdict` naming the violated          *)
(* predicate.  JudgeDelivery selects the obligations of C08, JudgeProgress    *)
(* those of C09, so that each check reports only its own property.            *)
(*                                                                            *)
(* UnsubWindow = "called" is the reading of DESIGN 5.0.  "never" exempts      *)
(* subscribers that called Unsubscribe at all (used only to keep judging the  *)
(* rest of a history that already showed the known unsubscribe finding).      *)
(***************************************************************************)
EXTENDS BrokerAbs, TLC, Json

CONSTANTS JudgeDelivery, JudgeProgress, UnsubWindow

Trace == ndJsonDeserialize("trace.ndjson")
SubNames == {"s1", "s2", "s3", "s4", "s5", "s6"}

VARIABLES l, cfg, called, pend, cctx, subret, unsubcalled, owed, rcv, reading, stopcalled, stopdone, verdict
vars == <<l, cfg, called, pend, cctx, subret, unsubcalled, owed, rcv, reading, stopcalled, stopdone, verdict>>

Ev == Trace[l]
More == l <= Len(Trace) /\ verdict = "ok"

NoCfg == [backend |-> "chan", cap |-> 0, w |-> 1, par |-> FALSE, buf |-> 0]
Fresh == /\ called = {} /\ pend = {} /\ cctx = {} /\ subret = {} /\ unsubcalled = {} /\ owed = {}
         /\ rcv = [s \in SubNames |-> <<>>] /\ reading = {} /\ stopcalled = FALSE /\ stopdone = FALSE

Init == l = 1 /\ cfg = NoCfg /\ verdict = "ok" /\ Fresh

IsLossless == Lossless(cfg.backend, cfg.cap, cfg.buf)
Ordered == IsLossless /\ cfg.w = 1
Msg(e) == <<e.p, e.i>>

Step == l' = l + 1 /\ verdict' = verdict
Fail(why) == l' = l /\ verdict' = why

Reset == /\ More /\ Ev.ev = "reset"
         /\ cfg' = [backend |-> Ev.backend, cap |-> Ev.cap, w |-> Ev.w, par |-> Ev.par, buf |-> Ev.buf]
         /\ called' = {} /\ pend' = {} /\ cctx' = {} /\ subret' = {} /\ unsubcalled' = {} /\ owed' = {}
         /\ rcv' = [s \in SubNames |-> <<>>] /\ reading' = {} /\ stopcalled' = FALSE /\ stopdone' = FALSE
         /\ Step

\* Publish(m) is called: remember who had a returned Subscribe and no Unsubscribe call yet
Call == /\ More /\ Ev.ev = "call"
        /\ pend' = pend \cup {[id |-> Ev.id, op |-> Ev.op, c |-> Ev.c, s |-> Ev.s, m |-> Msg(Ev),
                               cand |-> IF Ev.op = "pub" THEN subret \ unsubcalled ELSE {}]}
        /\ called' = IF Ev.op = "pub" THEN called \cup {Msg(Ev)} ELSE called
        /\ unsubcalled' = IF Ev.op = "unsub" THEN unsubcalled \cup {Ev.s} ELSE unsubcalled
        /\ stopcalled' = (stopcalled \/ Ev.op = "stop")
        /\ Step /\ UNCHANGED <<cfg, cctx, subret, owed, rcv, reading, stopdone>>

\* Publish(m) returned with its own context live and the broker not told to stop: m was accepted,
\* and is owed to every candidate whose Unsubscribe has still not been called
Ret == /\ More /\ Ev.ev = "ret"
       /\ IF \E p \in pend : p.id = Ev.id
            THEN LET p == CHOOSE p \in pend : p.id = Ev.id IN
                 /\ pend' = pend \ {p}
                 /\ subret' = IF p.op = "sub" /\ Ev.res = "ok" THEN subret \cup {p.s} ELSE subret
                 /\ owed' = IF p.op = "pub" /\ Ev.res = "ok" /\ p.c \notin cctx /\ ~stopcalled
                              THEN owed \cup {<<s, p.m>> : s \in p.cand \ unsubcalled} ELSE owed
                 /\ stopdone' = (stopdone \/ p.op = "stop")
                 /\ Step
            ELSE Fail("harness/return-without-call") /\ UNCHANGED <<pend, subret, owed, stopdone>>
       /\ UNCHANGED <<cfg, called, cctx, unsubcalled, rcv, reading, stopcalled>>

RecvWhy == LET m == Msg(Ev) q == rcv[Ev.s] IN
  IF ~JudgeDelivery THEN "ok"
  ELSE IF m \notin called THEN "delivery/not-published"
  ELSE IF ~FreshFor(q, m) THEN "delivery/duplicate"
  ELSE IF Ordered /\ ~KeepsPublisherOrder(q, m) THEN "order/publisher-order"
  ELSE IF Ordered /\ \E t \in SubNames \ {Ev.s} : ~KeepsSameOrder(q, m, rcv[t]) THEN "order/subscribers-disagree"
  ELSE "ok"

Recv == /\ More /\ Ev.ev = "recv"
        /\ IF Ev.s \notin SubNames THEN Fail("harness/unknown-subscriber") /\ UNCHANGED rcv
           ELSE IF RecvWhy = "ok" THEN rcv' = [rcv EXCEPT ![Ev.s] = Append(@, Msg(Ev))] /\ Step
           ELSE Fail(RecvWhy) /\ UNCHANGED rcv
        /\ UNCHANGED <<cfg, called, pend, cctx, subret, unsubcalled, owed, reading, stopcalled, stopdone>>

ReadOn == /\ More /\ Ev.ev = "readon" /\ reading' = reading \cup {Ev.s} /\ Step
          /\ UNCHANGED <<cfg, called, pend, cctx, subret, unsubcalled, owed, rcv, stopcalled, stopdone>>
ReadOff == /\ More /\ Ev.ev = "readoff" /\ reading' = reading \ {Ev.s} /\ Step
           /\ UNCHANGED <<cfg, called, pend, cctx, subret, unsubcalled, owed, rcv, stopcalled, stopdone>>
Cancel == /\ More /\ Ev.ev = "cancel" /\ cctx' = cctx \cup {Ev.c} /\ Step
          /\ UNCHANGED <<cfg, called, pend, subret, unsubcalled, owed, rcv, reading, stopcalled, stopdone>>
CancelParent == /\ More /\ Ev.ev = "cancelparent" /\ stopcalled' = TRUE /\ stopdone' = TRUE /\ Step
                /\ UNCHANGED <<cfg, called, pend, cctx, subret, unsubcalled, owed, rcv, reading>>
Skip == /\ More /\ Ev.ev = "skip" /\ Step
        /\ UNCHANGED <<cfg, called, pend, cctx, subret, unsubcalled, owed, rcv, reading, stopcalled, stopdone>>

\* every subscriber that holds a subscription channel is receiving (one that is not may hold up a dispatch
\* worker - documented behaviour - so nothing is owed to anybody at such a point)
AllReading == subret \subseteq reading
Live == ~stopcalled

Due == IF UnsubWindow = "never" THEN {sm \in owed : sm[1] \notin unsubcalled} ELSE owed
Lost == Missing(Due, rcv)

PendOp(ops) == {p \in pend : p.op \in ops}

QuietWhy ==
  IF JudgeDelivery /\ IsLossless /\ Live /\ AllReading /\ Lost # {}
    THEN (IF \A sm \in Lost : sm[1] \in unsubcalled THEN "exactly-once/unsubscribe-window" ELSE "exactly-once/lost")
  ELSE IF ~JudgeProgress THEN "ok"
  ELSE IF Live /\ AllReading /\ PendOp({"pub"}) # {} THEN "progress/publish-blocked"
  ELSE IF Live /\ AllReading /\ Ev.depth > 0 THEN "progress/accepted-not-dispatched"
  ELSE IF \E p \in PendOp({"pub", "sub", "unsub", "stats"}) : p.c \in cctx THEN "shutdown/call-ignores-its-context"
  ELSE IF PendOp({"stop"}) # {} THEN "shutdown/stop-blocked"
  ELSE IF stopdone /\ PendOp({"wait"}) # {} THEN "shutdown/wait-blocked"
  ELSE IF stopdone /\ Ev.live > 0 THEN "shutdown/goroutine-left"
  ELSE "ok"

Quiet == /\ More /\ Ev.ev = "quiescent"
         /\ IF QuietWhy = "ok" THEN Step ELSE Fail(QuietWhy)
         /\ UNCHANGED <<cfg, called, pend, cctx, subret, unsubcalled, owed, rcv, reading, stopcalled, stopdone>>

Known == {"reset", "call", "ret", "recv", "readon", "readoff", "cancel", "cancelparent", "skip", "quiescent"}
Unknown == /\ More /\ Ev.ev \notin Known /\ Fail("harness/unknown-event")
           /\ UNCHANGED <<cfg, called, pend, cctx, subret, unsubcalled, owed, rcv, reading, stopcalled, stopdone>>

Next == Reset \/ Call \/ Ret \/ Recv \/ ReadOn \/ ReadOff \/ Cancel \/ CancelParent \/ Skip \/ Quiet \/ Unknown
Spec == Init /\ [][Next]_vars

\* acceptance (needs -workers 1): position and verdict of the last state reached
HighWater == TLCSet(1, l) /\ TLCSet(2, verdict)
Accepted == \/ TLCGet(1) = Len(Trace) + 1 /\ TLCGet(2) = "ok"
            \/ PrintT(<<"REJECTED", ToJson([at |-> TLCGet(1), why |-> TLCGet(2),
                                             event |-> Trace[IF TLCGet(1) <= Len(Trace) THEN TLCGet(1) ELSE Len(Trace)]])>>) /\ FALSE
ASSUME TLCSet(1, 0) /\ TLCSet(2, "ok")
=============================================================================
