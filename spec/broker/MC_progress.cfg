\* C09 progress: burst of 3 against always-ready subscribers, liveness under WF(Internal)
SPECIFICATION Spec
CONSTANTS
  Pubs = {"p1"}
  K = 3
  Subs = {"s1", "s2"}
  W = 1
  Parallel = FALSE
  Backend = "queue"
  Cap = 0
  Buf = 0
  StatsIds = {}
  WaitIds = {}
  StopIds = {}
  AutoRead = TRUE
  Toggles = 0
  AllowUnsub = FALSE
  AllowParentCancel = FALSE
  CtxCancels = 0
  Redundant = 0
  WaitLocksMu = FALSE
  StatsBuffered = TRUE
  RecvWaitsFirst = FALSE
  KF_UnsubWindow = TRUE
  CtlBuf = 0
INVARIANTS TypeOK OnlyPublishedInv NoDuplicateInv ExactlyOnceInv OrderInv NoStall CtxRespected StopReturns CleanShutdown MutexFree
PROPERTIES Dispatches PublishReturns Settles
CHECK_DEADLOCK FALSE
