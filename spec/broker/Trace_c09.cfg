SPECIFICATION Spec
CONSTANTS
  JudgeDelivery = FALSE
  JudgeProgress = TRUE
  UnsubWindow = "called"
CONSTRAINT HighWater
POSTCONDITION Accepted
CHECK_DEADLOCK FALSE
