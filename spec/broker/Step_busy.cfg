\* membership churn while the event loop is held up by a full blocking distributor (per configuration)
SPECIFICATION Spec
CONSTANTS
  Configs <- BusyConfigs
  Subs = {"s1", "s2"}
  Pubs = {"p1", "p2"}
  MaxBurst = 2
  MaxMsgs = 6
  Depth = 9
  Mode = "churn"
  Aware = TRUE
  Holds = {FALSE}
INVARIANT Inv
VIEW view
ACTION_CONSTRAINT EmitBusyEdge
CHECK_DEADLOCK FALSE
