\* progress / shutdown with buffered subscription channels and several dispatch workers (per configuration)
SPECIFICATION Spec
CONSTANTS
  Configs <- BufferedConfigs
  Subs = {"s1"}
  Pubs = {"p1"}
  MaxBurst = 3
  MaxMsgs = 6
  Depth = 7
  Mode = "life"
  Aware = TRUE
  Holds = {FALSE}
INVARIANT Inv
VIEW view
ACTION_CONSTRAINT EmitEdge
CHECK_DEADLOCK FALSE
