\* what-if: subCh / unsubCh buffered although BufferSize = 0 (Subscribe returns before the registration): ExactlyOnceInv must be violated
SPECIFICATION Spec
CONSTANTS
  Pubs = {"p1", "p2"}
  K = 1
  Subs = {"s1", "s2"}
  W = 1
  Parallel = FALSE
  Backend = "chan"
  Cap = 0
  Buf = 0
  StatsIds = {}
  WaitIds = {}
  StopIds = {}
  AutoRead = FALSE
  Toggles = 2
  AllowUnsub = FALSE
  AllowParentCancel = FALSE
  CtxCancels = 0
  Redundant = 0
  WaitLocksMu = FALSE
  StatsBuffered = TRUE
  RecvWaitsFirst = FALSE
  KF_UnsubWindow = TRUE
  CtlBuf = 1
INVARIANTS TypeOK ExactlyOnceInv
CHECK_DEADLOCK FALSE
