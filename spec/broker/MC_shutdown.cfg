\* C09 shutdown: Stop / parent cancel / Wait at every point of a dispatch
SPECIFICATION Spec
CONSTANTS
  Pubs = {"p1"}
  K = 2
  Subs = {"s1"}
  W = 1
  Parallel = FALSE
  Backend = "queue"
  Cap = 0
  Buf = 0
  StatsIds = {}
  WaitIds = {"v1"}
  StopIds = {"t1"}
  AutoRead = FALSE
  Toggles = 1
  AllowUnsub = FALSE
  AllowParentCancel = TRUE
  CtxCancels = 0
  Redundant = 0
  WaitLocksMu = FALSE
  StatsBuffered = TRUE
  RecvWaitsFirst = FALSE
  KF_UnsubWindow = TRUE
  CtlBuf = 0
INVARIANTS TypeOK OnlyPublishedInv NoDuplicateInv ExactlyOnceInv OrderInv NoStall CtxRespected StopReturns CleanShutdown MutexFree
PROPERTIES ShutsDown WaitReturns StopCompletes Settles
CHECK_DEADLOCK FALSE
