SPECIFICATION Spec
CONSTANTS
  Configs <- OneConfig
  Subs = {"s1", "s2"}
  Pubs = {"p1", "p2"}
  MaxBurst = 3
  MaxMsgs = 6
  Depth = 9
  Mode = "all"
  Aware = FALSE
  Holds = {FALSE}
INVARIANT Inv
VIEW view
ACTION_CONSTRAINT EmitEdge
CHECK_DEADLOCK FALSE
