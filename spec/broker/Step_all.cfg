SPECIFICATION Spec
CONSTANTS
  Configs <- OneConfig
  Subs = {"s1", "s2"}
  Pubs = {"p1"}
  MaxBurst = 2
  MaxMsgs = 4
  Depth = 5
  Mode = "all"
  Aware = FALSE
  Holds = {FALSE}
INVARIANT Inv
CONSTRAINT EmitAll
CHECK_DEADLOCK FALSE
