SPECIFICATION Spec
CONSTANTS
  Configs <- OneConfig
  Subs = {"s1", "s2"}
  Pubs = {"p1"}
  MaxBurst = 2
  MaxMsgs = 4
  Depth = 5
  Focus = FALSE
INVARIANT Inv
CONSTRAINT EmitAll
CHECK_DEADLOCK FALSE
