----------------------------- MODULE BrokerAbs -----------------------------
(* The meaning of properties C08 / C09 for pubsub.Broker as pure operators,   *)
(* shared by the implementation-shaped spec (BrokerImpl), the schedule        *)
(* generator (BrokerStep) and the trace validator (BrokerTrace).              *)
(*                                                                            *)
(* A message is a pair <<publisher, n>>: the n-th message of a publisher that *)
(* publishes sequentially.  What a subscriber observed is the SEQUENCE of     *)
(* messages received on its subscription channel.                             *)
(*                                                                            *)
(* Readings fixed in DESIGN.md 5.0:                                           *)
(*  - C08 window: m is owed to s iff Publish(m) was called after Subscribe    *)
(*    returned for s, Publish(m) returned (with its own context live) before  *)
(*    Unsubscribe(s) was called, and s keeps receiving until quiescence.      *)
(*  - lossless = unbuffered subscription channels and a channel, unlimited    *)
(*    Queue or unlimited Deque distributor; every other configuration is      *)
(*    judged for OnlyPublished and NoDuplicate only.                          *)
(*  - C09: at quiescence, context live and every subscriber receiving: the    *)
(*    distributor is empty and no Publish is blocked.                         *)
(***************************************************************************)
EXTENDS Integers, Sequences, FiniteSets

Elems(q) == {q[i] : i \in 1..Len(q)}
Pos(q, m) == CHOOSE i \in 1..Len(q) : q[i] = m

\* back-ends: "chan" (cap 0 = rendezvous), "queue" / "deque" (cap 0 = unlimited; bounded queue sheds load
\* with ErrQueueFull, bounded deque blocks the event loop), "nbdeque" / "lifo" (ForcePushBack: evicts the oldest)
Lossless(backend, cap, buf) ==
  /\ buf = 0
  /\ \/ backend = "chan"
     \/ backend \in {"queue", "deque"} /\ cap = 0

\* ---- C08, per subscriber sequence
NoDuplicate(q) == \A i, j \in 1..Len(q) : i # j => q[i] # q[j]
OnlyPublished(q, published) == Elems(q) \subseteq published
\* a publisher's messages arrive in the order it published them
PublisherOrder(q) == \A i, j \in 1..Len(q) : (i < j /\ q[i][1] = q[j][1]) => q[i][2] < q[j][2]
\* two subscribers agree on the relative order of the messages both received
SameOrder(q, r) == \A i, j \in 1..Len(q) :
                     (i < j /\ q[i] \in Elems(r) /\ q[j] \in Elems(r)) => Pos(r, q[i]) < Pos(r, q[j])

\* incremental forms used by the trace validator: may subscriber s, having seen q, now receive m?
FreshFor(q, m) == m \notin Elems(q)
KeepsPublisherOrder(q, m) == \A i \in 1..Len(q) : q[i][1] = m[1] => q[i][2] < m[2]
KeepsSameOrder(q, m, r) == m \in Elems(r) => \A i \in 1..Len(q) : q[i] \in Elems(r) => Pos(r, q[i]) < Pos(r, m)

\* ---- C08 ExactlyOnce at a quiescent point: every owed pair has been delivered
\* owed is a set of <<s, m>>; rcv maps subscribers to sequences
Delivered(owed, rcv) == \A sm \in owed : sm[2] \in Elems(rcv[sm[1]])
Missing(owed, rcv) == {sm \in owed : sm[2] \notin Elems(rcv[sm[1]])}
=============================================================================
