SPECIFICATION Spec
CONSTANTS
  Configs <- OneConfig
  Subs = {"s1", "s2", "s3"}
  Pubs = {"p1", "p2"}
  MaxBurst = 4
  MaxMsgs = 12
  Depth = 16
  Mode = "all"
  Aware = FALSE
  Holds = {FALSE}
INVARIANT Inv
CONSTRAINT EmitAll
CHECK_DEADLOCK FALSE
