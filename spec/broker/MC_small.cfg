\* C08 delivery model, quick tier: one publisher x 2 messages, two subscribers that subscribe / pause / resume / unsubscribe
SPECIFICATION Spec
CONSTANTS
  Pubs = {"p1"}
  K = 2
  Subs = {"s1", "s2"}
  W = 1
  Parallel = FALSE
  Backend = "queue"
  Cap = 0
  Buf = 0
  StatsIds = {}
  WaitIds = {}
  StopIds = {}
  AutoRead = FALSE
  Toggles = 2
  AllowUnsub = TRUE
  AllowParentCancel = FALSE
  CtxCancels = 0
  Redundant = 0
  WaitLocksMu = FALSE
  StatsBuffered = TRUE
  RecvWaitsFirst = FALSE
  KF_UnsubWindow = TRUE
  CtlBuf = 0
INVARIANTS TypeOK OnlyPublishedInv NoDuplicateInv ExactlyOnceInv OrderInv NoStall CtxRespected StopReturns CleanShutdown MutexFree
CHECK_DEADLOCK FALSE
