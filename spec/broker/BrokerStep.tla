----------------------------- MODULE BrokerStep -----------------------------
(* Quiescence-stepped driver schedules for pubsub.Broker (C08, C09).          *)
(*                                                                            *)
(* Every action is one step of the conformance driver (vh-broker replay),     *)
(* followed in the harness by "run to quiescence" (rt.Quiesce) and an         *)
(* observation.  `hist` is the schedule.  The abstract state below is what    *)
(* the driver itself controls or can predict from its own steps (who holds a  *)
(* subscription, who is receiving, whether undelivered messages may be        *)
(* backed up, whether shutdown was requested, which calls might still be      *)
(* pending); it exists to enumerate the scenario classes of the two           *)
(* properties through edge coverage - burst before the dispatcher runs,       *)
(* backlog while a subscriber pauses, Unsubscribe with a backlog, Stop /      *)
(* parent cancel at idle / mid-dispatch / mid-publish / with backlog, Wait    *)
(* before Stop, calls with an already cancelled or later cancelled context.   *)
(* What the real broker must show at each quiescent point is decided by       *)
(* BrokerTrace on the recorded history (the broker's own nondeterminism -     *)
(* map range order, select choice, worker scheduling - makes the allowed      *)
(* observations a set that depends on earlier observations, so the judgement  *)
(* is done on the history, not by comparing with one predicted outcome).      *)
(*                                                                            *)
(* Emitters: Step_edge.cfg (VIEW + one shortest schedule per edge of the      *)
(* scenario graph), Step_all.cfg (all sequences to a small depth),            *)
(* Step_sim.cfg (-simulate, long random ones); for these the configuration is *)
(* not part of a scenario: the check driver pairs every scenario with         *)
(* configurations from StepConfigs (back-end x ParallelDispatch x             *)
(* WorkerPoolSize x BufferSize), always including a lossless one.             *)
(* Scenario families (Mode restricts the step vocabulary):                    *)
(*  Step_focus.cfg    membership churn: Subscribe / Unsubscribe / receive     *)
(*                    on-off / Publish, including redundant membership        *)
(*                    operations (Unsubscribe twice, of nil, of a channel the *)
(*                    broker never handed out) - idempotent set operations    *)
(*  Step_busy.cfg     (Aware: per configuration) Subscribe / Unsubscribe      *)
(*                    issued while the event loop is held up by a full        *)
(*                    blocking distributor, publications by one or two        *)
(*                    publishers pending behind it, until everybody receives  *)
(*                    (does a call return before its effect is in place?)     *)
(*  Step_buffered.cfg (Aware) buffered subscription channels, two workers,    *)
(*                    subscriber pauses, Stop / parent cancel / Wait          *)
(*  Step_window.cfg   (Aware, Holds) the dispatcher is held at the yield      *)
(*                    point pubsub.wait.before-cond-wait - after its          *)
(*                    emptiness check, before its park - while Stop / parent  *)
(*                    cancel runs (cancel-between-check-and-park)             *)
(*                                                                            *)
(* A step that turns out not to be applicable in the real run (e.g. readon    *)
(* for a subscriber whose Subscribe is still blocked) is logged as `skip`.    *)
(***************************************************************************)
EXTENDS BrokerAbs, TLC, Json

CONSTANTS Configs,    \* set of [a, n, w, par, buf]: back-end, capacity, WorkerPoolSize, ParallelDispatch, BufferSize
          Subs, Pubs, \* subscriber / publisher names (strings)
          MaxBurst,   \* largest publish burst
          MaxMsgs,    \* messages per behaviour
          Depth,      \* driver steps per behaviour (including the constructor)
          Mode,       \* step vocabulary: "all"; "churn" = Subscribe / Unsubscribe (also redundant ones) / receive on-off /
                      \* Publish (membership, the C08 window); "life" = Subscribe / receive on-off / Publish / Stop /
                      \* parent cancel / Wait (progress and shutdown)
          Aware,      \* TRUE: the configuration is part of the scenario (and of the view): scenario classes that exist
                      \* only for some configurations - event loop held up by a full blocking distributor, several
                      \* workers sending into buffered subscription channels - are enumerated per configuration
          Holds       \* subset of BOOLEAN: TRUE = the dispatcher is held at the yield point pubsub.wait.before-cond-wait
                      \* (between its emptiness check and its park) while the first step - Stop or parent cancel - runs

Backends == {<<"chan", 0>>, <<"chan", 1>>, <<"queue", 0>>, <<"queue", 1>>, <<"deque", 0>>, <<"deque", 1>>,
             <<"nbdeque", 1>>, <<"lifo", 1>>}
\* two idle dispatch workers on one Deque condition variable signal each other for ever (DESIGN 3.3: never
\* quiescent, not a listed property): Deque back-ends are stepped with one worker
AllConfigs == {[a |-> b[1], n |-> b[2], w |-> w, par |-> par, buf |-> buf] :
                 b \in Backends, w \in {1, 2}, par \in BOOLEAN, buf \in {0, 1}}
StepConfigs == {c \in AllConfigs : c.a \in {"deque", "nbdeque", "lifo"} => c.w = 1}
\* the configurations for which all of C08 is judged (DESIGN 5.0)
LosslessConfigs == {c \in StepConfigs : Lossless(c.a, c.n, c.buf)}
OneConfig == {[a |-> "queue", n |-> 0, w |-> 1, par |-> FALSE, buf |-> 0]}
\* lossless configurations whose distributor blocks the event loop when full: the loop can be kept busy
BusyConfigs == {c \in LosslessConfigs : c.a = "chan" /\ ~c.par}
\* buffered subscription channels with several dispatch workers
BufferedConfigs == {c \in StepConfigs : c.buf = 1 /\ c.w = 2 /\ c.a \in {"chan", "queue"} /\ c.n = 0}
\* distributors whose Receive parks on a condition variable (the yield point exists)
CondConfigs == {c \in StepConfigs : c.buf = 0 /\ ~c.par /\ c.a \in {"queue", "deque", "nbdeque"}}

VARIABLES cfg, sub, reading, backlog, atrisk, changes, redundant, queued, regbusy, pubreg, tail, held, down, waits, recent, nmsg, hist
vars == <<cfg, sub, reading, backlog, atrisk, changes, redundant, queued, regbusy, pubreg, tail, held, down, waits, recent, nmsg, hist>>

\* edge coverage up to renaming of subscribers; message numbers and ids are irrelevant for enabling.  The
\* configuration is not part of the view: scenarios are generated once and the check driver pairs each
\* with configurations drawn from StepConfigs (printed by EmitConfigs), so that every back-end x
\* ParallelDispatch x WorkerPoolSize x BufferSize combination runs every scenario class.
Count(st) == Cardinality({s \in Subs : sub[s] = st})
LastKind == IF recent = {} THEN "none" ELSE (CHOOSE r \in recent : \A q \in recent : q.id <= r.id).kind
baseview == <<Count("on"), Count("off") > 0, Cardinality(reading) > 0,
              \E s \in Subs : sub[s] # "none" /\ s \notin reading, backlog,
              \E s \in atrisk : sub[s] = "off", \E s \in atrisk : sub[s] = "on", changes, redundant > 0, down, waits > 0, LastKind>>
\* the event loop is held up: a subscriber that does not receive holds every worker, the distributor is full and
\* the loop itself holds one more message in dist.Send (blocking distributors only)
Busy == /\ cfg.a \in {"chan", "deque"} /\ (cfg.a = "deque" => cfg.n > 0)
        /\ down = "no" /\ \E s \in Subs : sub[s] # "none" /\ s \notin reading
        /\ queued >= cfg.w + cfg.n + 1
\* pubreg: publishers with a Publish issued after such a Subscribe (several of them pending at once give the
\* event loop's select a choice between the buffered registration and more than one publication)
view == IF Aware THEN <<cfg, baseview, Busy, regbusy # {}, Cardinality(pubreg), tail, held>> ELSE <<baseview>>

Rec(op, a, n) == [op |-> op, a |-> a, n |-> n, w |-> 0, par |-> FALSE, buf |-> 0, h |-> FALSE]

Init == \E c \in Configs, h \in Holds :
          /\ cfg = c /\ sub = [s \in Subs |-> "none"] /\ reading = {} /\ backlog = 0 /\ atrisk = {} /\ changes = "fresh"
          /\ redundant = 0 /\ queued = 0 /\ regbusy = {} /\ pubreg = {} /\ tail = 0 /\ held = h
          /\ down = "no" /\ waits = 0 /\ recent = {} /\ nmsg = 0
          /\ hist = <<[op |-> "new", a |-> c.a, n |-> c.n, w |-> c.w, par |-> c.par, buf |-> c.buf, h |-> h]>>

Id == Len(hist) + 1
Do(op, a, n) == hist' = Append(hist, Rec(op, a, n))

\* calls that may still be pending and whose context can be cancelled later: the two most recent
Remember(kind) == recent' = {r \in recent : r.id >= Id - 3} \cup {[id |-> Id, kind |-> kind]}
Forget == recent' = {r \in recent : r.id >= Id - 3}

\* somebody holds a subscription and is not receiving: published messages may back up
Holder(s) == sub[s] # "none"
Slow == \E s \in Subs : Holder(s) /\ s \notin reading
Drain(rd) == IF \E s \in Subs : Holder(s) /\ s \notin rd THEN backlog ELSE 0

\* which kinds of membership change happened since the last publish (none yet: "fresh"): a dispatcher that
\* keeps anything about the subscriber set across messages is exercised by publish-after-change scenarios
Changed(k) == CASE changes = "fresh" -> "fresh"
                [] changes = "none" -> k
                [] changes = k -> k
                [] OTHER -> "both"

\* every step releases a held dispatcher (the harness disarms the yield point after the step)
Rel == held' = FALSE
Cap6(n) == IF n > 6 THEN 6 ELSE n

Subscribe(s, x) == /\ sub[s] = "none" /\ ~held
                   /\ sub' = IF x THEN sub ELSE [sub EXCEPT ![s] = "on"]
                   /\ changes' = IF x THEN changes ELSE Changed("sub")
                   \* issued while the event loop is held up: does the call return before the registration takes effect?
                   /\ regbusy' = IF ~x /\ Busy THEN regbusy \cup {s} ELSE regbusy
                   /\ Do(IF x THEN "xsub" ELSE "sub", s, 0)
                   /\ IF x THEN Forget ELSE Remember("sub")
                   /\ Rel /\ UNCHANGED <<cfg, reading, backlog, atrisk, redundant, queued, pubreg, tail, down, waits, nmsg>>

\* Unsubscribe of a subscribed channel, or - redundant - of one that was unsubscribed before
Unsubscribe(s, x) == /\ sub[s] \in {"on", "off"} /\ ~held
                     /\ sub[s] = "off" => (Mode = "churn" /\ redundant < 2 /\ ~x)
                     /\ sub' = [sub EXCEPT ![s] = "off"]
                     /\ changes' = Changed("unsub")
                     /\ redundant' = IF sub[s] = "off" THEN redundant + 1 ELSE redundant
                     /\ Do(IF x THEN "xunsub" ELSE "unsub", s, 0)
                     /\ IF x THEN Forget ELSE Remember("unsub")
                     /\ Rel /\ UNCHANGED <<cfg, reading, backlog, atrisk, queued, regbusy, pubreg, tail, down, waits, nmsg>>

\* Unsubscribe of a channel the broker never handed out ("stray") or of nil (what a failed Subscribe returns):
\* membership operations are idempotent set operations, so this must change nothing for anybody
UnsubStray(k) == /\ Mode = "churn" /\ redundant < 2 /\ ~held
                 /\ redundant' = redundant + 1
                 /\ changes' = Changed("unsub")
                 /\ Do(k, "", 0) /\ Forget
                 /\ Rel /\ UNCHANGED <<cfg, sub, reading, backlog, atrisk, queued, regbusy, pubreg, tail, down, waits, nmsg>>

\* once every registered subscriber receives, the workers and the event loop get going again (a subscriber whose
\* registration is still waiting behind the held-up loop does not hold up anybody)
Flows(rd) == \A t \in Subs : (Holder(t) /\ t \notin regbusy) => t \in rd
ReadOn(s) == /\ Holder(s) /\ s \notin reading /\ ~held
             /\ reading' = reading \cup {s} /\ backlog' = Drain(reading \cup {s})
             /\ atrisk' = IF Drain(reading \cup {s}) = 0 THEN {} ELSE atrisk
             /\ queued' = IF Flows(reading \cup {s}) THEN 0 ELSE queued
             /\ regbusy' = IF Flows(reading \cup {s}) THEN {} ELSE regbusy
             /\ pubreg' = IF Flows(reading \cup {s}) THEN {} ELSE pubreg
             \* the held-up publications are let loose; the scenario is over when everybody receives
             /\ tail' = IF Drain(reading \cup {s}) = 0 THEN 0
                        ELSE IF Flows(reading \cup {s}) /\ pubreg # {} THEN Cardinality(pubreg) ELSE tail
             /\ Do("readon", s, 0) /\ Forget
             /\ Rel /\ UNCHANGED <<cfg, sub, changes, redundant, down, waits, nmsg>>

ReadOff(s) == /\ s \in reading /\ ~held
              /\ reading' = reading \ {s}
              /\ Do("readoff", s, 0) /\ Forget
              /\ Rel /\ UNCHANGED <<cfg, sub, backlog, atrisk, changes, redundant, queued, regbusy, pubreg, tail, down, waits, nmsg>>

Publish(p, b, x) == /\ nmsg + b <= MaxMsgs /\ ~held
                    /\ nmsg' = nmsg + b
                    /\ changes' = IF x THEN changes ELSE "none"
                    /\ backlog' = IF Slow /\ down = "no" THEN (IF backlog + b > 2 THEN 2 ELSE backlog + b) ELSE backlog
                    /\ queued' = IF Slow /\ down = "no" /\ ~x THEN Cap6(queued + b) ELSE queued
                    /\ pubreg' = (IF ~x /\ regbusy # {} THEN pubreg \cup {p} ELSE pubreg)
                    /\ tail' = tail
                    \* subscribers for which an accepted message may still be waiting behind a slow one
                    /\ atrisk' = IF Slow /\ down = "no" /\ ~x THEN atrisk \cup {s \in Subs : sub[s] = "on"} ELSE atrisk
                    /\ Do(IF x THEN "xpub" ELSE "pub", p, b)
                    /\ IF x THEN Forget ELSE Remember("pub")
                    /\ Rel /\ UNCHANGED <<cfg, sub, reading, redundant, regbusy, down, waits>>

Stats(x) == /\ ~held /\ Do(IF x THEN "xstats" ELSE "stats", "", 0)
            /\ IF x THEN Forget ELSE Remember("stats")
            /\ Rel /\ UNCHANGED <<cfg, sub, reading, backlog, atrisk, changes, redundant, queued, regbusy, pubreg, tail, down, waits, nmsg>>

Wait == /\ waits < 2 /\ waits' = waits + 1 /\ ~held
        /\ Do("wait", "", 0) /\ Remember("wait")
        /\ Rel /\ UNCHANGED <<cfg, sub, reading, backlog, atrisk, changes, redundant, queued, regbusy, pubreg, tail, down, nmsg>>

Stop == /\ down # "stop" /\ down' = "stop" /\ backlog' = 0 /\ atrisk' = {}
        /\ queued' = 0 /\ regbusy' = {} /\ pubreg' = {} /\ tail' = 0
        /\ Do("stop", "", 0) /\ Forget
        /\ Rel /\ UNCHANGED <<cfg, sub, reading, changes, redundant, waits, nmsg>>

CancelParent == /\ down = "no" /\ down' = "parent" /\ backlog' = 0 /\ atrisk' = {}
                /\ queued' = 0 /\ regbusy' = {} /\ pubreg' = {} /\ tail' = 0
                /\ Do("cancelparent", "", 0) /\ Forget
                /\ Rel /\ UNCHANGED <<cfg, sub, reading, changes, redundant, waits, nmsg>>

\* cancel the context of an earlier call (if that call has returned meanwhile this is a no-op)
Cancel(r) == /\ r \in recent /\ ~held
             /\ recent' = {q \in recent : q.id >= Id - 3} \ {r}
             /\ Do("cancel", "", r.id)
             /\ Rel /\ UNCHANGED <<cfg, sub, reading, backlog, atrisk, changes, redundant, queued, regbusy, pubreg, tail, down, waits, nmsg>>

Churn == \/ \E s \in Subs : Unsubscribe(s, FALSE)
         \/ \E k \in {"unsubnil", "unsubstray"} : UnsubStray(k)
Life == Wait \/ Stop \/ CancelParent
Rest == \/ \E s \in Subs : Subscribe(s, TRUE) \/ Unsubscribe(s, TRUE)
        \/ \E p \in Pubs : Publish(p, 1, TRUE)
        \/ \E x \in BOOLEAN : Stats(x)
        \/ \E r \in recent : Cancel(r)
Step == \/ \E s \in Subs : Subscribe(s, FALSE) \/ ReadOn(s) \/ ReadOff(s)
        \/ \E p \in Pubs, b \in 1..MaxBurst : Publish(p, b, FALSE)
        \/ (Mode \in {"all", "churn"} /\ Churn)
        \/ (Mode \in {"all", "life"} /\ Life)
        \/ (Mode = "all" /\ Rest)

Next == Len(hist) < Depth /\ Step
Spec == Init /\ [][Next]_vars

Inv == /\ redundant \in 0..2 /\ queued \in 0..6 /\ regbusy \subseteq Subs /\ pubreg \subseteq Pubs /\ tail \in 0..Cardinality(Pubs)
       /\ atrisk \subseteq {s \in Subs : Holder(s)}
       /\ reading \subseteq {s \in Subs : Holder(s)}
       /\ backlog \in 0..2 /\ nmsg <= MaxMsgs
       /\ \A r \in recent : r.id <= Len(hist) /\ hist[r.id].op \in {"sub", "unsub", "pub", "stats", "wait"}

EmitAll == Len(hist) < Depth \/ PrintT(<<"BEH", ToJson(hist)>>)
EmitEdge == PrintT(<<"BEH", ToJson(hist')>>)
\* only complete scenarios of the held-up kind: a Subscribe was issued while the event loop was held up and now
\* every holder of a subscription receives (the point at which everything owed must have arrived); their
\* prefixes are judged on the way at every quiescent point
EmitBusyEdge == ((regbusy # {} \/ tail > 0) /\ \A t \in Subs : sub'[t] # "none" => t \in reading')
                  => PrintT(<<"BEH", ToJson(hist')>>)
EmitConfigs == PrintT(<<"CFGS", ToJson(StepConfigs)>>) /\ PrintT(<<"LOSSLESS", ToJson(LosslessConfigs)>>)
=============================================================================
