----------------------------- MODULE BrokerStep -----------------------------
(* Quiescence-stepped driver schedules for pubsub.Broker (C08, C09).          *)
(*                                                                            *)
(* Every action is one step of the conformance driver (vh-broker replay),     *)
(* followed in the harness by "run to quiescence" (rt.Quiesce) and an         *)
(* observation.  `hist` is the schedule.  The abstract state below is what    *)
(* the driver itself controls or can predict from its own steps (who holds a  *)
(* subscription, who is receiving, whether undelivered messages may be        *)
(* backed up, whether shutdown was requested, which calls might still be      *)
(* pending); it exists to enumerate the scenario classes of the two           *)
(* properties through edge coverage - burst before the dispatcher runs,       *)
(* backlog while a subscriber pauses, Unsubscribe with a backlog, Stop /      *)
(* parent cancel at idle / mid-dispatch / mid-publish / with backlog, Wait    *)
(* before Stop, calls with an already cancelled or later cancelled context.   *)
(* What the real broker must show at each quiescent point is decided by       *)
(* BrokerTrace on the recorded history (the broker's own nondeterminism -     *)
(* map range order, select choice, worker scheduling - makes the allowed      *)
(* observations a set that depends on earlier observations, so the judgement  *)
(* is done on the history, not by comparing with one predicted outcome).      *)
(*                                                                            *)
(* Emitters: Step_edge.cfg (VIEW + one shortest schedule per edge of the      *)
(* scenario graph), Step_focus.cfg (the same for the membership-churn         *)
(* sub-language: Subscribe / Unsubscribe / receive on-off / Publish - these   *)
(* always run completely), Step_all.cfg (all sequences to a small depth),     *)
(* Step_sim.cfg (-simulate, long random ones).  The configuration is not part *)
(* of a scenario: the check driver pairs every scenario with configurations   *)
(* from StepConfigs (back-end x ParallelDispatch x WorkerPoolSize x           *)
(* BufferSize), always including a lossless one.                              *)
(*                                                                            *)
(* A step that turns out not to be applicable in the real run (e.g. readon    *)
(* for a subscriber whose Subscribe is still blocked) is logged as `skip`.    *)
(***************************************************************************)
EXTENDS BrokerAbs, TLC, Json

CONSTANTS Configs,    \* set of [a, n, w, par, buf]: back-end, capacity, WorkerPoolSize, ParallelDispatch, BufferSize
          Subs, Pubs, \* subscriber / publisher names (strings)
          MaxBurst,   \* largest publish burst
          MaxMsgs,    \* messages per behaviour
          Depth,      \* driver steps per behaviour (including the constructor)
          Focus       \* TRUE: only Subscribe / Unsubscribe / receive on-off / Publish (membership churn, the C08 window)

Backends == {<<"chan", 0>>, <<"chan", 1>>, <<"queue", 0>>, <<"queue", 1>>, <<"deque", 0>>, <<"deque", 1>>,
             <<"nbdeque", 1>>, <<"lifo", 1>>}
\* two idle dispatch workers on one Deque condition variable signal each other for ever (DESIGN 3.3: never
\* quiescent, not a listed property): Deque back-ends are stepped with one worker
AllConfigs == {[a |-> b[1], n |-> b[2], w |-> w, par |-> par, buf |-> buf] :
                 b \in Backends, w \in {1, 2}, par \in BOOLEAN, buf \in {0, 1}}
StepConfigs == {c \in AllConfigs : c.a \in {"deque", "nbdeque", "lifo"} => c.w = 1}
\* the configurations for which all of C08 is judged (DESIGN 5.0)
LosslessConfigs == {c \in StepConfigs : Lossless(c.a, c.n, c.buf)}
OneConfig == {[a |-> "queue", n |-> 0, w |-> 1, par |-> FALSE, buf |-> 0]}

VARIABLES cfg, sub, reading, backlog, atrisk, changes, down, waits, recent, nmsg, hist
vars == <<cfg, sub, reading, backlog, atrisk, changes, down, waits, recent, nmsg, hist>>

\* edge coverage up to renaming of subscribers; message numbers and ids are irrelevant for enabling.  The
\* configuration is not part of the view: scenarios are generated once and the check driver pairs each
\* with configurations drawn from StepConfigs (printed by EmitConfigs), so that every back-end x
\* ParallelDispatch x WorkerPoolSize x BufferSize combination runs every scenario class.
Count(st) == Cardinality({s \in Subs : sub[s] = st})
LastKind == IF recent = {} THEN "none" ELSE (CHOOSE r \in recent : \A q \in recent : q.id <= r.id).kind
view == <<Count("on"), Count("off") > 0, Cardinality(reading) > 0,
          \E s \in Subs : sub[s] # "none" /\ s \notin reading, backlog,
          \E s \in atrisk : sub[s] = "off", \E s \in atrisk : sub[s] = "on", changes, down, waits > 0, LastKind>>

Rec(op, a, n) == [op |-> op, a |-> a, n |-> n, w |-> 0, par |-> FALSE, buf |-> 0]

Init == \E c \in Configs :
          /\ cfg = c /\ sub = [s \in Subs |-> "none"] /\ reading = {} /\ backlog = 0 /\ atrisk = {} /\ changes = "fresh"
          /\ down = "no" /\ waits = 0 /\ recent = {} /\ nmsg = 0
          /\ hist = <<[op |-> "new", a |-> c.a, n |-> c.n, w |-> c.w, par |-> c.par, buf |-> c.buf]>>

Id == Len(hist) + 1
Do(op, a, n) == hist' = Append(hist, Rec(op, a, n))

\* calls that may still be pending and whose context can be cancelled later: the two most recent
Remember(kind) == recent' = {r \in recent : r.id >= Id - 3} \cup {[id |-> Id, kind |-> kind]}
Forget == recent' = {r \in recent : r.id >= Id - 3}

\* somebody holds a subscription and is not receiving: published messages may back up
Holder(s) == sub[s] # "none"
Slow == \E s \in Subs : Holder(s) /\ s \notin reading
Drain(rd) == IF \E s \in Subs : Holder(s) /\ s \notin rd THEN backlog ELSE 0

\* which kinds of membership change happened since the last publish (none yet: "fresh"): a dispatcher that
\* keeps anything about the subscriber set across messages is exercised by publish-after-change scenarios
Changed(k) == CASE changes = "fresh" -> "fresh"
                [] changes = "none" -> k
                [] changes = k -> k
                [] OTHER -> "both"

Subscribe(s, x) == /\ sub[s] = "none"
                   /\ sub' = IF x THEN sub ELSE [sub EXCEPT ![s] = "on"]
                   /\ changes' = IF x THEN changes ELSE Changed("sub")
                   /\ Do(IF x THEN "xsub" ELSE "sub", s, 0)
                   /\ IF x THEN Forget ELSE Remember("sub")
                   /\ UNCHANGED <<cfg, reading, backlog, atrisk, down, waits, nmsg>>

Unsubscribe(s, x) == /\ sub[s] = "on"
                     /\ sub' = [sub EXCEPT ![s] = "off"]
                     /\ changes' = Changed("unsub")
                     /\ Do(IF x THEN "xunsub" ELSE "unsub", s, 0)
                     /\ IF x THEN Forget ELSE Remember("unsub")
                     /\ UNCHANGED <<cfg, reading, backlog, atrisk, down, waits, nmsg>>

ReadOn(s) == /\ Holder(s) /\ s \notin reading
             /\ reading' = reading \cup {s} /\ backlog' = Drain(reading \cup {s})
             /\ atrisk' = IF Drain(reading \cup {s}) = 0 THEN {} ELSE atrisk
             /\ Do("readon", s, 0) /\ Forget
             /\ UNCHANGED <<cfg, sub, changes, down, waits, nmsg>>

ReadOff(s) == /\ s \in reading
              /\ reading' = reading \ {s}
              /\ Do("readoff", s, 0) /\ Forget
              /\ UNCHANGED <<cfg, sub, backlog, atrisk, changes, down, waits, nmsg>>

Publish(p, b, x) == /\ nmsg + b <= MaxMsgs
                    /\ nmsg' = nmsg + b
                    /\ changes' = IF x THEN changes ELSE "none"
                    /\ backlog' = IF Slow /\ down = "no" THEN (IF backlog + b > 2 THEN 2 ELSE backlog + b) ELSE backlog
                    \* subscribers for which an accepted message may still be waiting behind a slow one
                    /\ atrisk' = IF Slow /\ down = "no" /\ ~x THEN atrisk \cup {s \in Subs : sub[s] = "on"} ELSE atrisk
                    /\ Do(IF x THEN "xpub" ELSE "pub", p, b)
                    /\ IF x THEN Forget ELSE Remember("pub")
                    /\ UNCHANGED <<cfg, sub, reading, down, waits>>

Stats(x) == /\ Do(IF x THEN "xstats" ELSE "stats", "", 0)
            /\ IF x THEN Forget ELSE Remember("stats")
            /\ UNCHANGED <<cfg, sub, reading, backlog, atrisk, changes, down, waits, nmsg>>

Wait == /\ waits < 2 /\ waits' = waits + 1
        /\ Do("wait", "", 0) /\ Remember("wait")
        /\ UNCHANGED <<cfg, sub, reading, backlog, atrisk, changes, down, nmsg>>

Stop == /\ down # "stop" /\ down' = "stop" /\ backlog' = 0 /\ atrisk' = {}
        /\ Do("stop", "", 0) /\ Forget
        /\ UNCHANGED <<cfg, sub, reading, changes, waits, nmsg>>

CancelParent == /\ down = "no" /\ down' = "parent" /\ backlog' = 0 /\ atrisk' = {}
                /\ Do("cancelparent", "", 0) /\ Forget
                /\ UNCHANGED <<cfg, sub, reading, changes, waits, nmsg>>

\* cancel the context of an earlier call (if that call has returned meanwhile this is a no-op)
Cancel(r) == /\ r \in recent
             /\ recent' = {q \in recent : q.id >= Id - 3} \ {r}
             /\ Do("cancel", "", r.id)
             /\ UNCHANGED <<cfg, sub, reading, backlog, atrisk, changes, down, waits, nmsg>>

Step == \/ \E s \in Subs, x \in BOOLEAN : (Focus => ~x) /\ (Subscribe(s, x) \/ Unsubscribe(s, x))
        \/ \E s \in Subs : ReadOn(s) \/ ReadOff(s)
        \/ \E p \in Pubs, b \in 1..MaxBurst : Publish(p, b, FALSE)
        \/ ~Focus /\ \/ \E p \in Pubs : Publish(p, 1, TRUE)
                     \/ \E x \in BOOLEAN : Stats(x)
                     \/ Wait \/ Stop \/ CancelParent
                     \/ \E r \in recent : Cancel(r)

Next == Len(hist) < Depth /\ Step
Spec == Init /\ [][Next]_vars

Inv == /\ atrisk \subseteq {s \in Subs : Holder(s)}
       /\ reading \subseteq {s \in Subs : Holder(s)}
       /\ backlog \in 0..2 /\ nmsg <= MaxMsgs
       /\ \A r \in recent : r.id <= Len(hist) /\ hist[r.id].op \in {"sub", "unsub", "pub", "stats", "wait"}

EmitAll == Len(hist) < Depth \/ PrintT(<<"BEH", ToJson(hist)>>)
EmitEdge == PrintT(<<"BEH", ToJson(hist')>>)
EmitConfigs == PrintT(<<"CFGS", ToJson(StepConfigs)>>) /\ PrintT(<<"LOSSLESS", ToJson(LosslessConfigs)>>)
=============================================================================
