SPECIFICATION Spec
CONSTANTS
  Configs <- OneConfig
  Subs = {"s1", "s2"}
  Pubs = {"p1"}
  MaxBurst = 2
  MaxMsgs = 6
  Depth = 8
  Mode = "churn"
  Aware = FALSE
  Holds = {FALSE}
INVARIANT Inv
VIEW view
ACTION_CONSTRAINT EmitEdge
CHECK_DEADLOCK FALSE
