SPECIFICATION Spec
CONSTANTS
  JudgeDelivery = TRUE
  JudgeProgress = FALSE
  UnsubWindow = "never"
CONSTRAINT HighWater
POSTCONDITION Accepted
CHECK_DEADLOCK FALSE
