\* Stop / parent cancel while the dispatcher is held between its emptiness check and its park
SPECIFICATION Spec
CONSTANTS
  Configs <- CondConfigs
  Subs = {"s1"}
  Pubs = {"p1"}
  MaxBurst = 1
  MaxMsgs = 1
  Depth = 4
  Mode = "life"
  Aware = TRUE
  Holds = {TRUE}
INVARIANT Inv
VIEW view
ACTION_CONSTRAINT EmitEdge
CHECK_DEADLOCK FALSE
