\* C08 delivery model: two publishers (SameOrder / PublisherOrder across publishers)
SPECIFICATION Spec
CONSTANTS
  Pubs = {"p1", "p2"}
  K = 1
  Subs = {"s1", "s2"}
  W = 1
  Parallel = FALSE
  Backend = "queue"
  Cap = 0
  Buf = 0
  StatsIds = {}
  WaitIds = {}
  StopIds = {}
  AutoRead = FALSE
  Toggles = 2
  AllowUnsub = TRUE
  AllowParentCancel = FALSE
  CtxCancels = 0
  WaitLocksMu = FALSE
  StatsBuffered = TRUE
  RecvWaitsFirst = FALSE
  KF_UnsubWindow = TRUE
INVARIANTS TypeOK OnlyPublishedInv NoDuplicateInv ExactlyOnceInv OrderInv NoStall CtxRespected StopReturns CleanShutdown MutexFree
CHECK_DEADLOCK FALSE
