\* the code before b05c09e: Wait holds b.mu while blocked; StopReturns must be violated
SPECIFICATION Spec
CONSTANTS
  Pubs = {"p1"}
  K = 1
  Subs = {"s1"}
  W = 1
  Parallel = FALSE
  Backend = "queue"
  Cap = 0
  Buf = 0
  StatsIds = {}
  WaitIds = {"v1"}
  StopIds = {"t1"}
  AutoRead = TRUE
  Toggles = 0
  AllowUnsub = FALSE
  AllowParentCancel = FALSE
  CtxCancels = 0
  Redundant = 0
  WaitLocksMu = TRUE
  StatsBuffered = TRUE
  RecvWaitsFirst = FALSE
  KF_UnsubWindow = TRUE
  CtlBuf = 0
INVARIANTS TypeOK StopReturns
CHECK_DEADLOCK FALSE
