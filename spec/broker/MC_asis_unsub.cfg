\* the window of DESIGN 5.0 without the known-finding narrowing: ExactlyOnceInv must be violated
SPECIFICATION Spec
CONSTANTS
  Pubs = {"p1"}
  K = 2
  Subs = {"s1", "s2"}
  W = 1
  Parallel = FALSE
  Backend = "queue"
  Cap = 0
  Buf = 0
  StatsIds = {}
  WaitIds = {}
  StopIds = {}
  AutoRead = FALSE
  Toggles = 2
  AllowUnsub = TRUE
  AllowParentCancel = FALSE
  CtxCancels = 0
  Redundant = 0
  WaitLocksMu = FALSE
  StatsBuffered = TRUE
  RecvWaitsFirst = FALSE
  KF_UnsubWindow = FALSE
  CtlBuf = 0
INVARIANTS TypeOK ExactlyOnceInv
CHECK_DEADLOCK FALSE
