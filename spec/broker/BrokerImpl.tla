----------------------------- MODULE BrokerImpl -----------------------------
(* Implementation-shaped specification of pubsub.Broker                       *)
(* (/repo/pubsub/broker.go, buffer.go; Distributor() of queue.go / deque.go)  *)
(* for properties C08 (exactly once, in order) and C09 (progress, shutdown).  *)
(*                                                                            *)
(* Processes and the Go code they follow (one action per step that can        *)
(* block or be observed separately):                                          *)
(*   event loop   broker.go:147-179  select{ctx.Done, subCh, unsubCh, stats,  *)
(*                                   publishCh}; on publish: dist.Send(ctx,m) *)
(*   workers 1..W broker.go:186-198  dist.Receive(ctx); dispatchMessage with  *)
(*                                   subs.Keys() (lazy sync.Map Range)        *)
(*   dispatch     broker.go:201-221  for each key: sendMsg = select{ctx.Done, *)
(*                                   ch<-m}; ParallelDispatch: one goroutine  *)
(*                                   per key, then wg.Wait(ctx)               *)
(*   Publish      broker.go:322-327  select{ctx.Done, publishCh<-m}           *)
(*   Subscribe    broker.go:294-305  ctx.Err()->nil; select{ctx.Done, subCh<-}*)
(*   Unsubscribe  broker.go:308-319  unsubCh<- (non-blocking, then with ctx)  *)
(*   Stats        broker.go:244-261  select{ctx.Done, stats<-fn}; then        *)
(*                                   select{ctx.Done, <-signal}; the event    *)
(*                                   loop runs fn: signal<-stats (NO ctx)     *)
(*   Stop / Wait  broker.go:271-285  Stop: mu.Lock; close(); Wait: mu.Lock;   *)
(*                                   wg.Wait(ctx)  (mutex held while blocked) *)
(*                                                                            *)
(* Distributor back-ends (buffer.go:79-89, queue.go:348-361, deque.go:335-352)*)
(*   "chan"    Send/Receive are channel operations with ctx (Cap 0: rendezvous)*)
(*   "queue"   Send = Add (ErrQueueFull when bounded and full: the message is *)
(*             shed, broker.go:170); Receive = Remove, else Wait(ctx)         *)
(*   "deque"   Send = WaitPushBack (blocks while full); Receive = WaitFront   *)
(*   "nbdeque" Send = ForcePushBack (evicts the oldest when full) - this is   *)
(*             NewLIFOBroker's distributor; Receive = WaitFront               *)
(*                                                                            *)
(* Deliberate abstractions (named deviations):                                *)
(*  - Queue.Wait / Deque.WaitFront / WaitPushBack are used through their      *)
(*    blocking contract established by C07 (enabled iff non-empty / room /    *)
(*    ctx done); their condition variables are not modelled again.  The       *)
(*    switch RecvWaitsFirst re-creates the pre-fix WaitFront (waits for a     *)
(*    notification before looking at the buffer) as a non-vacuity test.       *)
(*  - sync.Map.Range (adt.Map.Keys, lazily advanced by a goroutine through an *)
(*    unbuffered pipe) is modelled by its contract: every key present during  *)
(*    the whole range is visited, a key present during part of it may or may  *)
(*    not be, none twice.  The range goroutine is merged with its worker.     *)
(*  - A channel rendezvous and the statement that follows it in the event     *)
(*    loop (subs.Ensure / subs.Delete) are one step: the event loop is        *)
(*    sequential, so nothing it does later can be ordered in between.         *)
(*  - fun.WaitGroup.Wait(ctx) is used through its contract (C14).             *)
(*                                                                            *)
(* Switches (TRUE/FALSE selects the code as it is or a proposed repair):      *)
(*   WaitLocksMu    TRUE  = as is: Wait holds b.mu while blocked              *)
(*   StatsBuffered  FALSE = as is: the reply channel of Stats is unbuffered   *)
(*   KF_UnsubWindow TRUE  = narrow the C08 window to subscribers that never   *)
(*                          called Unsubscribe (known finding: a message      *)
(*                          accepted before Unsubscribe is called is not      *)
(*                          delivered when it is dispatched after the         *)
(*                          unsubscribe was processed)                        *)
(*                                                                            *)
(* The bounded client makes every behaviour end in a state without successor, *)
(* so TLC's deadlock check is off; what it would have looked for is stated    *)
(* explicitly by the quiescence invariants (NoStall, CtxRespected,            *)
(* StopReturns, CleanShutdown) and the liveness properties.                   *)
(*                                                                            *)
(* Client steps (calling an API function, cancelling a context, a subscriber  *)
(* starting / stopping to receive) are External; everything the library does  *)
(* is Internal.  Quiescent == ~ENABLED Internal is where the harness observes.*)
(***************************************************************************)
EXTENDS BrokerAbs, TLC

CONSTANTS Pubs, K, Subs, W, Parallel, Backend, Cap, Buf,
          CtlBuf,            \* capacity of subCh / unsubCh: the code uses BufferSize (= Buf); any other value is a what-if
          Redundant,         \* how many redundant Unsubscribe calls (of a channel already unsubscribed) may be made
          StatsIds, WaitIds, StopIds,
          AutoRead,          \* subscribers receive from the moment Subscribe returns, for ever
          Toggles,           \* how many times subscribers may start / stop receiving
          AllowUnsub, AllowParentCancel,
          CtxCancels,        \* how many API-call contexts may be cancelled
          WaitLocksMu, StatsBuffered, RecvWaitsFirst, KF_UnsubWindow

Workers == 1..W
Msgs == Pubs \X (1..K)
Free == "free"
NoMsg == <<"", 0>>
NoSub == ""

VARIABLES
  bdone,                              \* the broker's context is cancelled
  lpc, lmsg, lstat,                   \* event loop: pc, message held in dist.Send, Stats caller being answered
  subch, unsubch,                     \* buffers of subCh / unsubCh (capacity CtlBuf)
  smap,                               \* subs: the subscriber set (adt.Map)
  dist,                               \* contents of the distributor
  wpc, wmsg, wseen, wmust, wvis, wto, wpar,   \* dispatch workers
  scall, sctx, ucall, uctx,           \* Subscribe / Unsubscribe calls and their contexts
  reading, chbuf, rcv,                \* subscriber side: receiving?, channel buffer, received sequence
  ppc, pnext, pctx, cand,             \* publishers
  xpc, xctx,                          \* Stats calls
  tpc, vpc, vctx, mu,                 \* Stop calls, Wait calls, b.mu
  pubcalled, unsubcalled, owed, accepted, dispatched, evicted,   \* history
  toggles, cancels, redund            \* budgets of external steps

loopv == <<lpc, lmsg, lstat>>
chanv == <<subch, unsubch>>
workv == <<wpc, wmsg, wseen, wmust, wvis, wto, wpar>>
subv  == <<scall, sctx, ucall, uctx>>
readv == <<reading, chbuf, rcv>>
pubv  == <<ppc, pnext, pctx, cand>>
statv == <<xpc, xctx>>
lifev == <<tpc, vpc, vctx, mu>>
histv == <<pubcalled, unsubcalled, owed, accepted, dispatched, evicted>>
budv  == <<toggles, cancels, redund>>
vars  == <<bdone, loopv, chanv, smap, dist, workv, subv, readv, pubv, statv, lifev, histv, budv>>

Init ==
  /\ bdone = FALSE /\ lpc = "select" /\ lmsg = NoMsg /\ lstat = ""
  /\ subch = <<>> /\ unsubch = <<>> /\ smap = {} /\ dist = <<>>
  /\ wpc = [w \in Workers |-> "recv"] /\ wmsg = [w \in Workers |-> NoMsg]
  /\ wseen = [w \in Workers |-> {}] /\ wmust = [w \in Workers |-> {}] /\ wvis = [w \in Workers |-> {}]
  /\ wto = [w \in Workers |-> NoSub] /\ wpar = [w \in Workers |-> {}]
  /\ scall = [s \in Subs |-> "idle"] /\ sctx = [s \in Subs |-> FALSE]
  /\ ucall = [s \in Subs |-> "idle"] /\ uctx = [s \in Subs |-> FALSE]
  /\ reading = [s \in Subs |-> FALSE] /\ chbuf = [s \in Subs |-> <<>>] /\ rcv = [s \in Subs |-> <<>>]
  /\ ppc = [p \in Pubs |-> "idle"] /\ pnext = [p \in Pubs |-> 1] /\ pctx = [p \in Pubs |-> FALSE]
  /\ cand = [p \in Pubs |-> {}]
  /\ xpc = [x \in StatsIds |-> "idle"] /\ xctx = [x \in StatsIds |-> FALSE]
  /\ tpc = [t \in StopIds |-> "idle"] /\ vpc = [v \in WaitIds |-> "idle"] /\ vctx = [v \in WaitIds |-> FALSE]
  /\ mu = Free
  /\ pubcalled = {} /\ unsubcalled = {} /\ owed = {} /\ accepted = {} /\ dispatched = {} /\ evicted = {}
  /\ toggles = Toggles /\ cancels = CtxCancels /\ redund = Redundant

InRange(w) == wpc[w] \in {"range", "send", "parwait"}

(* ====================================================================== External *)

\* go b.Subscribe(ctx_s)
SubCall(s) == /\ scall[s] = "idle" /\ scall' = [scall EXCEPT ![s] = "calling"]
              /\ UNCHANGED <<bdone, loopv, chanv, smap, dist, workv, sctx, ucall, uctx, readv, pubv, statv, lifev, histv, budv>>

\* go b.Unsubscribe(ctx_u, ch_s): only for a channel Subscribe returned
UnsubCall(s) == /\ AllowUnsub /\ scall[s] = "ret"
                /\ \/ ucall[s] = "idle" /\ UNCHANGED redund
                   \/ ucall[s] = "ret" /\ redund > 0 /\ redund' = redund - 1    \* once more for the same channel
                /\ ucall' = [ucall EXCEPT ![s] = "calling"]
                /\ unsubcalled' = unsubcalled \cup {s}
                /\ UNCHANGED <<bdone, loopv, chanv, smap, dist, workv, scall, sctx, uctx, readv, pubv, statv, lifev,
                               pubcalled, owed, accepted, dispatched, evicted, toggles, cancels>>

\* publisher p calls Publish(ctx_p, <<p, pnext>>): candidates of the C08 window are fixed now
PubCall(p) == /\ ppc[p] = "idle" /\ pnext[p] <= K
              /\ ppc' = [ppc EXCEPT ![p] = "calling"]
              /\ pubcalled' = pubcalled \cup {<<p, pnext[p]>>}
              /\ cand' = [cand EXCEPT ![p] = {s \in Subs : scall[s] = "ret"} \ unsubcalled]
              /\ UNCHANGED <<bdone, loopv, chanv, smap, dist, workv, subv, readv, pnext, pctx, statv, lifev,
                             unsubcalled, owed, accepted, dispatched, evicted, budv>>

\* a subscriber starts / stops receiving from its channel
Toggle(s) == /\ ~AutoRead /\ toggles > 0 /\ scall[s] = "ret"
             /\ toggles' = toggles - 1
             /\ reading' = [reading EXCEPT ![s] = ~@]
             /\ UNCHANGED <<bdone, loopv, chanv, smap, dist, workv, subv, chbuf, rcv, pubv, statv, lifev, histv, cancels, redund>>

StatsCall(x) == /\ xpc[x] = "idle" /\ xpc' = [xpc EXCEPT ![x] = "send"]
                /\ UNCHANGED <<bdone, loopv, chanv, smap, dist, workv, subv, readv, pubv, xctx, lifev, histv, budv>>
StopCall(t) == /\ tpc[t] = "idle" /\ tpc' = [tpc EXCEPT ![t] = "calling"]
               /\ UNCHANGED <<bdone, loopv, chanv, smap, dist, workv, subv, readv, pubv, statv, vpc, vctx, mu, histv, budv>>
WaitCall(v) == /\ vpc[v] = "idle" /\ vpc' = [vpc EXCEPT ![v] = "lock"]
               /\ UNCHANGED <<bdone, loopv, chanv, smap, dist, workv, subv, readv, pubv, statv, tpc, vctx, mu, histv, budv>>

\* the context handed to the constructor is cancelled
CancelParent == /\ AllowParentCancel /\ ~bdone /\ bdone' = TRUE
                /\ UNCHANGED <<loopv, chanv, smap, dist, workv, subv, readv, pubv, statv, lifev, histv, budv>>

\* the context of one API call is cancelled (before or during the call)
CancelCtx ==
  /\ cancels > 0 /\ cancels' = cancels - 1 /\ UNCHANGED <<toggles, redund>>
  /\ \/ \E s \in Subs : /\ ~sctx[s] /\ scall[s] \in {"idle", "calling"} /\ sctx' = [sctx EXCEPT ![s] = TRUE]
                        /\ UNCHANGED <<uctx, pctx, xctx, vctx>>
     \/ \E s \in Subs : /\ ~uctx[s] /\ ucall[s] \in {"idle", "calling"} /\ scall[s] = "ret" /\ AllowUnsub
                        /\ uctx' = [uctx EXCEPT ![s] = TRUE] /\ UNCHANGED <<sctx, pctx, xctx, vctx>>
     \/ \E p \in Pubs : /\ ~pctx[p] /\ pnext[p] <= K /\ pctx' = [pctx EXCEPT ![p] = TRUE]
                        /\ UNCHANGED <<sctx, uctx, xctx, vctx>>
     \/ \E x \in StatsIds : /\ ~xctx[x] /\ xpc[x] # "done" /\ xctx' = [xctx EXCEPT ![x] = TRUE]
                            /\ UNCHANGED <<sctx, uctx, pctx, vctx>>
     \/ \E v \in WaitIds : /\ ~vctx[v] /\ vpc[v] # "done" /\ vctx' = [vctx EXCEPT ![v] = TRUE]
                           /\ UNCHANGED <<sctx, uctx, pctx, xctx>>
  /\ UNCHANGED <<bdone, loopv, chanv, smap, dist, workv, scall, ucall, readv, ppc, pnext, cand, xpc, tpc, vpc, mu, histv>>

External == \/ \E s \in Subs : SubCall(s) \/ UnsubCall(s) \/ Toggle(s)
            \/ \E p \in Pubs : PubCall(p)
            \/ \E x \in StatsIds : StatsCall(x)
            \/ \E t \in StopIds : StopCall(t)
            \/ \E v \in WaitIds : WaitCall(v)
            \/ CancelParent \/ CancelCtx

(* ====================================================================== Internal: API calls *)

\* Subscribe: ctx done -> nil (broker.go:295-301)
SubNil(s) == /\ scall[s] = "calling" /\ sctx[s] /\ scall' = [scall EXCEPT ![s] = "nil"]
             /\ UNCHANGED <<bdone, loopv, chanv, smap, dist, workv, sctx, ucall, uctx, readv, pubv, statv, lifev, histv, budv>>

Returned(s) == /\ scall' = [scall EXCEPT ![s] = "ret"]
               /\ reading' = IF AutoRead THEN [reading EXCEPT ![s] = TRUE] ELSE reading

\* Subscribe: subCh <- msgCh into the channel's buffer (broker.go:302; capacity BufferSize, broker.go:138)
SubBuffer(s) == /\ CtlBuf > 0 /\ scall[s] = "calling" /\ Len(subch) < CtlBuf
                /\ subch' = Append(subch, s) /\ Returned(s)
                /\ UNCHANGED <<bdone, loopv, unsubch, smap, dist, workv, sctx, ucall, uctx, chbuf, rcv, pubv, statv, lifev, histv, budv>>

\* Unsubscribe: unsubCh <- msgCh, buffered (broker.go:310,315); or ctx.Done (broker.go:316)
UnsubBuffer(s) == /\ CtlBuf > 0 /\ ucall[s] = "calling" /\ Len(unsubch) < CtlBuf
                  /\ unsubch' = Append(unsubch, s) /\ ucall' = [ucall EXCEPT ![s] = "ret"]
                  /\ UNCHANGED <<bdone, loopv, subch, smap, dist, workv, scall, sctx, uctx, readv, pubv, statv, lifev, histv, budv>>
UnsubCtx(s) == /\ ucall[s] = "calling" /\ uctx[s] /\ ucall' = [ucall EXCEPT ![s] = "ret"]
               /\ UNCHANGED <<bdone, loopv, chanv, smap, dist, workv, scall, sctx, uctx, readv, pubv, statv, lifev, histv, budv>>

\* Publish: ctx.Done (broker.go:324): returns without the message having been accepted
PubCtx(p) == /\ ppc[p] = "calling" /\ pctx[p]
             /\ ppc' = [ppc EXCEPT ![p] = "idle"] /\ pnext' = [pnext EXCEPT ![p] = @ + 1]
             /\ UNCHANGED <<bdone, loopv, chanv, smap, dist, workv, subv, readv, pctx, cand, statv, lifev, histv, budv>>

\* Stats: first select, ctx.Done (broker.go:248); second select, ctx.Done (broker.go:257)
StatsCtx(x) == /\ xpc[x] \in {"send", "wait"} /\ xctx[x] /\ xpc' = [xpc EXCEPT ![x] = "done"]
               /\ UNCHANGED <<bdone, loopv, chanv, smap, dist, workv, subv, readv, pubv, xctx, lifev, histv, budv>>
\* Stats: output = <-signal when the reply is buffered (proposed repair)
StatsTake(x) == /\ StatsBuffered /\ xpc[x] = "wait" /\ xpc' = [xpc EXCEPT ![x] = "done"]
                /\ UNCHANGED <<bdone, loopv, chanv, smap, dist, workv, subv, readv, pubv, xctx, lifev, histv, budv>>

\* Stop: lock, close(), unlock (broker.go:271-276)
StopRun(t) == /\ tpc[t] = "calling" /\ mu = Free
              /\ bdone' = TRUE /\ tpc' = [tpc EXCEPT ![t] = "done"]
              /\ UNCHANGED <<loopv, chanv, smap, dist, workv, subv, readv, pubv, statv, vpc, vctx, mu, histv, budv>>

AllGone == lpc = "done" /\ \A w \in Workers : wpc[w] = "done"

\* Wait: b.mu.Lock() (as is), then wg.Wait(ctx) (broker.go:280-285)
WaitLock(v) == /\ vpc[v] = "lock" /\ (WaitLocksMu => mu = Free)
               /\ mu' = IF WaitLocksMu THEN v ELSE mu
               /\ vpc' = [vpc EXCEPT ![v] = "waiting"]
               /\ UNCHANGED <<bdone, loopv, chanv, smap, dist, workv, subv, readv, pubv, statv, tpc, vctx, histv, budv>>
WaitRet(v) == /\ vpc[v] = "waiting" /\ (AllGone \/ vctx[v])
              /\ mu' = IF WaitLocksMu THEN Free ELSE mu
              /\ vpc' = [vpc EXCEPT ![v] = "done"]
              /\ UNCHANGED <<bdone, loopv, chanv, smap, dist, workv, subv, readv, pubv, statv, tpc, vctx, histv, budv>>

(* ====================================================================== Internal: event loop *)

LDone == /\ lpc = "select" /\ bdone /\ lpc' = "done"
         /\ UNCHANGED <<bdone, lmsg, lstat, chanv, smap, dist, workv, subv, readv, pubv, statv, lifev, histv, budv>>

\* subs.Ensure(ch): a range in progress may or may not see the new key
Ensure(s) == /\ smap' = smap \cup {s}
             /\ wseen' = [w \in Workers |-> IF InRange(w) THEN wseen[w] \cup {s} ELSE wseen[w]]
             /\ UNCHANGED <<wmust>>
\* subs.Delete(ch): a range in progress need not visit it any more
Delete(s) == /\ smap' = smap \ {s}
             /\ wmust' = [w \in Workers |-> wmust[w] \ {s}]
             /\ UNCHANGED <<wseen>>

\* case msgCh := <-b.subCh (broker.go:153-154): rendezvous with the caller when unbuffered
LSubDirect(s) == /\ CtlBuf = 0 /\ lpc = "select" /\ scall[s] = "calling"
                 /\ Returned(s) /\ Ensure(s)
                 /\ UNCHANGED <<bdone, loopv, chanv, dist, wpc, wmsg, wvis, wto, wpar, sctx, ucall, uctx, chbuf, rcv, pubv,
                                statv, lifev, histv, budv>>
LSubBuffered == /\ CtlBuf > 0 /\ lpc = "select" /\ subch # <<>>
                /\ subch' = Tail(subch) /\ Ensure(Head(subch))
                /\ UNCHANGED <<bdone, loopv, unsubch, dist, wpc, wmsg, wvis, wto, wpar, subv, readv, pubv, statv, lifev, histv, budv>>
\* case msgCh := <-b.unsubCh (broker.go:155-156)
LUnsubDirect(s) == /\ CtlBuf = 0 /\ lpc = "select" /\ ucall[s] = "calling"
                   /\ ucall' = [ucall EXCEPT ![s] = "ret"] /\ Delete(s)
                   /\ UNCHANGED <<bdone, loopv, chanv, dist, wpc, wmsg, wvis, wto, wpar, scall, sctx, uctx, readv, pubv,
                                  statv, lifev, histv, budv>>
LUnsubBuffered == /\ CtlBuf > 0 /\ lpc = "select" /\ unsubch # <<>>
                  /\ unsubch' = Tail(unsubch) /\ Delete(Head(unsubch))
                  /\ UNCHANGED <<bdone, loopv, subch, dist, wpc, wmsg, wvis, wto, wpar, subv, readv, pubv, statv, lifev, histv, budv>>

\* case fn := <-b.stats (broker.go:157-161): runs fn, i.e. signal <- stats
LStats(x) == /\ lpc = "select" /\ xpc[x] = "send"
             /\ xpc' = [xpc EXCEPT ![x] = "wait"]
             /\ IF StatsBuffered THEN UNCHANGED <<lpc, lstat>> ELSE lpc' = "stats" /\ lstat' = x
             /\ UNCHANGED <<bdone, lmsg, chanv, smap, dist, workv, subv, readv, pubv, xctx, lifev, histv, budv>>
\* the unbuffered reply is taken by the caller's second select (broker.go:258) - there is no other way out
LStatsReply == /\ lpc = "stats" /\ xpc[lstat] = "wait"
               /\ xpc' = [xpc EXCEPT ![lstat] = "done"] /\ lpc' = "select" /\ lstat' = ""
               /\ UNCHANGED <<bdone, lmsg, chanv, smap, dist, workv, subv, readv, pubv, xctx, lifev, histv, budv>>

\* case msg := <-b.publishCh (broker.go:162): Publish returns; the message is accepted
LAccept(p) == /\ lpc = "select" /\ ppc[p] = "calling"
              /\ LET m == <<p, pnext[p]>> IN
                 /\ lmsg' = m /\ lpc' = "send"
                 /\ accepted' = accepted \cup {m}
                 /\ owed' = IF ~pctx[p] /\ ~bdone /\ \A t \in StopIds : tpc[t] = "idle"
                              THEN owed \cup {<<s, m>> : s \in cand[p] \ unsubcalled} ELSE owed
              /\ ppc' = [ppc EXCEPT ![p] = "idle"] /\ pnext' = [pnext EXCEPT ![p] = @ + 1]
              /\ UNCHANGED <<bdone, lstat, chanv, smap, dist, workv, subv, readv, pctx, cand, statv, lifev,
                             pubcalled, unsubcalled, dispatched, evicted, budv>>

StartRange(w, m) == /\ wmsg' = [wmsg EXCEPT ![w] = m]
                    /\ wpc' = [wpc EXCEPT ![w] = "range"]
                    /\ wseen' = [wseen EXCEPT ![w] = smap] /\ wmust' = [wmust EXCEPT ![w] = smap]
                    /\ wvis' = [wvis EXCEPT ![w] = {}]

\* a worker parked by the pre-fix Receive is notified by a push
Notify(pcs) == IF RecvWaitsFirst /\ \E w \in Workers : pcs[w] = "parked"
                 THEN LET w == CHOOSE w \in Workers : pcs[w] = "parked" IN [pcs EXCEPT ![w] = "recv2"]
                 ELSE pcs

\* dist.Send(ctx, msg) (broker.go:163)
LSendPush == /\ lpc = "send" /\ (Backend # "chan" \/ Cap > 0)
             /\ \/ /\ Backend \in {"chan", "deque"} /\ (Cap = 0 \/ Len(dist) < Cap)   \* room: push (a full one blocks)
                   /\ dist' = Append(dist, lmsg) /\ UNCHANGED evicted
                \/ /\ Backend = "queue" /\ (Cap = 0 \/ Len(dist) < Cap)
                   /\ dist' = Append(dist, lmsg) /\ UNCHANGED evicted
                \/ /\ Backend = "queue" /\ Cap > 0 /\ Len(dist) >= Cap                 \* ErrQueueFull: shed (broker.go:170)
                   /\ evicted' = evicted \cup {lmsg} /\ UNCHANGED dist
                \/ /\ Backend = "nbdeque" /\ Len(dist) < Cap
                   /\ dist' = Append(dist, lmsg) /\ UNCHANGED evicted
                \/ /\ Backend = "nbdeque" /\ Len(dist) >= Cap                          \* ForcePushBack evicts the oldest
                   /\ dist' = Append(Tail(dist), lmsg) /\ evicted' = evicted \cup {Head(dist)}
             /\ lpc' = "select" /\ lmsg' = NoMsg
             /\ wpc' = IF dist' # dist THEN Notify(wpc) ELSE wpc
             /\ UNCHANGED <<bdone, lstat, chanv, smap, wmsg, wseen, wmust, wvis, wto, wpar, subv, readv, pubv, statv, lifev,
                            pubcalled, unsubcalled, owed, accepted, dispatched, budv>>
\* rendezvous channel: Send meets a worker's Receive
LSendDirect(w) == /\ lpc = "send" /\ Backend = "chan" /\ Cap = 0 /\ wpc[w] = "recv"
                  /\ lpc' = "select" /\ lmsg' = NoMsg /\ StartRange(w, lmsg)
                  /\ UNCHANGED <<bdone, lstat, chanv, smap, dist, wto, wpar, subv, readv, pubv, statv, lifev, histv, budv>>
\* Send fails with the context's error: the loop goes on and leaves by ctx.Done (broker.go:169-176 matches no case)
LSendCtx == /\ lpc = "send" /\ bdone /\ lpc' = "select" /\ lmsg' = NoMsg
            /\ UNCHANGED <<bdone, lstat, chanv, smap, dist, workv, subv, readv, pubv, statv, lifev, histv, budv>>

(* ====================================================================== Internal: dispatch workers *)

\* dist.Receive(ctx) (broker.go:191) returns the oldest message
WRecv(w) == /\ wpc[w] = IF RecvWaitsFirst THEN "recv2" ELSE "recv"
            /\ dist # <<>> /\ dist' = Tail(dist) /\ StartRange(w, Head(dist))
            /\ UNCHANGED <<bdone, loopv, chanv, smap, wto, wpar, subv, readv, pubv, statv, lifev, histv, budv>>
\* pre-fix WaitFront: waits for a notification before it looks at the buffer
WPark(w) == /\ RecvWaitsFirst /\ wpc[w] = "recv" /\ ~bdone /\ wpc' = [wpc EXCEPT ![w] = "parked"]
            /\ UNCHANGED <<bdone, loopv, chanv, smap, dist, wmsg, wseen, wmust, wvis, wto, wpar, subv, readv, pubv, statv, lifev, histv, budv>>
\* Receive fails with the context's error: the worker returns (broker.go:192-194)
WExit(w) == /\ wpc[w] \in {"recv", "recv2", "parked"} /\ bdone /\ wpc' = [wpc EXCEPT ![w] = "done"]
            /\ UNCHANGED <<bdone, loopv, chanv, smap, dist, wmsg, wseen, wmust, wvis, wto, wpar, subv, readv, pubv, statv, lifev, histv, budv>>

\* iter.Next(ctx): the range yields a key that was in the map at some point of this range and was not yet visited
WNext(w, s) == /\ wpc[w] = "range" /\ ~bdone /\ s \in wseen[w] \ wvis[w]
               /\ wvis' = [wvis EXCEPT ![w] = @ \cup {s}]
               /\ IF Parallel THEN /\ wpar' = [wpar EXCEPT ![w] = @ \cup {s}]          \* go sendMsg (broker.go:207-210)
                                   /\ UNCHANGED <<wpc, wto>>
                              ELSE /\ wpc' = [wpc EXCEPT ![w] = "send"] /\ wto' = [wto EXCEPT ![w] = s]
                                   /\ UNCHANGED wpar
               /\ UNCHANGED <<bdone, loopv, chanv, smap, dist, wmsg, wseen, wmust, subv, readv, pubv, statv, lifev, histv, budv>>

\* the range is exhausted: every key that was present throughout has been visited
WEnd(w) == /\ wpc[w] = "range" /\ ~bdone /\ wmust[w] \subseteq wvis[w]
           /\ IF Parallel THEN wpc' = [wpc EXCEPT ![w] = "parwait"] /\ UNCHANGED dispatched
                          ELSE /\ wpc' = [wpc EXCEPT ![w] = "recv"]
                               /\ dispatched' = dispatched \cup {wmsg[w]}
           /\ UNCHANGED <<bdone, loopv, chanv, smap, dist, wmsg, wseen, wmust, wvis, wto, wpar, subv, readv, pubv, statv, lifev,
                          pubcalled, unsubcalled, owed, accepted, evicted, budv>>

\* ch <- m succeeds: the subscriber is receiving (unbuffered) or its channel buffer has room
CanTake(s) == IF Buf = 0 THEN reading[s] ELSE Len(chbuf[s]) < Buf
Put(s, m) == IF Buf = 0 THEN /\ rcv' = [rcv EXCEPT ![s] = Append(@, m)] /\ UNCHANGED <<reading, chbuf>>
                        ELSE /\ chbuf' = [chbuf EXCEPT ![s] = Append(@, m)] /\ UNCHANGED <<reading, rcv>>

\* sendMsg (broker.go:263-268), sequential dispatch
WSend(w) == /\ wpc[w] = "send" /\ ~bdone /\ CanTake(wto[w])
            /\ Put(wto[w], wmsg[w])
            /\ wpc' = [wpc EXCEPT ![w] = "range"] /\ wto' = [wto EXCEPT ![w] = NoSub]
            /\ UNCHANGED <<bdone, loopv, chanv, smap, dist, wmsg, wseen, wmust, wvis, wpar, subv, pubv, statv, lifev, histv, budv>>
\* sendMsg in one of the goroutines of a parallel dispatch
WParSend(w, s) == /\ s \in wpar[w] /\ ~bdone /\ CanTake(s)
                  /\ Put(s, wmsg[w])
                  /\ wpar' = [wpar EXCEPT ![w] = @ \ {s}]
                  /\ UNCHANGED <<bdone, loopv, chanv, smap, dist, wpc, wmsg, wseen, wmust, wvis, wto, subv, pubv, statv, lifev, histv, budv>>
\* wg.Wait(ctx) of a parallel dispatch returns: all sends are done (broker.go:213)
WParDone(w) == /\ wpc[w] = "parwait" /\ ~bdone /\ wpar[w] = {}
               /\ wpc' = [wpc EXCEPT ![w] = "recv"] /\ dispatched' = dispatched \cup {wmsg[w]}
               /\ UNCHANGED <<bdone, loopv, chanv, smap, dist, wmsg, wseen, wmust, wvis, wto, wpar, subv, readv, pubv, statv, lifev,
                              pubcalled, unsubcalled, owed, accepted, evicted, budv>>
\* the broker's context ended during a dispatch: Next / sendMsg / wg.Wait all give up
WAbort(w) == /\ InRange(w) /\ bdone
             /\ wpc' = [wpc EXCEPT ![w] = "recv"] /\ wpar' = [wpar EXCEPT ![w] = {}] /\ wto' = [wto EXCEPT ![w] = NoSub]
             /\ UNCHANGED <<bdone, loopv, chanv, smap, dist, wmsg, wseen, wmust, wvis, subv, readv, pubv, statv, lifev, histv, budv>>

\* a receiving subscriber takes the next message out of its buffered channel
SubRead(s) == /\ Buf > 0 /\ reading[s] /\ chbuf[s] # <<>>
              /\ rcv' = [rcv EXCEPT ![s] = Append(@, Head(chbuf[s]))] /\ chbuf' = [chbuf EXCEPT ![s] = Tail(@)]
              /\ UNCHANGED <<bdone, loopv, chanv, smap, dist, workv, subv, reading, pubv, statv, lifev, histv, budv>>

Internal ==
  \/ \E s \in Subs : SubNil(s) \/ SubBuffer(s) \/ UnsubBuffer(s) \/ UnsubCtx(s) \/ LSubDirect(s) \/ LUnsubDirect(s) \/ SubRead(s)
  \/ \E p \in Pubs : PubCtx(p) \/ LAccept(p)
  \/ \E x \in StatsIds : StatsCtx(x) \/ StatsTake(x) \/ LStats(x)
  \/ \E t \in StopIds : StopRun(t)
  \/ \E v \in WaitIds : WaitLock(v) \/ WaitRet(v)
  \/ LDone \/ LSubBuffered \/ LUnsubBuffered \/ LStatsReply \/ LSendPush \/ LSendCtx
  \/ \E w \in Workers : LSendDirect(w) \/ WRecv(w) \/ WPark(w) \/ WExit(w) \/ WEnd(w) \/ WSend(w)
                        \/ WParDone(w) \/ WAbort(w)
  \/ \E w \in Workers, s \in Subs : WNext(w, s) \/ WParSend(w, s)

Next == Internal \/ External
Spec == Init /\ [][Next]_vars /\ WF_vars(Internal)

(* ====================================================================== Properties *)

TypeOK == /\ lpc \in {"select", "send", "stats", "done"}
          /\ \A w \in Workers : wpc[w] \in {"recv", "recv2", "parked", "range", "send", "parwait", "done"}
          /\ smap \subseteq Subs /\ mu \in {Free} \cup WaitIds
          /\ Cap > 0 => Len(dist) <= Cap
          /\ \A s \in Subs : Len(chbuf[s]) <= Buf

Quiescent == ~ENABLED Internal

IsLossless == Lossless(Backend, Cap, Buf)
Holders == {s \in Subs : scall[s] = "ret"}
AllReading == \A s \in Holders : reading[s]
StopCalled == \E t \in StopIds : tpc[t] # "idle"
Live == ~bdone /\ ~StopCalled

\* ---- C08
OnlyPublishedInv == \A s \in Subs : OnlyPublished(rcv[s], pubcalled) /\ OnlyPublished(chbuf[s], pubcalled)
NoDuplicateInv == \A s \in Subs : NoDuplicate(rcv[s] \o chbuf[s])
Due == IF KF_UnsubWindow THEN {sm \in owed : sm[1] \notin unsubcalled} ELSE owed
ExactlyOnceInv == (IsLossless /\ Quiescent /\ Live /\ AllReading) => Delivered(Due, rcv)
OrderInv == (IsLossless /\ W = 1) =>
              /\ \A s \in Subs : PublisherOrder(rcv[s])
              /\ \A s, t \in Subs : SameOrder(rcv[s], rcv[t])

\* ---- C09
\* with the context live and every subscriber receiving: the distributor is empty, no Publish is blocked,
\* and nothing accepted is still waiting to be dispatched
NoStall == (Quiescent /\ Live /\ AllReading) =>
             /\ dist = <<>> /\ lpc # "send"
             /\ \A p \in Pubs : ppc[p] # "calling"
             /\ accepted \subseteq dispatched \cup evicted
\* a call whose own context is cancelled does not stay blocked
CtxRespected == Quiescent =>
                  /\ \A s \in Subs : (scall[s] = "calling" => ~sctx[s]) /\ (ucall[s] = "calling" => ~uctx[s])
                  /\ \A p \in Pubs : ppc[p] = "calling" => ~pctx[p]
                  /\ \A x \in StatsIds : xpc[x] \in {"send", "wait"} => ~xctx[x]
\* Stop returns; after Stop / cancellation every broker goroutine has exited and Wait has returned
StopReturns == Quiescent => \A t \in StopIds : tpc[t] # "calling"
CleanShutdown == (Quiescent /\ bdone) => /\ AllGone
                                         /\ \A v \in WaitIds : vpc[v] \notin {"lock", "waiting"}
MutexFree == Quiescent => (mu # Free => vpc[mu] = "waiting")

\* ---- liveness (subscribers always ready: AutoRead, no Toggles)
Dispatches == \A m \in Msgs : (m \in accepted) ~> (m \in dispatched \cup evicted \/ bdone)
PublishReturns == \A p \in Pubs : (ppc[p] = "calling") ~> (ppc[p] # "calling" \/ bdone)
ShutsDown == bdone ~> AllGone
WaitReturns == \A v \in WaitIds : (bdone /\ vpc[v] \in {"lock", "waiting"}) ~> (vpc[v] = "done")
StopCompletes == \A t \in StopIds : (tpc[t] = "calling") ~> (tpc[t] = "done")
Settles == <>[]Quiescent
=============================================================================
