\* pre-fix Deque.WaitFront (dispatcher waits although the buffer is not empty); NoStall must be violated
SPECIFICATION Spec
CONSTANTS
  Pubs = {"p1"}
  K = 2
  Subs = {"s1"}
  W = 1
  Parallel = FALSE
  Backend = "queue"
  Cap = 0
  Buf = 0
  StatsIds = {}
  WaitIds = {}
  StopIds = {}
  AutoRead = TRUE
  Toggles = 0
  AllowUnsub = FALSE
  AllowParentCancel = FALSE
  CtxCancels = 0
  Redundant = 0
  WaitLocksMu = FALSE
  StatsBuffered = TRUE
  RecvWaitsFirst = TRUE
  KF_UnsubWindow = TRUE
  CtlBuf = 0
INVARIANTS TypeOK NoStall
CHECK_DEADLOCK FALSE
