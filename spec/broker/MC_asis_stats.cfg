\* the code before 495e0f0: unbuffered Stats reply; NoStall must be violated
SPECIFICATION Spec
CONSTANTS
  Pubs = {"p1"}
  K = 1
  Subs = {"s1"}
  W = 1
  Parallel = FALSE
  Backend = "queue"
  Cap = 0
  Buf = 0
  StatsIds = {"x1"}
  WaitIds = {"v1"}
  StopIds = {"t1"}
  AutoRead = TRUE
  Toggles = 0
  AllowUnsub = FALSE
  AllowParentCancel = FALSE
  CtxCancels = 1
  Redundant = 0
  WaitLocksMu = FALSE
  StatsBuffered = FALSE
  RecvWaitsFirst = FALSE
  KF_UnsubWindow = TRUE
  CtlBuf = 0
INVARIANTS TypeOK NoStall
CHECK_DEADLOCK FALSE
