SPECIFICATION Spec
CONSTANTS
  JudgeDelivery = TRUE
  JudgeProgress = FALSE
  UnsubWindow = "called"
CONSTRAINT HighWater
POSTCONDITION Accepted
CHECK_DEADLOCK FALSE
