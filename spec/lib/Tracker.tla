------------------------------ MODULE Tracker ------------------------------
(* The limit trackers shared by pubsub.Queue and pubsub.Deque                 *)
(* (/repo/pubsub/tracker.go), as pure operators on records.                   *)
(*                                                                            *)
(*   kind = "nolimit"  queueNoLimitTrackerImpl   cap = "infinity"             *)
(*   kind = "hard"     queueHardLimitTracker     cap = hard                   *)
(*   kind = "quota"    queueLimitTrackerImpl     cap = current soft quota     *)
(*                                                                            *)
(* Burst credit is a float64 in Go.  Here it is an exact rational scaled by   *)
(* Scale (a common multiple of every soft quota that can occur), so only      *)
(* integers are used.  float64 sums of k/soft can differ from the exact       *)
(* value by an ulp; the comparison `credit < 1` is therefore permissive       *)
(* exactly at equality (both outcomes allowed, flagged `amb`) once a         *)
(* non-dyadic amount has been added to the credit (`frac`); everywhere       *)
(* else the distance to the threshold is >= 1/Scale >> ulp and the outcome    *)
(* is forced.  The comparison with the credit cap needs no such care:         *)
(* clamping an ulp above or below the cap leaves the same exact value.        *)
(***************************************************************************)
EXTENDS Integers

CONSTANT Scale

Inf == 1000000

NoLimit == [kind |-> "nolimit", len |-> 0, soft |-> 0, hard |-> 0, credit |-> 0, frac |-> FALSE]
Hard(c) == [kind |-> "hard", len |-> 0, soft |-> c, hard |-> c, credit |-> 0, frac |-> FALSE]
\* QueueOptions.Validate: soft = 0 -> hard; credit = 0 -> soft
Quota(h, s, c) == LET s2 == IF s <= 0 THEN h ELSE s
                      c2 == IF c = 0 THEN s2 ELSE c
                  IN [kind |-> "quota", len |-> 0, soft |-> s2, hard |-> h, credit |-> c2 * Scale, frac |-> FALSE]

TrLen(t) == t.len
TrCap(t) == CASE t.kind = "nolimit" -> Inf
              [] t.kind = "hard"    -> t.hard
              [] OTHER              -> t.soft

\* the set of allowed outcomes of tracker.add(): records [t, res, amb]
TrAdd(t) ==
  CASE t.kind = "nolimit" -> {[t |-> [t EXCEPT !.len = @ + 1], res |-> "ok", amb |-> FALSE]}
    [] t.kind = "hard" ->
         IF t.len >= t.hard THEN {[t |-> t, res |-> "full", amb |-> FALSE]}
         ELSE {[t |-> [t EXCEPT !.len = @ + 1], res |-> "ok", amb |-> FALSE]}
    [] OTHER ->
         IF t.len >= t.soft
           THEN IF t.len = t.hard THEN {[t |-> t, res |-> "full", amb |-> FALSE]}
                ELSE LET burst == [t |-> [t EXCEPT !.credit = @ - Scale, !.soft = t.len + 1, !.len = @ + 1],
                                   res |-> "ok", amb |-> (t.credit = Scale /\ t.frac)]
                         deny  == [t |-> t, res |-> "nocredit", amb |-> (t.credit = Scale /\ t.frac)]
                     IN IF t.credit < Scale THEN {deny}
                        ELSE IF t.credit = Scale /\ t.frac THEN {burst, deny}
                        ELSE {burst}
           ELSE {[t |-> [t EXCEPT !.len = @ + 1], res |-> "ok", amb |-> FALSE]}

\* n/d is a dyadic rational with a small exponent: such amounts add up exactly in float64
Dyadic(n, d) == \E k \in {1, 2, 4, 8, 16} : (n * k) % d = 0

\* tracker.remove() (callers guarantee len > 0 for the quota tracker)
TrRemove(t) ==
  IF t.kind # "quota" THEN [t EXCEPT !.len = IF @ = 0 THEN 0 ELSE @ - 1]
  ELSE LET l2 == t.len - 1 IN
       IF l2 < t.soft
         THEN LET s2 == IF t.soft > 1 /\ l2 < (t.soft \div 2) THEN t.soft - 1 ELSE t.soft
                  c2 == t.credit + ((s2 - l2) * Scale) \div s2
                  cap == (t.hard - s2) * Scale
                  \* frac: the float64 credit may differ from the exact value by rounding (a non-integer
                  \* amount was added and it was not since clamped to the integer cap)
                  f2 == IF c2 > cap THEN FALSE ELSE (t.frac \/ ~Dyadic(s2 - l2, s2))
              IN [t EXCEPT !.len = l2, !.soft = s2, !.credit = IF c2 > cap THEN cap ELSE c2, !.frac = f2]
         ELSE [t EXCEPT !.len = l2]

\* invariants of the tracker arithmetic (checked by the Queue/Deque specs)
TrOK(t) == /\ t.len >= 0
           /\ t.kind = "hard"  => t.len <= t.hard
           /\ t.kind = "quota" => /\ t.len <= t.hard
                                  /\ 1 <= t.soft /\ t.soft <= t.hard
                                  /\ t.credit >= 0
=============================================================================
