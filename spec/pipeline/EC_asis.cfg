SPECIFICATION Spec
CONSTANTS
  ExcludedConsulted = FALSE
  Mut = "none"
INVARIANT Refines
CONSTRAINT Emit
CHECK_DEADLOCK FALSE
