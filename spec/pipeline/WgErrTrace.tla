----------------------------- MODULE WgErrTrace -----------------------------
(* Property C03, code -> model: histories recorded from the real worker groups *)
(* (harness/cmd/vh-wgerr: every replayed schedule, and free-running runs) are  *)
(* judged by TLC against the abstract contract ErrContract!Contract.           *)
(*                                                                            *)
(* Events (one JSON object per line, in the order of the global sequence):     *)
(*   reset    c n k coe cop inc exc coll gated     start of a run              *)
(*   cb_enter item g       the user function was called for `item` on          *)
(*                         goroutine g (= the worker)                          *)
(*   cb_exit  item g kind  it returned / panicked: what it did (`kind`)        *)
(*   cancel   mode         the caller cancelled its context (0) / the consumer  *)
(*                         closed the output (1)                               *)
(*   returned              the Run of a worker group returned                  *)
(*   result   nil is got panicked   the run is over: the returned error /      *)
(*            Close() of the output is nil?; the sentinels errors.Is finds in  *)
(*            it; the item ids the output delivered; did the run panic         *)
(*                                                                            *)
(* The history is deterministic, so the spec is a checker: every event is      *)
(* consumed; the first obligation that fails is recorded in `bad` and stops    *)
(* the run (the position and the reason are printed as REJECTED).              *)
(*                                                                            *)
(* Obligations (property C03, with the readings of DESIGN.md 5.0):             *)
(*   cb_enter  no item twice; not on a worker whose failure must abort; in a   *)
(*             gated run (every other user function held while the failing     *)
(*             one returns, released one by one at quiescence) at most k       *)
(*             items are started after the first failure that must abort       *)
(*   result    no panic escaped; every occurred failure that must be reported  *)
(*             is found by errors.Is (its E_i, PANIC, CTX, X as Need says);    *)
(*             EOF / SKIP / CTX (unless included) / X (if excluded) are never  *)
(*             found (unless they came as the value of a panic); nil iff no    *)
(*             reportable failure occurred; outputs are results of successful  *)
(*             items, each at most once; if every                              *)
(*             occurred failure is one the run must continue after: every      *)
(*             item was processed exactly once and every successful item's     *)
(*             output delivered                                                *)
(***************************************************************************)
EXTENDS ErrContract

Trace == ndJsonDeserialize("trace.ndjson")

VARIABLES l,         \* next event
          cfg,       \* the reset event of the current run
          entered,   \* items in the order their user function was called
          kindOf,    \* item -> kind, for the items whose user function has returned (a function on a set of items)
          abortG,    \* workers (goroutines) whose user function failed with a failure that must abort
          abortAt,   \* Len(entered) when the first such failure returned (-1: none)
          cancelled, \* the caller cancelled its context / the consumer closed the output during this run
          bad        \* "" or the first obligation that failed
vars == <<l, cfg, entered, kindOf, abortG, abortAt, cancelled, bad>>

Ev   == Trace[l]
More == l <= Len(Trace) /\ bad = ""
NoCfg == [c |-> "-", n |-> 0, k |-> 1, coe |-> FALSE, cop |-> FALSE, inc |-> FALSE, exc |-> FALSE, coll |-> "default", gated |-> 0]

Init == l = 1 /\ cfg = NoCfg /\ entered = <<>> /\ kindOf = <<>> /\ abortG = {} /\ abortAt = -1 /\ cancelled = FALSE /\ bad = ""

O == [coe |-> cfg.coe, cop |-> cfg.cop, inc |-> cfg.inc, exc |-> cfg.exc]
Range(s) == {s[i] : i \in 1..Len(s)}
Exited == DOMAIN kindOf
Rep(i)  == Contract(kindOf[i], O).report
Cont(i) == Contract(kindOf[i], O).cont
Name(s, i) == IF s = "E" THEN "E" \o ToString(i) ELSE s
HasOut == cfg.c \in {"map", "gen"}

\* the first failing check, or ""
First(checks) == IF \E j \in 1..Len(checks) : ~checks[j][1]
                   THEN checks[CHOOSE j \in 1..Len(checks) : ~checks[j][1] /\ \A m \in 1..(j - 1) : checks[m][1]][2]
                   ELSE ""

Reset == /\ More /\ Ev.ev = "reset"
         /\ cfg' = Ev /\ entered' = <<>> /\ kindOf' = <<>> /\ abortG' = {} /\ abortAt' = -1 /\ cancelled' = FALSE
         /\ l' = l + 1 /\ UNCHANGED bad

Enter == /\ More /\ Ev.ev = "cb_enter"
         /\ LET why == First(<<
                  <<Ev.item \in 1..cfg.n, "callback/invented-item">>,
                  <<Ev.item \notin Range(entered), "item-processed-twice">>,
                  <<Ev.g \notin abortG, "abort/failing-worker-takes-next-item">>,
                  <<~(cfg.gated = 1 /\ abortAt >= 0) \/ Len(entered) + 1 - abortAt <= cfg.k, "abort/other-workers-consume-input">> >>)
            IN  IF why = "" THEN entered' = Append(entered, Ev.item) /\ l' = l + 1 /\ UNCHANGED bad
                ELSE bad' = why /\ UNCHANGED <<l, entered>>
         /\ UNCHANGED <<cfg, kindOf, abortG, abortAt, cancelled>>

\* the caller cancels its context (mode 0) / the consumer closes the output (mode 1)
Cancel == /\ More /\ Ev.ev = "cancel"
          /\ cancelled' = TRUE /\ l' = l + 1 /\ UNCHANGED <<cfg, entered, kindOf, abortG, abortAt, bad>>

\* the Run of a worker group (pp / pfe / worker) returned: it promises to wait for its workers, so every user
\* function that was called has returned - whatever happened to the context
Returned == /\ More /\ Ev.ev = "returned"
            /\ IF Range(entered) = Exited THEN l' = l + 1 /\ UNCHANGED bad
               ELSE bad' = "cancel/run-returned-while-callback-held" /\ UNCHANGED l
            /\ UNCHANGED <<cfg, entered, kindOf, abortG, abortAt, cancelled>>

Exit == /\ More /\ Ev.ev = "cb_exit"
        /\ LET why == First(<<
                 <<Ev.item \in Range(entered) /\ Ev.item \notin Exited, "callback/exit-without-enter">>,
                 <<Ev.kind \in Kinds, "callback/unknown-kind">> >>)
               mustAbort == Contract(Ev.kind, O).cont = "mustnot"
           IN  IF why = ""
                 THEN /\ kindOf' = [i \in Exited \cup {Ev.item} |-> IF i = Ev.item THEN Ev.kind ELSE kindOf[i]]
                      /\ abortG' = IF mustAbort THEN abortG \cup {Ev.g} ELSE abortG
                      /\ abortAt' = IF mustAbort /\ abortAt = -1 THEN Len(entered) ELSE abortAt
                      /\ l' = l + 1 /\ UNCHANGED bad
                 ELSE bad' = why /\ UNCHANGED <<l, kindOf, abortG, abortAt>>
        /\ UNCHANGED <<cfg, entered, cancelled>>

Result ==
    /\ More /\ Ev.ev = "result"
    /\ LET is    == Range(Ev.is)
           got   == Ev.got
           musts == {i \in Exited : Rep(i) = "must"}
           anys  == {i \in Exited : Rep(i) = "any"}
           okIts == {i \in Exited : kindOf[i] = "ok"}
           \* every failure that occurred is one the run must continue after (and then all n items must occur)
           \* ... and nobody cancelled the run
           contAll == ~cancelled /\ \A i \in Exited : Cont(i) = "must"
           \* never-reported sentinels that came as the value of a (reported) panic decide nothing
           carried == UNION {MayCarry(kindOf[i]) : i \in Exited}
           swallowed == {i \in musts : ~({Name(s, i) : s \in Need(kindOf[i])} \subseteq is)}
           why == First(<<
               <<Ev.panicked = 0, "escaped-as-panic">>,
               <<swallowed = {}, "swallowed">>,
               <<is \cap ((NeverFound(O) \ carried) \ {"X"}) = {}, "never-reported-error-found">>,
               <<~("X" \in is /\ "X" \in NeverFound(O) \ carried), "excluded-error-reported">>,
               <<musts # {} => ~Ev.nil, "nil-despite-failure">>,
               \* with IncludeContextExpirationErrors a cancellation may itself be reported
               <<(musts = {} /\ anys = {} /\ ~(cancelled /\ cfg.inc)) => Ev.nil, "non-nil-without-failure">>,
               <<\A a, b \in 1..Len(got) : got[a] = got[b] => a = b, "output/invented-or-duplicate">>,
               <<Range(got) \subseteq okIts, "output/invented-or-duplicate">>,
               <<contAll => (Range(entered) = 1..cfg.n /\ Exited = 1..cfg.n), "continue/item-not-processed">>,
               <<(contAll /\ HasOut) => Range(got) = okIts, "continue/output-lost">> >>)
       IN  IF why = "" THEN l' = l + 1 /\ UNCHANGED bad ELSE bad' = why /\ UNCHANGED l
    /\ UNCHANGED <<cfg, entered, kindOf, abortG, abortAt, cancelled>>

Next == Reset \/ Enter \/ Exit \/ Cancel \/ Returned \/ Result
Spec == Init /\ [][Next]_vars

\* acceptance: the highest trace position explained (needs -workers 1); register 2 carries the reason
HighWater == /\ TLCSet(1, IF TLCGet(1) < l THEN l ELSE TLCGet(1))
             /\ (bad # "" => TLCSet(2, bad))
Accepted == \/ TLCGet(1) = Len(Trace) + 1
            \/ PrintT(<<"REJECTED", ToJson([at |-> TLCGet(1), event |-> Trace[TLCGet(1)], why |-> TLCGet(2)])>>) /\ FALSE
ASSUME TLCSet(1, 0) /\ TLCSet(2, "unexplained event")
=============================================================================
