SPECIFICATION Spec
CONSTANTS
  Construct = "map"
  MaxN = 3
  MaxK = 2
  FKinds = {"err"}
  MaxFaults = 1
  OptSet <- OptsCore
  AbortCancels = TRUE
  GenChecksCtx = TRUE
  ResolverSame = TRUE
  ExcludedConsulted = TRUE
  Mut = "swap"
INVARIANTS TypeOK NothingSwallowed NeverReported NilIffNoFailure AtMostOnce ContinueAll AbortedWorkerStops AbortBound NoStall AllDone
PROPERTIES Settles
CHECK_DEADLOCK FALSE
