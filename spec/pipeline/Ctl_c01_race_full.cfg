SPECIFICATION Spec
CONSTANTS
  Constructs = {"map", "pp", "pfe", "worker", "pbuf", "split", "buffer", "merge", "gen", "multiread"}
  MaxN = 4
  MaxK = 3
  AllowStop = FALSE
  RaceReps = 300000
  Depth = 1
INVARIANT Inv
CONSTRAINT EmitAll
CHECK_DEADLOCK FALSE
