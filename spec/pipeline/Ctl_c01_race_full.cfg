SPECIFICATION Spec
CONSTANTS
  Constructs = {"map", "pp", "pfe", "worker", "pbuf", "pbufg", "split", "buffer", "merge", "gen", "multiread"}
  MaxN = 4
  MaxK = 3
  AllowStop = FALSE
  RaceReps = 300000
  FillReps = 0
  MaxBurst = 0
  BurstReps = 1
  Opts = {}
  Anns = {}
  Depth = 1
INVARIANT Inv
CONSTRAINT EmitAll
CHECK_DEADLOCK FALSE
