SPECIFICATION Spec
CONSTANTS
  Constructs = {"pp", "pfe", "worker", "map", "gen"}
  Ns = {0, 1, 2, 3, 4, 5, 6, 7, 8}
  Ks = {1, 2, 3, 4}
  FKinds = {"err", "wrapped", "panicErr", "panicStr", "panicOther", "skip", "eof", "abort", "ctx", "excl", "panicW_EOF", "panicW_SKIP", "panicW_CTX", "panicW_X", "panicW_ABORT"}
  MaxFaults = 2
  MaxFaultPos = 8
  OptSet <- OptsAll
  Colls = {"default", "custom"}
  CancelModes = {}
  Depth = 12
  ExcludedConsulted = TRUE
  Mut = "none"
INVARIANT Inv
CONSTRAINT EmitAll
CHECK_DEADLOCK FALSE
