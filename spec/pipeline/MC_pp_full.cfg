SPECIFICATION Spec
CONSTANTS
  MaxN = 4
  MaxK = 3
  HasCb = TRUE
  HasOut = FALSE
  OutCap = 0
  CloserSeesCtx = FALSE
  CloseOn = "wg"
  SendSelectsDone = TRUE
  FastPath = FALSE
INVARIANTS TypeOK Conservation CloseAfterDrain SetupOnce EofComplete NoStall AllDone BlockedConsumerReleased RunReturns NoopCloseStartsNothing
PROPERTIES Settles LiveTerminates
CHECK_DEADLOCK FALSE
