SPECIFICATION Spec
CONSTANTS
  MaxN = 4
  Cap = 2
  NoPostHook = FALSE
  SendSelectsDone = TRUE
INVARIANTS TypeOK Conservation EofComplete CloseAfterDrain NoStall AllDone BlockedConsumerReleased NoopCloseStartsNothing
PROPERTIES Settles LiveTerminates
CHECK_DEADLOCK FALSE
