SPECIFICATION Spec
CONSTANTS
  Construct = "pp"
  MaxN = 2
  MaxK = 2
  FKinds = {"err"}
  MaxFaults = 1
  OptSet <- OptsCore
  AbortCancels = TRUE
  GenChecksCtx = TRUE
  GenEofByIs = FALSE
  ResolverSame = FALSE
  ExcludedConsulted = TRUE
  Mut = "none"
INVARIANTS TypeOK NothingSwallowed NeverReported NilIffNoFailure AtMostOnce ContinueAll AbortedWorkerStops AbortBound NoStall AllDone
PROPERTIES Settles
CHECK_DEADLOCK FALSE
