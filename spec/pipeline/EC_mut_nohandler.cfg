SPECIFICATION Spec
CONSTANTS
  ExcludedConsulted = TRUE
  Mut = "nohandler"
INVARIANT Refines
CONSTRAINT Emit
CHECK_DEADLOCK FALSE
