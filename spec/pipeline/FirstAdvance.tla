--------------------------- MODULE FirstAdvance ----------------------------
(* The entry of Iterator.ReadOne against a concurrent Iterator.Close:         *)
(* iterator.go:169-171,231-241 and Producer.WithCancel, producer.go:367-377.  *)
(*                                                                            *)
(*   ReadOne:  if closer.state.Load() { return io.EOF }          "check"      *)
(*             if ctx.Err() != nil   { return err }                           *)
(*             operation(ctx):                                                *)
(*               once.Do(func(){ wctx, cancel = WithCancel(ctx) })  "once"    *)
(*               Invariant.IsFalse(wctx == nil, ...)                "inv"     *)
(*               return pf(wctx)             (blocks until an item  "run"     *)
(*                                            or wctx is done)                *)
(*   Close:    closer.once.Do(func(){ closer.state.Store(true)      "state"   *)
(*               closer.op() = { once.Do(func(){})                  "conce"   *)
(*                               ft.SafeCall(cancel) } })           "cancel"  *)
(*                                                                            *)
(* The iterator's cancellable context is created from the context of the      *)
(* FIRST advance; a Close before any advance consumes the once and is a no-op *)
(* on it.  As pinned (Fixed = FALSE) a Close that lands between "check" and   *)
(* "once" of the first advance consumes the once first: the advance then      *)
(* finds wctx == nil and PANICS ("must start the operation before calling     *)
(* cancel") - in the consumer's goroutine, or, when the advancing goroutine   *)
(* is Split's reader (Map / ParallelBuffer / ProcessParallel close their      *)
(* input from the output's Close hook), in a library goroutine, which kills   *)
(* the process.  Fixed = TRUE is fixes/iterator-close-races-first-advance.diff *)
(* : the cancel function, when it wins the once, installs an already          *)
(* cancelled context, so the advance runs with a cancelled context and        *)
(* returns.                                                                   *)
(***************************************************************************)
EXTENDS Integers, TLC

CONSTANTS Fixed, Readers

VARIABLES rpc,      \* per advancing goroutine: "idle"|"check"|"once"|"inv"|"run"|"ret"|"panic"
          cpc,      \* the closing goroutine: "idle"|"state"|"conce"|"cancel"|"ret"
          state,    \* closer.state
          once,     \* the sync.Once inside WithCancel: "new" | "done"
          wctx,     \* "nil" | "live" | "cancelled"
          items     \* number of items the source can still hand out without blocking
vars == <<rpc, cpc, state, once, wctx, items>>

Init == /\ rpc = [r \in Readers |-> "idle"] /\ cpc = "idle" /\ state = FALSE /\ once = "new" /\ wctx = "nil"
        /\ items \in 0..1

\* External: the client starts an advance / a Close, or the source gets an item
StartRead(r) == rpc[r] = "idle" /\ rpc' = [rpc EXCEPT ![r] = "check"] /\ UNCHANGED <<cpc, state, once, wctx, items>>
StartClose   == cpc = "idle" /\ cpc' = "state" /\ UNCHANGED <<rpc, state, once, wctx, items>>
External == StartClose \/ \E r \in Readers : StartRead(r)

Check(r) == /\ rpc[r] = "check"
            /\ rpc' = [rpc EXCEPT ![r] = IF state THEN "ret" ELSE "once"]
            /\ UNCHANGED <<cpc, state, once, wctx, items>>
Once(r) == /\ rpc[r] = "once"
           /\ IF once = "new" THEN once' = "done" /\ wctx' = "live" ELSE UNCHANGED <<once, wctx>>
           /\ rpc' = [rpc EXCEPT ![r] = IF Fixed THEN "run" ELSE "inv"]
           /\ UNCHANGED <<cpc, state, items>>
Inv(r) == /\ rpc[r] = "inv"
          /\ rpc' = [rpc EXCEPT ![r] = IF wctx = "nil" THEN "panic" ELSE "run"]
          /\ UNCHANGED <<cpc, state, once, wctx, items>>
\* pf(wctx): an item, or the context's error; blocks while neither is available
RunRet(r) == /\ rpc[r] = "run" /\ (items > 0 \/ wctx = "cancelled")
             /\ items' = IF items > 0 /\ wctx # "cancelled" THEN items - 1 ELSE items
             /\ rpc' = [rpc EXCEPT ![r] = "ret"]
             /\ UNCHANGED <<cpc, state, once, wctx>>

CState == cpc = "state" /\ state' = TRUE /\ cpc' = "conce" /\ UNCHANGED <<rpc, once, wctx, items>>
COnce == /\ cpc = "conce" /\ cpc' = "cancel"
         /\ IF once = "new"
              THEN once' = "done" /\ wctx' = IF Fixed THEN "cancelled" ELSE wctx
              ELSE UNCHANGED <<once, wctx>>
         /\ UNCHANGED <<rpc, state, items>>
CCancel == /\ cpc = "cancel" /\ cpc' = "ret"
           /\ wctx' = IF wctx = "live" THEN "cancelled" ELSE wctx
           /\ UNCHANGED <<rpc, state, once, items>>

Internal == CState \/ COnce \/ CCancel \/ \E r \in Readers : Check(r) \/ Once(r) \/ Inv(r) \/ RunRet(r)
Next == Internal \/ External
Spec == Init /\ [][Next]_vars /\ WF_vars(Internal)

Quiescent == ~ENABLED Internal
\* no advance panics, whatever the interleaving with Close
NoPanic == \A r \in Readers : rpc[r] # "panic"
\* C04: once Close returned no advance stays blocked
ReleasedByClose == (Quiescent /\ cpc = "ret") => \A r \in Readers : rpc[r] \in {"idle", "ret", "panic"}
\* the operation never runs without a context
NeverNilCtx == \A r \in Readers : rpc[r] = "run" => wctx # "nil"
=============================================================================
