SPECIFICATION Spec
CONSTANTS
  MaxN = 3
  MaxK = 2
  HasCb = FALSE
  HasOut = TRUE
  OutCap = 1
  CloserSeesCtx = FALSE
  CloseOn = "wg"
  SendSelectsDone = TRUE
  FastPath = TRUE
INVARIANTS AllDone
PROPERTIES Settles
CHECK_DEADLOCK FALSE
