---------------------------- MODULE ErrContract ----------------------------
(* Property C03, error-classification part.                                   *)
(*                                                                            *)
(* Two INDEPENDENT definitions over the same matrix                           *)
(*      failure kind  x  WorkerGroupConf options:                             *)
(*                                                                            *)
(*   Classify(kind, o)  what the code does: a transcription of the recover    *)
(*        wrapper (process.go:105-107 -> worker.go:113-118,                   *)
(*        transform.go:240-245, producer WithRecover; ers/panic.go:14-29)     *)
(*        followed by WorkerGroupConf.CanContinueOnError (opts.go:81-109).    *)
(*                                                                            *)
(*   Contract(kind, o)  what property C03 demands: is the failure reported?   *)
(*        does processing continue?  Cells on which the property is silent    *)
(*        are left open ("any") - DESIGN.md 5.0 "Unclassified outcomes are    *)
(*        unconstrained".                                                     *)
(*                                                                            *)
(* ErrContractMC.tla has TLC check  Classify [= Contract  on every cell and   *)
(* print every cell (tag CELL) as a case that harness/cmd/vh-wgerr replays on *)
(* the real CanContinueOnError.  WorkersFault.tla (implementation-shaped      *)
(* worker group), WgErrCtl.tla (controllable schedules) and WgErrTrace.tla    *)
(* (trace validation) all judge against Contract.                             *)
(*                                                                            *)
(* ExcludedConsulted = FALSE is the code as pinned: ExcludedErrors is never   *)
(* read by CanContinueOnError (the default branch reports whatever reaches    *)
(* it).  TRUE is the proposed repair fixes/wgconf-excluded-errors.diff.       *)
(* Mut seeds one mutation of the transcription (non-vacuity self-tests and    *)
(* the model-level counterpart of run/mutants/C03).                           *)
(***************************************************************************)
EXTENDS Integers, Sequences, FiniteSets, TLC, Json

CONSTANTS ExcludedConsulted,   \* BOOLEAN: FALSE = as pinned, TRUE = with the proposed repair
          Mut                  \* "none" | "nohandler" | "swap" | "ctxdefault" | "nopanicjoin" | "skipreported"
                               \* | "sentinelfirst" (ErrIteratorSkip / io.EOF cases moved before the panic cases)
                               \* | "ctxfirst" (... and the context case too)

(* ---------------------------------------------------------------- vocabulary *)

\* panic(v) where v IS or WRAPS (fmt.Errorf("...: %w", s)) one of the sentinels the worker groups give a
\* meaning of their own: io.EOF, ErrIteratorSkip, context.Canceled, the excluded sentinel X, ErrCurrentOpAbort.
\* One kind per sentinel: "panicW_EOF", "panicW_SKIP", ...
WrapSentinels     == {"EOF", "SKIP", "CTX", "X", "ABORT"}
PanicWrapKind(s)  == "panicW_" \o s
PanicWrapKinds    == {PanicWrapKind(s) : s \in WrapSentinels}
WrappedIn(kind)   == CHOOSE s \in WrapSentinels : kind = PanicWrapKind(s)

\* what the user function (Processor / Transform / generator Producer) does for an item
Kinds == {"ok",          \* returns nil
          "err",         \* returns the sentinel E_i
          "wrapped",     \* returns fmt.Errorf("...: %w", E_i)
          "panicErr",    \* panic(E_i)
          "panicStr",    \* panic("P_i")
          "panicOther",  \* panic(1000+i)   (neither error nor string)
          "skip",        \* returns fun.ErrIteratorSkip
          "eof",         \* returns io.EOF
          "abort",       \* returns ers.ErrCurrentOpAbort
          "ctx",         \* returns context.Canceled (the group's context is NOT cancelled)
          "excl"}        \* returns the sentinel X (listed in ExcludedErrors iff o.exc)
         \cup PanicWrapKinds


\* ContinueOnError, ContinueOnPanic, IncludeContextExpirationErrors, X \in ExcludedErrors
Opts == [coe : BOOLEAN, cop : BOOLEAN, inc : BOOLEAN, exc : BOOLEAN]

\* names of the sentinels errors.Is is asked about ("E" stands for the item's own E_i)
Sentinels == {"E", "PANIC", "SKIP", "EOF", "ABORT", "CTX", "X"}

(* ---------------------------------------------------------------- the code *)

\* The error value that reaches CanContinueOnError, as the set of sentinels errors.Is finds in it.
\* ParsePanic (ers/panic.go:14-29): error -> Join(err, ErrRecoveredPanic); string -> Join(New(s),
\* ErrRecoveredPanic); anything else -> Join(fmt.Errorf("[%T]: %v"), ErrRecoveredPanic); the wrappers
\* join that with the function's own (nil) error.
PanicMark == IF Mut = "nopanicjoin" THEN {} ELSE {"PANIC"}
ErrVal(kind) ==
    CASE kind = "ok"         -> {}
      [] kind = "err"        -> {"E"}
      [] kind = "wrapped"    -> {"E"}
      [] kind = "panicErr"   -> {"E"} \cup PanicMark
      [] kind = "panicStr"   -> {"TEXT"} \cup PanicMark      \* "TEXT": a non-nil error carrying no sentinel
      [] kind = "panicOther" -> {"TEXT"} \cup PanicMark
      [] kind = "skip"       -> {"SKIP"}
      [] kind = "eof"        -> {"EOF"}
      [] kind = "abort"      -> {"ABORT"}
      [] kind = "ctx"        -> {"CTX"}
      [] kind = "excl"       -> {"X"}
      \* ParsePanic: Join(v, ErrRecoveredPanic) - errors.Is finds the sentinel inside the panic value as well
      [] kind \in PanicWrapKinds -> {WrappedIn(kind)} \cup PanicMark

\* opts.go:81-109, branch by branch, in the order of the switch
Classify(kind, o) ==
    LET v == ErrVal(kind)
        hadPanic == "PANIC" \in v                                          \* :86
        R(rep, cont) == [report |-> rep, cont |-> cont, is |-> IF rep THEN v ELSE {}]
        \* the order of the switch matters for a panic whose value is / wraps a sentinel: the panic cases come FIRST
        early == IF Mut = "sentinelfirst" THEN {"SKIP", "EOF"} ELSE IF Mut = "ctxfirst" THEN {"SKIP", "EOF", "CTX"} ELSE {}
        Sentinel(x) == x \in v /\ (~hadPanic \/ x \in early)
        panicCase == hadPanic /\ ~\E x \in early : x \in v
    IN  IF kind = "ok" THEN R(FALSE, TRUE)                                  \* :82-84  err == nil
        ELSE IF panicCase /\ ~o.cop THEN R(Mut # "nohandler", FALSE)        \* :89-91
        ELSE IF panicCase /\ o.cop THEN R(TRUE, TRUE)                       \* :92-94
        ELSE IF Sentinel("SKIP") THEN R(Mut = "skipreported", TRUE)         \* :95-96
        ELSE IF Sentinel("EOF") THEN R(FALSE, FALSE)                        \* :97-98
        ELSE IF Sentinel("CTX") THEN R(o.inc \/ Mut = "ctxdefault", FALSE)  \* :99-104
        ELSE \* :105-107  default: o.ErrorHandler(err) unless excluded; return o.ContinueOnError
             R(~(ExcludedConsulted /\ o.exc /\ "X" \in v),
               IF Mut = "swap" THEN ~o.coe ELSE o.coe)

(* ---------------------------------------------------------------- the property *)

\* report: "must" (errors.Is on the result finds the sentinels of Need) | "never" | "any"
\* cont:   "must" (the worker goes on with the next item; with every failure of a run of this class every
\*                 item is processed exactly once)
\*         "mustnot" (abort: the failing worker handles no further item, the others stop within k items)
\*         "any"
Contract(kind, o) ==
    LET C(rep, cont) == [report |-> rep, cont |-> cont] IN
    CASE kind = "ok" -> C("never", "must")
      \* "an error ... is never swallowed"; ContinueOnError decides between continue and abort
      [] kind \in {"err", "wrapped"} -> C("must", IF o.coe THEN "must" ELSE "mustnot")
      \* "... and ErrRecoveredPanic for a panic"; ContinueOnPanic decides
      [] kind \in {"panicErr", "panicStr", "panicOther"} -> C("must", IF o.cop THEN "must" ELSE "mustnot")
      \* a panic is a panic whatever its value: "an error or panic ... is never swallowed ... ErrRecoveredPanic for
      \* a panic" - also when the value is / wraps io.EOF, ErrIteratorSkip, a context error, an excluded error
      [] kind \in PanicWrapKinds -> C("must", IF o.cop THEN "must" ELSE "mustnot")
      \* "ErrIteratorSkip ... never reported"; with ContinueOnError every item is still processed
      [] kind = "skip" -> C("never", IF o.coe THEN "must" ELSE "any")
      \* "io.EOF ... never reported"; whether it stops anybody is not said (5.0)
      [] kind = "eof" -> C("never", "any")
      \* listed as a fault kind, not among the never-reported errors: unconstrained (5.0)
      [] kind = "abort" -> C("any", "any")
      \* "context errors (unless IncludeContextExpirationErrors) ... never reported"; with the option it
      \* is an error like any other and must not be swallowed; whether it stops anybody is not said (5.0)
      [] kind = "ctx" -> C(IF o.inc THEN "must" ELSE "never", "any")
      \* "errors listed in ExcludedErrors are never reported"; not listed -> a plain error
      [] kind = "excl" -> IF o.exc THEN C("never", IF o.coe THEN "must" ELSE "any")
                                   ELSE C("must", IF o.coe THEN "must" ELSE "mustnot")

\* the sentinels errors.Is must find when the failure must be reported
Need(kind) ==
    CASE kind \in {"err", "wrapped"} -> {"E"}
      [] kind = "panicErr" -> {"E", "PANIC"}
      [] kind \in {"panicStr", "panicOther"} -> {"PANIC"}
      \* whether errors.Is also finds the wrapped sentinel is not judged: "finds the original error" and "io.EOF ...
      \* never reported" pull in opposite directions (MayCarry)
      [] kind \in PanicWrapKinds -> {"PANIC"}
      [] kind = "ctx" -> {"CTX"}
      [] kind = "excl" -> {"X"}
      [] OTHER -> {}

\* the sentinels that must never be found in a result, whatever happened
NeverFound(o) == {"EOF", "SKIP"} \cup (IF o.inc THEN {} ELSE {"CTX"}) \cup (IF o.exc THEN {"X"} ELSE {})

\* a never-reported sentinel that is the VALUE of a reported panic may or may not be found in the result
MayCarry(kind) == IF kind \in PanicWrapKinds THEN {WrappedIn(kind)} ELSE {}

RefinesCell(kind, o) ==
    LET a == Classify(kind, o)
        c == Contract(kind, o)
    IN  /\ (c.report = "must"  => a.report /\ Need(kind) \subseteq a.is)
        /\ (c.report = "never" => ~a.report)
        /\ (c.cont = "must"    => a.cont)
        /\ (c.cont = "mustnot" => ~a.cont)
        \* nothing that may never be found is ever handed to the collector
        /\ a.is \cap (NeverFound(o) \ MayCarry(kind)) = {}
=============================================================================
