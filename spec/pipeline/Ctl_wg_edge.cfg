SPECIFICATION Spec
CONSTANTS
  Constructs = {"pp", "map", "gen"}
  Ns = {0, 1, 2, 3, 4}
  Ks = {1, 2, 3}
  FKinds = {"err", "skip", "eof"}
  MaxFaults = 2
  MaxFaultPos = 4
  OptSet <- OptsCore
  Colls = {"default"}
  CancelModes = {}
  Depth = 8
  ExcludedConsulted = TRUE
  Mut = "none"
INVARIANT Inv
VIEW view
ACTION_CONSTRAINT EmitEdge
CHECK_DEADLOCK FALSE
