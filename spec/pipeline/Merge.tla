------------------------------- MODULE Merge -------------------------------
(* Implementation-shaped specification of fun.MergeIterators                 *)
(* (iterator.go:134-167).                                                    *)
(*                                                                           *)
(*   pipe := Blocking(make(chan T))                                          *)
(*   init := Operation(func(ctx){ wg; wctx,cancel := WithCancel(ctx)         *)
(*             for each source: pipe.Send().Consume(src).Operation(eh).      *)
(*                                                       Add(wctx, wg)       *)
(*             wg.Operation().PostHook(cancel).PostHook(pipe.Close).         *)
(*                                                       Background(ctx) }). *)
(*           Once()                                                          *)
(*   return pipe.Receive().Producer().PreHook(init).IteratorWith...()        *)
(*                                                                           *)
(* forwarder f  chan.go:372-378 + iterator.go:409-437: loop { item :=        *)
(*              src[f].ReadOne(ctx); pipe.Write(ctx,item) }; defer           *)
(*              src[f].Close(); PostHook(wg.Done)                            *)
(* closer       wg.Wait(ictx); cancel(); close(pipe)                         *)
(* consumer     Read / Close / Cancel; context i is created by               *)
(*              Producer.WithCancel from the context of the first advance    *)
(*                                                                           *)
(* CloseOn = "first" is the seeded mutation "MergeIterators closes the pipe  *)
(* on the first source EOF".                                                 *)
(*                                                                           *)
(* Ann is the set of ANNOTATED operands: they deliver every item and finish  *)
(* normally, but carry a recorded, non-fatal error (Iterator.AddError; the   *)
(* output of a Map in ContinueOnError mode), so the src.Close() their        *)
(* forwarder joins into what it reports to the error stack is non-nil:       *)
(* `errs` says that the stack holds an error.  In the code the stack is only *)
(* read by Close() of the merged iterator, so Ann changes nothing.           *)
(* ErrCheck = TRUE is the mutation "the merged producer is wrapped in        *)
(* WithErrorCheck(stack)": an advance refuses to run once the stack holds an *)
(* error, and checks again after the receive, dropping the item in hand -    *)
(* the merge ends when an annotated operand is exhausted (self-test of       *)
(* Conservation / EofComplete for operands with a non-nil Close()).          *)
(***************************************************************************)
EXTENDS Integers, Sequences, FiniteSets, Bags, BagsExt, TLC

CONSTANTS MaxN, S, CloseOn, Ann, ErrCheck

None == 0
Fwd == 1..S

VARIABLES n, src, fpc, fhold, wg, cpc, pipeClosed, upc, delivered, ueof, ictx, iclosed, done, stopped, errs
vars == <<n, src, fpc, fhold, wg, cpc, pipeClosed, upc, delivered, ueof, ictx, iclosed, done, stopped, errs>>

RECURSIVE SeqBag(_)
SeqBag(s) == IF s = <<>> THEN EmptyBag ELSE BagAdd(SeqBag(Tail(s)), Head(s))
One(x) == IF x = None THEN EmptyBag ELSE SetToBag({x})
RECURSIVE SumF(_)
SumF(X) == IF X = {} THEN EmptyBag ELSE LET f == CHOOSE f \in X : TRUE IN One(fhold[f]) (+) SeqBag(src[f]) (+) SumF(X \ {f})
RECURSIVE Sel(_, _)
\* the subsequence of s whose elements satisfy (x-1) % S = f-1 : source f's share of the input
Sel(s, f) == IF s = <<>> THEN <<>> ELSE IF (Head(s) - 1) % S = f - 1 THEN <<Head(s)>> \o Sel(Tail(s), f) ELSE Sel(Tail(s), f)
Input == [i \in 1..n |-> i]

Init == /\ n \in 0..MaxN /\ src = [f \in Fwd |-> Sel(Input, f)]
        /\ fpc = [f \in Fwd |-> "idle"] /\ fhold = [f \in Fwd |-> None]
        /\ wg = 0 /\ cpc = "idle" /\ pipeClosed = FALSE
        /\ upc = "idle" /\ delivered = <<>> /\ ueof = FALSE
        /\ ictx = "none" /\ iclosed = FALSE /\ done = [c \in {"p", "i", "w"} |-> FALSE] /\ stopped = FALSE
        /\ errs = FALSE

CancelFrom(c) == [x \in {"p", "i", "w"} |->
                    IF (c = "p") \/ (c = "i" /\ x # "p") \/ (c = "w" /\ x = "w") THEN TRUE ELSE done[x]]

(* ---------------------------------------------------------------- External *)
Read == /\ upc = "idle"
        /\ IF iclosed \/ done["p"]
             THEN ueof' = TRUE /\ UNCHANGED <<upc, ictx, fpc, wg, cpc, iclosed, done>>
             ELSE IF ErrCheck /\ errs
             THEN \* WithErrorCheck: the producer is not run; ReadOne turns the error into io.EOF and closes the iterator
                  /\ ueof' = TRUE /\ iclosed' = TRUE
                  /\ IF ictx = "live" THEN done' = CancelFrom("i") /\ UNCHANGED ictx
                     ELSE ictx' = "noop" /\ UNCHANGED done
                  /\ UNCHANGED <<upc, fpc, wg, cpc>>
             ELSE /\ UNCHANGED <<iclosed, done>>
                  /\ /\ upc' = "recv" /\ UNCHANGED ueof
                  /\ IF ictx = "none"
                       THEN /\ ictx' = "live" /\ fpc' = [f \in Fwd |-> "read"] /\ wg' = S /\ cpc' = "wait"
                       ELSE UNCHANGED <<ictx, fpc, wg, cpc>>
        /\ UNCHANGED <<n, src, fhold, pipeClosed, delivered, stopped, errs>>

Close == /\ IF iclosed THEN UNCHANGED <<iclosed, ictx, done>>
            ELSE /\ iclosed' = TRUE
                 /\ IF ictx = "live" THEN done' = CancelFrom("i") /\ UNCHANGED ictx
                    ELSE IF ictx = "none" THEN ictx' = "noop" /\ UNCHANGED done
                    ELSE UNCHANGED <<ictx, done>>
         /\ stopped' = TRUE
         /\ UNCHANGED <<n, src, fpc, fhold, wg, cpc, pipeClosed, upc, delivered, ueof, errs>>

Cancel == /\ ~done["p"]
          /\ done' = IF ictx = "live" THEN CancelFrom("p") ELSE [done EXCEPT !["p"] = TRUE]
          /\ stopped' = TRUE
          /\ UNCHANGED <<n, src, fpc, fhold, wg, cpc, pipeClosed, upc, delivered, ueof, ictx, iclosed, errs>>

External == Read \/ Close \/ Cancel

(* ---------------------------------------------------------------- Internal *)
FRead(f) == /\ fpc[f] = "read"
            /\ IF done["w"] \/ src[f] = <<>>
                 THEN fpc' = [fpc EXCEPT ![f] = "exit"] /\ UNCHANGED <<src, fhold>>
                 ELSE /\ fpc' = [fpc EXCEPT ![f] = "send"] /\ fhold' = [fhold EXCEPT ![f] = Head(src[f])]
                      /\ src' = [src EXCEPT ![f] = Tail(@)]
            /\ UNCHANGED <<n, wg, cpc, pipeClosed, upc, delivered, ueof, ictx, iclosed, done, stopped, errs>>

Handoff(f) == /\ fpc[f] = "send" /\ upc = "recv" /\ ~pipeClosed
              /\ fhold' = [fhold EXCEPT ![f] = None]
              /\ fpc' = [fpc EXCEPT ![f] = "read"] /\ upc' = "idle"
              /\ IF ErrCheck /\ errs
                   THEN \* the second check of WithErrorCheck: the item just received is dropped, the iterator ends
                        /\ ueof' = TRUE /\ iclosed' = TRUE /\ done' = CancelFrom("i") /\ UNCHANGED delivered
                   ELSE delivered' = Append(delivered, fhold[f]) /\ UNCHANGED <<ueof, iclosed, done>>
              /\ UNCHANGED <<n, src, wg, cpc, pipeClosed, ictx, stopped, errs>>

FSendEnd(f) == /\ fpc[f] = "send" /\ (done["w"] \/ pipeClosed)
               /\ fhold' = [fhold EXCEPT ![f] = None] /\ fpc' = [fpc EXCEPT ![f] = "exit"]
               /\ UNCHANGED <<n, src, wg, cpc, pipeClosed, upc, delivered, ueof, ictx, iclosed, done, stopped, errs>>

\* the forwarder returns Join(src.Close(), err): Operation(eh) puts it on the error stack, then wg.Done
FExit(f) == /\ fpc[f] = "exit" /\ wg' = wg - 1 /\ fpc' = [fpc EXCEPT ![f] = "done"]
            /\ errs' = (errs \/ f \in Ann)
            /\ UNCHANGED <<n, src, fhold, cpc, pipeClosed, upc, delivered, ueof, ictx, iclosed, done, stopped>>

CWait == /\ cpc = "wait"
         /\ (IF CloseOn = "first" THEN wg < S \/ S = 0 ELSE wg = 0) \/ done["i"]
         /\ cpc' = "cancel"
         /\ UNCHANGED <<n, src, fpc, fhold, wg, pipeClosed, upc, delivered, ueof, ictx, iclosed, done, stopped, errs>>
CCancel == /\ cpc = "cancel" /\ cpc' = "close" /\ done' = CancelFrom("w")
           /\ UNCHANGED <<n, src, fpc, fhold, wg, pipeClosed, upc, delivered, ueof, ictx, iclosed, stopped, errs>>
CClose == /\ cpc = "close" /\ cpc' = "done" /\ pipeClosed' = TRUE
          /\ UNCHANGED <<n, src, fpc, fhold, wg, upc, delivered, ueof, ictx, iclosed, done, stopped, errs>>

URecvEnd == /\ upc = "recv" /\ (pipeClosed \/ done["i"])
            /\ upc' = "idle" /\ ueof' = TRUE /\ iclosed' = TRUE /\ done' = CancelFrom("i")
            /\ UNCHANGED <<n, src, fpc, fhold, wg, cpc, pipeClosed, delivered, ictx, stopped, errs>>

Internal == CWait \/ CCancel \/ CClose \/ URecvEnd \/ \E f \in Fwd : FRead(f) \/ Handoff(f) \/ FSendEnd(f) \/ FExit(f)
Next == Internal \/ External
Spec == Init /\ [][Next]_vars /\ WF_vars(Internal)
LiveSpec == Init /\ [][Internal \/ Read]_vars /\ WF_vars(Internal) /\ WF_vars(Read)

(* ---------------------------------------------------------------- Properties *)
TypeOK == /\ \A f \in Fwd : fpc[f] \in {"idle", "read", "send", "exit", "done"}
          /\ wg \in 0..S /\ cpc \in {"idle", "wait", "cancel", "close", "done"} /\ upc \in {"idle", "recv"}
Quiescent == ~ENABLED Internal
Conservation == ~stopped => SumF(Fwd) (+) SeqBag(delivered) = SeqBag(Input)
CloseAfterDrain == (~stopped /\ pipeClosed) => (wg = 0 /\ \A f \in Fwd : fhold[f] = None)
EofComplete == (~stopped /\ ueof) => SeqBag(delivered) = SeqBag(Input)
\* the items of one source keep their order
PerSourceOrder == \A f \in Fwd : \A a, b \in 1..Len(delivered) :
                     (a < b /\ (delivered[a] - 1) % S = f - 1 /\ (delivered[b] - 1) % S = f - 1) => delivered[a] < delivered[b]
NoStall == (Quiescent /\ ~stopped) => upc = "idle"
ConsumerStopped == ueof \/ (iclosed /\ stopped) \/ (done["p"] /\ ictx = "live")
AllDone == (Quiescent /\ ConsumerStopped) => (cpc \in {"idle", "done"} /\ \A f \in Fwd : fpc[f] \in {"idle", "done"})
BlockedConsumerReleased == (Quiescent /\ (iclosed \/ done["p"])) => upc = "idle"
NoopCloseStartsNothing == ictx = "noop" => (cpc = "idle" /\ \A f \in Fwd : fpc[f] = "idle")
Terminates == <>ueof
\* the same under Spec: IF the client is live and never stops the run THEN the output ends
LiveTerminates == (WF_vars(Read) /\ []~stopped) => <>ueof
Settles == <>[]Quiescent
=============================================================================
