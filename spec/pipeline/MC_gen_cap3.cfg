SPECIFICATION Spec
CONSTANTS
  MaxN = 4
  MaxK = 1
  Cap = 3
  CloseOn = "wg"
  CtxGen = FALSE
  ContinueOnCtx = FALSE
  LoopChecksCtx = FALSE
INVARIANTS TypeOK Conservation CloseAfterDrain EofComplete NoStall AllDone BlockedConsumerReleased NoopCloseStartsNothing
PROPERTIES Settles LiveTerminates
CHECK_DEADLOCK FALSE
