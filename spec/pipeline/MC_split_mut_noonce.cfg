SPECIFICATION Spec
CONSTANTS
  MaxN = 2
  M = 2
  MaxR = 3
  OnceSetup = FALSE
  CloseOn = "exit"
INVARIANTS Conservation EofComplete
PROPERTIES Settles
CHECK_DEADLOCK FALSE
