SPECIFICATION Spec
CONSTANTS
  ExcludedConsulted = TRUE
  Mut = "none"
INVARIANT Refines
CONSTRAINT Emit
CHECK_DEADLOCK FALSE
