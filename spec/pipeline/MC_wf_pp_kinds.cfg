SPECIFICATION Spec
CONSTANTS
  Construct = "pp"
  MaxN = 3
  MaxK = 2
  FKinds = {"err", "wrapped", "panicErr", "panicStr", "panicOther", "skip", "eof", "abort", "ctx", "excl", "panicW_EOF", "panicW_SKIP", "panicW_CTX", "panicW_X", "panicW_ABORT"}
  MaxFaults = 1
  OptSet <- OptsAll
  AbortCancels = TRUE
  GenChecksCtx = TRUE
  GenEofByIs = FALSE
  ResolverSame = TRUE
  ExcludedConsulted = TRUE
  Mut = "none"
INVARIANTS TypeOK NothingSwallowed NeverReported NilIffNoFailure AtMostOnce ContinueAll AbortedWorkerStops AbortBound NoStall AllDone
PROPERTIES Settles
CHECK_DEADLOCK FALSE
