SPECIFICATION Spec
CONSTANTS
  ExcludedConsulted = TRUE
  Mut = "ctxfirst"
INVARIANT Refines
CONSTRAINT Emit
CHECK_DEADLOCK FALSE
