SPECIFICATION Spec
CONSTANTS
  Construct = "map"
  MaxN = 3
  MaxK = 2
  FKinds = {"panicW_SKIP"}
  MaxFaults = 1
  OptSet <- OptsAbort
  AbortCancels = TRUE
  GenChecksCtx = TRUE
  GenEofByIs = FALSE
  ResolverSame = TRUE
  ExcludedConsulted = TRUE
  Mut = "sentinelfirst"
INVARIANTS TypeOK NothingSwallowed NeverReported NilIffNoFailure AtMostOnce ContinueAll AbortedWorkerStops AbortBound NoStall AllDone
PROPERTIES Settles
CHECK_DEADLOCK FALSE
