SPECIFICATION Spec
CONSTANTS
  MaxN = 3
  M = 3
  MaxR = 1
  OnceSetup = TRUE
  CloseOn = "exit"
INVARIANTS TypeOK Conservation SetupOnce EofComplete Ordered NoStall AllDone BlockedConsumerReleased NoDeadlock NoopCloseStartsNothing
PROPERTIES Settles LiveTerminates
CHECK_DEADLOCK FALSE
