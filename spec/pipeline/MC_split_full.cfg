SPECIFICATION Spec
CONSTANTS
  MaxN = 4
  M = 3
  MaxR = 1
  OnceSetup = TRUE
INVARIANTS TypeOK Conservation SetupOnce EofComplete Ordered NoStall AllDone BlockedConsumerReleased NoopCloseStartsNothing
PROPERTIES Settles LiveTerminates
CHECK_DEADLOCK FALSE
