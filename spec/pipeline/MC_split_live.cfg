SPECIFICATION LiveSpec
CONSTANTS
  MaxN = 3
  M = 2
  MaxR = 1
  OnceSetup = TRUE
  CloseOn = "exit"
INVARIANTS TypeOK Conservation SetupOnce EofComplete Ordered NoStall AllDone BlockedConsumerReleased NoDeadlock NoopCloseStartsNothing
PROPERTIES Terminates
CHECK_DEADLOCK FALSE
