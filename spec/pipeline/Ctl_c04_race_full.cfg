SPECIFICATION Spec
CONSTANTS
  Constructs = {"map", "pp", "pfe", "worker", "pbuf", "pbufg", "split", "buffer", "merge", "gen", "multiread", "chain", "mslices", "msiters", "bufchan", "dtmap", "adtmap"}
  MaxN = 2
  MaxK = 2
  AllowStop = TRUE
  RaceReps = 200000
  FillReps = 0
  MaxBurst = 0
  BurstReps = 1
  Opts = {}
  Anns = {}
  Depth = 1
INVARIANT Inv
CONSTRAINT EmitAll
CHECK_DEADLOCK FALSE
