SPECIFICATION Spec
CONSTANTS
  MaxN = 3
  S = 2
  CloseOn = "wg"
  Ann = {1}
  ErrCheck = FALSE
INVARIANTS TypeOK Conservation CloseAfterDrain EofComplete PerSourceOrder NoStall AllDone BlockedConsumerReleased NoopCloseStartsNothing
PROPERTIES Settles LiveTerminates
CHECK_DEADLOCK FALSE
