SPECIFICATION Spec
CONSTANTS
  Construct = "pp"
  MaxN = 2
  MaxK = 1
  FKinds = {"panicErr"}
  MaxFaults = 1
  OptSet <- OptsAbort
  AbortCancels = TRUE
  GenChecksCtx = TRUE
  GenEofByIs = FALSE
  ResolverSame = TRUE
  ExcludedConsulted = TRUE
  Mut = "nopanicjoin"
INVARIANTS TypeOK NothingSwallowed NeverReported NilIffNoFailure AtMostOnce ContinueAll AbortedWorkerStops AbortBound NoStall AllDone
PROPERTIES Settles
CHECK_DEADLOCK FALSE
