---------------------------- MODULE WorkersFault ----------------------------
(* Property C03 at design level: the parallel worker stage of tychoish/fun    *)
(* (Workers.tla / Generate.tla) WITH FAILING USER FUNCTIONS - implementation  *)
(* shaped, one action per atomic step, on the Go channel / WaitGroup / Once / *)
(* context idioms of DESIGN.md 3.1.  One module, three instantiations:        *)
(*                                                                            *)
(*   Construct = "pp"   Iterator.ProcessParallel         iterator.go:536-579  *)
(*                      (= itertool.ParallelForEach / Process / Worker,       *)
(*                      itertool.go:23-76: the same Worker with an            *)
(*                      erc.Collector as handler/resolver)                    *)
(*   Construct = "map"  Transform.ProcessParallel (Map)  transform.go:76-117, *)
(*                      mapPullProcess                   transform.go:284-306 *)
(*   Construct = "gen"  Producer.GenerateParallel        producer.go:515-553  *)
(*                                                                            *)
(* Goroutines:                                                                *)
(*   reader  (pp, map) Split's setup, iterator.go:352-356: loop { item :=     *)
(*           source.ReadOne(ctx); pipe.Write(ctx, item) }; PostHook(pipe.Close)*)
(*   worker  Processor.ReadAll, process.go:345-365:                           *)
(*             loop { out, err := prod(ctx)      "top"/"recv"   pp, map: split[w].ReadOne (ctx.Err() first,   *)
(*                                                              iterator.go:231-236, then the pipe receive);  *)
(*                                                              gen: the generator itself - NO context check  *)
(*                    if err == nil { err = pf(ctx, out) }                    *)
(*                                               "cb"      the user function (External: returns / panics)     *)
(*                                               "filter"  WithRecover + CanContinueOnError + handler:        *)
(*                                                         iterator.go:556-561, transform.go:291-298,         *)
(*                                                         producer.go:529-537  (= ErrContract!Classify)      *)
(*                                               "send"    map: output.Check (transform.go:300), gen:         *)
(*                                                         pipe.Write - select { ctx.Done / send }            *)
(*                    nil | ErrIteratorSkip -> continue;  io.EOF | ErrCurrentOpAbort -> return nil;           *)
(*                    otherwise -> return err }                                *)
(*             observer: ft.WhenCall(ers.Is(err, io.EOF, ErrCurrentOpAbort), cancel)   "obs"                  *)
(*                       iterator.go:566, transform.go:103-105, producer.go:539-541                          *)
(*             PostHook(wg.Done)                                               *)
(*   closer  (map, gen) wg.Wait; cancel; close(output)   transform.go:110, producer.go:544                    *)
(*   caller  pp: Run blocks in wg.Wait then returns opts.ErrorResolver() (iterator.go:571-572);               *)
(*           map, gen: a consumer that drains the output to io.EOF and then calls Close()                     *)
(*                                                                            *)
(* THE DEFECT (AbortCancels = FALSE is the code as pinned).  "Cannot continue"*)
(* is turned into io.EOF by the error filter so that ReadAll stops THIS       *)
(* worker; the observer is meant to cancel the group when it sees io.EOF -    *)
(* but ReadAll has already mapped io.EOF to nil (process.go:358-359), so the  *)
(* observer's condition is never true: nothing stops the OTHER workers, which *)
(* consume the rest of the input (AbortBound).  The `cancel` branch of WExit  *)
(* is dead in the model exactly as in the code (TLC -coverage: never taken).  *)
(* AbortCancels = TRUE is the PROPOSED repair (fixes/workergroup-abort-       *)
(* cancels.diff; committed as 21f453d + b7fb6b2 and WITHDRAWN again in        *)
(* 41ff5f4 because the baseline test TestParallelForEach/AbortOnPanic does    *)
(* not tolerate the cancellation - the defect is a known finding,             *)
(* wgerr/<construct>/abort/other-workers-consume-input...).  The registered   *)
(* MC_wf_* configs check that DESIGN (AbortCancels = TRUE); the code as it    *)
(* is corresponds to the MC_wf_*_asis_abort configs.  With the repair the     *)
(* group is cancelled where "cannot continue" is decided.  For GenerateParallel*)
(* that alone is not enough (TLC: AbortBound still violated with              *)
(* GenChecksCtx = FALSE): the worker loop calls the generator without looking *)
(* at the context, and the following send is a select between ctx.Done and a  *)
(* buffered send that may well win - so the repair also checks the context    *)
(* before every generator call (GenChecksCtx = TRUE).  A residue of that      *)
(* repair's first version (GenEofByIs = TRUE, 21f453d): "the generator is just *)
(* done" was tested with errors.Is(err, io.EOF), which also holds for a       *)
(* recovered PANIC whose value is / wraps io.EOF - that abort did not cancel  *)
(* (MC_wf_gen_asis_paniceof.cfg: AbortBound).                                 *)
(*                                                                            *)
(* Deliberate deviations: the consumer of map / gen always drains (a send     *)
(* never waits for it; GenerateParallel's buffered pipe is folded into the    *)
(* hand-off - only the select's nondeterminism is kept); the parent context   *)
(* is never cancelled and the output never closed early (that is C04,         *)
(* Workers.tla / Generate.tla); the custom/default collector distinction is   *)
(* `ResolverSame` (FALSE = "resolver wired to a different collector").        *)
(*                                                                            *)
(* Client-controlled steps (Start, the return of a user function) are         *)
(* External; everything else is Internal.                                     *)
(***************************************************************************)
EXTENDS ErrContract

CONSTANTS Construct,      \* "pp" | "map" | "gen"
          MaxN, MaxK,     \* input sizes 0..MaxN, worker counts 1..MaxK
          FKinds,         \* failure kinds injected (subset of Kinds \ {"ok"})
          MaxFaults,      \* at most this many items fail
          OptSet,         \* subset of Opts explored
          AbortCancels,   \* BOOLEAN: FALSE = as pinned, TRUE = with the proposed repair
          GenChecksCtx,   \* BOOLEAN: gen only - the worker checks ctx.Err() before calling the generator
          GenEofByIs,     \* BOOLEAN: gen only - "the generator is just done" is tested with errors.Is(err, io.EOF), which
                          \* is also true for a recovered panic whose value is / wraps io.EOF (TRUE = first version of
                          \* the proposed repair, 21f453d; FALSE = fixes/generate-abort-on-eof-valued-panic.diff)
          ResolverSame    \* BOOLEAN: TRUE = the resolver reads the collector the handler writes (the code)

None == 0

VARIABLES n, k, F, o,           \* this run: size, workers, failure kind of every item, options
          src, rpc, rhold, pipeClosed,    \* reader (pp, map)
          next,                 \* gen: tickets handed out so far
          wpc, whold, wret, raerr,        \* workers: pc, item held, kind the user function produced, ReadAll's result
          cancelled,            \* the group's context (ctx of ProcessParallel / wctx)
          wg, cpc, outClosed,
          upc,                  \* "idle" | "wait" (pp: Run in wg.Wait) | "drain" (consumer) | "fin"
          reported,             \* items whose error was handed to opts.ErrorHandler
          result,               \* items whose error is in the returned error / Close()  (valid when upc = "fin")
          entered, exited, delivered,     \* history: items handed to the user function (in order) / returned / output
          waborted,             \* history: workers whose user function failed with a failure that must abort
          abortAt               \* history: Len(entered) when the first such worker had left its loop (-1: none yet)

vars == <<n, k, F, o, src, rpc, rhold, pipeClosed, next, wpc, whold, wret, raerr, cancelled, wg, cpc, outClosed,
          upc, reported, result, entered, exited, delivered, waborted, abortAt>>

Workers == 1..k
HasReader == Construct \in {"pp", "map"}
HasOut    == Construct \in {"map", "gen"}
Range(s)  == {s[i] : i \in 1..Len(s)}

Scripts(nn) == {f \in [1..nn -> {"ok"} \cup FKinds] : Cardinality({i \in 1..nn : f[i] # "ok"}) <= MaxFaults}

Init == /\ n \in 0..MaxN /\ k \in 1..MaxK /\ o \in OptSet /\ F \in Scripts(n)
        /\ src = [i \in 1..n |-> i] /\ rpc = "idle" /\ rhold = None /\ pipeClosed = FALSE /\ next = 0
        /\ wpc = [w \in Workers |-> "idle"] /\ whold = [w \in Workers |-> None]
        /\ wret = [w \in Workers |-> "ok"] /\ raerr = [w \in Workers |-> "nil"]
        /\ cancelled = FALSE /\ wg = 0 /\ cpc = "idle" /\ outClosed = FALSE /\ upc = "idle"
        /\ reported = {} /\ result = {} /\ entered = <<>> /\ exited = {} /\ delivered = <<>>
        /\ waborted = {} /\ abortAt = -1

\* process.go:355-361: what ReadAll returns for the error that ended its loop
ReadAllResult(cause) == IF cause \in {"eof", "abort"} THEN "nil" ELSE cause

(* ---------------------------------------------------------------- External *)

\* pp: Worker.Run(ctx); map / gen: the consumer's first advance runs init (Once): wg.Add + go for
\* every worker, go closer (transform.go:92-111, producer.go:522-545, iterator.go:556-569)
Start == /\ upc = "idle"
         /\ wpc' = [w \in Workers |-> "top"] /\ wg' = k
         /\ cpc' = IF HasOut THEN "wait" ELSE "idle"
         /\ upc' = IF HasOut THEN "drain" ELSE "wait"
         /\ UNCHANGED <<n, k, F, o, src, rpc, rhold, pipeClosed, next, whold, wret, raerr, cancelled, outClosed,
                        reported, result, entered, exited, delivered, waborted, abortAt>>

\* the user function of worker w returns an error / panics / returns a value, as scripted for its item
CbReturn(w) == /\ wpc[w] = "cb"
               /\ wret' = [wret EXCEPT ![w] = F[whold[w]]]
               /\ exited' = exited \cup {whold[w]}
               /\ wpc' = [wpc EXCEPT ![w] = "filter"]
               /\ UNCHANGED <<n, k, F, o, src, rpc, rhold, pipeClosed, next, whold, raerr, cancelled, wg, cpc, outClosed,
                              upc, reported, result, entered, delivered, waborted, abortAt>>

External == Start \/ \E w \in Workers : CbReturn(w)

(* ---------------------------------------------------------------- Internal: reader (pp, map) *)

RRead == /\ rpc = "read"
         /\ IF cancelled \/ src = <<>>
              THEN rpc' = "close" /\ UNCHANGED <<src, rhold>>
              ELSE rpc' = "send" /\ rhold' = Head(src) /\ src' = Tail(src)
         /\ UNCHANGED <<n, k, F, o, pipeClosed, next, wpc, whold, wret, raerr, cancelled, wg, cpc, outClosed,
                        upc, reported, result, entered, exited, delivered, waborted, abortAt>>

\* the ctx.Done() arm of the reader's send: the item it holds is dropped
RSelDone == /\ rpc = "send" /\ cancelled
            /\ rhold' = None /\ rpc' = "close"
            /\ UNCHANGED <<n, k, F, o, src, pipeClosed, next, wpc, whold, wret, raerr, cancelled, wg, cpc, outClosed,
                           upc, reported, result, entered, exited, delivered, waborted, abortAt>>

RClose == /\ rpc = "close" /\ pipeClosed' = TRUE /\ rpc' = "done"
          /\ UNCHANGED <<n, k, F, o, src, rhold, next, wpc, whold, wret, raerr, cancelled, wg, cpc, outClosed,
                         upc, reported, result, entered, exited, delivered, waborted, abortAt>>

(* ---------------------------------------------------------------- Internal: workers *)

Leave(w, cause) == /\ wpc' = [wpc EXCEPT ![w] = "obs"]
                   /\ raerr' = [raerr EXCEPT ![w] = ReadAllResult(cause)]

\* head of ReadAll's loop
WTop(w) ==
    /\ wpc[w] = "top"
    /\ IF HasReader
         THEN \* split[w].ReadOne(ctx): ctx.Err() first (iterator.go:234), then PreHook(setup) - the Once starts the reader
              IF cancelled
                THEN Leave(w, "ctx") /\ UNCHANGED <<rpc, next, whold, entered, wret>>
                ELSE /\ wpc' = [wpc EXCEPT ![w] = "recv"]
                     /\ rpc' = IF rpc = "idle" THEN "read" ELSE rpc
                     /\ UNCHANGED <<raerr, next, whold, entered, wret>>
         ELSE \* gen: the generator is called whatever the context says - unless the repair's check is there
              IF GenChecksCtx /\ cancelled
                THEN Leave(w, "ctx") /\ UNCHANGED <<rpc, next, whold, entered, wret>>
                ELSE IF next < n
                THEN /\ next' = next + 1 /\ whold' = [whold EXCEPT ![w] = next + 1]
                     /\ entered' = Append(entered, next + 1)
                     /\ wpc' = [wpc EXCEPT ![w] = "cb"] /\ UNCHANGED <<rpc, raerr, wret>>
                ELSE \* no ticket left: the generator returns io.EOF at once (its regular end)
                     /\ wret' = [wret EXCEPT ![w] = "eof"] /\ whold' = [whold EXCEPT ![w] = None]
                     /\ wpc' = [wpc EXCEPT ![w] = "filter"] /\ UNCHANGED <<rpc, raerr, next, entered>>
    /\ UNCHANGED <<n, k, F, o, src, rhold, pipeClosed, cancelled, wg, cpc, outClosed,
                   upc, reported, result, exited, delivered, waborted, abortAt>>

\* rendezvous on Split's pipe: the item is handed to worker w, which calls the user function
PipeHandoff(w) == /\ rpc = "send" /\ wpc[w] = "recv" /\ ~pipeClosed
                  /\ whold' = [whold EXCEPT ![w] = rhold] /\ rhold' = None /\ rpc' = "read"
                  /\ wpc' = [wpc EXCEPT ![w] = "cb"] /\ entered' = Append(entered, rhold)
                  /\ UNCHANGED <<n, k, F, o, src, pipeClosed, next, wret, raerr, cancelled, wg, cpc, outClosed,
                                 upc, reported, result, exited, delivered, waborted, abortAt>>

\* the receive ends: pipe closed (io.EOF -> ReadAll returns nil) or the ctx.Done() arm (-> ctx error)
WRecvEnd(w) == /\ wpc[w] = "recv" /\ (pipeClosed \/ cancelled)
               /\ \/ pipeClosed /\ Leave(w, "eof")
                  \/ cancelled /\ Leave(w, "ctx")
               /\ UNCHANGED <<n, k, F, o, src, rpc, rhold, pipeClosed, next, whold, wret, cancelled, wg, cpc, outClosed,
                              upc, reported, result, entered, exited, delivered, waborted, abortAt>>

\* WithRecover + CanContinueOnError (+ ErrorHandler) on what the user function produced
WFilter(w) ==
    LET i    == whold[w]
        kind == wret[w]
        a    == Classify(kind, o)
        mustAbort == i # None /\ Contract(kind, o).cont = "mustnot"
        \* the repair cancels where "cannot continue" is decided; for the generator io.EOF is its regular end
        genDone == Construct = "gen" /\ (kind = "eof" \/ (GenEofByIs /\ "EOF" \in ErrVal(kind)))
        cancels == AbortCancels /\ ~a.cont /\ ~genDone
    IN  /\ wpc[w] = "filter"
        /\ reported' = IF a.report /\ i # None THEN reported \cup {i} ELSE reported
        /\ waborted' = IF mustAbort THEN waborted \cup {w} ELSE waborted
        /\ IF a.cont
             THEN /\ wpc' = [wpc EXCEPT ![w] = IF HasOut /\ kind = "ok" THEN "send" ELSE "top"]
                  /\ whold' = IF HasOut /\ kind = "ok" THEN whold ELSE [whold EXCEPT ![w] = None]
                  /\ UNCHANGED <<raerr, abortAt>>
             ELSE \* "cannot continue" -> io.EOF -> ReadAll returns nil
                  /\ whold' = [whold EXCEPT ![w] = None]
                  /\ IF cancels
                       THEN wpc' = [wpc EXCEPT ![w] = "cancel"] /\ UNCHANGED <<raerr, abortAt>>
                       ELSE /\ Leave(w, "eof")
                            /\ abortAt' = IF mustAbort /\ abortAt = -1 THEN Len(entered) ELSE abortAt
        /\ UNCHANGED <<n, k, F, o, src, rpc, rhold, pipeClosed, next, wret, cancelled, wg, cpc, outClosed,
                       upc, result, entered, exited, delivered>>

\* the repair: cancel() / wcancel() before returning io.EOF
WCancel(w) == /\ wpc[w] = "cancel"
              /\ cancelled' = TRUE /\ Leave(w, "eof")
              /\ abortAt' = IF w \in waborted /\ abortAt = -1 THEN Len(entered) ELSE abortAt
              /\ UNCHANGED <<n, k, F, o, src, rpc, rhold, pipeClosed, next, whold, wret, wg, cpc, outClosed,
                             upc, reported, result, entered, exited, delivered, waborted>>

\* map: output.Check / gen: pipe.Write - select { <-ctx.Done() ; ch <- v }: the consumer drains, so the send
\* arm is always ready; once the context is done BOTH arms are
WSend(w) == /\ wpc[w] = "send" /\ ~outClosed
            /\ delivered' = Append(delivered, whold[w])
            /\ whold' = [whold EXCEPT ![w] = None] /\ wpc' = [wpc EXCEPT ![w] = "top"]
            /\ UNCHANGED <<n, k, F, o, src, rpc, rhold, pipeClosed, next, wret, raerr, cancelled, wg, cpc, outClosed,
                           upc, reported, result, entered, exited, waborted, abortAt>>

\* the send is lost: ctx.Done() arm (map: Check false -> io.EOF -> nil; gen: the ctx error itself) or
\* send on the closed output (recovered panic -> io.EOF)
WSendEnd(w) == /\ wpc[w] = "send" /\ (cancelled \/ outClosed)
               /\ whold' = [whold EXCEPT ![w] = None]
               /\ Leave(w, IF Construct = "gen" /\ ~outClosed THEN "ctx" ELSE "eof")
               /\ UNCHANGED <<n, k, F, o, src, rpc, rhold, pipeClosed, next, wret, cancelled, wg, cpc, outClosed,
                              upc, reported, result, entered, exited, delivered, waborted, abortAt>>

\* the observer of the worker, then PostHook(wg.Done).  `raerr` is never "eof" / "abort" (ReadAllResult),
\* so the cancel branch is dead - in the model as in the code.
WExit(w) == /\ wpc[w] = "obs"
            /\ cancelled' = IF raerr[w] \in {"eof", "abort"} THEN TRUE ELSE cancelled
            /\ wg' = wg - 1 /\ wpc' = [wpc EXCEPT ![w] = "done"]
            /\ UNCHANGED <<n, k, F, o, src, rpc, rhold, pipeClosed, next, whold, wret, raerr, cpc, outClosed,
                           upc, reported, result, entered, exited, delivered, waborted, abortAt>>

(* ---------------------------------------------------------------- Internal: closer, caller *)

CWait == /\ cpc = "wait" /\ wg = 0 /\ cpc' = "cancel"
         /\ UNCHANGED <<n, k, F, o, src, rpc, rhold, pipeClosed, next, wpc, whold, wret, raerr, cancelled, wg, outClosed,
                        upc, reported, result, entered, exited, delivered, waborted, abortAt>>
CCancel == /\ cpc = "cancel" /\ cpc' = "close" /\ cancelled' = TRUE
           /\ UNCHANGED <<n, k, F, o, src, rpc, rhold, pipeClosed, next, wpc, whold, wret, raerr, wg, outClosed,
                          upc, reported, result, entered, exited, delivered, waborted, abortAt>>
CClose == /\ cpc = "close" /\ cpc' = "done" /\ outClosed' = TRUE
          /\ UNCHANGED <<n, k, F, o, src, rpc, rhold, pipeClosed, next, wpc, whold, wret, raerr, cancelled, wg,
                         upc, reported, result, entered, exited, delivered, waborted, abortAt>>

Resolve == IF ResolverSame THEN reported ELSE {}

\* pp: wg.Wait returns, Run returns opts.ErrorResolver()
RunReturn == /\ upc = "wait" /\ wg = 0
             /\ upc' = "fin" /\ result' = Resolve /\ cancelled' = TRUE       \* defer cancel()
             /\ UNCHANGED <<n, k, F, o, src, rpc, rhold, pipeClosed, next, wpc, whold, wret, raerr, wg, cpc, outClosed,
                            reported, entered, exited, delivered, waborted, abortAt>>

\* map / gen: the consumer sees io.EOF on the closed output, then calls Close()
UEnd == /\ upc = "drain" /\ outClosed
        /\ upc' = "fin" /\ result' = Resolve
        /\ UNCHANGED <<n, k, F, o, src, rpc, rhold, pipeClosed, next, wpc, whold, wret, raerr, cancelled, wg, cpc, outClosed,
                       reported, entered, exited, delivered, waborted, abortAt>>

Internal == \/ RRead \/ RSelDone \/ RClose \/ CWait \/ CCancel \/ CClose \/ RunReturn \/ UEnd
            \/ \E w \in Workers : WTop(w) \/ PipeHandoff(w) \/ WRecvEnd(w) \/ WFilter(w) \/ WCancel(w)
                                  \/ WSend(w) \/ WSendEnd(w) \/ WExit(w)

Next == Internal \/ External
Spec == Init /\ [][Next]_vars /\ WF_vars(Internal)
\* a live client: it starts the run and its user functions return
LiveSpec == Init /\ [][Next]_vars /\ WF_vars(Internal) /\ WF_vars(Start) /\ WF_vars(\E w \in Workers : CbReturn(w))


(* ---------------------------------------------------------------- option sets for the cfg files *)
OptsAll   == Opts
\* the four continue/abort combinations, with and without X excluded
OptsCore  == {x \in Opts : ~x.inc}
OptsAbort == {x \in Opts : ~x.coe /\ ~x.cop /\ ~x.inc /\ ~x.exc}
OptsCont4 == {x \in Opts : ~x.inc /\ ~x.exc}

(* ---------------------------------------------------------------- Properties *)

TypeOK == /\ rpc \in {"idle", "read", "send", "close", "done"}
          /\ \A w \in Workers : wpc[w] \in {"idle", "top", "recv", "cb", "filter", "cancel", "send", "obs", "done"}
          /\ \A w \in Workers : raerr[w] \in {"nil", "ctx"}        \* never "eof": the observer's condition is dead
          /\ cpc \in {"idle", "wait", "cancel", "close", "done"} /\ wg \in 0..k
          /\ upc \in {"idle", "wait", "drain", "fin"} /\ abortAt \in -1..n

Fin == upc = "fin"
Quiescent == ~ENABLED Internal

Rep(i)  == Contract(F[i], o).report
Cont(i) == Contract(F[i], o).cont

\* an error or panic of the user function is never swallowed: it reaches the result, carrying the sentinels
\* errors.Is must find (the original error; ErrRecoveredPanic for a panic) ...
NothingSwallowed == Fin => \A i \in exited : Rep(i) = "must" => (i \in result /\ Need(F[i]) \subseteq ErrVal(F[i]))
\* ... while io.EOF, ErrIteratorSkip, context errors (unless included) and excluded errors are never reported
\* (except as the VALUE of a reported panic: a panic is reported whatever its value)
NeverReported == \A i \in reported \cup result : Rep(i) # "never" /\ ErrVal(F[i]) \cap (NeverFound(o) \ MayCarry(F[i])) = {}
\* the result is nil exactly when no reportable failure occurred (failures the property does not classify decide nothing)
NilIffNoFailure == Fin => /\ (\E i \in exited : Rep(i) = "must") => result # {}
                          /\ (\A i \in exited : Rep(i) = "never") => result = {}
\* no item is ever processed twice
AtMostOnce == /\ \A a, b \in 1..Len(entered) : entered[a] = entered[b] => a = b
              /\ \A a, b \in 1..Len(delivered) : delivered[a] = delivered[b] => a = b
              /\ Range(delivered) \subseteq {i \in exited : F[i] = "ok"}
\* with ContinueOnError / ContinueOnPanic (every failure of the run is one the run must continue after):
\* every item is processed exactly once - and every result of a successful item is delivered
ContinueAll == (Fin /\ \A i \in 1..n : Cont(i) = "must") =>
                  /\ Range(entered) = 1..n /\ exited = 1..n
                  /\ (HasOut => Range(delivered) = {i \in 1..n : F[i] = "ok"})
\* abort mode: the failing worker handles no further item ...
AbortedWorkerStops == \A w \in waborted : wpc[w] \in {"cancel", "obs", "done"}
\* ... and the other workers stop within k items instead of consuming the rest of the input.  Counted from
\* the state in which the failing worker has left its loop: that is where the conformance harness counts
\* too (the failing user function has returned, every other one is held, the library is quiescent).
AbortBound == abortAt >= 0 => Len(entered) - abortAt <= k
\* nothing hangs: when the library is quiescent and the run is not over, a user function is still out
NoStall == (Quiescent /\ upc \in {"wait", "drain"}) => \E w \in Workers : wpc[w] = "cb"
\* at the end every goroutine of the group is gone (the reader may still be on its way out)
AllDone == Fin => \A w \in Workers : wpc[w] = "done"

\* liveness: with a live client the run always ends (termination)
Terminates == <>Fin
Settles == <>[]Quiescent

\* coverage sanity (TLC's -coverage does not split the disjuncts under \E w): each of these action properties
\* is EXPECTED TO BE VIOLATED - the named action is taken in some behaviour (checked when the spec changes)
NeverWTop        == [][~\E w \in Workers : WTop(w)]_vars
NeverPipeHandoff == [][~\E w \in Workers : PipeHandoff(w)]_vars
NeverWRecvEnd    == [][~\E w \in Workers : WRecvEnd(w)]_vars
NeverWFilter     == [][~\E w \in Workers : WFilter(w)]_vars
NeverWCancel     == [][~\E w \in Workers : WCancel(w)]_vars
NeverWSend       == [][~\E w \in Workers : WSend(w)]_vars
NeverWSendEnd    == [][~\E w \in Workers : WSendEnd(w)]_vars
NeverWExit       == [][~\E w \in Workers : WExit(w)]_vars
NeverRSelDone    == [][~RSelDone]_vars
=============================================================================
