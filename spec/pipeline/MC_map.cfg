SPECIFICATION Spec
CONSTANTS
  MaxN = 3
  MaxK = 2
  HasCb = TRUE
  HasOut = TRUE
  OutCap = 0
  CloserSeesCtx = TRUE
  CloseOn = "wg"
  SendSelectsDone = TRUE
  FastPath = FALSE
INVARIANTS TypeOK Conservation CloseAfterDrain SetupOnce EofComplete NoStall AllDone BlockedConsumerReleased RunReturns NoopCloseStartsNothing
PROPERTIES Settles CloseIdempotent LiveTerminates
CHECK_DEADLOCK FALSE
