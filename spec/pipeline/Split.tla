------------------------------- MODULE Split -------------------------------
(* Implementation-shaped specification of Iterator.Split (iterator.go:346-364) *)
(*                                                                           *)
(*   pipe  := Blocking(make(chan T))                                         *)
(*   setup := pipe.Processor().ReadAll(i.Producer()).PostHook(pipe.Close).   *)
(*            Ignore().Go().Once()                                           *)
(*   output[j] = pipe.Producer().PreHook(setup).Iterator()                   *)
(*                                                                           *)
(* reader   process.go:345-365: loop { item := source.ReadOne(ctx);          *)
(*          pipe.Write(ctx, item) } then pipe.Close().  It is started by the *)
(*          first advance of ANY output (Operation.Once, operation.go:59-62)  *)
(*          and runs under THAT output's cancellable context.                *)
(* output j its own Iterator: closer.state, Producer.WithCancel context made *)
(*          from the context of its first advance (producer.go:367-377);     *)
(*          Close before any advance is a no-op on it.                       *)
(* consumer j reads / closes output j UNDER ITS OWN CONTEXT p[j] ("each of   *)
(*          which can be safely used from a different go routine"): Cancel   *)
(*          takes one consumer's context, or all of them (a shared parent).  *)
(*          The reader dies with the context of the output that started it - *)
(*          by that consumer's cancellation or by Close of that output - and *)
(*          its PostHook closes the pipe on EVERY way out, which is what     *)
(*          gives the siblings their io.EOF (NoDeadlock).                    *)
(*                                                                           *)
(* OnceSetup = FALSE is the seeded mutation "drop .Once() on the lazy        *)
(* setup": every advance starts another reader.                              *)
(* CloseOn = "eof" is the mutation "the pipe is closed when (and only when)  *)
(* the input reports io.EOF" instead of by a PostHook of the reader: a       *)
(* reader that ends with its context leaves the pipe open (self-test of      *)
(* NoDeadlock).                                                              *)
(***************************************************************************)
EXTENDS Integers, Sequences, FiniteSets, Bags, BagsExt, TLC

CONSTANTS MaxN,       \* input sizes 0..MaxN
          M,          \* number of outputs
          MaxR,       \* number of reader slots (1 suffices with OnceSetup)
          OnceSetup,  \* TRUE (the code) | FALSE (mutation)
          CloseOn     \* "exit" (the code: PostHook of the reader) | "eof" (mutation: only when the input is exhausted)

None == 0
Outs == 1..M
Readers == 1..MaxR

VARIABLES n, src,
          rpc, rhold, rctx,   \* readers: "idle" | "read" | "send" | "close" | "done"; item held; output whose context it uses
          setup, nsetup,
          pipeClosed,
          octx, odone, oclosed,   \* per output: "none"|"live"|"noop"; its context is done; closer.state
          upc, got, ueof,         \* per consumer
          pdone, stopped

vars == <<n, src, rpc, rhold, rctx, setup, nsetup, pipeClosed, octx, odone, oclosed, upc, got, ueof, pdone, stopped>>

Input == [i \in 1..n |-> i]

RECURSIVE SeqBag(_)
SeqBag(s) == IF s = <<>> THEN EmptyBag ELSE BagAdd(SeqBag(Tail(s)), Head(s))
One(x) == IF x = None THEN EmptyBag ELSE SetToBag({x})
RECURSIVE SumR(_)
SumR(S) == IF S = {} THEN EmptyBag ELSE LET r == CHOOSE r \in S : TRUE IN One(rhold[r]) (+) SumR(S \ {r})
RECURSIVE SumGot(_)
SumGot(S) == IF S = {} THEN EmptyBag ELSE LET j == CHOOSE j \in S : TRUE IN SeqBag(got[j]) (+) SumGot(S \ {j})

Init == /\ n \in 0..MaxN /\ src = Input
        /\ rpc = [r \in Readers |-> "idle"] /\ rhold = [r \in Readers |-> None] /\ rctx = [r \in Readers |-> 0]
        /\ setup = "new" /\ nsetup = 0 /\ pipeClosed = FALSE
        /\ octx = [j \in Outs |-> "none"] /\ odone = [j \in Outs |-> FALSE] /\ oclosed = [j \in Outs |-> FALSE]
        /\ upc = [j \in Outs |-> "idle"] /\ got = [j \in Outs |-> <<>>] /\ ueof = [j \in Outs |-> FALSE]
        /\ pdone = [j \in Outs |-> FALSE] /\ stopped = FALSE

(* ---------------------------------------------------------------- External *)

\* consumer j: ReadOne on output j (iterator.go:231-258; PreHook(setup) runs on every call)
Read(j) == /\ upc[j] = "idle"
           /\ IF oclosed[j] \/ pdone[j]
                THEN /\ ueof' = [ueof EXCEPT ![j] = TRUE]
                     /\ UNCHANGED <<upc, octx, setup, nsetup, rpc, rctx>>
                ELSE /\ upc' = [upc EXCEPT ![j] = "recv"] /\ UNCHANGED ueof
                     /\ octx' = [octx EXCEPT ![j] = "live"]
                     /\ IF setup = "new" \/ ~OnceSetup
                          THEN /\ \E r \in Readers : /\ rpc[r] = "idle" /\ \A q \in Readers : q < r => rpc[q] # "idle"
                                                     /\ rpc' = [rpc EXCEPT ![r] = "read"]
                                                     /\ rctx' = [rctx EXCEPT ![r] = j]
                               /\ setup' = "done" /\ nsetup' = nsetup + 1
                          ELSE UNCHANGED <<setup, nsetup, rpc, rctx>>
           /\ UNCHANGED <<n, src, rhold, pipeClosed, odone, oclosed, got, pdone, stopped>>

\* consumer j: Close on output j
Close(j) == /\ IF oclosed[j] THEN UNCHANGED <<oclosed, octx, odone>>
               ELSE /\ oclosed' = [oclosed EXCEPT ![j] = TRUE]
                    /\ IF octx[j] = "live" THEN odone' = [odone EXCEPT ![j] = TRUE] /\ UNCHANGED octx
                       ELSE IF octx[j] = "none" THEN octx' = [octx EXCEPT ![j] = "noop"] /\ UNCHANGED odone
                       ELSE UNCHANGED <<octx, odone>>
            /\ stopped' = TRUE
            /\ UNCHANGED <<n, src, rpc, rhold, rctx, setup, nsetup, pipeClosed, upc, got, ueof, pdone>>

\* the contexts the consumers of S pass to their advances are cancelled: one consumer's own context, or
\* all of them at once (the consumers share a parent context)
Cancel(S) == /\ \E j \in S : ~pdone[j]
             /\ pdone' = [j \in Outs |-> pdone[j] \/ j \in S] /\ stopped' = TRUE
             /\ odone' = [j \in Outs |-> odone[j] \/ (j \in S /\ octx[j] = "live")]
             /\ UNCHANGED <<n, src, rpc, rhold, rctx, setup, nsetup, pipeClosed, octx, oclosed, upc, got, ueof>>

External == Cancel(Outs) \/ \E j \in Outs : Read(j) \/ Close(j) \/ Cancel({j})

(* ---------------------------------------------------------------- Internal *)

RDone(r) == odone[rctx[r]]

\* where the reader goes when it ends with its context (the end of the input always closes the pipe)
CtxExit == IF CloseOn = "exit" THEN "close" ELSE "done"

RRead(r) == /\ rpc[r] = "read"
            /\ IF RDone(r) \/ src = <<>>
                 THEN rpc' = [rpc EXCEPT ![r] = IF RDone(r) THEN CtxExit ELSE "close"] /\ UNCHANGED <<src, rhold>>
                 ELSE /\ rpc' = [rpc EXCEPT ![r] = "send"]
                      /\ rhold' = [rhold EXCEPT ![r] = Head(src)] /\ src' = Tail(src)
            /\ UNCHANGED <<n, rctx, setup, nsetup, pipeClosed, octx, odone, oclosed, upc, got, ueof, pdone, stopped>>

PipeHandoff(r, j) == /\ rpc[r] = "send" /\ upc[j] = "recv" /\ ~pipeClosed
                     /\ got' = [got EXCEPT ![j] = Append(@, rhold[r])]
                     /\ rhold' = [rhold EXCEPT ![r] = None]
                     /\ rpc' = [rpc EXCEPT ![r] = "read"] /\ upc' = [upc EXCEPT ![j] = "idle"]
                     /\ UNCHANGED <<n, src, rctx, setup, nsetup, pipeClosed, octx, odone, oclosed, ueof, pdone, stopped>>

\* the send ends without delivering: ctx.Done() arm, or send on the closed pipe (recovered panic): item dropped
RSendEnd(r) == /\ rpc[r] = "send" /\ (RDone(r) \/ pipeClosed)
               /\ rhold' = [rhold EXCEPT ![r] = None] /\ rpc' = [rpc EXCEPT ![r] = CtxExit]
               /\ UNCHANGED <<n, src, rctx, setup, nsetup, pipeClosed, octx, odone, oclosed, upc, got, ueof, pdone, stopped>>

RClose(r) == /\ rpc[r] = "close"
             /\ pipeClosed' = TRUE /\ rpc' = [rpc EXCEPT ![r] = "done"]
             /\ UNCHANGED <<n, src, rhold, rctx, setup, nsetup, octx, odone, oclosed, upc, got, ueof, pdone, stopped>>

\* consumer j's receive ends: pipe closed (io.EOF) or its context done; the deferred doClose closes output j
URecvEnd(j) == /\ upc[j] = "recv" /\ (pipeClosed \/ odone[j])
               /\ upc' = [upc EXCEPT ![j] = "idle"] /\ ueof' = [ueof EXCEPT ![j] = TRUE]
               /\ oclosed' = [oclosed EXCEPT ![j] = TRUE] /\ odone' = [odone EXCEPT ![j] = TRUE]
               /\ UNCHANGED <<n, src, rpc, rhold, rctx, setup, nsetup, pipeClosed, octx, got, pdone, stopped>>

Internal == \/ \E r \in Readers : RRead(r) \/ RSendEnd(r) \/ RClose(r) \/ \E j \in Outs : PipeHandoff(r, j)
            \/ \E j \in Outs : URecvEnd(j)

Next == Internal \/ External
Spec == Init /\ [][Next]_vars /\ WF_vars(Internal)
LiveNext == Internal \/ \E j \in Outs : Read(j)
LiveSpec == Init /\ [][LiveNext]_vars /\ WF_vars(Internal) /\ WF_vars(Read(1))

(* ---------------------------------------------------------------- Properties *)

TypeOK == /\ \A r \in Readers : rpc[r] \in {"idle", "read", "send", "close", "done"}
          /\ \A j \in Outs : upc[j] \in {"idle", "recv"} /\ octx[j] \in {"none", "live", "noop"}

Quiescent == ~ENABLED Internal

\* C01: every input item is sent to exactly one output
Conservation == ~stopped => SeqBag(src) (+) SumR(Readers) (+) SumGot(Outs) = SeqBag(Input)
SetupOnce    == nsetup <= 1
EofComplete  == (~stopped /\ \E j \in Outs : ueof[j]) => SumGot(Outs) = SeqBag(Input)
\* each output sees its items in input order
Ordered      == \A j \in Outs : \A a, b \in 1..Len(got[j]) : a < b => got[j][a] < got[j][b]
NoStall      == (Quiescent /\ ~stopped) => \A j \in Outs : upc[j] = "idle"

\* C04, with the reading of DESIGN.md 5.0: the obligation starts when every output is closed, or the
\* context of the first advance is cancelled, or the input is exhausted and drained
\* - where "the context of the first advance is cancelled" is the reader's view: the context of the output
\* whose advance started it is done, by that consumer's cancellation or by Close of that output
SplitStopped == \/ \A j \in Outs : oclosed[j]
                \/ \A r \in Readers : rpc[r] # "idle" => odone[rctx[r]]
                \/ src = <<>> /\ \A r \in Readers : rhold[r] = None
AllDone == (Quiescent /\ SplitStopped) => \A r \in Readers : rpc[r] \in {"idle", "done"}
BlockedConsumerReleased == Quiescent => \A j \in Outs : (oclosed[j] \/ pdone[j]) => upc[j] = "idle"
\* C04 "a finite input always leads to io.EOF (no deadlock)": whatever the siblings did - closed their
\* outputs, cancelled their contexts, went away - no consumer is left blocked once the library has settled:
\* the source never blocks, so an advance ends with an item or with the end of the output
NoDeadlock == Quiescent => \A j \in Outs : upc[j] = "idle"
NoopCloseStartsNothing == (\A j \in Outs : octx[j] \in {"none", "noop"}) => \A r \in Readers : rpc[r] = "idle"

\* NOT a property of the code (and not judged, DESIGN.md 5.0): closing some outputs while abandoning the
\* one whose context the reader uses leaves the reader blocked.  Kept to document the explored outcome.
NoLeakOnPartialClose == (Quiescent /\ \E j \in Outs : oclosed[j]) => \A r \in Readers : rpc[r] \in {"idle", "done"}

Terminates == <>(ueof[1])
\* the same under Spec: IF consumer 1 keeps reading and nobody stops the run THEN its output ends
LiveTerminates == (WF_vars(Read(1)) /\ []~stopped) => <>(ueof[1])
Settles == <>[]Quiescent
=============================================================================
