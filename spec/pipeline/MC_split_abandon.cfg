SPECIFICATION Spec
CONSTANTS
  MaxN = 2
  M = 2
  MaxR = 1
  OnceSetup = TRUE
  CloseOn = "exit"
INVARIANTS NoLeakOnPartialClose
PROPERTIES Settles
CHECK_DEADLOCK FALSE
