SPECIFICATION Spec
CONSTANTS
  Construct = "gen"
  MaxN = 2
  MaxK = 2
  FKinds = {"panicStr"}
  MaxFaults = 1
  OptSet <- OptsCore
  AbortCancels = TRUE
  GenChecksCtx = TRUE
  GenEofByIs = FALSE
  ResolverSame = TRUE
  ExcludedConsulted = TRUE
  Mut = "nohandler"
INVARIANTS TypeOK NothingSwallowed NeverReported NilIffNoFailure AtMostOnce ContinueAll AbortedWorkerStops AbortBound NoStall AllDone
PROPERTIES Settles
CHECK_DEADLOCK FALSE
