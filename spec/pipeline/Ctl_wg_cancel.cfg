SPECIFICATION Spec
CONSTANTS
  Constructs = {"pp", "pfe", "worker", "map", "gen"}
  Ns = {2, 3, 4}
  Ks = {2, 3}
  FKinds = {"err", "wrapped", "panicErr"}
  MaxFaults = 2
  MaxFaultPos = 3
  OptSet <- OptsNoExc
  Colls = {"default"}
  CancelModes = {0, 1}
  Depth = 5
  ExcludedConsulted = TRUE
  Mut = "none"
INVARIANT Inv
VIEW view
ACTION_CONSTRAINT EmitEdge
CHECK_DEADLOCK FALSE
