--------------------------- MODULE ErrContractMC ---------------------------
(* The option x kind matrix of ErrContract.tla as a state space: one initial  *)
(* state per cell, invariant Refines = "what the code does is allowed by what *)
(* property C03 demands", and every cell printed (tag CELL) as a replayable   *)
(* case for `vh-wgerr classify`.                                              *)
(***************************************************************************)
EXTENDS ErrContract

VARIABLE cell
Cell(kind, o) == [kind |-> kind, o |-> o, classify |-> [report |-> Classify(kind, o).report, cont |-> Classify(kind, o).cont],
                  contract |-> Contract(kind, o), need |-> Need(kind), never |-> NeverFound(o) \ MayCarry(kind), refines |-> RefinesCell(kind, o)]
Init == cell \in {Cell(kind, o) : kind \in Kinds, o \in Opts}
Next == UNCHANGED cell
Spec == Init /\ [][Next]_cell

Refines == cell.refines
\* CONSTRAINT: print every cell once (the initial states are the cells)
Emit == PrintT(<<"CELL", ToJson(cell)>>)
=============================================================================
