SPECIFICATION Spec
CONSTANTS
  MaxN = 3
  MaxK = 2
  HasCb = TRUE
  HasOut = TRUE
  OutCap = 0
  CloserSeesCtx = TRUE
  CloseOn = "reader"
  SendSelectsDone = TRUE
  FastPath = FALSE
INVARIANTS EofComplete
PROPERTIES Settles
CHECK_DEADLOCK FALSE
