SPECIFICATION Spec
CONSTANTS
  MaxN = 3
  MaxK = 2
  HasCb = TRUE
  HasOut = TRUE
  OutCap = 0
  CloserSeesCtx = TRUE
  CloseOn = "reader"
  SendSelectsDone = TRUE
INVARIANTS EofComplete
PROPERTIES Settles
CHECK_DEADLOCK FALSE
