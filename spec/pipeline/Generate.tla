----------------------------- MODULE Generate ------------------------------
(* Implementation-shaped specification of Producer.GenerateParallel          *)
(* (producer.go:506-554).                                                    *)
(*                                                                           *)
(*   pipe := Blocking(make(chan T, NumWorkers*2+1))                          *)
(*   init := Operation(func(ctx){ wctx,cancel := WithCancel(ctx); wg         *)
(*             pipe.Processor().ReadAll(generator').Operation(obs).          *)
(*                                   StartGroup(wctx, wg, NumWorkers)        *)
(*             wg.Operation().PostHook(func(){cancel(); pipe.Close()}).      *)
(*                                   Background(ctx) }).Once()               *)
(*   iter := pipe.Receive().Producer().PreHook(init).Iterator()              *)
(*                                                                           *)
(* worker w   process.go:345-365: loop { v, err := generator(ctx)            *)
(*            (user function: its return is External; io.EOF ends the loop); *)
(*            pipe.Write(ctx, v) }; PostHook(wg.Done)                        *)
(* closer     wg.Wait(ictx); cancel(); close(pipe)                           *)
(* consumer   Read / Close / Cancel on the output iterator                   *)
(*                                                                           *)
(* The generator hands out items 1..n in call order (a ticket taken when the *)
(* call starts) and io.EOF afterwards, which is what the harness's generator *)
(* does.  Cap is the pipe capacity (2K+1 in the code; smaller values are     *)
(* explored too - they only make the workers block earlier).                 *)
(*                                                                           *)
(* CtxGen = TRUE: the generator respects its context - a call that is being  *)
(* held returns the context's error once the workers' context is done, and a *)
(* call made with a dead context returns it at once (no ticket is taken).    *)
(* What the worker does with that error is CanContinueOnError (opts.go):     *)
(* ContinueOnCtx = FALSE is the code (a context error always ends the        *)
(* worker, whatever the options); TRUE is the mutation "with ContinueOnError *)
(* + IncludeContextExpirationErrors a context error is continued".           *)
(* LoopChecksCtx = FALSE is the code (producer.go:531-541: the worker calls  *)
(* the generator without looking at its own context and trusts              *)
(* CanContinueOnError to end the loop on a context error); together with     *)
(* ContinueOnCtx the worker calls the generator for ever (Settles fails).    *)
(* TRUE is the hardened loop (the withdrawn repair 21f453d had it): it looks *)
(* at its context before every call and survives ContinueOnCtx.              *)
(***************************************************************************)
EXTENDS Integers, Sequences, FiniteSets, Bags, BagsExt, TLC

CONSTANTS MaxN, MaxK, Cap, CloseOn, CtxGen, ContinueOnCtx, LoopChecksCtx

None == 0
VARIABLES n, k, next, gpc, ghold, wg, cpc, pipe, pipeClosed, upc, delivered, ueof, ictx, iclosed, done, stopped
vars == <<n, k, next, gpc, ghold, wg, cpc, pipe, pipeClosed, upc, delivered, ueof, ictx, iclosed, done, stopped>>
Workers == 1..k

RECURSIVE SeqBag(_)
SeqBag(s) == IF s = <<>> THEN EmptyBag ELSE BagAdd(SeqBag(Tail(s)), Head(s))
One(x) == IF x = None THEN EmptyBag ELSE SetToBag({x})
RECURSIVE SumG(_)
SumG(X) == IF X = {} THEN EmptyBag ELSE LET w == CHOOSE w \in X : TRUE IN One(ghold[w]) (+) SumG(X \ {w})
Input == [i \in 1..n |-> i]
Rest  == [i \in 1..(n - next) |-> next + i]     \* items the generator has not handed out yet

Init == /\ n \in 0..MaxN /\ k \in 1..MaxK /\ next = 0
        /\ gpc = [w \in Workers |-> "idle"] /\ ghold = [w \in Workers |-> None]
        /\ wg = 0 /\ cpc = "idle" /\ pipe = <<>> /\ pipeClosed = FALSE
        /\ upc = "idle" /\ delivered = <<>> /\ ueof = FALSE
        /\ ictx = "none" /\ iclosed = FALSE /\ done = [c \in {"p", "i", "w"} |-> FALSE] /\ stopped = FALSE

CancelFrom(c) == [x \in {"p", "i", "w"} |->
                    IF (c = "p") \/ (c = "i" /\ x # "p") \/ (c = "w" /\ x = "w") THEN TRUE ELSE done[x]]

(* ---------------------------------------------------------------- External *)
Read == /\ upc = "idle"
        /\ IF iclosed \/ done["p"]
             THEN ueof' = TRUE /\ UNCHANGED <<upc, ictx, gpc, wg, cpc>>
             ELSE /\ upc' = "recv" /\ UNCHANGED ueof
                  /\ IF ictx = "none"
                       THEN /\ ictx' = "live" /\ gpc' = [w \in Workers |-> "start"] /\ wg' = k /\ cpc' = "wait"
                       ELSE UNCHANGED <<ictx, gpc, wg, cpc>>
        /\ UNCHANGED <<n, k, next, ghold, pipe, pipeClosed, delivered, iclosed, done, stopped>>

Close == /\ IF iclosed THEN UNCHANGED <<iclosed, ictx, done>>
            ELSE /\ iclosed' = TRUE
                 /\ IF ictx = "live" THEN done' = CancelFrom("i") /\ UNCHANGED ictx
                    ELSE IF ictx = "none" THEN ictx' = "noop" /\ UNCHANGED done
                    ELSE UNCHANGED <<ictx, done>>
         /\ stopped' = TRUE
         /\ UNCHANGED <<n, k, next, gpc, ghold, wg, cpc, pipe, pipeClosed, upc, delivered, ueof>>

Cancel == /\ ~done["p"]
          /\ done' = IF ictx = "live" THEN CancelFrom("p") ELSE [done EXCEPT !["p"] = TRUE]
          /\ stopped' = TRUE
          /\ UNCHANGED <<n, k, next, gpc, ghold, wg, cpc, pipe, pipeClosed, upc, delivered, ueof, ictx, iclosed>>

\* the generator call of worker w returns its item
GenReturn(w) == /\ gpc[w] = "gen" /\ gpc' = [gpc EXCEPT ![w] = "send"]
                /\ UNCHANGED <<n, k, next, ghold, wg, cpc, pipe, pipeClosed, upc, delivered, ueof, ictx, iclosed, done, stopped>>

External == Read \/ Close \/ Cancel \/ \E w \in Workers : GenReturn(w)

(* ---------------------------------------------------------------- Internal *)
\* worker w calls the generator: it takes the next ticket, or gets io.EOF at once when none is left
GCall(w) == /\ gpc[w] = "start"
            /\ IF LoopChecksCtx /\ done["w"]
                 THEN /\ gpc' = [gpc EXCEPT ![w] = "exit"] /\ UNCHANGED <<next, ghold>>      \* ctx.Err() # nil: the loop ends
                 ELSE IF CtxGen /\ done["w"]
                 THEN /\ gpc' = [gpc EXCEPT ![w] = "gen"] /\ UNCHANGED <<next, ghold>>       \* a call that meets the dead context
                 ELSE IF next < n
                 THEN /\ next' = next + 1 /\ ghold' = [ghold EXCEPT ![w] = next + 1] /\ gpc' = [gpc EXCEPT ![w] = "gen"]
                 ELSE /\ gpc' = [gpc EXCEPT ![w] = "exit"] /\ UNCHANGED <<next, ghold>>
            /\ UNCHANGED <<n, k, wg, cpc, pipe, pipeClosed, upc, delivered, ueof, ictx, iclosed, done, stopped>>

GSend(w) == /\ gpc[w] = "send" /\ ~pipeClosed /\ Len(pipe) < Cap
            /\ pipe' = Append(pipe, ghold[w]) /\ ghold' = [ghold EXCEPT ![w] = None]
            /\ gpc' = [gpc EXCEPT ![w] = "start"]
            /\ UNCHANGED <<n, k, next, wg, cpc, pipeClosed, upc, delivered, ueof, ictx, iclosed, done, stopped>>

GSendEnd(w) == /\ gpc[w] = "send" /\ (done["w"] \/ pipeClosed)
               /\ ghold' = [ghold EXCEPT ![w] = None] /\ gpc' = [gpc EXCEPT ![w] = "exit"]
               /\ UNCHANGED <<n, k, next, wg, cpc, pipe, pipeClosed, upc, delivered, ueof, ictx, iclosed, done, stopped>>

\* a context-respecting generator returns the context's error; CanContinueOnError decides what follows
GenCtx(w) == /\ CtxGen /\ gpc[w] = "gen" /\ done["w"]
             /\ ghold' = [ghold EXCEPT ![w] = None]
             /\ gpc' = [gpc EXCEPT ![w] = IF ContinueOnCtx THEN "start" ELSE "exit"]
             /\ UNCHANGED <<n, k, next, wg, cpc, pipe, pipeClosed, upc, delivered, ueof, ictx, iclosed, done, stopped>>

GExit(w) == /\ gpc[w] = "exit" /\ wg' = wg - 1 /\ gpc' = [gpc EXCEPT ![w] = "done"]
            /\ UNCHANGED <<n, k, next, ghold, cpc, pipe, pipeClosed, upc, delivered, ueof, ictx, iclosed, done, stopped>>

CWait == /\ cpc = "wait" /\ ((IF CloseOn = "first" THEN wg < k ELSE wg = 0) \/ done["i"]) /\ cpc' = "cancel"
         /\ UNCHANGED <<n, k, next, gpc, ghold, wg, pipe, pipeClosed, upc, delivered, ueof, ictx, iclosed, done, stopped>>
CCancel == /\ cpc = "cancel" /\ cpc' = "close" /\ done' = CancelFrom("w")
           /\ UNCHANGED <<n, k, next, gpc, ghold, wg, pipe, pipeClosed, upc, delivered, ueof, ictx, iclosed, stopped>>
CClose == /\ cpc = "close" /\ cpc' = "done" /\ pipeClosed' = TRUE
          /\ UNCHANGED <<n, k, next, gpc, ghold, wg, pipe, upc, delivered, ueof, ictx, iclosed, done, stopped>>

URecv == /\ upc = "recv" /\ pipe # <<>>
         /\ delivered' = Append(delivered, Head(pipe)) /\ pipe' = Tail(pipe) /\ upc' = "idle"
         /\ UNCHANGED <<n, k, next, gpc, ghold, wg, cpc, pipeClosed, ueof, ictx, iclosed, done, stopped>>
URecvEnd == /\ upc = "recv" /\ ((pipeClosed /\ pipe = <<>>) \/ done["i"])
            /\ upc' = "idle" /\ ueof' = TRUE /\ iclosed' = TRUE /\ done' = CancelFrom("i")
            /\ UNCHANGED <<n, k, next, gpc, ghold, wg, cpc, pipe, pipeClosed, delivered, ictx, stopped>>

Internal == CWait \/ CCancel \/ CClose \/ URecv \/ URecvEnd
            \/ \E w \in Workers : GCall(w) \/ GSend(w) \/ GSendEnd(w) \/ GExit(w) \/ GenCtx(w)
Next == Internal \/ External
Spec == Init /\ [][Next]_vars /\ WF_vars(Internal)
LiveSpec == Init /\ [][Internal \/ Read \/ \E w \in Workers : GenReturn(w)]_vars /\ WF_vars(Internal) /\ WF_vars(Read)
            /\ WF_vars(\E w \in Workers : GenReturn(w))

(* ---------------------------------------------------------------- Properties *)
TypeOK == /\ \A w \in Workers : gpc[w] \in {"idle", "start", "gen", "send", "exit", "done"}
          /\ wg \in 0..k /\ Len(pipe) <= Cap /\ upc \in {"idle", "recv"}
Quiescent == ~ENABLED Internal
\* C01: every value the generator produced appears exactly once in the output
Conservation == ~stopped => SeqBag(Rest) (+) SumG(Workers) (+) SeqBag(pipe) (+) SeqBag(delivered) = SeqBag(Input)
CloseAfterDrain == (~stopped /\ pipeClosed) => (wg = 0 /\ \A w \in Workers : ghold[w] = None)
EofComplete == (~stopped /\ ueof) => /\ SeqBag(delivered) = SeqBag(Input)
                                     /\ (k = 1 => delivered = Input)
NoStall == (Quiescent /\ ~stopped /\ upc = "recv") => \E w \in Workers : gpc[w] = "gen"
ConsumerStopped == ueof \/ (iclosed /\ stopped) \/ (done["p"] /\ ictx = "live")
AllDone == (Quiescent /\ ConsumerStopped) => (cpc \in {"idle", "done"} /\ \A w \in Workers : gpc[w] \in {"idle", "done", "gen"})
BlockedConsumerReleased == (Quiescent /\ (iclosed \/ done["p"])) => upc = "idle"
NoopCloseStartsNothing == ictx = "noop" => (cpc = "idle" /\ \A w \in Workers : gpc[w] = "idle")
Terminates == <>ueof
\* the same under Spec: IF the client is live and never stops the run THEN the output ends
LiveTerminates == (WF_vars(Read) /\ WF_vars(\E w \in Workers : GenReturn(w)) /\ []~stopped) => <>ueof
Settles == <>[]Quiescent
=============================================================================
