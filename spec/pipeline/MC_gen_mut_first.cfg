SPECIFICATION Spec
CONSTANTS
  MaxN = 3
  MaxK = 2
  Cap = 1
  CloseOn = "first"
  CtxGen = FALSE
  ContinueOnCtx = FALSE
  LoopChecksCtx = FALSE
INVARIANTS EofComplete
PROPERTIES Settles
CHECK_DEADLOCK FALSE
