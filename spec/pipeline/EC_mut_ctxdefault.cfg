SPECIFICATION Spec
CONSTANTS
  ExcludedConsulted = TRUE
  Mut = "ctxdefault"
INVARIANT Refines
CONSTRAINT Emit
CHECK_DEADLOCK FALSE
