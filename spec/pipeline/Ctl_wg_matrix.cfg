SPECIFICATION Spec
CONSTANTS
  Constructs = {"pp", "pfe", "worker", "map", "gen"}
  Ns = {3}
  Ks = {1}
  FKinds = {"err", "wrapped", "panicErr", "panicStr", "panicOther", "skip", "eof", "abort", "ctx", "excl", "panicW_EOF", "panicW_SKIP", "panicW_CTX", "panicW_X", "panicW_ABORT"}
  MaxFaults = 1
  MaxFaultPos = 3
  OptSet <- OptsAll
  Colls = {"default", "custom"}
  CancelModes = {}
  Depth = 2
  ExcludedConsulted = TRUE
  Mut = "none"
INVARIANT Inv
CONSTRAINT EmitAll
CHECK_DEADLOCK FALSE
