SPECIFICATION Spec
CONSTANTS
  Fixed = TRUE
  Readers = {r1, r2}
INVARIANTS NoPanic ReleasedByClose NeverNilCtx
CHECK_DEADLOCK FALSE
