SPECIFICATION LiveSpec
CONSTANTS
  MaxN = 3
  MaxK = 2
  HasCb = TRUE
  HasOut = FALSE
  OutCap = 0
  CloserSeesCtx = FALSE
  CloseOn = "wg"
  SendSelectsDone = TRUE
  FastPath = FALSE
INVARIANTS TypeOK Conservation CloseAfterDrain SetupOnce EofComplete NoStall AllDone BlockedConsumerReleased RunReturns NoopCloseStartsNothing
PROPERTIES Terminates
CHECK_DEADLOCK FALSE
