SPECIFICATION Spec
CONSTANTS
  MaxN = 4
  MaxK = 3
  Cap = 2
  CloseOn = "wg"
INVARIANTS TypeOK Conservation CloseAfterDrain EofComplete NoStall AllDone BlockedConsumerReleased NoopCloseStartsNothing
PROPERTIES Settles LiveTerminates
CHECK_DEADLOCK FALSE
