SPECIFICATION Spec
CONSTANTS
  MaxN = 4
  MaxK = 3
  Cap = 2
  CloseOn = "wg"
  CtxGen = FALSE
  ContinueOnCtx = FALSE
  LoopChecksCtx = FALSE
INVARIANTS TypeOK Conservation CloseAfterDrain EofComplete NoStall AllDone BlockedConsumerReleased NoopCloseStartsNothing
PROPERTIES Settles LiveTerminates
CHECK_DEADLOCK FALSE
