SPECIFICATION Spec
CONSTANTS
  Construct = "pp"
  MaxN = 2
  MaxK = 1
  FKinds = {"excl"}
  MaxFaults = 1
  OptSet <- OptsAll
  AbortCancels = TRUE
  GenChecksCtx = TRUE
  GenEofByIs = FALSE
  ResolverSame = TRUE
  ExcludedConsulted = FALSE
  Mut = "none"
INVARIANTS TypeOK NothingSwallowed NeverReported NilIffNoFailure AtMostOnce ContinueAll AbortedWorkerStops AbortBound NoStall AllDone
PROPERTIES Settles
CHECK_DEADLOCK FALSE
