---------------------------- MODULE PipelineCtl ----------------------------
(* Controllable projection of the pipeline constructs of tychoish/fun:        *)
(* the abstract, quiescence-stepped meaning of properties C01 and C04.        *)
(*                                                                            *)
(* Every action is ONE driver step of harness/cmd/vh-pipeline followed by      *)
(* "run to quiescence".  `hist` records the step together with the SETS OF     *)
(* ALLOWED OBSERVATIONS the properties permit at that quiescent point; TLC     *)
(* enumerates / simulates the schedules and prints them as JSON, the harness   *)
(* replays each against the real construct and only compares.                  *)
(*                                                                            *)
(* Driver steps:                                                              *)
(*   read c    consumer c issues one advance (ReadOne / Next) of its output     *)
(*   run       worker groups: invoke the Worker (ProcessParallel.Run, ...)     *)
(*   rel i     release the user function that is holding item i               *)
(*   close o   Close output o          cancel   cancel the consumers' context  *)
(*   relall    release every held user function (clean-up after a stop)        *)
(*   finish    release everything and drain every consumer to the end          *)
(*   freerun   (first and only step) no gates, no stepping: every user         *)
(*             function returns at once, every consumer drains concurrently    *)
(*   race-start  (first and only step) RaceReps fresh instances of an           *)
(*             undisturbed run whose advances are concurrent from the very     *)
(*             first one (two readers per output released together)            *)
(*   race-close / race-cancel  (first and only step) RaceReps fresh instances: *)
(*             free-running consumers against an unsynchronised Close of every *)
(*             output / cancellation - the real scheduler decides where the    *)
(*             stop lands, including inside the very first advance             *)
(*                                                                            *)
(* Observations attached to a step (DESIGN.md 2.3a: always sets / bounds):      *)
(*   may    items whose output may have been delivered so far (upper bound:    *)
(*          for a transforming stage only items whose user function returned)  *)
(*   eofs   consumers that may have seen the end of their output so far        *)
(*          (C01: only after EVERY item was delivered, unless the run stopped) *)
(*   must   consumers whose advance must have returned by now (C04: after      *)
(*          Close / cancel; C01/C04 no-deadlock: when nothing is held any more)*)
(*   run    worker groups: "must" = Run must have returned, "may" otherwise    *)
(*   leak   no library goroutine may remain (C04; premise per DESIGN.md 5.0:   *)
(*          input exhausted and drained, or Close on every output, or the      *)
(*          context of the first advance cancelled - and no user function is   *)
(*          still held)                                                        *)
(*   full   the run completed undisturbed: delivered bag = input bag (C01)     *)
(*   stop   how the consumer stopped so far (names the finding key)            *)
(*                                                                            *)
(* The state below is the reference semantics that makes the schedules         *)
(* meaningful (which items are held in user functions after each step is       *)
(* deterministic for a sequential source: workers take items in input order).  *)
(* It refines the Impl specs at their quiescent states:                        *)
(*   must / NoStall, eofs / EofComplete, leak / AllDone,                       *)
(*   must after stop / BlockedConsumerReleased, may / Conservation.            *)
(* Where the real run diverges from the reference (a release names an item     *)
(* that is not held) the replay is inconclusive, never a violation.            *)
(***************************************************************************)
EXTENDS Integers, Sequences, FiniteSets, TLC, Json

CONSTANTS Constructs,   \* subset of the construct names below
          MaxN, MaxK,   \* input sizes 0..MaxN, worker / output / source counts 1..MaxK
          AllowStop,    \* BOOLEAN: schedules may Close / cancel (C04); FALSE = undisturbed runs only (C01)
          RaceReps,     \* repetitions of an unsynchronised stop-versus-advance race per behaviour (0 = none)
          Depth         \* maximal number of driver steps of a behaviour

Stage   == {"map", "gen"}                         \* user function + output iterator
Group   == {"pp", "pfe", "worker"}                \* user function, no output (a Worker that is Run)
Passive == {"pbuf", "buffer", "split", "merge", "multiread",
            "chain", "mslices", "msiters", "bufchan", "dtmap", "adtmap"}
NoClose == {"bufchan"}                            \* output is a raw channel: it cannot be closed by the consumer

Min(a, b) == IF a < b THEN a ELSE b
Max(a, b) == IF a > b THEN a ELSE b

\* the configurations explored: construct, input size, width, buffer size
Ks(c)   == IF c = "buffer" \/ c = "bufchan" THEN {1}
           ELSE IF c \in {"dtmap", "adtmap"} THEN 1..3        \* Iterator / Keys / Values
           ELSE 1..MaxK
Caps(c) == IF c = "buffer" \/ c = "bufchan" THEN 0..2 ELSE {0}
Cfgs == {[c |-> c, n |-> n, k |-> k, cap |-> cap,
          \* C01 demands input order for Buffer and for a single worker / source / output only
          ord |-> (c = "buffer") \/ (c \in {"map", "gen", "pbuf", "merge", "split"} /\ k = 1),
          fn  |-> c \in Stage \cup Group,
          out |-> IF c \in Group THEN 0 ELSE IF c = "split" THEN k ELSE 1]
         : c \in Constructs, n \in 0..MaxN, k \in 1..Max(3, MaxK), cap \in 0..2}
CfgOK(x) == x.k \in Ks(x.c) /\ x.cap \in Caps(x.c)

VARIABLES cfg,        \* the configuration of this behaviour
          started,    \* the first advance / Run happened: background work exists
          nent,       \* items 1..nent were handed to user functions
          held,       \* items whose user function has not returned
          rel,        \* items whose user function returned
          avail,      \* results computed but not yet received by the consumer (blocked sends + buffer)
          ngot,       \* number of items delivered to consumers
          pend,       \* consumers blocked in an advance
          ended,      \* consumers that saw the end of their output
          closed,     \* outputs on which Close was called
          cancelled,  \* the consumers' context is cancelled
          phase,      \* "run" | "stopped" | "over"
          steps       \* the schedule with its allowed observations

vars == <<cfg, started, nent, held, rel, avail, ngot, pend, ended, closed, cancelled, phase, steps>>
view == <<cfg, started, nent, held, rel, avail, ngot, pend, ended, closed, cancelled, phase>>

Items     == 1..cfg.n
Outs      == 1..cfg.out
Consumers == IF cfg.c \in Group THEN {} ELSE IF cfg.c \in {"split", "multiread"} THEN 1..cfg.k ELSE {1}
OutOf(c)  == IF cfg.c = "split" THEN c ELSE 1
PipeCap   == IF cfg.c = "gen" THEN 2 * cfg.k + 1 ELSE 0

Init == /\ cfg \in {x \in Cfgs : CfgOK(x)}
        /\ started = FALSE /\ nent = 0 /\ held = {} /\ rel = {} /\ avail = 0 /\ ngot = 0
        /\ pend = {} /\ ended = {} /\ closed = {} /\ cancelled = FALSE /\ phase = "run" /\ steps = <<>>

(* ------------------------------------------------------------- observations *)

Stopped(cl, cn) == cn \/ cl # {}
Partial(cl, cn) == cl # {} /\ cl # Outs /\ ~cn
StopName(cl, cn, en) ==
    IF cn /\ cl # {} THEN "close+cancel"
    ELSE IF cn THEN "cancel"
    ELSE IF cl # {} THEN (IF cfg.out > 0 /\ cl = Outs THEN "close" ELSE "close-some")
    ELSE IF en # {} THEN "exhaust" ELSE ""

\* C04 premise (DESIGN.md 5.0): exhausted and drained / Close on every output / context cancelled
Obliged(cl, cn, en, ne, he) ==
    IF cfg.c \in Group THEN cn \/ (started' /\ ne = cfg.n /\ he = {})
    ELSE cn \/ (cfg.out > 0 /\ cl = Outs) \/ (~Stopped(cl, cn) /\ en # {})

Obs(op, arg) ==
    [op   |-> op, arg |-> arg,
     may  |-> IF cfg.c \in Stage THEN rel' ELSE IF cfg.c \in Group THEN {} ELSE Items,
     eofs |-> IF Stopped(closed', cancelled') THEN Consumers ELSE ended',
     \* after a partial Close of Split only the consumers of closed outputs are judged
     must |-> {c \in Consumers \ pend' : Partial(closed', cancelled') => OutOf(c) \in closed'},
     run  |-> IF cfg.c \in Group /\ started' /\ held' = {} /\ (cancelled' \/ nent' = cfg.n) THEN "must" ELSE "may",
     leak |-> Obliged(closed', cancelled', ended', nent', held') /\ held' = {},
     full |-> op \in {"finish", "freerun"},
     stop |-> IF op \in {"finish", "freerun", "race-start"} THEN "exhaust" ELSE StopName(closed', cancelled', ended')]

Rec(op, arg) == steps' = Append(steps, Obs(op, arg))

(* ------------------------------------------------------------- reference semantics *)

\* idle workers take the next items of the input, in order
Refill(h, av, ne) ==
    LET idle == cfg.k - Cardinality(h) - Max(0, av - PipeCap)
        more == Min(cfg.n - ne, Max(0, idle))
    IN  [held |-> h \cup ((ne + 1)..(ne + more)), nent |-> ne + more]

\* consumer c issues one advance
Read(c) ==
    /\ phase # "over" /\ c \in Consumers /\ c \notin pend
    /\ IF c \in ended \/ cancelled \/ OutOf(c) \in closed
         THEN \* the output has ended for c / was stopped: the advance returns the end at once, nothing starts
              /\ ended' = ended \cup {c}
              /\ UNCHANGED <<started, nent, held, avail, ngot, pend>>
         ELSE IF Stopped(closed, cancelled)
         THEN \* Split after a partial Close: items or the end, either is allowed; the advance returns
              /\ started' = TRUE /\ UNCHANGED <<nent, held, avail, ngot, pend, ended>>
         ELSE IF cfg.c \in Stage
         THEN LET f == IF started THEN [held |-> held, nent |-> nent] ELSE Refill(held, avail, nent) IN
              /\ started' = TRUE
              /\ IF avail > 0
                   THEN LET g == Refill(f.held, avail - 1, f.nent) IN
                        /\ avail' = avail - 1 /\ ngot' = ngot + 1
                        /\ held' = g.held /\ nent' = g.nent /\ UNCHANGED <<pend, ended>>
                   ELSE IF f.nent = cfg.n /\ f.held = {}
                   THEN /\ ended' = ended \cup {c} /\ held' = f.held /\ nent' = f.nent
                        /\ UNCHANGED <<avail, ngot, pend>>
                   ELSE /\ pend' = pend \cup {c} /\ held' = f.held /\ nent' = f.nent
                        /\ UNCHANGED <<avail, ngot, ended>>
         ELSE \* passive constructs over a finite, never-blocking source: an item while any is left, then the end
              /\ started' = TRUE
              /\ IF ngot < cfg.n THEN ngot' = ngot + 1 /\ UNCHANGED ended
                                 ELSE ended' = ended \cup {c} /\ UNCHANGED ngot
              /\ UNCHANGED <<nent, held, avail, pend>>
    /\ UNCHANGED <<cfg, rel, closed, cancelled, phase>>
    /\ Rec("read", c)

\* worker groups: Run the Worker
Run == /\ phase # "over" /\ cfg.c \in Group /\ ~started
       /\ started' = TRUE
       /\ IF cancelled THEN UNCHANGED <<held, nent>>
          ELSE LET f == Refill(held, 0, nent) IN held' = f.held /\ nent' = f.nent
       /\ UNCHANGED <<cfg, rel, avail, ngot, pend, ended, closed, cancelled, phase>>
       /\ Rec("run", 0)

\* the user function holding item i returns
Release(i) ==
    /\ phase # "over" /\ i \in held
    /\ rel' = rel \cup {i}
    /\ IF Stopped(closed, cancelled)
         THEN held' = held \ {i} /\ UNCHANGED <<nent, avail, ngot, pend>>   \* its worker finds the run stopped and leaves
         ELSE IF cfg.c \in Group
         THEN LET f == Refill(held \ {i}, 0, nent) IN
              held' = f.held /\ nent' = f.nent /\ UNCHANGED <<avail, ngot, pend>>
         ELSE IF pend # {}
         THEN LET f == Refill(held \ {i}, avail, nent) IN        \* handed straight to the blocked consumer
              /\ pend' = {} /\ ngot' = ngot + 1 /\ held' = f.held /\ nent' = f.nent /\ UNCHANGED avail
         ELSE LET f == Refill(held \ {i}, avail + 1, nent) IN
              /\ avail' = avail + 1 /\ held' = f.held /\ nent' = f.nent /\ UNCHANGED <<ngot, pend>>
    /\ UNCHANGED <<cfg, started, ended, closed, cancelled, phase>>
    /\ Rec("rel", i)

\* Close output o (any number of times)
Close(o) ==
    /\ AllowStop /\ phase # "over" /\ cfg.c \notin NoClose /\ o \in Outs
    /\ closed' = closed \cup {o}
    /\ pend' = {c \in pend : OutOf(c) # o}                         \* a blocked consumer of o is released
    /\ ended' = ended \cup {c \in pend : OutOf(c) = o}
    /\ phase' = "stopped"
    /\ UNCHANGED <<cfg, started, nent, held, rel, avail, ngot, cancelled>>
    /\ Rec("close", o)

\* cancel the context the consumers pass to their advances / the Worker runs with
Cancel ==
    /\ AllowStop /\ phase # "over" /\ ~cancelled
    /\ cancelled' = TRUE /\ pend' = {} /\ ended' = ended \cup pend /\ phase' = "stopped"
    /\ UNCHANGED <<cfg, started, nent, held, rel, avail, ngot, closed>>
    /\ Rec("cancel", 0)

\* after a stop: release whatever is still held; ends the behaviour
ReleaseAll ==
    /\ phase = "stopped"
    /\ rel' = rel \cup held /\ held' = {} /\ phase' = "over"
    /\ UNCHANGED <<cfg, started, nent, avail, ngot, pend, ended, closed, cancelled>>
    /\ Rec("relall", 0)

\* undisturbed completion: release everything, drain every consumer; ends the behaviour
Finish ==
    /\ phase = "run" /\ (cfg.c \in Group => started)
    /\ started' = TRUE /\ rel' = (IF cfg.fn THEN Items ELSE rel) /\ held' = {}
    /\ nent' = (IF cfg.fn THEN cfg.n ELSE nent)
    /\ avail' = 0 /\ ngot' = (IF cfg.out > 0 THEN cfg.n ELSE ngot)
    /\ pend' = {} /\ ended' = Consumers /\ phase' = "over"
    /\ UNCHANGED <<cfg, closed, cancelled>>
    /\ Rec("finish", 0)

\* the same completion without any stepping: the interleaving is the real scheduler's
FreeRun ==
    /\ phase = "run" /\ steps = <<>>
    /\ started' = TRUE /\ rel' = (IF cfg.fn THEN Items ELSE rel) /\ held' = {}
    /\ nent' = (IF cfg.fn THEN cfg.n ELSE nent)
    /\ avail' = 0 /\ ngot' = (IF cfg.out > 0 THEN cfg.n ELSE ngot)
    /\ pend' = {} /\ ended' = Consumers /\ phase' = "over"
    /\ UNCHANGED <<cfg, closed, cancelled>>
    /\ Rec("freerun", 0)

\* undisturbed runs with concurrent first advances, repeated on fresh instances (C01: every interleaving
\* of the hand-off, including the lazy setup); the per-repetition bag equality is judged by the harness
RaceStart ==
    /\ RaceReps > 0 /\ phase = "run" /\ steps = <<>>
    /\ cfg.n = MaxN /\ \A k \in Ks(cfg.c) : k <= cfg.k
    /\ started' = TRUE /\ rel' = (IF cfg.fn THEN Items ELSE rel) /\ held' = {}
    /\ nent' = (IF cfg.fn THEN cfg.n ELSE nent)
    /\ avail' = 0 /\ ngot' = (IF cfg.out > 0 THEN cfg.n ELSE ngot)
    /\ pend' = {} /\ ended' = Consumers /\ phase' = "over"
    /\ UNCHANGED <<cfg, closed, cancelled>>
    /\ Rec("race-start", RaceReps)

\* an unsynchronised stop against free-running consumers, repeated on fresh instances: whatever the
\* interleaving, every advance returns (without panicking) and nothing of the library remains
Race(mode) ==
    /\ AllowStop /\ RaceReps > 0 /\ phase = "run" /\ steps = <<>>
    \* the races are repeated many times: one configuration per construct (the largest) suffices
    /\ cfg.n = MaxN /\ \A k \in Ks(cfg.c) : k <= cfg.k
    /\ (mode = "race-close" => cfg.c \notin NoClose /\ cfg.out > 0)
    /\ started' = TRUE /\ phase' = "over"
    /\ closed' = (IF mode = "race-close" THEN Outs ELSE closed)
    /\ cancelled' = (mode = "race-cancel")
    /\ ended' = Consumers /\ pend' = {} /\ held' = {}
    /\ rel' = (IF cfg.fn THEN Items ELSE rel)
    /\ UNCHANGED <<cfg, nent, avail, ngot>>
    /\ Rec(mode, RaceReps)

Step == \/ \E c \in Consumers : Read(c)
        \/ FreeRun \/ RaceStart \/ Race("race-close") \/ Race("race-cancel")
        \/ Run
        \/ \E i \in Items : Release(i)
        \/ \E o \in Outs : Close(o)
        \/ Cancel \/ ReleaseAll \/ Finish

\* the last step of a bounded behaviour is a terminal one
Next == /\ Len(steps) < Depth
        /\ Step
        /\ (Len(steps) = Depth - 1) => phase' = "over"
Spec == Init /\ [][Next]_vars

(* ------------------------------------------------------------- sanity of the abstract spec *)
Inv == /\ held \subseteq 1..nent /\ (phase # "over" => rel \subseteq 1..nent) /\ held \cap rel = {}
       /\ nent <= cfg.n /\ ngot <= cfg.n /\ avail >= 0
       /\ (cfg.c \in Stage => ngot + avail <= Cardinality(rel))
       /\ Cardinality(held) <= cfg.k
       /\ pend \subseteq Consumers /\ pend \cap ended = {}
       \* NoStall at the abstract level: a blocked consumer always waits for a held user function
       /\ (pend # {} => held # {})

(* ------------------------------------------------------------- behaviour emission *)
Beh(s) == [cfg |-> cfg, steps |-> s]
\* all complete behaviours of at most Depth steps (BFS with `steps` in the state, or -simulate)
EmitAll  == phase # "over" \/ PrintT(<<"BEH", ToJson(Beh(steps))>>)
\* one shortest behaviour per terminal edge of the abstract state graph (VIEW hides `steps`)
EmitEdge == phase' = "over" => PrintT(<<"BEH", ToJson(Beh(steps'))>>)
=============================================================================
