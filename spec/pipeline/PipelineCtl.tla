---------------------------- MODULE PipelineCtl ----------------------------
(* Controllable projection of the pipeline constructs of tychoish/fun:        *)
(* the abstract, quiescence-stepped meaning of properties C01 and C04.        *)
(*                                                                            *)
(* Every action is ONE driver step of harness/cmd/vh-pipeline followed by      *)
(* "run to quiescence".  `hist` records the step together with the SETS OF     *)
(* ALLOWED OBSERVATIONS the properties permit at that quiescent point; TLC     *)
(* enumerates / simulates the schedules and prints them as JSON, the harness   *)
(* replays each against the real construct and only compares.                  *)
(*                                                                            *)
(* Driver steps:                                                              *)
(*   read c    consumer c issues one advance (ReadOne / Next) of its output     *)
(*             UNDER ITS OWN CONTEXT (every consumer has one, derived from the *)
(*             common parent)                                                  *)
(*   run       worker groups: invoke the Worker (ProcessParallel.Run, ...)     *)
(*   rel i     release the user function that is holding item i               *)
(*   brel S    BURST: release the user functions holding the items of S (two   *)
(*             or more) at the same instant - they leave a spin latch together *)
(*             (GOMAXPROCS raised for the burst), so their hand-offs / sends   *)
(*             into the shared pipe race; quiescence only after the burst.     *)
(*             arg = repetitions of the whole schedule on fresh instances      *)
(*             (the abstract outcome is that of the releases one by one)       *)
(*   close o   Close output o                                                  *)
(*   cancel 0  cancel the parent context (every consumer's, and Run's)         *)
(*   cancel c  cancel the context of consumer c only (constructs with several  *)
(*             consumers: Split outputs / concurrent ReadOne)                  *)
(*   relall    release every held user function (clean-up after a stop)        *)
(*   finish    release everything and drain every consumer to the end          *)
(*   freerun   (first and only step) no gates, no stepping: every user         *)
(*             function returns at once, every consumer drains concurrently    *)
(*   race-start  (first and only step) RaceReps fresh instances of an           *)
(*             undisturbed run whose advances are concurrent from the very     *)
(*             first one (two readers per output released together)            *)
(*   race-close / race-cancel  (first and only step) RaceReps fresh instances: *)
(*             free-running consumers against an unsynchronised Close of every *)
(*             output / cancellation - the real scheduler decides where the    *)
(*             stop lands, including inside the very first advance             *)
(*   race-fill-close / race-fill-cancel  (first and only step) FillReps fresh  *)
(*             instances of the race at the other end of the pipe: the input   *)
(*             is long compared with the pipe, every consumer takes one or two *)
(*             items and then stops WITHOUT reading on, so the stop lands      *)
(*             while several senders fill the pipe for the first time and      *)
(*             compete for its last free slots (user functions return at once) *)
(*                                                                            *)
(* Configuration dimensions beyond construct / n / k / cap:                    *)
(*   cb   "plain": user functions ignore their context and return when         *)
(*        released; "ctx": they respect it - a held function returns its       *)
(*        context's error as soon as that context is cancelled, and a call     *)
(*        made with an already cancelled context returns the error at once     *)
(*   opt  WorkerGroupConf options of the stage / group: a string over          *)
(*        e = ContinueOnError, p = ContinueOnPanic,                            *)
(*        c = IncludeContextExpirationErrors                                   *)
(*        (no user function fails on its own here, so the options can only     *)
(*        matter for what the library does with the context errors after a     *)
(*        stop: C04 demands the same termination for every combination)        *)
(*                                                                            *)
(*   ann  an operand (MergeIterators: operand ann) or the input iterator        *)
(*        (ann = 1) is ANNOTATED: it delivers every item and finishes          *)
(*        normally, but carries a recorded, non-fatal error, so its Close()    *)
(*        is non-nil.  annk = "adderr": Iterator.AddError before use;          *)
(*        annk = "mapcont": the operand is the output of an upstream Map in    *)
(*        ContinueOnError mode one of whose (extra) items failed.  Nothing     *)
(*        aborts such a run: C01 demands the same delivered multiset, so the   *)
(*        reference semantics does not look at ann at all (what happens to     *)
(*        the error itself is C03's business)                                  *)
(*                                                                            *)
(* Observations attached to a step (DESIGN.md 2.3a: always sets / bounds):      *)
(*   may    items whose output may have been delivered so far (upper bound:    *)
(*          for a transforming stage only items whose user function returned)  *)
(*   eofs   consumers that may have seen the end of their output so far        *)
(*          (C01: only after EVERY item was delivered, unless the run stopped) *)
(*   must   consumers whose advance must have returned by now: every consumer  *)
(*          that is not waiting for a held user function.  C04: after Close /  *)
(*          cancel of its own output / context ("returns promptly"), and - "a  *)
(*          finite input always leads to io.EOF (no deadlock)" - ALSO a        *)
(*          consumer whose own output and context are live while a sibling     *)
(*          was stopped: sources are finite and never block, so it gets an     *)
(*          item or the end                                                    *)
(*   live   the consumers among them whose own output is not closed and whose  *)
(*          own context is not cancelled (names the finding key)               *)
(*   run    worker groups: "must" = Run must have returned, "may" otherwise    *)
(*   leak   no library goroutine may remain (C04; premise per DESIGN.md 5.0:   *)
(*          input exhausted and drained, or Close on every output, or the      *)
(*          context of the first advance cancelled - which is what Close of    *)
(*          the output that MADE the first advance does to the context the     *)
(*          background work was started with - and no user function is held)   *)
(*   calls  upper bound on the number of user-function invocations the run can *)
(*          legitimately need in total (every item once, one end-of-input call *)
(*          per worker, one call per worker that meets the cancelled context)  *)
(*   full   the run completed undisturbed: delivered bag = input bag (C01)     *)
(*   stop   how the consumer stopped so far (names the finding key)            *)
(*                                                                            *)
(* The state below is the reference semantics that makes the schedules         *)
(* meaningful (which items are held in user functions after each step is       *)
(* deterministic for a sequential source: workers take items in input order).  *)
(* It refines the Impl specs at their quiescent states:                        *)
(*   must / NoStall + NoDeadlock, eofs / EofComplete, leak / AllDone,          *)
(*   must after stop / BlockedConsumerReleased, may / Conservation.            *)
(* Where the real run diverges from the reference (a release names an item     *)
(* that is not held) the replay is inconclusive, never a violation.            *)
(***************************************************************************)
EXTENDS Integers, Sequences, FiniteSets, TLC, Json

CONSTANTS Constructs,   \* subset of the construct names below
          MaxN, MaxK,   \* input sizes 0..MaxN, worker / output / source counts 1..MaxK
          AllowStop,    \* BOOLEAN: schedules may Close / cancel (C04); FALSE = undisturbed runs only (C01)
          RaceReps,     \* repetitions of an unsynchronised stop-versus-advance race per behaviour (0 = none)
          FillReps,     \* repetitions of a stop that lands while the senders fill the pipe (0 = none)
          MaxBurst,     \* burst releases per behaviour (0 = none)
          BurstReps,    \* repetitions of a schedule that contains a burst
          Opts,         \* option strings explored with context-respecting user functions ({} = none)
          Anns,         \* kinds of annotated operands / inputs explored ({} = none)
          Depth         \* maximal number of driver steps of a behaviour

Stage   == {"map", "gen", "pbufg"}                \* user function + output iterator
Group   == {"pp", "pfe", "worker"}                \* user function, no output (a Worker that is Run)
Passive == {"pbuf", "buffer", "split", "merge", "multiread",
            "chain", "mslices", "msiters", "bufchan", "dtmap", "adtmap"}
NoClose == {"bufchan"}                            \* output is a raw channel: it cannot be closed by the consumer
\* pbufg = the body of ParallelBuffer (ProcessParallel over a Blocking(chan, cap).Processor(), closed by a
\* PostHook, input closed by the output's hook) with a yield point in front of the send: several senders
\* on ONE BUFFERED pipe whose arrival the schedule controls

Min(a, b) == IF a < b THEN a ELSE b
Max(a, b) == IF a > b THEN a ELSE b

\* the configurations explored: construct, input size, width, buffer size, user-function kind, options
Ks(c)   == IF c = "buffer" \/ c = "bufchan" THEN {1}
           ELSE IF c \in {"dtmap", "adtmap"} THEN 1..3        \* Iterator / Keys / Values
           ELSE 1..MaxK
Caps(c) == IF c = "buffer" \/ c = "bufchan" THEN 0..2 ELSE IF c = "pbufg" THEN 1..2 ELSE {0}
Fns(c)  == {[opt |-> "", cb |-> "plain"]} \cup
           (IF c \in Stage \cup Group THEN {[opt |-> o, cb |-> "ctx"] : o \in Opts} ELSE {})
\* constructs that take an input iterator (or operands) which can be annotated
AnnInput == {"merge", "split", "buffer", "pbuf", "pbufg", "map", "pp", "pfe"}
AnnMax(c, k) == IF c = "merge" THEN k ELSE IF c \in AnnInput THEN 1 ELSE 0
\* the annotations explored for construct c of width k with n items: none, or operand / input a with kind x
AnnsOf(c, k, n) == {[ann |-> 0, annk |-> ""]} \cup
                   (IF n > 0 THEN {[ann |-> a, annk |-> x] : a \in 1..AnnMax(c, k), x \in Anns} ELSE {})
MkCfg(c, n, k, cap, f, a) ==
    [c |-> c, n |-> n, k |-> k, cap |-> cap, opt |-> f.opt, cb |-> f.cb, ann |-> a.ann, annk |-> a.annk,
     \* C01 demands input order for Buffer and for a single worker / source / output only
     ord |-> (c = "buffer") \/ (c \in {"map", "gen", "pbuf", "pbufg", "merge", "split"} /\ k = 1),
     fn  |-> c \in Stage \cup Group,
     out |-> IF c \in Group THEN 0 ELSE IF c = "split" THEN k ELSE 1]

VARIABLES cfg,        \* the configuration of this behaviour
          started,    \* the first advance / Run happened: background work exists
          first,      \* the consumer that made the first advance (0 = none yet): the background work runs
                      \* under the context of ITS output (Producer.WithCancel binds the first call's context)
          nent,       \* items 1..nent were handed to user functions
          held,       \* items whose user function has not returned
          rel,        \* items whose user function returned (normally)
          avail,      \* results computed but not yet received by the consumer (blocked sends + buffer)
          ngot,       \* number of items delivered to consumers
          pend,       \* consumers blocked in an advance
          ended,      \* consumers that saw the end of their output
          closed,     \* outputs on which Close was called
          cancelled,  \* the parent context is cancelled
          ccan,       \* consumers whose own context is cancelled
          nb,         \* burst releases so far
          phase,      \* "run" | "stopped" | "over"
          steps       \* the schedule with its allowed observations

vars == <<cfg, started, first, nent, held, rel, avail, ngot, pend, ended, closed, cancelled, ccan, nb, phase, steps>>
view == <<cfg, started, first, nent, held, rel, avail, ngot, pend, ended, closed, cancelled, ccan, nb, phase>>

Items     == 1..cfg.n
Outs      == 1..cfg.out
Consumers == IF cfg.c \in Group THEN {} ELSE IF cfg.c \in {"split", "multiread"} THEN 1..cfg.k ELSE {1}
OutOf(c)  == IF cfg.c = "split" THEN c ELSE 1
PipeCap   == IF cfg.c = "gen" THEN 2 * cfg.k + 1 ELSE IF cfg.c = "pbufg" THEN cfg.cap ELSE 0
CtxCb     == cfg.cb = "ctx"

\* (nested quantifiers rather than one big set of records: TLC enumerates them without building the set)
Init == /\ \E c \in Constructs, n \in 0..MaxN : \E k \in Ks(c), cap \in Caps(c), f \in Fns(c) :
             \E a \in AnnsOf(c, k, n) : /\ (a.ann > 0 => f.cb = "plain")
                                        /\ cfg = MkCfg(c, n, k, cap, f, a)
        /\ started = FALSE /\ first = 0 /\ nent = 0 /\ held = {} /\ rel = {} /\ avail = 0 /\ ngot = 0
        /\ pend = {} /\ ended = {} /\ closed = {} /\ cancelled = FALSE /\ ccan = {} /\ nb = 0
        /\ phase = "run" /\ steps = <<>>

(* ------------------------------------------------------------- observations *)

FillModes == {"race-fill-close", "race-fill-cancel"}
Stopped(cl, cn, cc) == cn \/ cl # {} \/ cc # {}
\* consumer c's own advance returns at once: its output is closed or its context is cancelled
Dead(c, cl, cn, cc) == cn \/ c \in cc \/ OutOf(c) \in cl
\* the context the background work was started with is cancelled
BgStopped(f, cl, cn, cc) == cn \/ (f # 0 /\ (f \in cc \/ OutOf(f) \in cl))
StopName(cl, cn, cc, en) ==
    IF cn /\ cl # {} THEN "close+cancel"
    ELSE IF cn THEN "cancel"
    ELSE IF cc # {} THEN (IF cl # {} THEN "close+cancel-some" ELSE "cancel-some")
    ELSE IF cl # {} THEN (IF cfg.out > 0 /\ cl = Outs THEN "close" ELSE "close-some")
    ELSE IF en # {} THEN "exhaust" ELSE ""

\* C04 premise (DESIGN.md 5.0): exhausted and drained / Close on every output / context of the first
\* advance cancelled (by the client, or by Close of the output that made the first advance)
Obliged(f, cl, cn, cc, en, ne, he) ==
    IF cfg.c \in Group THEN cn \/ (started' /\ ne = cfg.n /\ he = {})
    ELSE BgStopped(f, cl, cn, cc) \/ (cfg.out > 0 /\ cl = Outs) \/ (~Stopped(cl, cn, cc) /\ en # {})

Obs(op, arg, set) ==
    [op   |-> op, arg |-> arg, set |-> set,
     may  |-> IF cfg.c \in Stage THEN rel' ELSE IF cfg.c \in Group THEN {} ELSE Items,
     eofs |-> IF Stopped(closed', cancelled', ccan') THEN Consumers ELSE ended',
     must |-> Consumers \ pend',
     live |-> {c \in Consumers : ~Dead(c, closed', cancelled', ccan')},
     run  |-> IF cfg.c \in Group /\ started' /\ held' = {} /\ (cancelled' \/ nent' = cfg.n) THEN "must" ELSE "may",
     leak |-> Obliged(first', closed', cancelled', ccan', ended', nent', held') /\ held' = {},
     calls |-> cfg.n + 2 * cfg.k,
     full |-> op \in {"finish", "freerun"},
     stop |-> IF op \in {"finish", "freerun", "race-start"} THEN "exhaust"
              ELSE IF op \in FillModes THEN op
              ELSE StopName(closed', cancelled', ccan', ended')]

Rec(op, arg)        == steps' = Append(steps, Obs(op, arg, {}))
RecSet(op, arg, set) == steps' = Append(steps, Obs(op, arg, set))

(* ------------------------------------------------------------- reference semantics *)

\* idle workers take the next items of the input, in order
Refill(h, av, ne) ==
    LET idle == cfg.k - Cardinality(h) - Max(0, av - PipeCap)
        more == Min(cfg.n - ne, Max(0, idle))
    IN  [held |-> h \cup ((ne + 1)..(ne + more)), nent |-> ne + more]

\* consumer c issues one advance
Read(c) ==
    /\ phase # "over" /\ c \in Consumers /\ c \notin pend
    /\ IF c \in ended \/ Dead(c, closed, cancelled, ccan)
         THEN \* the output has ended for c / c was stopped: the advance returns the end at once, nothing starts
              /\ ended' = ended \cup {c}
              /\ UNCHANGED <<started, first, nent, held, avail, ngot, pend>>
         ELSE IF BgStopped(first, closed, cancelled, ccan)
         THEN \* a live sibling after the background work was stopped: the pipe was closed behind the
              \* reader, the advance returns (the end, or an item that was still in flight)
              /\ ended' = ended \cup {c}
              /\ UNCHANGED <<started, first, nent, held, avail, ngot, pend>>
         ELSE IF cfg.c \in Stage
         THEN LET f == IF started THEN [held |-> held, nent |-> nent] ELSE Refill(held, avail, nent) IN
              /\ started' = TRUE /\ first' = (IF first = 0 THEN c ELSE first)
              /\ IF avail > 0
                   THEN LET g == Refill(f.held, avail - 1, f.nent) IN
                        /\ avail' = avail - 1 /\ ngot' = ngot + 1
                        /\ held' = g.held /\ nent' = g.nent /\ UNCHANGED <<pend, ended>>
                   ELSE IF f.nent = cfg.n /\ f.held = {}
                   THEN /\ ended' = ended \cup {c} /\ held' = f.held /\ nent' = f.nent
                        /\ UNCHANGED <<avail, ngot, pend>>
                   ELSE /\ pend' = pend \cup {c} /\ held' = f.held /\ nent' = f.nent
                        /\ UNCHANGED <<avail, ngot, ended>>
         ELSE \* passive constructs over a finite, never-blocking source: an item while any is left, then the
              \* end (also after a sibling was stopped whose context the background work does not use)
              /\ started' = TRUE /\ first' = (IF first = 0 THEN c ELSE first)
              /\ IF ngot < cfg.n THEN ngot' = ngot + 1 /\ UNCHANGED ended
                                 ELSE ended' = ended \cup {c} /\ UNCHANGED ngot
              /\ UNCHANGED <<nent, held, avail, pend>>
    /\ UNCHANGED <<cfg, rel, closed, cancelled, ccan, nb, phase>>
    /\ Rec("read", c)

\* worker groups: Run the Worker
Run == /\ phase # "over" /\ cfg.c \in Group /\ ~started
       /\ started' = TRUE
       /\ IF cancelled THEN UNCHANGED <<held, nent>>
          ELSE LET f == Refill(held, 0, nent) IN held' = f.held /\ nent' = f.nent
       /\ UNCHANGED <<cfg, first, rel, avail, ngot, pend, ended, closed, cancelled, ccan, nb, phase>>
       /\ Rec("run", 0)

\* the user function holding item i returns
Release(i) ==
    /\ phase # "over" /\ i \in held
    /\ rel' = rel \cup {i}
    /\ IF Stopped(closed, cancelled, ccan)
         THEN held' = held \ {i} /\ UNCHANGED <<nent, avail, ngot, pend>>   \* its worker finds the run stopped and leaves
         ELSE IF cfg.c \in Group
         THEN LET f == Refill(held \ {i}, 0, nent) IN
              held' = f.held /\ nent' = f.nent /\ UNCHANGED <<avail, ngot, pend>>
         ELSE IF pend # {}
         THEN LET f == Refill(held \ {i}, avail, nent) IN        \* handed straight to the blocked consumer
              /\ pend' = {} /\ ngot' = ngot + 1 /\ held' = f.held /\ nent' = f.nent /\ UNCHANGED avail
         ELSE LET f == Refill(held \ {i}, avail + 1, nent) IN
              /\ avail' = avail + 1 /\ held' = f.held /\ nent' = f.nent /\ UNCHANGED <<ngot, pend>>
    /\ UNCHANGED <<cfg, started, first, ended, closed, cancelled, ccan, nb, phase>>
    /\ Rec("rel", i)

\* the user functions holding the items of S return at the same instant (no quiescence in between); the
\* abstract outcome is that of releasing them one by one: one result goes straight to a blocked consumer,
\* the others into the pipe (buffer, then blocked sends), and the freed workers take the next items
\* A burst is CONTENDED when more results arrive than the pipe has room for: the senders race for its
\* last free slot(s) and the losers stay behind as blocked senders.  The race is decided by the Go
\* scheduler, so a schedule with a contended burst is repeated: BurstReps times for a buffered pipe
\* (where "is there room" and "send" are separate steps of a sender), 3 times for a rendezvous.
BReps(a) == IF a > PipeCap THEN (IF PipeCap > 0 THEN BurstReps ELSE Min(3, BurstReps)) ELSE 1
ReleaseBurst(S) ==
    /\ phase = "run" /\ nb < MaxBurst /\ S \subseteq held /\ Cardinality(S) >= 2
    /\ rel' = rel \cup S /\ nb' = nb + 1
    /\ UNCHANGED <<cfg, started, first, ended, closed, cancelled, ccan, phase>>
    /\ IF cfg.c \in Group
         THEN LET f == Refill(held \ S, 0, nent) IN
              /\ held' = f.held /\ nent' = f.nent /\ UNCHANGED <<avail, ngot, pend>>
              /\ RecSet("brel", 1, S)
         ELSE LET d == IF pend # {} THEN 1 ELSE 0
                  a == avail + Cardinality(S) - d
                  f == Refill(held \ S, a, nent) IN
              /\ pend' = {} /\ ngot' = ngot + d /\ avail' = a /\ held' = f.held /\ nent' = f.nent
              /\ RecSet("brel", BReps(a), S)

\* a user function that respects its context returns once the stop cancelled that context
AfterStop(h) == IF CtxCb THEN {} ELSE h

\* Close output o (any number of times)
Close(o) ==
    /\ AllowStop /\ phase # "over" /\ cfg.c \notin NoClose /\ o \in Outs
    /\ closed' = closed \cup {o}
    /\ pend' = {c \in pend : OutOf(c) # o}                         \* a blocked consumer of o is released
    /\ ended' = ended \cup {c \in pend : OutOf(c) = o}
    \* constructs with a user function have one output: closing it cancels the workers' context
    /\ held' = (IF started /\ cfg.fn THEN AfterStop(held) ELSE held)
    /\ phase' = "stopped"
    /\ UNCHANGED <<cfg, started, first, nent, rel, avail, ngot, cancelled, ccan, nb>>
    /\ Rec("close", o)

\* cancel the parent context: every consumer's advance / the Worker runs with a context derived from it
Cancel ==
    /\ AllowStop /\ phase # "over" /\ ~cancelled
    /\ cancelled' = TRUE /\ pend' = {} /\ ended' = ended \cup pend /\ phase' = "stopped"
    /\ held' = (IF started THEN AfterStop(held) ELSE held)
    /\ UNCHANGED <<cfg, started, first, nent, rel, avail, ngot, closed, ccan, nb>>
    /\ Rec("cancel", 0)

\* cancel the context of ONE consumer (constructs whose outputs / readers have independent consumers)
CancelOne(c) ==
    /\ AllowStop /\ phase # "over" /\ ~cancelled /\ Cardinality(Consumers) > 1 /\ c \in Consumers \ ccan
    /\ ccan' = ccan \cup {c} /\ pend' = pend \ {c} /\ ended' = ended \cup (pend \cap {c}) /\ phase' = "stopped"
    /\ UNCHANGED <<cfg, started, first, nent, held, rel, avail, ngot, closed, cancelled, nb>>
    /\ Rec("cancel", c)

\* after a stop: release whatever is still held; ends the behaviour
ReleaseAll ==
    /\ phase = "stopped"
    /\ rel' = rel \cup held /\ held' = {} /\ phase' = "over"
    /\ UNCHANGED <<cfg, started, first, nent, avail, ngot, pend, ended, closed, cancelled, ccan, nb>>
    /\ Rec("relall", 0)

\* undisturbed completion: release everything, drain every consumer; ends the behaviour
Complete ==
    /\ started' = TRUE /\ rel' = (IF cfg.fn THEN Items ELSE rel) /\ held' = {}
    /\ first' = (IF first = 0 /\ Consumers # {} THEN 1 ELSE first)
    /\ nent' = (IF cfg.fn THEN cfg.n ELSE nent)
    /\ avail' = 0 /\ ngot' = (IF cfg.out > 0 THEN cfg.n ELSE ngot)
    /\ pend' = {} /\ ended' = Consumers /\ phase' = "over"
    /\ UNCHANGED <<cfg, closed, cancelled, ccan, nb>>

Finish ==
    /\ phase = "run" /\ (cfg.c \in Group => started)
    /\ Complete
    /\ Rec("finish", 0)

\* the same completion without any stepping: the interleaving is the real scheduler's
FreeRun ==
    /\ phase = "run" /\ steps = <<>>
    /\ Complete
    /\ Rec("freerun", 0)

\* undisturbed runs with concurrent first advances, repeated on fresh instances (C01: every interleaving
\* of the hand-off, including the lazy setup); the per-repetition bag equality is judged by the harness
RaceStart ==
    /\ RaceReps > 0 /\ phase = "run" /\ steps = <<>> /\ cfg.cb = "plain" /\ cfg.ann = 0
    /\ cfg.n = MaxN /\ \A k \in Ks(cfg.c) : k <= cfg.k
    /\ Complete
    /\ Rec("race-start", RaceReps)

\* an unsynchronised stop against free-running consumers, repeated on fresh instances: whatever the
\* interleaving, every advance returns (without panicking) and nothing of the library remains
\* where SEVERAL workers send into ONE BUFFERED pipe "is there room" and "send" can be told apart by a
\* second sender: that window is the narrowest of all, it gets ten times the repetitions
SharedBuffered == {"pbuf", "pbufg", "gen"}
FillArg == IF cfg.c \in SharedBuffered THEN 10 * FillReps ELSE FillReps
Race(mode) ==
    /\ AllowStop /\ phase = "run" /\ steps = <<>> /\ cfg.cb = "plain" /\ cfg.ann = 0
    /\ (IF mode \in FillModes THEN FillReps ELSE RaceReps) > 0
    \* the races are repeated many times: one configuration per construct (the largest) suffices
    /\ cfg.n = MaxN /\ \A k \in Ks(cfg.c) : k <= cfg.k
    /\ (mode \in {"race-close", "race-fill-close"} => cfg.c \notin NoClose /\ cfg.out > 0)
    /\ started' = TRUE /\ phase' = "over"
    /\ first' = (IF Consumers # {} THEN 1 ELSE first)
    /\ closed' = (IF mode \in {"race-close", "race-fill-close"} THEN Outs ELSE closed)
    /\ cancelled' = (mode \in {"race-cancel", "race-fill-cancel"})
    /\ ended' = Consumers /\ pend' = {} /\ held' = {}
    /\ rel' = (IF cfg.fn THEN Items ELSE rel)
    /\ UNCHANGED <<cfg, nent, avail, ngot, ccan, nb>>
    /\ Rec(mode, IF mode \in FillModes THEN FillArg ELSE RaceReps)

Step == \/ \E c \in Consumers : Read(c)
        \/ FreeRun \/ RaceStart \/ Race("race-close") \/ Race("race-cancel")
        \/ Race("race-fill-close") \/ Race("race-fill-cancel")
        \/ Run
        \/ \E i \in Items : Release(i)
        \/ \E S \in SUBSET held : ReleaseBurst(S)
        \/ \E o \in Outs : Close(o)
        \/ Cancel \/ ReleaseAll \/ Finish
        \/ \E c \in Consumers : CancelOne(c)

\* the last step of a bounded behaviour is a terminal one
Next == /\ Len(steps) < Depth
        /\ Step
        /\ (Len(steps) = Depth - 1) => phase' = "over"
Spec == Init /\ [][Next]_vars

(* ------------------------------------------------------------- sanity of the abstract spec *)
Inv == /\ held \subseteq 1..nent /\ (phase # "over" => rel \subseteq 1..nent) /\ held \cap rel = {}
       /\ nent <= cfg.n /\ ngot <= cfg.n /\ avail >= 0
       /\ (cfg.c \in Stage => ngot + avail <= Cardinality(rel))
       /\ Cardinality(held) <= cfg.k
       /\ pend \subseteq Consumers /\ pend \cap ended = {}
       \* NoStall / NoDeadlock at the abstract level: a blocked consumer always waits for a held user function
       /\ (pend # {} => held # {})
       /\ (first # 0 => first \in Consumers /\ started)
       /\ (ccan # {} => Cardinality(Consumers) > 1)

(* ------------------------------------------------------------- behaviour emission *)
Beh(s) == [cfg |-> cfg, steps |-> s]
\* all complete behaviours of at most Depth steps (BFS with `steps` in the state, or -simulate)
EmitAll  == phase # "over" \/ PrintT(<<"BEH", ToJson(Beh(steps))>>)
\* one shortest behaviour per terminal edge of the abstract state graph (VIEW hides `steps`)
EmitEdge == phase' = "over" => PrintT(<<"BEH", ToJson(Beh(steps'))>>)
=============================================================================
