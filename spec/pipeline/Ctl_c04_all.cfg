SPECIFICATION Spec
CONSTANTS
  Constructs = {"map", "pp", "pfe", "worker", "pbuf", "pbufg", "split", "buffer", "merge", "gen", "multiread", "chain", "mslices", "msiters", "bufchan", "dtmap", "adtmap"}
  MaxN = 2
  MaxK = 2
  AllowStop = TRUE
  RaceReps = 0
  FillReps = 0
  MaxBurst = 1
  BurstReps = 10
  Opts = {}
  Anns = {}
  Depth = 6
INVARIANT Inv
CONSTRAINT EmitAll
CHECK_DEADLOCK FALSE
