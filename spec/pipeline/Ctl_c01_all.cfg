SPECIFICATION Spec
CONSTANTS
  Constructs = {"map", "pp", "pfe", "worker", "pbuf", "pbufg", "split", "buffer", "merge", "gen", "multiread"}
  MaxN = 3
  MaxK = 2
  AllowStop = FALSE
  RaceReps = 0
  FillReps = 0
  MaxBurst = 1
  BurstReps = 3
  Opts = {}
  Anns = {"adderr", "mapcont"}
  Depth = 7
INVARIANT Inv
CONSTRAINT EmitAll
CHECK_DEADLOCK FALSE
