SPECIFICATION Spec
CONSTANTS
  Constructs = {"map", "pp", "pfe", "worker", "pbuf", "split", "buffer", "merge", "gen", "multiread"}
  MaxN = 3
  MaxK = 2
  AllowStop = FALSE
  RaceReps = 0
  Depth = 7
INVARIANT Inv
CONSTRAINT EmitAll
CHECK_DEADLOCK FALSE
