SPECIFICATION Spec
CONSTANTS
  Constructs = {"map", "pp", "pfe", "worker", "pbuf", "pbufg", "split", "buffer", "merge", "gen", "multiread", "chain", "mslices", "msiters", "bufchan", "dtmap", "adtmap"}
  MaxN = 8
  MaxK = 4
  AllowStop = TRUE
  RaceReps = 0
  FillReps = 0
  MaxBurst = 2
  BurstReps = 10
  Opts = {"", "e", "p", "c", "ep", "ec", "pc", "epc"}
  Anns = {}
  Depth = 30
INVARIANT Inv
CONSTRAINT EmitAll
CHECK_DEADLOCK FALSE
