SPECIFICATION Spec
CONSTANTS
  Constructs = {"map", "pp", "pfe", "worker", "pbuf", "split", "buffer", "merge", "gen", "multiread", "chain", "mslices", "msiters", "bufchan", "dtmap", "adtmap"}
  MaxN = 8
  MaxK = 4
  AllowStop = TRUE
  RaceReps = 0
  Depth = 30
INVARIANT Inv
CONSTRAINT EmitAll
CHECK_DEADLOCK FALSE
