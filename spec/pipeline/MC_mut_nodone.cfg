SPECIFICATION Spec
CONSTANTS
  MaxN = 3
  MaxK = 2
  HasCb = TRUE
  HasOut = TRUE
  OutCap = 0
  CloserSeesCtx = TRUE
  CloseOn = "wg"
  SendSelectsDone = FALSE
  FastPath = FALSE
INVARIANTS AllDone
PROPERTIES Settles
CHECK_DEADLOCK FALSE
