SPECIFICATION Spec
CONSTANTS
  MaxN = 3
  Cap = 1
  NoPostHook = FALSE
  SendSelectsDone = FALSE
INVARIANTS AllDone
PROPERTIES Settles
CHECK_DEADLOCK FALSE
