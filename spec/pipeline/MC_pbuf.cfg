SPECIFICATION Spec
CONSTANTS
  MaxN = 3
  MaxK = 2
  HasCb = FALSE
  HasOut = TRUE
  OutCap = 2
  CloserSeesCtx = FALSE
  CloseOn = "wg"
  SendSelectsDone = TRUE
  FastPath = FALSE
INVARIANTS TypeOK Conservation CloseAfterDrain SetupOnce EofComplete NoStall AllDone BlockedConsumerReleased RunReturns NoopCloseStartsNothing
PROPERTIES Settles CloseIdempotent LiveTerminates
CHECK_DEADLOCK FALSE
