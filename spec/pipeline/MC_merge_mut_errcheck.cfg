SPECIFICATION Spec
CONSTANTS
  MaxN = 3
  S = 2
  CloseOn = "wg"
  Ann = {1}
  ErrCheck = TRUE
INVARIANTS EofComplete
PROPERTIES Settles
CHECK_DEADLOCK FALSE
