SPECIFICATION Spec
CONSTANTS
  Construct = "gen"
  MaxN = 4
  MaxK = 3
  FKinds = {"err", "eof"}
  MaxFaults = 2
  OptSet <- OptsCont4
  AbortCancels = TRUE
  GenChecksCtx = TRUE
  GenEofByIs = FALSE
  ResolverSame = TRUE
  ExcludedConsulted = TRUE
  Mut = "none"
INVARIANTS TypeOK NothingSwallowed NeverReported NilIffNoFailure AtMostOnce ContinueAll AbortedWorkerStops AbortBound NoStall AllDone
PROPERTIES Settles
CHECK_DEADLOCK FALSE
