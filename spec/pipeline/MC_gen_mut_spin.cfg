SPECIFICATION Spec
CONSTANTS
  MaxN = 3
  MaxK = 2
  Cap = 1
  CloseOn = "wg"
  CtxGen = TRUE
  ContinueOnCtx = TRUE
  LoopChecksCtx = FALSE
INVARIANTS TypeOK
PROPERTIES Settles
CHECK_DEADLOCK FALSE
