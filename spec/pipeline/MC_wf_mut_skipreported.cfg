SPECIFICATION Spec
CONSTANTS
  Construct = "map"
  MaxN = 2
  MaxK = 1
  FKinds = {"skip"}
  MaxFaults = 1
  OptSet <- OptsCore
  AbortCancels = TRUE
  GenChecksCtx = TRUE
  GenEofByIs = FALSE
  ResolverSame = TRUE
  ExcludedConsulted = TRUE
  Mut = "skipreported"
INVARIANTS TypeOK NothingSwallowed NeverReported NilIffNoFailure AtMostOnce ContinueAll AbortedWorkerStops AbortBound NoStall AllDone
PROPERTIES Settles
CHECK_DEADLOCK FALSE
