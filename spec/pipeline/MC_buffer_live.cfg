SPECIFICATION LiveSpec
CONSTANTS
  MaxN = 4
  Cap = 2
  NoPostHook = FALSE
  SendSelectsDone = TRUE
INVARIANTS TypeOK Conservation EofComplete CloseAfterDrain NoStall AllDone BlockedConsumerReleased NoopCloseStartsNothing
PROPERTIES Terminates
CHECK_DEADLOCK FALSE
