------------------------------ MODULE WgErrCtl ------------------------------
(* Property C03, model -> code: controllable schedules for the worker groups   *)
(* of tychoish/fun with FAILING user functions, together with what the         *)
(* property (ErrContract!Contract) allows the real code to show.               *)
(*                                                                            *)
(* A behaviour is one run of one construct                                     *)
(*     pp      Iterator.ProcessParallel(...).Run                              *)
(*     pfe     itertool.ParallelForEach                                       *)
(*     worker  itertool.Worker (an iterator of fun.Worker functions)          *)
(*     map     fun.Map / Transform.ProcessParallel, output drained, Close()   *)
(*     gen     Producer.GenerateParallel, output drained, Close()             *)
(* over items 1..n with k workers, options o (ContinueOnError, ContinueOnPanic,*)
(* IncludeContextExpirationErrors, X in ExcludedErrors), a default or custom   *)
(* collector, and a script F: item -> failure kind.  The user function of      *)
(* every item is gated by the harness (harness/cmd/vh-wgerr); when released it *)
(* returns / panics as F says.                                                 *)
(*                                                                            *)
(* Driver steps (each followed by "run to quiescence"):                        *)
(*   start    start the run (and, for map / gen, a consumer that drains)       *)
(*   rel i    release the user function holding item i                         *)
(*   cancel m the caller cancels its context (m = 0) / the consumer closes the   *)
(*            output (m = 1, map / gen) while user functions are held; only      *)
(*            `drain` follows                                                    *)
(*   drain    release whatever is held, ONE AT A TIME, lowest item first, each *)
(*            followed by quiescence, until nothing is held and the run is     *)
(*            over; then take the result (returned error / Close())            *)
(* The prefix start, rel* is deterministic for a sequential source - workers   *)
(* take the items in input order - as long as every released failure is one    *)
(* the run must continue after; `held` is then the exact set of items whose    *)
(* user function must be running at the next quiescent point.  After a         *)
(* failure that must abort, the failing worker must not take another item      *)
(* (held = the others, exactly); what the OTHER workers do next is bounded,    *)
(* not determined, and after a failure the property does not classify          *)
(* (io.EOF, context error, ErrCurrentOpAbort, excluded error in abort mode)    *)
(* nothing about the continuation is determined: in both cases the only        *)
(* remaining step is `drain`.                                                  *)
(*                                                                            *)
(* What the property allows, printed with every behaviour (cfg):               *)
(*   faults    for every failing item: kind, report ("must" | "never" | "any"), *)
(*             cont ("must" | "mustnot" | "any"), need = the sentinels         *)
(*             errors.Is must find in the result once this failure has         *)
(*             occurred and report = must; carry = never-reported sentinels    *)
(*             that may be found after all once this failure occurred (the     *)
(*             value of a reported panic)                                      *)
(*   never     sentinels errors.Is must never find in the result               *)
(*   bound     after the first failure that must abort has returned (every     *)
(*             other user function being held), at most `bound` = k further    *)
(*             items may be started - not the rest of the input                *)
(*   full      every failure of the script is one the run must continue after: *)
(*             every item is processed exactly once (and every successful      *)
(*             item's output delivered exactly once)                           *)
(* The result must be nil iff no failure with report = "must" occurred (a      *)
(* failure with report = "any" decides nothing).  The harness only folds these *)
(* tables over the failures that actually occurred; the recorded history of    *)
(* every replay is judged once more, by TLC, against WgErrTrace.tla.           *)
(***************************************************************************)
EXTENDS ErrContract

CONSTANTS Constructs,    \* subset of {"pp", "pfe", "worker", "map", "gen"}
          Ns, Ks,        \* input sizes / worker counts explored
          FKinds,        \* failure kinds injected
          MaxFaults,     \* at most this many failing items ...
          MaxFaultPos,   \* ... at positions 1..MaxFaultPos
          OptSet,        \* subset of Opts
          Colls,         \* subset of {"default", "custom"}
          CancelModes,   \* subset of {0, 1}: 0 = the caller's context is cancelled, 1 = the consumer closes the output
                         \* (map / gen only); {} = schedules without a cancel step
          Depth          \* maximal number of driver steps

Min(a, b) == IF a < b THEN a ELSE b

VARIABLES cfg,       \* [c, n, k, o, coll, F]
          started, nent, held,
          phase,     \* "run" | "abort" (a failure that must abort was released) | "open" (an unclassified one) |
                     \* "cancelled" / "closed" (the caller cancelled / the consumer closed the output) | "over"
          steps
vars == <<cfg, started, nent, held, phase, steps>>
view == <<cfg, started, nent, held, phase>>

\* the configuration is chosen in two stages so that the set of initial states stays small (simulation):
\* construct / size / options here, the failing items by SetFault steps before the run starts
Init == /\ cfg \in {[c |-> c, n |-> nn, k |-> kk, o |-> oo, coll |-> cl, F |-> [i \in 1..nn |-> "ok"]] :
                      c \in Constructs, nn \in Ns, kk \in Ks, oo \in OptSet, cl \in Colls}
        /\ started = FALSE /\ nent = 0 /\ held = {} /\ phase = "run" /\ steps = <<>>

Faulty == {i \in 1..cfg.n : cfg.F[i] # "ok"}
\* item i fails with `kind` (positions are chosen in increasing order: every script is built exactly once)
SetFault(i, kind) == /\ ~started /\ Cardinality(Faulty) < MaxFaults /\ i <= MaxFaultPos
                     /\ \A j \in Faulty : j < i
                     /\ cfg' = [cfg EXCEPT !.F[i] = kind]
                     /\ UNCHANGED <<started, nent, held, phase, steps>>

Cont(i) == Contract(cfg.F[i], cfg.o).cont
Rep(i)  == Contract(cfg.F[i], cfg.o).report

\* idle workers take the next items of the input, in order
Refill(h, ne) == LET more == Min(cfg.n - ne, cfg.k - Cardinality(h))
                 IN  [held |-> h \cup ((ne + 1)..(ne + more)), nent |-> ne + more]

Group == {"pp", "pfe", "worker"}       \* Run(ctx) promises to wait for its workers
\* run: "blocked" = the Run of a worker group must not have returned yet (a user function is still out)
Rec(op, arg, chk) == steps' = Append(steps, [op |-> op, arg |-> arg, chk |-> chk, held |-> held',
                        run |-> IF op = "cancel" /\ cfg.c \in Group /\ held' # {} THEN "blocked" ELSE "any"])

Start == /\ phase = "run" /\ ~started
         /\ started' = TRUE
         /\ LET f == Refill({}, 0) IN held' = f.held /\ nent' = f.nent
         /\ UNCHANGED <<cfg, phase>>
         /\ Rec("start", 0, TRUE)

Release(i) ==
    /\ phase = "run" /\ started /\ i \in held
    /\ IF Cont(i) = "must"
         THEN LET f == Refill(held \ {i}, nent) IN held' = f.held /\ nent' = f.nent /\ UNCHANGED phase
         ELSE /\ held' = held \ {i} /\ UNCHANGED nent       \* the failing worker takes nothing more (checked iff mustnot)
              /\ phase' = IF Cont(i) = "mustnot" THEN "abort" ELSE "open"
    /\ UNCHANGED <<cfg, started>>
    /\ Rec("rel", i, Cont(i) # "any")

\* the caller cancels the context it runs the group / reads the output with (mode 0), or the consumer closes the
\* output (mode 1), while at least one user function is held.  Nothing new may start; the held functions stay out;
\* a worker group's Run must still be blocked (it waits for its workers); what they return when released by the
\* final drain is still a failure of the processing function and must be reported.
Cancel(m) == /\ phase = "run" /\ started /\ held # {} /\ m \in CancelModes
             /\ (m = 1 => cfg.c \notin Group)
             /\ phase' = (IF m = 0 THEN "cancelled" ELSE "closed") /\ UNCHANGED <<cfg, started, nent, held>>
             /\ Rec("cancel", m, TRUE)

Drain == /\ phase # "over" /\ started
         /\ phase' = "over" /\ held' = {} /\ UNCHANGED <<cfg, started, nent>>
         /\ Rec("drain", 0, TRUE)

Step == Start \/ Drain \/ (\E i \in 1..cfg.n : Release(i)) \/ \E m \in CancelModes : Cancel(m)
Next == \/ \E i \in 1..cfg.n, kind \in FKinds : SetFault(i, kind)
        \/ /\ Len(steps) < Depth /\ Step
           /\ (Len(steps) = Depth - 1) => phase' = "over"
Spec == Init /\ [][Next]_vars

Inv == /\ held \subseteq 1..nent /\ nent <= cfg.n /\ Cardinality(held) <= cfg.k
       /\ (phase = "run" /\ started /\ nent < cfg.n) => Cardinality(held) = cfg.k

(* ------------------------------------------------------------- what the property allows *)
Name(s, i) == IF s = "E" THEN "E" \o ToString(i) ELSE s
ItemRow(i) == [item |-> i, kind |-> cfg.F[i], report |-> Rep(i), cont |-> Cont(i),
               need |-> {Name(s, i) : s \in Need(cfg.F[i])}, carry |-> MayCarry(cfg.F[i])]
Cancelled(s) == \E j \in 1..Len(s) : s[j].op = "cancel"
Beh(s) == [cfg   |-> [c |-> cfg.c, n |-> cfg.n, k |-> cfg.k, coe |-> cfg.o.coe, cop |-> cfg.o.cop, inc |-> cfg.o.inc,
                      exc |-> cfg.o.exc, coll |-> cfg.coll, kinds |-> cfg.F,
                      faults |-> {ItemRow(i) : i \in Faulty},
                      never |-> NeverFound(cfg.o),
                      bound |-> cfg.k,
                      \* a cancelled run need not process everything; with IncludeContextExpirationErrors the
                      \* cancellation itself may be reported, so "nil iff no failure" is judged only without it
                      full  |-> (\A i \in 1..cfg.n : Cont(i) = "must") /\ ~Cancelled(s),
                      nilok |-> ~(Cancelled(s) /\ cfg.o.inc)],
           steps |-> s]

\* all complete behaviours of at most Depth steps (BFS with `steps` in the state, or -simulate)
EmitAll  == phase # "over" \/ PrintT(<<"BEH", ToJson(Beh(steps))>>)
\* one shortest behaviour per terminal edge of the abstract state graph (VIEW hides `steps`)
EmitEdge == phase' = "over" => PrintT(<<"BEH", ToJson(Beh(steps'))>>)

(* ------------------------------------------------------------- option sets for the cfg files *)
OptsAll   == Opts
OptsCore  == {x \in Opts : ~x.inc /\ ~x.exc}
OptsAbort == {x \in Opts : ~x.coe /\ ~x.cop /\ ~x.inc /\ ~x.exc}
OptsNoExc == {x \in Opts : ~x.exc}
=============================================================================
