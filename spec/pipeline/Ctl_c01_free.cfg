SPECIFICATION Spec
CONSTANTS
  Constructs = {"map", "pp", "pfe", "worker", "pbuf", "split", "buffer", "merge", "gen", "multiread"}
  MaxN = 24
  MaxK = 6
  AllowStop = FALSE
  RaceReps = 0
  Depth = 1
INVARIANT Inv
CONSTRAINT EmitAll
CHECK_DEADLOCK FALSE
