SPECIFICATION Spec
CONSTANTS
  Constructs = {"map", "pp", "pfe", "worker", "pbuf", "pbufg", "split", "buffer", "merge", "gen", "multiread"}
  MaxN = 24
  MaxK = 6
  AllowStop = FALSE
  RaceReps = 0
  FillReps = 0
  MaxBurst = 0
  BurstReps = 1
  Opts = {}
  Anns = {"adderr", "mapcont"}
  Depth = 1
INVARIANT Inv
CONSTRAINT EmitAll
CHECK_DEADLOCK FALSE
