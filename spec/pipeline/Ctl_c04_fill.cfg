SPECIFICATION Spec
CONSTANTS
  Constructs = {"map", "pp", "pfe", "worker", "pbuf", "pbufg", "split", "buffer", "merge", "gen", "multiread", "chain", "mslices", "msiters", "bufchan", "dtmap", "adtmap"}
  MaxN = 12
  MaxK = 3
  AllowStop = TRUE
  RaceReps = 0
  FillReps = 10000
  MaxBurst = 0
  BurstReps = 1
  Opts = {}
  Anns = {}
  Depth = 1
INVARIANT Inv
CONSTRAINT EmitAll
CHECK_DEADLOCK FALSE
