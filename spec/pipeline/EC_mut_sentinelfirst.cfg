SPECIFICATION Spec
CONSTANTS
  ExcludedConsulted = TRUE
  Mut = "sentinelfirst"
INVARIANT Refines
CONSTRAINT Emit
CHECK_DEADLOCK FALSE
