SPECIFICATION Spec
CONSTANTS
  MaxN = 4
  MaxK = 3
  HasCb = FALSE
  HasOut = TRUE
  OutCap = 2
  CloserSeesCtx = FALSE
  CloseOn = "wg"
  SendSelectsDone = TRUE
  FastPath = FALSE
INVARIANTS TypeOK Conservation CloseAfterDrain SetupOnce EofComplete NoStall AllDone BlockedConsumerReleased RunReturns NoopCloseStartsNothing
PROPERTIES Settles CloseIdempotent LiveTerminates
CHECK_DEADLOCK FALSE
