SPECIFICATION Spec
CONSTANTS
  Constructs = {"map", "pp", "pfe", "worker", "pbuf", "pbufg", "split", "buffer", "merge", "gen", "multiread", "chain", "mslices", "msiters", "bufchan", "dtmap", "adtmap"}
  MaxN = 3
  MaxK = 2
  AllowStop = TRUE
  RaceReps = 0
  FillReps = 0
  MaxBurst = 1
  BurstReps = 10
  Opts = {"ec"}
  Anns = {}
  Depth = 12
INVARIANT Inv
VIEW view
ACTION_CONSTRAINT EmitEdge
CHECK_DEADLOCK FALSE
