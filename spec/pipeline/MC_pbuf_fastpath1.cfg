SPECIFICATION Spec
CONSTANTS
  MaxN = 3
  MaxK = 1
  HasCb = FALSE
  HasOut = TRUE
  OutCap = 2
  CloserSeesCtx = FALSE
  CloseOn = "wg"
  SendSelectsDone = TRUE
  FastPath = TRUE
INVARIANTS TypeOK Conservation CloseAfterDrain EofComplete NoStall AllDone BlockedConsumerReleased
PROPERTIES Settles
CHECK_DEADLOCK FALSE
