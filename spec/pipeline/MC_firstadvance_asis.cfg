SPECIFICATION Spec
CONSTANTS
  Fixed = FALSE
  Readers = {r1, r2}
INVARIANTS NoPanic ReleasedByClose NeverNilCtx
CHECK_DEADLOCK FALSE
