SPECIFICATION Spec
CONSTANTS
  MaxN = 3
  MaxK = 2
  Cap = 1
  CloseOn = "wg"
  CtxGen = TRUE
  ContinueOnCtx = FALSE
  LoopChecksCtx = FALSE
INVARIANTS TypeOK Conservation CloseAfterDrain EofComplete NoStall AllDone BlockedConsumerReleased NoopCloseStartsNothing
PROPERTIES Settles LiveTerminates
CHECK_DEADLOCK FALSE
