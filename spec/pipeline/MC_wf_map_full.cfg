SPECIFICATION Spec
CONSTANTS
  Construct = "map"
  MaxN = 3
  MaxK = 2
  FKinds = {"err", "panicErr", "skip", "eof", "ctx", "excl", "panicW_EOF", "panicW_SKIP"}
  MaxFaults = 2
  OptSet <- OptsAll
  AbortCancels = TRUE
  GenChecksCtx = TRUE
  GenEofByIs = FALSE
  ResolverSame = TRUE
  ExcludedConsulted = TRUE
  Mut = "none"
INVARIANTS TypeOK NothingSwallowed NeverReported NilIffNoFailure AtMostOnce ContinueAll AbortedWorkerStops AbortBound NoStall AllDone
PROPERTIES Settles
CHECK_DEADLOCK FALSE
