#!/bin/sh
# Regenerates the cfg files of the C03 specs (ErrContractMC, WorkersFault, WgErrCtl, WgErrTrace).
# Run inside spec/pipeline.  The cfg files are committed; this script documents how they were made.
set -e
K6='{"err", "panicErr", "skip", "eof", "ctx", "excl", "panicW_EOF", "panicW_SKIP"}'
# panic(v), v is / wraps a sentinel the worker groups give a meaning of their own (one kind per sentinel)
PW='"panicW_EOF", "panicW_SKIP", "panicW_CTX", "panicW_X", "panicW_ABORT"'
KALL='{"err", "wrapped", "panicErr", "panicStr", "panicOther", "skip", "eof", "abort", "ctx", "excl", '"$PW"'}'
ALLC='{"pp", "pfe", "worker", "map", "gen"}'

# ---- ErrContractMC: the option x kind matrix ------------------------------------------------
ec() { # name excludedConsulted mut
cat > $1 <<EOF
SPECIFICATION Spec
CONSTANTS
  ExcludedConsulted = $2
  Mut = "$3"
INVARIANT Refines
CONSTRAINT Emit
CHECK_DEADLOCK FALSE
EOF
}
ec EC_fixed.cfg TRUE none
ec EC_asis.cfg FALSE none            # as pinned: ExcludedErrors is never consulted -> Refines violated
for m in nohandler swap ctxdefault nopanicjoin skipreported sentinelfirst ctxfirst; do ec EC_mut_$m.cfg TRUE $m; done

# ---- WorkersFault: implementation-shaped worker group with failing user functions -----------
wf() { # name construct maxn maxk fkinds maxfaults optset abortCancels genChecksCtx resolverSame excludedConsulted mut spec property
cat > $1 <<EOF
SPECIFICATION ${13}
CONSTANTS
  Construct = "$2"
  MaxN = $3
  MaxK = $4
  FKinds = $5
  MaxFaults = $6
  OptSet <- $7
  AbortCancels = $8
  GenChecksCtx = $9
  GenEofByIs = ${GENEOF:-FALSE}
  ResolverSame = ${10}
  ExcludedConsulted = ${11}
  Mut = "${12}"
INVARIANTS TypeOK NothingSwallowed NeverReported NilIffNoFailure AtMostOnce ContinueAll AbortedWorkerStops AbortBound NoStall AllDone
PROPERTIES ${14}
CHECK_DEADLOCK FALSE
EOF
}
for c in pp map gen; do
  wf MC_wf_$c.cfg        $c 3 2 "$K6"   1 OptsCore TRUE TRUE TRUE TRUE none Spec Settles        # quick
  wf MC_wf_${c}_full.cfg  $c 3 2 "$K6"   2 OptsAll  TRUE TRUE TRUE TRUE none Spec Settles       # thorough: pairs of failures
  wf MC_wf_${c}_kinds.cfg $c 3 2 "$KALL" 1 OptsAll  TRUE TRUE TRUE TRUE none Spec Settles       # thorough: every kind
  wf MC_wf_${c}_wide.cfg  $c 4 3 '{"err", "eof"}' 2 OptsCont4 TRUE TRUE TRUE TRUE none Spec Settles
  wf MC_wf_${c}_live.cfg  $c 3 2 "$K6"   2 OptsCore TRUE TRUE TRUE TRUE none LiveSpec Terminates
  # as pinned: abort never cancels the group -> the other workers consume the input
  wf MC_wf_${c}_asis_abort.cfg $c 5 2 '{"err"}' 1 OptsAbort FALSE FALSE TRUE TRUE none Spec Settles
done
# cancelling alone does not stop GenerateParallel: the generator is called without a context check
wf MC_wf_gen_asis_noctxcheck.cfg gen 5 2 '{"err"}' 1 OptsAbort TRUE FALSE TRUE TRUE none Spec Settles
# as committed in 4f757ff: a recovered panic whose value is / wraps io.EOF counts as "the generator is done"
GENEOF=TRUE wf MC_wf_gen_asis_paniceof.cfg gen 5 2 '{"panicW_EOF"}' 1 OptsAbort TRUE TRUE TRUE TRUE none Spec Settles
# as pinned: ExcludedErrors never consulted
wf MC_wf_asis_excl.cfg pp 2 1 '{"excl"}' 1 OptsAll TRUE TRUE TRUE FALSE none Spec Settles
# seeded mutations (non-vacuity self-tests; model-level counterparts of run/mutants/C03)
wf MC_wf_mut_resolver.cfg     pp  2 2 '{"err"}'      1 OptsCore TRUE TRUE FALSE TRUE none         Spec Settles
wf MC_wf_mut_swap.cfg         map 3 2 '{"err"}'      1 OptsCore TRUE TRUE TRUE  TRUE swap         Spec Settles
wf MC_wf_mut_nohandler.cfg    gen 2 2 '{"panicStr"}' 1 OptsCore TRUE TRUE TRUE  TRUE nohandler    Spec Settles
wf MC_wf_mut_ctxdefault.cfg   pp  2 1 '{"ctx"}'      1 OptsAll  TRUE TRUE TRUE  TRUE ctxdefault   Spec Settles
wf MC_wf_mut_skipreported.cfg map 2 1 '{"skip"}'     1 OptsCore TRUE TRUE TRUE  TRUE skipreported Spec Settles
# the order of the classification switch: sentinel cases before the panic cases (a panic whose value is / wraps
# io.EOF, ErrIteratorSkip or a context error is then swallowed, or continued after in abort mode)
wf MC_wf_mut_sentinelfirst_eof.cfg  pp  2 1 '{"panicW_EOF"}'  1 OptsCore TRUE TRUE TRUE TRUE sentinelfirst Spec Settles
wf MC_wf_mut_sentinelfirst_skip.cfg map 3 2 '{"panicW_SKIP"}' 1 OptsAbort TRUE TRUE TRUE TRUE sentinelfirst Spec Settles
wf MC_wf_mut_ctxfirst.cfg           gen 2 2 '{"panicW_CTX"}'  1 OptsCore TRUE TRUE TRUE TRUE ctxfirst      Spec Settles
wf MC_wf_mut_nopanicjoin.cfg  pp  2 1 '{"panicErr"}' 1 OptsAbort TRUE TRUE TRUE  TRUE nopanicjoin  Spec Settles

# ---- WgErrCtl: controllable schedules ---------------------------------------------------------
NOCANCEL='{}'
ctl() { # name constructs Ns Ks fkinds maxfaults maxpos optset colls depth emission
cat > $1 <<EOF
SPECIFICATION Spec
CONSTANTS
  Constructs = $2
  Ns = $3
  Ks = $4
  FKinds = $5
  MaxFaults = $6
  MaxFaultPos = $7
  OptSet <- $8
  Colls = $9
  CancelModes = ${CANCEL:-$NOCANCEL}
  Depth = ${10}
  ExcludedConsulted = TRUE
  Mut = "none"
INVARIANT Inv
${11}
CHECK_DEADLOCK FALSE
EOF
}
EDGE='VIEW view
ACTION_CONSTRAINT EmitEdge'
ALL='CONSTRAINT EmitAll'
# the full option x kind x collector matrix on every construct: one worker, three items, the failure anywhere
ctl Ctl_wg_matrix.cfg "$ALLC" '{3}' '{1}' "$KALL" 1 3 OptsAll '{"default", "custom"}' 2 "$ALL"
# who is held where: every reachable (fault script, held set), one shortest schedule per terminal edge
ctl Ctl_wg_edge.cfg '{"pp", "map", "gen"}' '{0, 1, 2, 3, 4}' '{1, 2, 3}' '{"err", "skip", "eof"}' 2 4 OptsCore '{"default"}' 8 "$EDGE"
ctl Ctl_wg_edge_full.cfg "$ALLC" '{0, 1, 2, 3, 4, 5}' '{1, 2, 3}' '{"err", "panicErr", "skip", "eof", "excl", "panicW_EOF"}' 2 5 OptsCore '{"default"}' 9 "$EDGE"
# the abort bound: inputs long enough for "k more items" and "the rest of the input" to differ (n >= 2k+1)
ctl Ctl_wg_abort.cfg "$ALLC" '{5, 6, 7, 8}' '{2, 3}' '{"err", "wrapped", "panicErr", "panicStr", "panicOther", "panicW_SKIP", "panicW_EOF"}' 1 3 OptsAbort '{"default", "custom"}' 6 "$EDGE"
# caller cancel / consumer Close while user functions are held, then the held ones fail (err, wrapped, panicErr)
CANCEL='{0, 1}' ctl Ctl_wg_cancel.cfg "$ALLC" '{2, 3, 4}' '{2, 3}' '{"err", "wrapped", "panicErr"}' 2 3 OptsNoExc '{"default"}' 5 "$EDGE"
# random schedules (tlc -simulate)
ctl Ctl_wg_sim.cfg "$ALLC" '{0, 1, 2, 3, 4, 5, 6, 7, 8}' '{1, 2, 3, 4}' "$KALL" 2 8 OptsAll '{"default", "custom"}' 12 "$ALL"

# ---- WgErrTrace: trace validation ---------------------------------------------------------------
cat > WgTrace.cfg <<EOF
SPECIFICATION Spec
CONSTANTS
  ExcludedConsulted = TRUE
  Mut = "none"
CONSTRAINT HighWater
POSTCONDITION Accepted
CHECK_DEADLOCK FALSE
EOF
