SPECIFICATION Spec
CONSTANTS
  MaxN = 3
  S = 2
  CloseOn = "first"
INVARIANTS EofComplete
PROPERTIES Settles
CHECK_DEADLOCK FALSE
