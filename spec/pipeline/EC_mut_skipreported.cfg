SPECIFICATION Spec
CONSTANTS
  ExcludedConsulted = TRUE
  Mut = "skipreported"
INVARIANT Refines
CONSTRAINT Emit
CHECK_DEADLOCK FALSE
