SPECIFICATION Spec
CONSTANTS
  Constructs = {"map", "pp", "pfe", "worker", "pbuf", "pbufg", "split", "buffer", "merge", "gen", "multiread"}
  MaxN = 8
  MaxK = 4
  AllowStop = FALSE
  RaceReps = 0
  FillReps = 0
  MaxBurst = 2
  BurstReps = 3
  Opts = {}
  Anns = {"adderr", "mapcont"}
  Depth = 30
INVARIANT Inv
CONSTRAINT EmitAll
CHECK_DEADLOCK FALSE
