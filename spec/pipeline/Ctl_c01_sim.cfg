SPECIFICATION Spec
CONSTANTS
  Constructs = {"map", "pp", "pfe", "worker", "pbuf", "split", "buffer", "merge", "gen", "multiread"}
  MaxN = 8
  MaxK = 4
  AllowStop = FALSE
  RaceReps = 0
  Depth = 30
INVARIANT Inv
CONSTRAINT EmitAll
CHECK_DEADLOCK FALSE
