SPECIFICATION Spec
CONSTANTS
  Constructs = {"pp", "pfe", "worker", "map", "gen"}
  Ns = {0, 1, 2, 3, 4, 5}
  Ks = {1, 2, 3}
  FKinds = {"err", "panicErr", "skip", "eof", "excl", "panicW_EOF"}
  MaxFaults = 2
  MaxFaultPos = 5
  OptSet <- OptsCore
  Colls = {"default"}
  Depth = 9
  ExcludedConsulted = TRUE
  Mut = "none"
INVARIANT Inv
VIEW view
ACTION_CONSTRAINT EmitEdge
CHECK_DEADLOCK FALSE
