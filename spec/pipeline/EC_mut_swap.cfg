SPECIFICATION Spec
CONSTANTS
  ExcludedConsulted = TRUE
  Mut = "swap"
INVARIANT Refines
CONSTRAINT Emit
CHECK_DEADLOCK FALSE
