SPECIFICATION Spec
CONSTANTS
  Construct = "pp"
  MaxN = 2
  MaxK = 1
  FKinds = {"panicW_EOF"}
  MaxFaults = 1
  OptSet <- OptsCore
  AbortCancels = TRUE
  GenChecksCtx = TRUE
  GenEofByIs = FALSE
  ResolverSame = TRUE
  ExcludedConsulted = TRUE
  Mut = "sentinelfirst"
INVARIANTS TypeOK NothingSwallowed NeverReported NilIffNoFailure AtMostOnce ContinueAll AbortedWorkerStops AbortBound NoStall AllDone
PROPERTIES Settles
CHECK_DEADLOCK FALSE
