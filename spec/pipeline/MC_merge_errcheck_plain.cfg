SPECIFICATION Spec
CONSTANTS
  MaxN = 3
  S = 2
  CloseOn = "wg"
  Ann = {}
  ErrCheck = TRUE
INVARIANTS TypeOK Conservation CloseAfterDrain EofComplete PerSourceOrder NoStall AllDone BlockedConsumerReleased NoopCloseStartsNothing
PROPERTIES Settles LiveTerminates
CHECK_DEADLOCK FALSE
