SPECIFICATION Spec
CONSTANTS
  ExcludedConsulted = TRUE
  Mut = "none"
CONSTRAINT HighWater
POSTCONDITION Accepted
CHECK_DEADLOCK FALSE
