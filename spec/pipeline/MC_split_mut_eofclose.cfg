SPECIFICATION Spec
CONSTANTS
  MaxN = 2
  M = 2
  MaxR = 1
  OnceSetup = TRUE
  CloseOn = "eof"
INVARIANTS NoDeadlock
PROPERTIES Settles
CHECK_DEADLOCK FALSE
