------------------------------ MODULE Workers ------------------------------
(* Implementation-shaped specification of the parallel worker stage of       *)
(* tychoish/fun, on Go channel / WaitGroup / Once / context idioms           *)
(* (DESIGN.md 3.1, Appendix A).  One module, three instantiations:           *)
(*                                                                           *)
(*   Map (NumWorkers = K)     transform.go:76-117   HasCb, HasOut, OutCap=0,  *)
(*                                                  CloserSeesCtx            *)
(*   ProcessParallel          iterator.go:536-575   HasCb, ~HasOut           *)
(*     (= itertool.ParallelForEach / itertool.Worker, itertool.go:51-76)     *)
(*   ParallelBuffer(n)        iterator.go:605-609   ~HasCb, HasOut, OutCap=n, *)
(*                                                  ~CloserSeesCtx           *)
(*                                                                           *)
(* Goroutines and the lines they model:                                      *)
(*   reader   Split's setup, iterator.go:352-356 + process.go:345-365:       *)
(*            loop { item := source.ReadOne(ctx); pipe.Write(ctx,item) };    *)
(*            PostHook(pipe.Close).  Started exactly once (Operation.Once,   *)
(*            operation.go:59-62) by the first worker that advances its      *)
(*            split output.                                                  *)
(*   worker w transform.go:94-103,288-306 / iterator.go:563-568:             *)
(*            loop { item := split[w].ReadOne(ctx)        (pipe receive,     *)
(*                                                  chan.go:216-231)         *)
(*                   v := userfn(item)                    (External return)  *)
(*                   out.Write(ctx, v) }                  (chan.go:340-358)  *)
(*            PostHook(wg.Done)                           (sync.go:95-98)    *)
(*   closer   transform.go:108-110: wg.Wait(ictx); wcancel(); close(out)     *)
(*            (ParallelBuffer: the goroutine running ProcessParallel,        *)
(*            iterator.go:571 wg.Wait(Background), then PostHook(buf.Close)) *)
(*   consumer the caller of ReadOne/Close on the output iterator             *)
(*            (iterator.go:169-177,231-258; producer.go:264-288,367-377)     *)
(*                                                                           *)
(* Contexts: p = the context the consumer passes to its advances; i = the    *)
(* iterator's cancellable context, created by Producer.WithCancel from the   *)
(* context of the FIRST advance (producer.go:367-377) - a Close before any   *)
(* advance consumes the once and is a no-op on it; w = the workers' context  *)
(* derived from i inside init (transform.go:93).  The per-split-output       *)
(* contexts derived from w are folded into w: split[w]'s context is          *)
(* cancelled only by worker w's own failing ReadOne, i.e. after the pipe was *)
(* closed (the reader is done) or when w is already cancelled.               *)
(*                                                                           *)
(* The consumer's Read / Close are atomic here; the interleaving of a Close    *)
(* with the ENTRY of the first ReadOne (closer.state check vs. the WithCancel *)
(* once) is modelled separately in FirstAdvance.tla.                          *)
(*                                                                           *)
(* Unbuffered channels are rendezvous actions (Handoff); select with         *)
(* ctx.Done() adds an alternative enabled once the context is done; a send   *)
(* on a closed channel is the recovered panic of chan.go:341-345 (-> io.EOF, *)
(* the item is dropped).                                                     *)
(*                                                                           *)
(* Client-controlled steps - consumer Read / Close / Cancel, the return of a *)
(* user callback - are External; everything else is Internal.                *)
(* Quiescent == ~ENABLED Internal is where the conformance harness observes  *)
(* the real code (rt.Quiesce).                                               *)
(*                                                                           *)
(* CloseOn = "reader" is the seeded mutation "close the output when the      *)
(* reader is done rather than when the WaitGroup drains" (non-vacuity        *)
(* self-test of CloseAfterDrain / EofComplete); SendSelectsDone = FALSE is   *)
(* "a send that no longer selects on ctx.Done" (self-test of AllDone).       *)
(* FastPath = TRUE is the mutation "ChanSend.Write first looks whether the   *)
(* buffer has room and, if so, sends without a select": with one sender that *)
(* is harmless, with several it is check-then-act - two workers see the last *)
(* free slot, one gets it, the other is parked in a plain send that ignores  *)
(* its context (self-test of AllDone for several senders on one buffered     *)
(* pipe: ParallelBuffer).                                                    *)
(***************************************************************************)
EXTENDS Integers, Sequences, FiniteSets, Bags, BagsExt, TLC

CONSTANTS MaxN,            \* input sizes 0..MaxN are explored; items are 1..n in source order
          MaxK,            \* worker counts 1..MaxK are explored
          HasCb,           \* BOOLEAN: a user function runs between receive and send
          HasOut,          \* BOOLEAN: results go to an output channel read by a consumer
          OutCap,          \* capacity of the output channel
          CloserSeesCtx,   \* BOOLEAN: the closer's wg.Wait also returns when ctx i is done
          CloseOn,         \* "wg" (the code) | "reader" (mutation)
          SendSelectsDone, \* TRUE (the code) | FALSE (mutation)
          FastPath         \* FALSE (the code) | TRUE (mutation): room check, then a plain send

None    == 0

VARIABLES n, k,       \* the size of this run (chosen in Init, never changed)
          src,        \* remaining input (sequence)
          rpc, rhold, \* reader: "idle" | "read" | "send" | "close" | "done", item it holds
          wpc, whold, \* workers: "idle" | "start" | "recv" | "cb" | "send" | "exit" | "done"
          cpc,        \* closer: "idle" | "wait" | "cancel" | "close" | "done"
          wg,         \* WaitGroup counter
          setup,      \* Once state of Split's setup: "new" | "done";  nsetup counts its executions
          nsetup,
          pipeClosed, outClosed, outbuf,
          upc,        \* consumer / caller: "idle" | "recv" (blocked in ReadOne) | "wait" (Run blocked in wg.Wait)
          delivered,  \* sequence of items received by the consumer (or handed to the user function)
          ueof,       \* the consumer observed the end of the output (io.EOF or a context error)
          ictx,       \* "none" | "live" | "noop"   (Producer.WithCancel once)
          iclosed,    \* Iterator.closer.state
          done,       \* done[c] for c in {"p","i","w"}
          stopped,    \* history: the client stopped the run early (Close or Cancel)
          ran         \* history: worker group - Run was invoked

Workers == 1..k
Input   == [i \in 1..n |-> i]          \* the source as a sequence

vars == <<n, k, src, rpc, rhold, wpc, whold, cpc, wg, setup, nsetup, pipeClosed, outClosed, outbuf,
          upc, delivered, ueof, ictx, iclosed, done, stopped, ran>>

RECURSIVE SeqBag(_)
SeqBag(s) == IF s = <<>> THEN EmptyBag ELSE BagAdd(SeqBag(Tail(s)), Head(s))
One(x) == IF x = None THEN EmptyBag ELSE SetToBag({x})
RECURSIVE SumHeld(_)
SumHeld(S) == IF S = {} THEN EmptyBag ELSE LET w == CHOOSE w \in S : TRUE IN One(whold[w]) (+) SumHeld(S \ {w})

Init == /\ n \in 0..MaxN /\ k \in 1..MaxK
        /\ src = Input /\ rpc = "idle" /\ rhold = None
        /\ wpc = [w \in Workers |-> "idle"] /\ whold = [w \in Workers |-> None]
        /\ cpc = "idle" /\ wg = 0 /\ setup = "new" /\ nsetup = 0
        /\ pipeClosed = FALSE /\ outClosed = FALSE /\ outbuf = <<>>
        /\ upc = "idle" /\ delivered = <<>> /\ ueof = FALSE
        /\ ictx = "none" /\ iclosed = FALSE
        /\ done = [c \in {"p", "i", "w"} |-> FALSE]
        /\ stopped = FALSE /\ ran = FALSE

CancelFrom(c) == [x \in {"p", "i", "w"} |->
                    IF (c = "p") \/ (c = "i" /\ x # "p") \/ (c = "w" /\ x = "w") THEN TRUE ELSE done[x]]

(* ---------------------------------------------------------------- External *)

\* init (transform.go:92-111 / iterator.go:556-569), run by the goroutine of the first advance:
\* wg.Inc + go for every worker, then go closer.  No statement of it blocks.
Launch == /\ wpc' = [w \in Workers |-> "start"] /\ wg' = k
          /\ cpc' = IF HasOut THEN "wait" ELSE "idle"

\* consumer: ReadOne on the output iterator (iterator.go:231-258)
Read == /\ HasOut /\ upc = "idle"
        /\ IF iclosed
             THEN /\ ueof' = TRUE                                   \* closer.state set -> io.EOF, nothing else runs
                  /\ UNCHANGED <<upc, ictx, done, wpc, wg, cpc>>
             ELSE IF done["p"]
             THEN /\ ueof' = TRUE                                   \* ctx.Err() # nil -> returned before the operation runs
                  /\ UNCHANGED <<upc, ictx, done, wpc, wg, cpc>>
             ELSE /\ upc' = "recv" /\ UNCHANGED ueof
                  /\ IF ictx = "none"
                       THEN ictx' = "live" /\ Launch /\ UNCHANGED done   \* WithCancel once.Do + PreHook(init.Once())
                       ELSE UNCHANGED <<ictx, done, wpc, wg, cpc>>
        /\ UNCHANGED <<n, k, src, rpc, rhold, whold, setup, nsetup, pipeClosed, outClosed, outbuf,
                       delivered, iclosed, stopped, ran>>

\* worker group: Run(ctx) (iterator.go:540-575); the caller then blocks in wg.Wait(Background)
Run == /\ ~HasOut /\ ~ran /\ ran' = TRUE
       /\ ictx' = "live" /\ done' = IF done["p"] THEN CancelFrom("p") ELSE done
       /\ Launch /\ upc' = "wait"
       /\ UNCHANGED <<n, k, src, rpc, rhold, whold, setup, nsetup, pipeClosed, outClosed, outbuf,
                      delivered, ueof, iclosed, stopped>>

\* consumer: Close on the output iterator (iterator.go:169-177): closer.once.Do(state=true; hook; cancel)
Close == /\ HasOut
         /\ IF iclosed THEN UNCHANGED <<iclosed, ictx, done>>           \* second Close: once already done
            ELSE /\ iclosed' = TRUE
                 /\ IF ictx = "live" THEN done' = CancelFrom("i") /\ UNCHANGED ictx
                    ELSE IF ictx = "none" THEN ictx' = "noop" /\ UNCHANGED done   \* once.Do(func(){}): no context to cancel
                    ELSE UNCHANGED <<ictx, done>>
         /\ stopped' = TRUE
         /\ UNCHANGED <<n, k, src, rpc, rhold, wpc, whold, cpc, wg, setup, nsetup, pipeClosed, outClosed, outbuf,
                        upc, delivered, ueof, ran>>

\* the client cancels the context it passes to its advances
Cancel == /\ ~done["p"]
          /\ done' = IF ictx = "live" THEN CancelFrom("p") ELSE [done EXCEPT !["p"] = TRUE]
          /\ stopped' = TRUE
          /\ UNCHANGED <<n, k, src, rpc, rhold, wpc, whold, cpc, wg, setup, nsetup, pipeClosed, outClosed, outbuf,
                         upc, delivered, ueof, ictx, iclosed, ran>>

\* where a worker's Write starts: in the select (the code), or at the room check of the fast path
SendPc == IF FastPath /\ OutCap > 0 THEN "chk" ELSE "send"

\* the user function of worker w returns
CbReturn(w) == /\ wpc[w] = "cb"
               /\ wpc' = [wpc EXCEPT ![w] = IF HasOut THEN SendPc ELSE "recv"]
               /\ whold' = IF HasOut THEN whold ELSE [whold EXCEPT ![w] = None]
               /\ UNCHANGED <<n, k, src, rpc, rhold, cpc, wg, setup, nsetup, pipeClosed, outClosed, outbuf,
                              upc, delivered, ueof, ictx, iclosed, done, stopped, ran>>

External == Read \/ Run \/ Close \/ Cancel \/ \E w \in Workers : CbReturn(w)

(* ---------------------------------------------------------------- Internal *)

\* worker w advances its split output: PreHook(setup) - the Once starts the reader exactly once
WStart(w) == /\ wpc[w] = "start"
             /\ wpc' = [wpc EXCEPT ![w] = "recv"]
             /\ IF setup = "new"
                  THEN setup' = "done" /\ nsetup' = nsetup + 1 /\ rpc' = "read"
                  ELSE UNCHANGED <<setup, nsetup, rpc>>
             /\ UNCHANGED <<n, k, src, rhold, whold, cpc, wg, pipeClosed, outClosed, outbuf, upc, delivered, ueof,
                            ictx, iclosed, done, stopped, ran>>

\* reader: source.ReadOne(ctx) (iterator.go:231-241: ctx.Err first, then the slice producer)
RRead == /\ rpc = "read"
         /\ IF done["w"] \/ src = <<>>
              THEN rpc' = "close" /\ UNCHANGED <<n, k, src, rhold>>
              ELSE rpc' = "send" /\ rhold' = Head(src) /\ src' = Tail(src)
         /\ UNCHANGED <<n, k, wpc, whold, cpc, wg, setup, nsetup, pipeClosed, outClosed, outbuf, upc, delivered, ueof,
                        ictx, iclosed, done, stopped, ran>>

\* rendezvous on the pipe: reader's Write meets worker w's Read
PipeHandoff(w) == /\ rpc = "send" /\ wpc[w] = "recv" /\ ~pipeClosed
                  /\ whold' = [whold EXCEPT ![w] = IF HasCb \/ HasOut THEN rhold ELSE None]
                  /\ rhold' = None /\ rpc' = "read"
                  /\ wpc' = [wpc EXCEPT ![w] = IF HasCb THEN "cb" ELSE SendPc]
                  \* a worker group hands the item to the user function here
                  /\ delivered' = IF HasOut THEN delivered ELSE Append(delivered, rhold)
                  /\ UNCHANGED <<n, k, src, cpc, wg, setup, nsetup, pipeClosed, outClosed, outbuf, upc, ueof,
                                 ictx, iclosed, done, stopped, ran>>

\* the ctx.Done() arm of the reader's select: the item it holds is dropped
RSelDone == /\ rpc = "send" /\ done["w"] /\ SendSelectsDone
            /\ rhold' = None /\ rpc' = "close"
            /\ UNCHANGED <<n, k, src, wpc, whold, cpc, wg, setup, nsetup, pipeClosed, outClosed, outbuf, upc, delivered,
                           ueof, ictx, iclosed, done, stopped, ran>>

\* PostHook(pipe.Close)
RClose == /\ rpc = "close"
          /\ pipeClosed' = TRUE /\ rpc' = "done"
          /\ outClosed' = IF CloseOn = "reader" THEN TRUE ELSE outClosed
          /\ UNCHANGED <<n, k, src, rhold, wpc, whold, cpc, wg, setup, nsetup, outbuf, upc, delivered, ueof,
                         ictx, iclosed, done, stopped, ran>>

\* worker w's receive ends: pipe closed (io.EOF) or context done
WRecvEnd(w) == /\ wpc[w] = "recv" /\ (pipeClosed \/ done["w"])
               /\ wpc' = [wpc EXCEPT ![w] = "exit"]
               /\ UNCHANGED <<n, k, src, rpc, rhold, whold, cpc, wg, setup, nsetup, pipeClosed, outClosed, outbuf, upc,
                              delivered, ueof, ictx, iclosed, done, stopped, ran>>

\* worker w's send of its result: rendezvous with the consumer / into the buffer
WSend(w) == /\ wpc[w] = "send" /\ ~outClosed
            /\ \/ /\ OutCap = 0 /\ upc = "recv"
                  /\ delivered' = Append(delivered, whold[w]) /\ upc' = "idle" /\ UNCHANGED outbuf
               \/ /\ OutCap > 0 /\ Len(outbuf) < OutCap
                  /\ outbuf' = Append(outbuf, whold[w]) /\ UNCHANGED <<delivered, upc>>
            /\ whold' = [whold EXCEPT ![w] = None]
            /\ wpc' = [wpc EXCEPT ![w] = "recv"]
            /\ UNCHANGED <<n, k, src, rpc, rhold, cpc, wg, setup, nsetup, pipeClosed, outClosed, ueof,
                           ictx, iclosed, done, stopped, ran>>

\* the send ends without delivering: ctx.Done() arm, or send on the closed output (recovered panic);
\* the item is dropped and the worker leaves its loop (mapPullProcess returns io.EOF)
WSendEnd(w) == /\ wpc[w] = "send" /\ ((done["w"] /\ SendSelectsDone) \/ outClosed)
               /\ whold' = [whold EXCEPT ![w] = None]
               /\ wpc' = [wpc EXCEPT ![w] = "exit"]
               /\ UNCHANGED <<n, k, src, rpc, rhold, cpc, wg, setup, nsetup, pipeClosed, outClosed, outbuf, upc, delivered,
                              ueof, ictx, iclosed, done, stopped, ran>>

\* mutation FastPath: `if len(ch) < cap(ch)` - the worker commits to a plain send when it SEES room
WChk(w) == /\ wpc[w] = "chk"
           /\ wpc' = [wpc EXCEPT ![w] = IF Len(outbuf) < OutCap THEN "plain" ELSE "send"]
           /\ UNCHANGED <<n, k, src, rpc, rhold, whold, cpc, wg, setup, nsetup, pipeClosed, outClosed, outbuf, upc, delivered,
                          ueof, ictx, iclosed, done, stopped, ran>>
\* `ch <- it`: succeeds when there IS room; no ctx.Done() arm; on a closed channel the recovered panic
WPlain(w) == /\ wpc[w] = "plain"
             /\ \/ /\ ~outClosed /\ Len(outbuf) < OutCap
                   /\ outbuf' = Append(outbuf, whold[w]) /\ wpc' = [wpc EXCEPT ![w] = "recv"]
                \/ /\ outClosed /\ wpc' = [wpc EXCEPT ![w] = "exit"] /\ UNCHANGED outbuf
             /\ whold' = [whold EXCEPT ![w] = None]
             /\ UNCHANGED <<n, k, src, rpc, rhold, cpc, wg, setup, nsetup, pipeClosed, outClosed, upc, delivered,
                            ueof, ictx, iclosed, done, stopped, ran>>

\* PostHook(wg.Done)
WExit(w) == /\ wpc[w] = "exit"
            /\ wg' = wg - 1 /\ wpc' = [wpc EXCEPT ![w] = "done"]
            /\ UNCHANGED <<n, k, src, rpc, rhold, whold, cpc, setup, nsetup, pipeClosed, outClosed, outbuf, upc, delivered,
                           ueof, ictx, iclosed, done, stopped, ran>>

\* closer: wg.Wait(ictx) returns (sync.go:118-150: counter = 0 or ctx done)
CWait == /\ cpc = "wait" /\ (wg = 0 \/ (CloserSeesCtx /\ done["i"]))
         /\ cpc' = "cancel"
         /\ UNCHANGED <<n, k, src, rpc, rhold, wpc, whold, wg, setup, nsetup, pipeClosed, outClosed, outbuf, upc, delivered,
                        ueof, ictx, iclosed, done, stopped, ran>>
CCancel == /\ cpc = "cancel" /\ cpc' = "close" /\ done' = CancelFrom("w")
           /\ UNCHANGED <<n, k, src, rpc, rhold, wpc, whold, wg, setup, nsetup, pipeClosed, outClosed, outbuf, upc, delivered,
                          ueof, ictx, iclosed, stopped, ran>>
CClose == /\ cpc = "close" /\ cpc' = "done" /\ outClosed' = TRUE
          /\ UNCHANGED <<n, k, src, rpc, rhold, wpc, whold, wg, setup, nsetup, pipeClosed, outbuf, upc, delivered,
                         ueof, ictx, iclosed, done, stopped, ran>>

\* consumer's receive from a buffered output
URecvBuf == /\ upc = "recv" /\ outbuf # <<>>
            /\ delivered' = Append(delivered, Head(outbuf)) /\ outbuf' = Tail(outbuf) /\ upc' = "idle"
            /\ UNCHANGED <<n, k, src, rpc, rhold, wpc, whold, cpc, wg, setup, nsetup, pipeClosed, outClosed, ueof,
                           ictx, iclosed, done, stopped, ran>>

\* consumer's receive ends: output closed and drained (io.EOF) or context i done; ReadOne's deferred
\* doClose then closes the iterator (iterator.go:238,169-171)
URecvEnd == /\ upc = "recv" /\ ((outClosed /\ outbuf = <<>>) \/ done["i"])
            /\ upc' = "idle" /\ ueof' = TRUE /\ iclosed' = TRUE
            /\ done' = CancelFrom("i")
            /\ UNCHANGED <<n, k, src, rpc, rhold, wpc, whold, cpc, wg, setup, nsetup, pipeClosed, outClosed, outbuf, delivered,
                           ictx, stopped, ran>>

\* worker group: wg.Wait(Background) returns, then the deferred cancel (iterator.go:541-542,571)
RunReturn == /\ upc = "wait" /\ wg = 0
             /\ upc' = "idle" /\ ueof' = TRUE /\ done' = CancelFrom("i")
             /\ UNCHANGED <<n, k, src, rpc, rhold, wpc, whold, cpc, wg, setup, nsetup, pipeClosed, outClosed, outbuf, delivered,
                            ictx, iclosed, stopped, ran>>

Internal == \/ RRead \/ RSelDone \/ RClose \/ CWait \/ CCancel \/ CClose \/ URecvBuf \/ URecvEnd \/ RunReturn
            \/ \E w \in Workers : WStart(w) \/ PipeHandoff(w) \/ WRecvEnd(w) \/ WSend(w) \/ WSendEnd(w) \/ WExit(w)
                                  \/ WChk(w) \/ WPlain(w)

Next == Internal \/ External
Spec == Init /\ [][Next]_vars /\ WF_vars(Internal)

\* a live client: it keeps reading, its callbacks return, and it never stops the run early
LiveNext == Internal \/ Read \/ Run \/ \E w \in Workers : CbReturn(w)
LiveSpec == Init /\ [][LiveNext]_vars /\ WF_vars(Internal) /\ WF_vars(Read) /\ WF_vars(Run)
            /\ WF_vars(\E w \in Workers : CbReturn(w))

(* ---------------------------------------------------------------- Properties *)

TypeOK == /\ rpc \in {"idle", "read", "send", "close", "done"}
          /\ \A w \in Workers : wpc[w] \in {"idle", "start", "recv", "cb", "send", "chk", "plain", "exit", "done"}
          /\ cpc \in {"idle", "wait", "cancel", "close", "done"}
          /\ wg \in 0..k /\ upc \in {"idle", "recv", "wait"} /\ Len(outbuf) <= OutCap
          /\ ictx \in {"none", "live", "noop"}

Quiescent == ~ENABLED Internal

InFlight == One(rhold) (+) SumHeld(Workers) (+) SeqBag(outbuf)

\* C01: nothing lost, duplicated or invented while nothing aborts the run.  For a worker group the item
\* counts as delivered when it is handed to the user function (it stays in whold until the function returns).
Conservation == ~stopped =>
    IF HasOut THEN SeqBag(src) (+) InFlight (+) SeqBag(delivered) = SeqBag(Input)
              ELSE SeqBag(src) (+) One(rhold) (+) SeqBag(delivered) = SeqBag(Input)

\* C01: the output is closed only after the WaitGroup drained and no worker holds an item
CloseAfterDrain == (~stopped /\ outClosed) => (wg = 0 /\ \A w \in Workers : whold[w] = None)

\* C01: the lazy setup runs at most once
SetupOnce == nsetup <= 1

\* C01: at the end of the output everything was delivered - as a sequence for a single worker
EofComplete == (~stopped /\ ueof) => /\ SeqBag(delivered) = SeqBag(Input)
                                     /\ (k = 1 => delivered = Input)

\* C01: deadlock freedom with a live consumer - a blocked consumer always waits for something the
\* client still owes (a user function that has not returned)
NoStall == (Quiescent /\ ~stopped /\ upc # "idle") => \E w \in Workers : wpc[w] = "cb"

\* C04: once the consumer stopped in a documented way (exhausted / Close / cancel) and nothing internal
\* is enabled, every library goroutine is gone - except those still inside a user function
ConsumerStopped == ueof \/ (iclosed /\ stopped) \/ (done["p"] /\ ictx = "live")
AllDone == (Quiescent /\ ConsumerStopped) =>
              /\ rpc \in {"idle", "done"} /\ cpc \in {"idle", "done"}
              /\ \A w \in Workers : wpc[w] \in {"idle", "done", "cb"}

\* C04: a consumer blocked in ReadOne is released by Close / cancellation
BlockedConsumerReleased == (Quiescent /\ (iclosed \/ done["p"])) => upc # "recv"

\* C04: a worker group's Run returns once every user function returned after the stop
RunReturns == (Quiescent /\ upc = "wait") => \E w \in Workers : wpc[w] = "cb"

\* C04: Close is idempotent (and, having no blocking statement, never blocks)
CloseIdempotent == [][(Close /\ iclosed) => UNCHANGED <<n, k, src, rpc, rhold, wpc, whold, cpc, wg, pipeClosed, outClosed,
                                                         outbuf, upc, delivered, ueof, ictx, iclosed, done>>]_vars

\* a Close before any advance starts nothing
NoopCloseStartsNothing == ictx = "noop" => (rpc = "idle" /\ cpc = "idle" /\ \A w \in Workers : wpc[w] = "idle")

\* C04 liveness: finite input leads to the end of the output (io.EOF) with a live client
Terminates == <>ueof
\* the same under Spec: IF the client is live and never stops the run THEN the output ends
LiveTerminates == (WF_vars(Read) /\ WF_vars(Run) /\ WF_vars(\E w \in Workers : CbReturn(w)) /\ []~stopped) => <>ueof
\* with arbitrary client behaviour the library always settles
Settles == <>[]Quiescent
=============================================================================
