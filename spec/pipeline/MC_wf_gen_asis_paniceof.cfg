SPECIFICATION Spec
CONSTANTS
  Construct = "gen"
  MaxN = 5
  MaxK = 2
  FKinds = {"panicW_EOF"}
  MaxFaults = 1
  OptSet <- OptsAbort
  AbortCancels = TRUE
  GenChecksCtx = TRUE
  GenEofByIs = TRUE
  ResolverSame = TRUE
  ExcludedConsulted = TRUE
  Mut = "none"
INVARIANTS TypeOK NothingSwallowed NeverReported NilIffNoFailure AtMostOnce ContinueAll AbortedWorkerStops AbortBound NoStall AllDone
PROPERTIES Settles
CHECK_DEADLOCK FALSE
