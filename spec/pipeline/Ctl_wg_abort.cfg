SPECIFICATION Spec
CONSTANTS
  Constructs = {"pp", "pfe", "worker", "map", "gen"}
  Ns = {5, 6, 7, 8}
  Ks = {2, 3}
  FKinds = {"err", "wrapped", "panicErr", "panicStr", "panicOther", "panicW_SKIP", "panicW_EOF"}
  MaxFaults = 1
  MaxFaultPos = 3
  OptSet <- OptsAbort
  Colls = {"default", "custom"}
  CancelModes = {}
  Depth = 6
  ExcludedConsulted = TRUE
  Mut = "none"
INVARIANT Inv
VIEW view
ACTION_CONSTRAINT EmitEdge
CHECK_DEADLOCK FALSE
