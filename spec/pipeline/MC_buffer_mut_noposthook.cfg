SPECIFICATION Spec
CONSTANTS
  MaxN = 2
  Cap = 1
  NoPostHook = TRUE
  SendSelectsDone = TRUE
INVARIANTS NoStall
PROPERTIES Settles
CHECK_DEADLOCK FALSE
