SPECIFICATION Spec
CONSTANTS
  Construct = "gen"
  MaxN = 3
  MaxK = 2
  FKinds = {"err", "panicErr", "skip", "eof", "ctx", "excl", "panicW_EOF", "panicW_SKIP"}
  MaxFaults = 1
  OptSet <- OptsCore
  AbortCancels = TRUE
  GenChecksCtx = TRUE
  GenEofByIs = FALSE
  ResolverSame = TRUE
  ExcludedConsulted = TRUE
  Mut = "none"
INVARIANTS TypeOK NothingSwallowed NeverReported NilIffNoFailure AtMostOnce ContinueAll AbortedWorkerStops AbortBound NoStall AllDone
PROPERTIES Settles
CHECK_DEADLOCK FALSE
