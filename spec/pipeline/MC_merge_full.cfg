SPECIFICATION Spec
CONSTANTS
  MaxN = 4
  S = 3
  CloseOn = "wg"
  Ann = {1}
  ErrCheck = FALSE
INVARIANTS TypeOK Conservation CloseAfterDrain EofComplete PerSourceOrder NoStall AllDone BlockedConsumerReleased NoopCloseStartsNothing
PROPERTIES Settles LiveTerminates
CHECK_DEADLOCK FALSE
