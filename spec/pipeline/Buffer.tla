------------------------------ MODULE Buffer -------------------------------
(* Implementation-shaped specification of Iterator.Buffer(n)                 *)
(* (iterator.go:586-595), which is also the shape of BufferedChannel         *)
(* (iterator.go:456-466), itertool.Chain / MergeSlices / MergeSliceIterators *)
(* (itertool.go:233-297) and the dt.Map / adt.Map iterators (dt/map.go:197-  *)
(* 249, adt/map.go:184-195): ONE background goroutine copies a finite source *)
(* into a channel and closes it; the consumer reads the channel through an   *)
(* Iterator whose Close hook closes the upstream iterator first.             *)
(*                                                                           *)
(*   buf  := Blocking(make(chan T, n))                                       *)
(*   pipe := buf.Send().Consume(i).Operation(eh).PostHook(buf.Close).        *)
(*                                                         Once().Go()       *)
(*   return buf.Producer().PreHook(pipe).IteratorWithHook(close upstream)    *)
(*                                                                           *)
(* reader    chan.go:372-378 + iterator.go:409-437: loop { item :=           *)
(*           src.ReadOne(ctx); buf.Write(ctx, item) }; defer src.Close();    *)
(*           PostHook(buf.Close).  Started once by the first advance, under  *)
(*           the iterator's cancellable context.                             *)
(* consumer  Read / Close / Cancel.                                          *)
(*                                                                           *)
(* Seeded mutations: NoPostHook = TRUE  "PostHook close removed" (the        *)
(* consumer never sees io.EOF); SendSelectsDone = FALSE "a send that no      *)
(* longer selects on ctx.Done".                                              *)
(***************************************************************************)
EXTENDS Integers, Sequences, FiniteSets, TLC

CONSTANTS MaxN, Cap, NoPostHook, SendSelectsDone

None == 0
VARIABLES n, src, rpc, rhold, buf, bufClosed, upc, delivered, ueof, ictx, iclosed, done, stopped
vars == <<n, src, rpc, rhold, buf, bufClosed, upc, delivered, ueof, ictx, iclosed, done, stopped>>
Input == [i \in 1..n |-> i]

Init == /\ n \in 0..MaxN /\ src = Input /\ rpc = "idle" /\ rhold = None /\ buf = <<>> /\ bufClosed = FALSE
        /\ upc = "idle" /\ delivered = <<>> /\ ueof = FALSE /\ ictx = "none" /\ iclosed = FALSE
        /\ done = [c \in {"p", "i"} |-> FALSE] /\ stopped = FALSE

(* ---------------------------------------------------------------- External *)
Read == /\ upc = "idle"
        /\ IF iclosed \/ done["p"]
             THEN ueof' = TRUE /\ UNCHANGED <<upc, ictx, rpc>>
             ELSE /\ upc' = "recv" /\ UNCHANGED ueof
                  /\ IF ictx = "none" THEN ictx' = "live" /\ rpc' = "read" ELSE UNCHANGED <<ictx, rpc>>
        /\ UNCHANGED <<n, src, rhold, buf, bufClosed, delivered, iclosed, done, stopped>>

Close == /\ IF iclosed THEN UNCHANGED <<iclosed, ictx, done>>
            ELSE /\ iclosed' = TRUE
                 /\ IF ictx = "live" THEN done' = [done EXCEPT !["i"] = TRUE] /\ UNCHANGED ictx
                    ELSE IF ictx = "none" THEN ictx' = "noop" /\ UNCHANGED done
                    ELSE UNCHANGED <<ictx, done>>
         /\ stopped' = TRUE
         /\ UNCHANGED <<n, src, rpc, rhold, buf, bufClosed, upc, delivered, ueof>>

Cancel == /\ ~done["p"]
          /\ done' = IF ictx = "live" THEN [c \in {"p", "i"} |-> TRUE] ELSE [done EXCEPT !["p"] = TRUE]
          /\ stopped' = TRUE
          /\ UNCHANGED <<n, src, rpc, rhold, buf, bufClosed, upc, delivered, ueof, ictx, iclosed>>

External == Read \/ Close \/ Cancel

(* ---------------------------------------------------------------- Internal *)
RRead == /\ rpc = "read"
         /\ IF done["i"] \/ src = <<>>
              THEN rpc' = "close" /\ UNCHANGED <<src, rhold>>
              ELSE rpc' = "send" /\ rhold' = Head(src) /\ src' = Tail(src)
         /\ UNCHANGED <<n, buf, bufClosed, upc, delivered, ueof, ictx, iclosed, done, stopped>>

\* buffered send, or rendezvous when Cap = 0
RSend == /\ rpc = "send" /\ ~bufClosed
         /\ \/ /\ Cap = 0 /\ upc = "recv" /\ delivered' = Append(delivered, rhold) /\ upc' = "idle" /\ UNCHANGED buf
            \/ /\ Cap > 0 /\ Len(buf) < Cap /\ buf' = Append(buf, rhold) /\ UNCHANGED <<delivered, upc>>
         /\ rhold' = None /\ rpc' = "read"
         /\ UNCHANGED <<n, src, bufClosed, ueof, ictx, iclosed, done, stopped>>

RSendEnd == /\ rpc = "send" /\ done["i"] /\ SendSelectsDone
            /\ rhold' = None /\ rpc' = "close"
            /\ UNCHANGED <<n, src, buf, bufClosed, upc, delivered, ueof, ictx, iclosed, done, stopped>>

RClose == /\ rpc = "close" /\ rpc' = "done"
          /\ bufClosed' = IF NoPostHook THEN bufClosed ELSE TRUE
          /\ UNCHANGED <<n, src, rhold, buf, upc, delivered, ueof, ictx, iclosed, done, stopped>>

URecv == /\ upc = "recv" /\ buf # <<>>
         /\ delivered' = Append(delivered, Head(buf)) /\ buf' = Tail(buf) /\ upc' = "idle"
         /\ UNCHANGED <<n, src, rpc, rhold, bufClosed, ueof, ictx, iclosed, done, stopped>>

URecvEnd == /\ upc = "recv" /\ ((bufClosed /\ buf = <<>>) \/ done["i"])
            /\ upc' = "idle" /\ ueof' = TRUE /\ iclosed' = TRUE /\ done' = [done EXCEPT !["i"] = TRUE]
            /\ UNCHANGED <<n, src, rpc, rhold, buf, bufClosed, delivered, ictx, stopped>>

Internal == RRead \/ RSend \/ RSendEnd \/ RClose \/ URecv \/ URecvEnd
Next == Internal \/ External
Spec == Init /\ [][Next]_vars /\ WF_vars(Internal)
LiveSpec == Init /\ [][Internal \/ Read]_vars /\ WF_vars(Internal) /\ WF_vars(Read)

(* ---------------------------------------------------------------- Properties *)
TypeOK == rpc \in {"idle", "read", "send", "close", "done"} /\ upc \in {"idle", "recv"} /\ Len(buf) <= Cap
Quiescent == ~ENABLED Internal
Held == IF rhold = None THEN <<>> ELSE <<rhold>>
\* C01 for Buffer: order preserved - at every moment delivered \o buf \o held \o src is the input
Conservation == ~stopped => delivered \o buf \o Held \o src = Input
EofComplete  == (~stopped /\ ueof) => delivered = Input
CloseAfterDrain == (~stopped /\ bufClosed) => (src = <<>> /\ rhold = None)
NoStall == (Quiescent /\ ~stopped) => upc = "idle"
ConsumerStopped == ueof \/ (iclosed /\ stopped) \/ (done["p"] /\ ictx = "live")
AllDone == (Quiescent /\ ConsumerStopped) => rpc \in {"idle", "done"}
BlockedConsumerReleased == (Quiescent /\ (iclosed \/ done["p"])) => upc = "idle"
NoopCloseStartsNothing == ictx = "noop" => rpc = "idle"
Terminates == <>ueof
\* the same under Spec: IF the client is live and never stops the run THEN the output ends
LiveTerminates == (WF_vars(Read) /\ []~stopped) => <>ueof
Settles == <>[]Quiescent
=============================================================================
