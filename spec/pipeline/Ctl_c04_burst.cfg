SPECIFICATION Spec
CONSTANTS
  Constructs = {"pbufg", "gen", "map"}
  MaxN = 5
  MaxK = 3
  AllowStop = TRUE
  RaceReps = 0
  FillReps = 0
  MaxBurst = 1
  BurstReps = 10
  Opts = {}
  Anns = {}
  Depth = 12
INVARIANT Inv
VIEW view
ACTION_CONSTRAINT EmitEdge
CHECK_DEADLOCK FALSE
