SPECIFICATION Spec
CONSTANTS
  ExcludedConsulted = TRUE
  Mut = "nopanicjoin"
INVARIANT Refines
CONSTRAINT Emit
CHECK_DEADLOCK FALSE
