SPECIFICATION Spec
CONSTANTS
  Comp = "vpool"
  Ops = {"get", "make", "put", "drop", "gc"}
  V = {1, 2}
  K = {"a", "b"}
  Depth = 6
  MaxCons = 3
  VKinds = {"slice", "bytesbuf", "bufpool"}
  AsIs = {}
  Prefer = {"pool"}
INVARIANT Inv
PROPERTY ActionProps
CONSTRAINT EmitAll
CHECK_DEADLOCK FALSE
