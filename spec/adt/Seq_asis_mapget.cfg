SPECIFICATION Spec
CONSTANTS
  Comp = "map"
  Ops = {"store", "get", "config"}
  V = {1}
  K = {"a", "b"}
  Depth = 4
  MaxCons = 2
  VKinds = {"slice"}
  AsIs = {"mapget-put"}
  Prefer = {}
INVARIANT NoLiveInPool
CHECK_DEADLOCK FALSE
