SPECIFICATION Spec
CONSTANTS
  Comp = "atomic"
  Ops = {"get", "set", "swap", "cas", "safeset", "reset"}
  V = {1, 2}
  K = {"a", "b"}
  Depth = 3
  MaxCons = 1
  VKinds = {"slice", "bytesbuf", "bufpool"}
  AsIs = {}
  Prefer = {"pool"}
INVARIANT Inv
PROPERTY ActionProps
CONSTRAINT EmitAll
CHECK_DEADLOCK FALSE
