SPECIFICATION Spec
CONSTANTS
  Comp = "sync"
  Ops = {"get", "with", "set", "swap", "cas", "safeset", "reset", "accget", "accset"}
  V = {1, 2}
  K = {"a", "b"}
  Depth = 3
  MaxCons = 1
  VKinds = {"slice", "bytesbuf", "bufpool"}
  AsIs = {}
  Prefer = {"pool"}
INVARIANT Inv
PROPERTY ActionProps
CONSTRAINT EmitAll
CHECK_DEADLOCK FALSE
