SPECIFICATION Spec
CONSTANTS
  Clients = {c1, c2}
  MaxObj = 1
  Hooks = {"h1", "h2"}
  Keys = {"a"}
  OpsOf = {"sethook", "finalize", "get", "put", "dirty"}
  Budget = 5
  PutStored = FALSE
  CopyFinalizer = FALSE
INVARIANTS TypeOK NoLiveInPool CleanInPool HookOncePerPut SingleOwner FutureCallsPanic
CHECK_DEADLOCK FALSE
