SPECIFICATION Spec
CONSTANTS
  Clients = {c1, c2}
  MaxObj = 2
  Hooks = {"h1"}
  Keys = {"a"}
  OpsOf = {"mapget"}
  Budget = 2
  PutStored = TRUE
  CopyFinalizer = FALSE
INVARIANTS TypeOK NoLiveInPool
CHECK_DEADLOCK FALSE
