SPECIFICATION SimSpec
CONSTANTS
  Comp = "sync"
  Ops = {"get", "load", "with", "string", "using", "set", "store", "swap", "cas", "safeset", "reset", "accget", "accset"}
  V = {1, 2}
  K = {"a", "b", "c"}
  Depth = 20
  MaxCons = 1
  VKinds = {"slice", "bytesbuf", "bufpool"}
  AsIs = {}
  Prefer = {"pool"}
INVARIANT Inv
PROPERTY ActionProps
CHECK_DEADLOCK FALSE
