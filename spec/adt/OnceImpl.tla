------------------------------ MODULE OnceImpl ------------------------------
(* Implementation-shaped specification of adt.Once[T] (adt/atomics.go:38-93). *)
(*                                                                            *)
(*   type Once struct { ctor Atomic[func() T]; once sync.Once;                *)
(*                      called, defined atomic.Bool; comp T }                 *)
(*   Do(f)      o.once.Do(func(){ o.ctor.Set(f); o.defined.Store(true); o.populate() })      :66-68 *)
(*   Resolve()  o.once.Do(o.populate); return o.comp                                          :73    *)
(*   populate() o.called.Store(true); o.comp = ft.SafeDo(o.ctor.Get()); o.ctor.Set(nil)       :74    *)
(*   Set(g)     ft.WhenCall(!o.Called(), func(){ o.defined.Store(true); o.ctor.Set(g) })      :80-82 *)
(*   Called()   o.called.Load()                                                               :86    *)
(* sync.Once (Go 1.23 sync/once.go):                                          *)
(*   Do(fn):     if done.Load() == 0 { doSlow(fn) }                           *)
(*   doSlow(fn): m.Lock(); defer m.Unlock(); if done.Load() == 0 { defer done.Store(1); fn() } *)
(*                                                                            *)
(* One action per atomic step.  A caller invoking an operation and the user's *)
(* function returning are External (client-controlled); everything else is    *)
(* Internal; Quiescent == ~ENABLED Internal.                                  *)
(*                                                                            *)
(* DoViaCtor = TRUE is the code as it is: Do passes its function through the  *)
(* shared `ctor` cell, where a concurrent Set - which tested Called() before  *)
(* populate stored it - can overwrite it, so that Do(f) executes the function *)
(* of Set(g) (violates DoRunsOwn: "Do runs the function provided").           *)
(* DoViaCtor = FALSE is the proposed repair (fixes/adt-once-do-runs-own-      *)
(* function.diff): Do hands f to the execution directly.                      *)
(* OnceImpl_MC.cfg (repaired) satisfies everything; OnceImpl_asis.cfg expects *)
(* the violation of DoRunsOwn (non-vacuity self-test).                        *)
(***************************************************************************)
EXTENDS Integers, Sequences, FiniteSets, TLC

CONSTANTS Callers,      \* concurrent goroutines
          Fns,          \* user functions; function f returns the value f
          InitCtor,     \* subset of Fns \cup {"none"}: what NewOnce / the zero value start with
          OpsOf,        \* operations a caller may issue: subset of {"do", "resolve", "set", "called"}
          Budget,       \* total number of calls
          DoViaCtor     \* BOOLEAN, TRUE = as is

Free == "free"
None == "none"
Zero == "zero"

VARIABLES pc, op, arg,     \* per caller: program counter, current operation and its function argument
          flag, mu,        \* sync.Once: done, m
          ctor, called, defined, comp,
          loc,             \* per caller: the function value it loaded from ctor (populate) / the Called() value (Set)
          res,             \* per caller: what its last call returned
          running,         \* the function being executed, or None
          execs, fin, ranfn, ranarg, ranop,   \* history: executions started / finished, which function ran, the argument and kind of the executing call
          early, budget
vars == <<pc, op, arg, flag, mu, ctor, called, defined, comp, loc, res, running, execs, fin, ranfn, ranarg, ranop, early, budget>>

Init == /\ pc = [c \in Callers |-> "idle"] /\ op = [c \in Callers |-> "-"] /\ arg = [c \in Callers |-> None]
        /\ flag = 0 /\ mu = Free
        /\ ctor \in InitCtor /\ called = FALSE /\ defined = (ctor # None) /\ comp = Zero
        /\ loc = [c \in Callers |-> None] /\ res = [c \in Callers |-> "-"]
        /\ running = None /\ execs = 0 /\ fin = 0 /\ ranfn = None /\ ranarg = None /\ ranop = "-"
        /\ early = FALSE /\ budget = Budget

Goto(c, l) == pc' = [pc EXCEPT ![c] = l]
U(vs) == UNCHANGED vs

(* ------------------------------------------------------------ External *)
Start(c, o, f) ==
    /\ pc[c] \in {"idle", "ret"} /\ budget > 0 /\ o \in OpsOf
    /\ budget' = budget - 1
    /\ op' = [op EXCEPT ![c] = o] /\ arg' = [arg EXCEPT ![c] = f]
    /\ res' = [res EXCEPT ![c] = "-"]
    /\ Goto(c, CASE o \in {"do", "resolve"} -> "fast" [] o = "set" -> "s1" [] o = "called" -> "rd")
    /\ U(<<flag, mu, ctor, called, defined, comp, loc, running, execs, fin, ranfn, ranarg, ranop, early>>)

\* the user's function returns: comp = SafeDo(f) is assigned by the same goroutine right after
FnReturn(c) ==
    /\ pc[c] = "exec"
    /\ comp' = IF loc[c] = None THEN Zero ELSE loc[c]
    /\ fin' = fin + 1 /\ running' = None
    /\ Goto(c, "p4")
    /\ U(<<op, arg, flag, mu, ctor, called, defined, loc, res, execs, ranfn, ranarg, ranop, early, budget>>)

External == \E c \in Callers : FnReturn(c) \/ \E o \in OpsOf, f \in Fns : Start(c, o, IF o \in {"do", "set"} THEN f ELSE None)

(* ------------------------------------------------------------ Internal *)
\* sync.Once.Do fast path
Fast(c) == /\ pc[c] = "fast" /\ Goto(c, IF flag = 0 THEN "lock" ELSE "after")
           /\ U(<<op, arg, flag, mu, ctor, called, defined, comp, loc, res, running, execs, fin, ranfn, ranarg, ranop, early, budget>>)
Lock(c) == /\ pc[c] = "lock" /\ mu = Free /\ mu' = c /\ Goto(c, "check")
           /\ U(<<op, arg, flag, ctor, called, defined, comp, loc, res, running, execs, fin, ranfn, ranarg, ranop, early, budget>>)
Check(c) == /\ pc[c] = "check"
            /\ Goto(c, IF flag # 0 THEN "unlock" ELSE IF op[c] = "do" THEN "d1" ELSE "p1")
            /\ U(<<op, arg, flag, mu, ctor, called, defined, comp, loc, res, running, execs, fin, ranfn, ranarg, ranop, early, budget>>)
\* Do's closure: o.ctor.Set(f)   (as is only)
D1(c) == /\ pc[c] = "d1"
         /\ ctor' = IF DoViaCtor THEN arg[c] ELSE ctor
         /\ Goto(c, "d2")
         /\ U(<<op, arg, flag, mu, called, defined, comp, loc, res, running, execs, fin, ranfn, ranarg, ranop, early, budget>>)
\* o.defined.Store(true)
D2(c) == /\ pc[c] = "d2" /\ defined' = TRUE /\ Goto(c, "p1")
         /\ U(<<op, arg, flag, mu, ctor, called, comp, loc, res, running, execs, fin, ranfn, ranarg, ranop, early, budget>>)
\* populate: o.called.Store(true)
P1(c) == /\ pc[c] = "p1" /\ called' = TRUE /\ Goto(c, "p2")
         /\ U(<<op, arg, flag, mu, ctor, defined, comp, loc, res, running, execs, fin, ranfn, ranarg, ranop, early, budget>>)
\* o.ctor.Get() (the repaired Do uses its own argument), and the call of the function begins
P2(c) == /\ pc[c] = "p2"
         /\ LET f == IF op[c] = "do" /\ ~DoViaCtor THEN arg[c] ELSE ctor IN
            /\ loc' = [loc EXCEPT ![c] = f]
            /\ running' = f /\ execs' = execs + 1
            /\ ranfn' = f /\ ranarg' = arg[c] /\ ranop' = op[c]
         /\ Goto(c, "exec")
         /\ U(<<op, arg, flag, mu, ctor, called, defined, comp, res, fin, early, budget>>)
\* o.ctor.Set(nil)
P4(c) == /\ pc[c] = "p4" /\ ctor' = None /\ Goto(c, "store")
         /\ U(<<op, arg, flag, mu, called, defined, comp, loc, res, running, execs, fin, ranfn, ranarg, ranop, early, budget>>)
\* deferred done.Store(1), m.Unlock()
Store(c) == /\ pc[c] = "store" /\ flag' = 1 /\ Goto(c, "unlock")
            /\ U(<<op, arg, mu, ctor, called, defined, comp, loc, res, running, execs, fin, ranfn, ranarg, ranop, early, budget>>)
Unlock(c) == /\ pc[c] = "unlock" /\ mu = c /\ mu' = Free /\ Goto(c, "after")
             /\ U(<<op, arg, flag, ctor, called, defined, comp, loc, res, running, execs, fin, ranfn, ranarg, ranop, early, budget>>)
\* after once.Do: Do returns; Resolve reads o.comp and returns it
After(c) == /\ pc[c] = "after"
            /\ res' = [res EXCEPT ![c] = IF op[c] = "resolve" THEN comp ELSE "-"]
            /\ early' = (early \/ fin = 0)
            /\ Goto(c, "ret")
            /\ U(<<op, arg, flag, mu, ctor, called, defined, comp, loc, running, execs, fin, ranfn, ranarg, ranop, budget>>)
\* Set: !o.Called()
S1(c) == /\ pc[c] = "s1"
         /\ Goto(c, IF called THEN "ret" ELSE "s2")
         /\ U(<<op, arg, flag, mu, ctor, called, defined, comp, loc, res, running, execs, fin, ranfn, ranarg, ranop, early, budget>>)
S2(c) == /\ pc[c] = "s2" /\ defined' = TRUE /\ Goto(c, "s3")
         /\ U(<<op, arg, flag, mu, ctor, called, comp, loc, res, running, execs, fin, ranfn, ranarg, ranop, early, budget>>)
S3(c) == /\ pc[c] = "s3" /\ ctor' = arg[c] /\ Goto(c, "ret")
         /\ U(<<op, arg, flag, mu, called, defined, comp, loc, res, running, execs, fin, ranfn, ranarg, ranop, early, budget>>)
\* Called()
Rd(c) == /\ pc[c] = "rd" /\ res' = [res EXCEPT ![c] = IF called THEN "true" ELSE "false"] /\ Goto(c, "ret")
         /\ U(<<op, arg, flag, mu, ctor, called, defined, comp, loc, running, execs, fin, ranfn, ranarg, ranop, early, budget>>)

Internal == \E c \in Callers : Fast(c) \/ Lock(c) \/ Check(c) \/ D1(c) \/ D2(c) \/ P1(c) \/ P2(c) \/ P4(c)
                                \/ Store(c) \/ Unlock(c) \/ After(c) \/ S1(c) \/ S2(c) \/ S3(c) \/ Rd(c)
Next == Internal \/ External
Spec == Init /\ [][Next]_vars /\ WF_vars(Internal)

(* ------------------------------------------------------------ Properties *)
TypeOK == /\ flag \in {0, 1} /\ mu \in Callers \cup {Free} /\ execs \in 0..Budget /\ fin \in 0..execs
          /\ ctor \in Fns \cup {None} /\ comp \in Fns \cup {Zero}

Quiescent == ~ENABLED Internal
Executing == \E c \in Callers : pc[c] = "exec"
InCall(c) == pc[c] \notin {"idle", "ret"}

\* the C15 obligations
AtMostOnce  == execs <= 1
ExactlyOnce == (Quiescent /\ \E c \in Callers : pc[c] # "idle" /\ op[c] \in {"do", "resolve"}) => execs = 1
NoReturnBeforeDone == ~early
AllSeeResult == \A c \in Callers : (pc[c] = "ret" /\ op[c] = "resolve" /\ fin = 1) =>
                    res[c] = (IF ranfn = None THEN Zero ELSE ranfn)

\* "Do runs the function provided": when the execution happens inside a Do, it executes that Do's function
DoRunsOwn == (execs = 1 /\ ranop = "do") => ranfn = ranarg
\* "Set ... is a noop after the operation has completed, will not reset the operation or the cached value"
CachedStable == [][fin = 1 => comp' = comp]_vars
\* Called() is true from the moment the execution is under way
CalledCovers == execs >= 1 => called
\* nobody stays inside the library unless the client holds the user function
NoStuck == (Quiescent /\ ~Executing) => \A c \in Callers : ~InCall(c)
NoLeak  == (Quiescent /\ ~Executing) => mu = Free
Settles == <>[]Quiescent
=============================================================================
