SPECIFICATION Spec
CONSTANTS
  Clients = {c1, c2}
  MaxObj = 2
  Hooks = {"h1"}
  Keys = {"a"}
  OpsOf = {"sethook", "finalize"}
  Budget = 2
  PutStored = FALSE
  CopyFinalizer = FALSE
INVARIANTS TypeOK FutureCallsPanic NoChangeAfterLocked
CHECK_DEADLOCK FALSE
