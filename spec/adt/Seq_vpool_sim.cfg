SPECIFICATION SimSpec
CONSTANTS
  Comp = "vpool"
  Ops = {"get", "make", "put", "drop", "gc"}
  V = {1, 2}
  K = {"a", "b", "c"}
  Depth = 30
  MaxCons = 3
  VKinds = {"slice", "bytesbuf", "bufpool"}
  AsIs = {}
  Prefer = {"pool"}
INVARIANT Inv
PROPERTY ActionProps
CHECK_DEADLOCK FALSE
