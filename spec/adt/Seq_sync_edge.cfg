SPECIFICATION Spec
CONSTANTS
  Comp = "sync"
  Ops = {"get", "load", "with", "string", "using", "set", "store", "swap", "cas", "safeset", "reset", "accget", "accset"}
  V = {1, 2}
  K = {"a", "b"}
  Depth = 12
  MaxCons = 1
  VKinds = {"slice", "bytesbuf", "bufpool"}
  AsIs = {}
  Prefer = {"pool"}
INVARIANT Inv
PROPERTY ActionProps
VIEW view
ACTION_CONSTRAINT EmitEdge
CHECK_DEADLOCK FALSE
