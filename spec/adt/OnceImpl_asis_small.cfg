SPECIFICATION Spec
CONSTANTS
  Callers = {c1, c2}
  Fns = {"f", "g"}
  InitCtor = {"none", "f"}
  OpsOf = {"do", "resolve", "set", "called"}
  Budget = 3
  DoViaCtor = TRUE
INVARIANTS TypeOK AtMostOnce ExactlyOnce NoReturnBeforeDone AllSeeResult CalledCovers NoStuck NoLeak
PROPERTIES CachedStable Settles
CHECK_DEADLOCK FALSE
