SPECIFICATION Spec
CONSTANTS
  Comp = "atomic"
  Ops = {"get", "load", "set", "store", "swap", "cas", "safeset", "reset"}
  V = {1, 2}
  K = {"a", "b"}
  Depth = 12
  MaxCons = 1
  VKinds = {"slice", "bytesbuf", "bufpool"}
  AsIs = {}
  Prefer = {"pool"}
INVARIANT Inv
PROPERTY ActionProps
VIEW view
ACTION_CONSTRAINT EmitEdge
CHECK_DEADLOCK FALSE
