SPECIFICATION Spec
CONSTANTS
  Keys = {"a", "b", "c"}
  AsIs = {}
CONSTRAINT HighWater
POSTCONDITION Accepted
CHECK_DEADLOCK FALSE
