SPECIFICATION Spec
CONSTANTS
  Comp = "map"
  Ops = {"store", "setpair", "delete", "load", "check", "ensurestore", "ensureset", "swap", "ensuredefault", "get", "ensure", "len", "range", "keys", "values", "iterator", "marshal", "rangestop", "unmarshal", "config", "gc"}
  V = {1, 2}
  K = {"a", "b"}
  Depth = 10
  MaxCons = 2
  VKinds = {"slice", "bytesbuf", "bufpool"}
  AsIs = {}
  Prefer = {"pool"}
INVARIANT Inv
PROPERTY ActionProps
CONSTRAINT Bound
VIEW view
ACTION_CONSTRAINT EmitEdge
CHECK_DEADLOCK FALSE
