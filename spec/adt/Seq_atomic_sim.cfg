SPECIFICATION SimSpec
CONSTANTS
  Comp = "atomic"
  Ops = {"get", "load", "set", "store", "swap", "cas", "safeset", "reset"}
  V = {1, 2}
  K = {"a", "b", "c"}
  Depth = 30
  MaxCons = 1
  VKinds = {"slice", "bytesbuf", "bufpool"}
  AsIs = {}
  Prefer = {"pool"}
INVARIANT Inv
PROPERTY ActionProps
CHECK_DEADLOCK FALSE
