SPECIFICATION Spec
CONSTANTS
  Comp = "vpool"
  Ops = {"get", "make", "put", "drop", "gc"}
  V = {1}
  K = {"a"}
  Depth = 4
  MaxCons = 2
  VKinds = {"slice", "bytesbuf"}
  AsIs = {"make-value"}
  Prefer = {}
INVARIANT NoLiveInPool
CHECK_DEADLOCK FALSE
