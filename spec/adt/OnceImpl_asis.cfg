SPECIFICATION Spec
CONSTANTS
  Callers = {c1, c2}
  Fns = {"f", "g"}
  InitCtor = {"none"}
  OpsOf = {"do", "set"}
  Budget = 2
  DoViaCtor = TRUE
INVARIANTS TypeOK AtMostOnce NoReturnBeforeDone DoRunsOwn
CHECK_DEADLOCK FALSE
