------------------------------- MODULE AdtSeq -------------------------------
(* Sequential meaning of package adt of tychoish/fun (check X02, growth of    *)
(* the specification beyond the listed properties).  No property text governs *)
(* these types; the DOCUMENTATION (doc comments of adt/atomics.go, locked.go, *)
(* map.go, pool.go) is the specification.  Where the documentation is silent  *)
(* the observed behaviour is written down as a named "as observed" choice     *)
(* (marked AO-n below) and nothing is claimed about it; where documentation   *)
(* and code DIVERGE the action has a switch: the name of the divergence is in *)
(* the constant set AsIs iff the behaviours are to be generated the way the   *)
(* code behaves (used for a divergence that is listed as a known finding, and *)
(* for the MC_asis self-tests); otherwise the documented behaviour is what    *)
(* the real code is compared with.                                            *)
(*                                                                            *)
(* One module, six components selected by Comp (each behaviour exercises one  *)
(* object; the variables of the other components keep their initial value):   *)
(*   "atomic"  adt.Atomic[int]        atomics.go:95-160  Get Load Set Store Swap CompareAndSwap SafeSet Reset *)
(*   "sync"    adt.Synchronized[int]  locked.go:26-81    Get Load Set Store Swap With Using String + the generic helpers *)
(*   "once"    adt.Once[int], adt.Mnemonize   atomics.go:24-93                                    *)
(*   "map"     adt.Map[string,*cell]  map.go  (values are objects with identity, so that the      *)
(*             default-value pool `Default` is observable)                                        *)
(*   "pool"    adt.Pool[*cell]        pool.go:28-110     SetConstructor SetCleanupHook FinalizeSetup Get Put Make *)
(*   "vpool"   pools of VALUE-typed items: a Pool[dt.Slice[byte]] used through Make,              *)
(*             adt.MakeBytesBufferPool, adt.MakeBufferPool   pool.go:96-158                       *)
(*                                                                            *)
(* Every action is one public call; `hist` records the call, the return value *)
(* the documentation promises (a SET of allowed values where sync.Pool is     *)
(* involved: "Get may return any previously Put value or a new one"), which   *)
(* user functions must have run during the call (`ran`), and the projected    *)
(* state (`st`) the real object must show afterwards through its read-only    *)
(* operations.  harness/cmd/vh-adt replays each behaviour on the real types   *)
(* and compares after every step.                                             *)
(*                                                                            *)
(* Divergences (names usable in AsIs; each is reported with a demonstration): *)
(*   "cas-unset"   CompareAndSwap(a, 0, n) on an Atomic that was never set fails although Get()    *)
(*                 returns 0 (atomics.go:141 hands `old` to atomic.Value, which holds nil);        *)
(*                 adt.Reset on such an Atomic never returns (atomics.go:158-166)                  *)
(*   "mapget-put"  Map.Get puts the default value it has just STORED in the map back into the      *)
(*                 pool (map.go:74 `if !loaded`): the cleanup hook runs on a live map value and    *)
(*                 the next Get of another missing key may store the same object again             *)
(*   "ensure-nil"  Map[K,*T].Ensure with the zero-configuration Default pool ends the process      *)
(*                 (Make -> runtime.SetFinalizer(nil) -> fatal error), pool.go:94-99               *)
(*   "make-value"  Pool.Make on a non-pointer T arms the finalizer on a temporary copy             *)
(*                 (pool.go:101): the value re-enters the pool at the next GC although the caller   *)
(*                 still uses it; MakeBytesBufferPool builds its buffers that way (pool.go:115)    *)
(*   "buf-nil"     MakeBufferPool: an oversized slice does not re-enter the pool, but a nil slice  *)
(*                 does (pool.go:138-143 and Put, pool.go:83), so a later Get returns capacity 0 < min                 *)
(*                                                                            *)
(* "As observed" choices (documentation silent; written down, never judged    *)
(* as a divergence - where both outcomes are possible both are allowed):      *)
(*   AO-1  Resolve() with no function stored yields the zero value and consumes the Once        *)
(*         (a later Do / Set is a noop); a nil function behaves the same                        *)
(*   AO-2  a function that panics leaves the zero value cached and the Once consumed; the panic *)
(*         propagates to the caller of Do / Resolve                                             *)
(*   AO-3  Map.Get on a present key: the default it fetched from the pool may be put back (the  *)
(*         cleanup hook runs) or dropped                                                        *)
(*   AO-4  after FinalizeSetup a nil constructor / hook argument panics like any other          *)
(*   AO-5  Pool.Put of a nil pointer may or may not enter the pool (the hook is called with it) *)
(*   AO-6  Defined(): true after NewOnce / Set / Do, unchanged by Resolve; it is "observational"*)
(*         and is judged only in sequential replays                                             *)
(***************************************************************************)
EXTENDS Integers, Sequences, FiniteSets, TLC, Json

CONSTANTS Comp,      \* which component the behaviours exercise
          Ops,       \* enabled operation names
          V,         \* non-zero values (integers); 0 is the zero value of T
          K,         \* map keys (strings)
          Depth,     \* calls per behaviour
          MaxCons,   \* at most this many objects are constructed by a pool
          VKinds,    \* kinds of value-typed pools explored by Comp = "vpool"
          AsIs,      \* divergences modelled the way the code behaves (see above)
          Prefer     \* generation heuristics only (which allowed branch a behaviour CONTINUES with; the sets of
                     \* allowed outcomes never depend on it): "pool" - a single goroutine without garbage collection
                     \* finds in a sync.Pool what it put there, so take a pooled value when one is believed to be
                     \* there and construct only otherwise; "putback" / "drop" - what Map.Get was observed to do
                     \* with the default it fetched for a key that is present (AO-3, probed by `vh-adt probe`);
                     \* "nilpooled" - Put of a nil pointer was observed to enter the pool (AO-5, probed)

V0 == V \cup {0}
B(b) == IF b THEN "true" ELSE "false"
S(i) == ToString(i)
Has(op) == op \in Ops

VARIABLES at,     \* Atomic:        [set |-> a value was ever stored, val |-> it]
          sy,     \* Synchronized:  the protected value
          ax,     \* AccessorsWithLock / AccessorsWithReadLock: the variable behind the getter / setter pair
          on,     \* Once:          [ctor, called, defined, done, comp]
          mn,     \* Mnemonize:     [done, val]
          mp,     \* Map:           function from the present keys to object ids
          pl,     \* Pool (also Map.Default): [ctor, hook, locked, may, ncons]
          ob,     \* pool-constructed objects 100+i, i in 1..MaxCons: [by, cl, hk]
          held,   \* ids the client holds (got from the pool, not yet put back / dropped)
          fin,    \* ids with an armed finalizer (handed out by Make)
          drp,    \* ids the client has dropped its last reference to
          vk,     \* kind of the value-typed pool
          hist
vars == <<at, sy, ax, on, mn, mp, pl, ob, held, fin, drp, vk, hist>>
view == <<at, sy, ax, on, mn, mp, pl, ob, held, fin, drp, vk>>

Last == hist[Len(hist)]

(* ------------------------------------------------------------------ Atomic *)
AGet(a) == IF a.set THEN a.val ELSE 0         \* "returning the zero value of the type T if the value is unset"
ASet(v) == [set |-> TRUE, val |-> v]
PAtomic(a) == [get |-> AGet(a)]

RecA(call, ret) == hist' = Append(hist, call @@ [ret |-> ret, st |-> PAtomic(at')])

AtomicStep ==
    \/ \E op \in {"get", "load"} : Has(op) /\ at' = at /\ RecA([op |-> op], S(AGet(at)))
    \/ \E op \in {"set", "store"}, v \in V0 : Has(op) /\ at' = ASet(v) /\ RecA([op |-> op, v |-> v], "-")
    \/ \E v \in V0 : Has("swap") /\ at' = ASet(v) /\ RecA([op |-> "swap", v |-> v], S(AGet(at)))
    \* CompareAndSwap: documented reading - it compares with the value Get() reports
    \/ \E o \in V0, n \in V0 :
          /\ Has("cas")
          /\ LET hit == IF "cas-unset" \in AsIs THEN at.set /\ at.val = o ELSE AGet(at) = o IN
             /\ at' = IF hit THEN ASet(n) ELSE at
             /\ RecA([op |-> "cas", o |-> o, v |-> n], B(hit))
    \* SafeSet: "sets the atomic to the given value only if the value is not the Zero value"
    \/ \E v \in V0 : Has("safeset") /\ at' = (IF v = 0 THEN at ELSE ASet(v)) /\ RecA([op |-> "safeset", v |-> v], "-")
    \* Reset: "sets the atomic to 0, and returns the previously stored value"
    \/ /\ Has("reset")
       /\ IF "cas-unset" \in AsIs /\ ~at.set
            THEN at' = at /\ RecA([op |-> "reset"], "spin")            \* Load() = 0, CompareAndSwap(0, 0) = false, for ever
            ELSE at' = ASet(0) /\ RecA([op |-> "reset"], S(AGet(at)))

(* ------------------------------------------------------------ Synchronized *)
PSync(x, a) == [get |-> x, str |-> S(x), acc |-> a]
RecS(call, ret) == hist' = Append(hist, call @@ [ret |-> ret, st |-> PSync(sy', ax')])

SyncCore ==
    \/ \E op \in {"get", "load", "with", "string"} : Has(op) /\ sy' = sy /\ RecS([op |-> op], S(sy))
    \/ Has("using") /\ sy' = sy /\ RecS([op |-> "using"], "-")
    \/ \E op \in {"set", "store"}, v \in V0 : Has(op) /\ sy' = v /\ RecS([op |-> op, v |-> v], "-")
    \/ \E v \in V0 : Has("swap") /\ sy' = v /\ RecS([op |-> "swap", v |-> v], S(sy))
    \/ \E o \in V0, n \in V0 : Has("cas") /\ sy' = (IF sy = o THEN n ELSE sy) /\ RecS([op |-> "cas", o |-> o, v |-> n], B(sy = o))
    \/ \E v \in V0 : Has("safeset") /\ sy' = (IF v = 0 THEN sy ELSE v) /\ RecS([op |-> "safeset", v |-> v], "-")
    \/ Has("reset") /\ sy' = 0 /\ RecS([op |-> "reset"], S(sy))

\* AccessorsWithLock / AccessorsWithReadLock(getter, setter): "all read/write operations are fully synchronized with
\* regards to eachother" - sequentially the pair is a register over the client's variable
AccStep ==
    \/ Has("accget") /\ UNCHANGED <<sy, ax>> /\ RecS([op |-> "accget"], S(ax))
    \/ \E v \in V0 : Has("accset") /\ ax' = v /\ sy' = sy /\ RecS([op |-> "accset", v |-> v], "-")

SyncStep == (ax' = ax /\ SyncCore) \/ AccStep

(* -------------------------------------------------------------------- Once *)
\* user functions: "f<v>" returns v, "fp" panics, "nil" is a nil func() T
Fn == {"f" \o S(v) : v \in V} \cup {"fp"}
FnArg == Fn \cup {"nil"}
RetOf(f) == CHOOSE v \in V : f = "f" \o S(v)
OnceZero == [ctor |-> "none", called |-> FALSE, defined |-> FALSE, done |-> FALSE, comp |-> 0]
POnce(o, m) == [called |-> o.called, defined |-> o.defined, val |-> IF o.done THEN S(o.comp) ELSE "-",
                mval |-> IF m.done THEN S(m.val) ELSE "-"]
RecO(call, ret, ran) == hist' = Append(hist, call @@ [ret |-> ret, ran |-> ran, st |-> POnce(on', mn')])

\* the one execution (atomics.go:75): called := true; comp := SafeDo(f); ctor := nil.   A panicking function
\* leaves comp zero and the sync.Once consumed (AO-2).  A nil / missing function yields the zero value (AO-1).
Exec(o, f, def) == [ctor |-> "none", called |-> TRUE, defined |-> def, done |-> TRUE,
                    comp |-> IF f \in {"nil", "none", "fp"} THEN 0 ELSE RetOf(f)]
Ran(f) == IF f \in {"nil", "none"} THEN <<>> ELSE <<f>>

OnceStep ==
    \* Do: "runs the function provided, and caches the results.  All subsequent calls to Do or Resolve() are noops"
    \/ \E f \in FnArg :
          /\ Has("do") /\ mn' = mn
          /\ IF on.done THEN on' = on /\ RecO([op |-> "do", f |-> f], "-", <<>>)
             ELSE on' = Exec(on, f, TRUE) /\ RecO([op |-> "do", f |-> f], IF f = "fp" THEN "panic" ELSE "-", Ran(f))
    \* Resolve: "runs the stored [function], if and only if it hasn't been run ... and returns its output"
    \/ /\ Has("resolve") /\ mn' = mn
       /\ IF on.done THEN on' = on /\ RecO([op |-> "resolve"], S(on.comp), <<>>)
          ELSE /\ on' = Exec(on, on.ctor, on.defined)
               /\ RecO([op |-> "resolve"], IF on.ctor = "fp" THEN "panic" ELSE S(on'.comp), Ran(on.ctor))
    \* Set: "does not execute the operation ... is a noop after the operation has completed, will not reset the
    \* operation or the cached value" (the code tests Called(), which is also true while it is running)
    \/ \E f \in FnArg :
          /\ Has("set") /\ mn' = mn
          /\ on' = IF on.called THEN on ELSE [on EXCEPT !.ctor = f, !.defined = TRUE]
          /\ RecO([op |-> "set", f |-> f], "-", <<>>)
    \/ Has("called") /\ UNCHANGED <<on, mn>> /\ RecO([op |-> "called"], B(on.called), <<>>)
    \/ Has("defined") /\ UNCHANGED <<on, mn>> /\ RecO([op |-> "defined"], B(on.defined), <<>>)
    \* g := Mnemonize(f1): "When the function is called the first time it caches the value and returns it henceforth"
    \/ /\ Has("mnemo") /\ on' = on
       /\ LET f == CHOOSE g \in Fn : g # "fp" IN
          /\ mn' = [done |-> TRUE, val |-> IF mn.done THEN mn.val ELSE RetOf(f)]
          /\ RecO([op |-> "mnemo", f |-> f], S(mn'.val), IF mn.done THEN <<>> ELSE <<f>>)

(* --------------------------------------------- pool objects (pool, map, vpool) *)
\* ids: 0 = the zero value (nil pointer / nil slice); v in V = cells made by the client; 100+i = the i-th
\* object made by the pool's constructor
Idx == 1..MaxCons
Oid(i) == 100 + i
NoObj == [by |-> "-", cl |-> 0, hk |-> "-"]
PoolZero == [ctor |-> "zero", hook |-> "id", locked |-> FALSE, may |-> {}, inner |-> {}, sure |-> {}, ncons |-> 0]
Cl(o, id) == IF id > 100 THEN o[id - 100].cl ELSE 0
Desc(o, id) == IF id > 100 THEN [id |-> id, cl |-> o[id - 100].cl, by |-> o[id - 100].by, hk |-> o[id - 100].hk]
               ELSE [id |-> id, cl |-> 0, by |-> "-", hk |-> "-"]

\* the cleanup hook runs on id: the default hook is the identity; the harness hooks h1/h2 count and sign
Hooked(o, id, h) == IF id > 100 /\ h \in {"h1", "h2"} THEN [o EXCEPT ![id - 100].cl = @ + 1, ![id - 100].hk = h] ELSE o

\* Calls of the functions the client installed are observable: the harness constructors c1/c2 and hooks h1/h2 log
\* "new:<id>" / "hook:<id>"; the library's own default constructor and identity hook cannot.
HookEv(p, id) == IF p.hook \in {"h1", "h2"} THEN <<"hook:" \o S(id)>> ELSE <<>>

\* Pool.Put(id): "returns an object in the pool, calling the cleanuphook"
\* (whether a nil pointer really enters the sync.Pool is an observed choice, AO-5: Prefer has "nilpooled" if it does)
PutOb(p, o, id) == <<[p EXCEPT !.may = @ \cup {id}, !.sure = IF id = 0 /\ "nilpooled" \notin Prefer THEN @ ELSE @ \cup {id}],
                     Hooked(o, id, p.hook)>>

\* What Pool.Get() may produce - sync.Pool: any value Put before, or a new one from the constructor.  `may` is an
\* over-approximation of the pool's content (sync.Pool may drop anything at any time); `sure` is what the pool is
\* believed to hold really (used only to choose the branch a behaviour continues with, see Prefer).  The garbage collector runs
\* only in the explicit gc steps (the harness switches automatic collection off).
\* Each candidate is a record: id, the pool / objects afterwards, where it came from, the observable calls.
\* `may` is a set, the pool a multiset: the zero value can be Put any number of times, and once the divergence
\* "make-value" has put a value into the pool that the client still holds, later Puts add further references to
\* it - such ids stay in `may` when taken (over-approximation).
Sticky(id) == id = 0 \/ (Comp = "vpool" /\ "make-value" \in AsIs)
Take(id, p, o, via, ev) == [id |-> id, p |-> p, o |-> o, via |-> via, ev |-> ev]
Takes(p, o) ==
    {Take(id, [p EXCEPT !.may = IF Sticky(id) THEN @ ELSE @ \ {id}, !.sure = @ \ {id}], o, "pool", <<>>) : id \in p.may}
    \cup {Take(id, [p EXCEPT !.inner = IF Sticky(id) THEN @ ELSE @ \ {id}, !.sure = @ \ {id}], o, "inner", <<>>) : id \in p.inner}
    \cup (IF p.ctor = "zero" THEN {Take(0, p, o, "new", <<>>)}
          ELSE IF p.ncons < MaxCons
          THEN {Take(Oid(p.ncons + 1), [p EXCEPT !.ncons = @ + 1],
                     [o EXCEPT ![p.ncons + 1] = [by |-> p.ctor, cl |-> 0, hk |-> "-"]], "new",
                     IF p.ctor \in {"c1", "c2"} THEN <<"new:" \o S(Oid(p.ncons + 1))>> ELSE <<>>)}
          ELSE {})
AllowOf(ts) == {Desc(t.o, t.id) : t \in ts}
\* the candidates a behaviour continues with
Picks(p, o) == IF "pool" \notin Prefer THEN Takes(p, o)
               ELSE IF p.sure # {} THEN {t \in Takes(p, o) : t.via # "new" /\ t.id \in p.sure}
               ELSE {t \in Takes(p, o) : t.via = "new"}
BackChoices == IF "putback" \in Prefer THEN {TRUE} ELSE IF "drop" \in Prefer THEN {FALSE} ELSE BOOLEAN

(* --------------------------------------------------------------------- Map *)
Dom == DOMAIN mp
MapPut(m, k, id) == [x \in (DOMAIN m) \cup {k} |-> IF x = k THEN id ELSE m[x]]
MapDel(m, k) == [x \in (DOMAIN m) \ {k} |-> m[x]]
\* projected state: Len(), and for every present key the object Load(k) returns with its clean count
PMap(m, o) == [n |-> Cardinality(DOMAIN m), kv |-> [k \in DOMAIN m |-> [id |-> m[k], cl |-> Cl(o, m[k])]]]
RecM(call, ret) == hist' = Append(hist, call @@ [ret |-> ret, st |-> PMap(mp', ob')])
Pairs(m) == {[k |-> k, id |-> m[k]] : k \in DOMAIN m}
LiveInMap == {mp[k] : k \in Dom}

MapStep ==
    \/ \E op \in {"store", "setpair"}, k \in K, v \in V :
          Has(op) /\ mp' = MapPut(mp, k, v) /\ UNCHANGED <<pl, ob, fin, drp>> /\ RecM([op |-> op, k |-> k, v |-> v], "-")
    \/ \E k \in K : Has("delete") /\ mp' = MapDel(mp, k) /\ UNCHANGED <<pl, ob, fin, drp>> /\ RecM([op |-> "delete", k |-> k], "-")
    \* Load: "if the value does not exist it always returns the zero value ... the second value indicates if the key was present"
    \/ \E k \in K : /\ Has("load") /\ UNCHANGED <<mp, pl, ob, fin, drp>>
                    /\ RecM([op |-> "load", k |-> k], IF k \in Dom THEN S(mp[k]) \o ":true" ELSE "0:false")
    \/ \E k \in K : Has("check") /\ UNCHANGED <<mp, pl, ob, fin, drp>> /\ RecM([op |-> "check", k |-> k], B(k \in Dom))
    \* EnsureStore / EnsureSet: "returns true if the value was stored in the map"
    \/ \E op \in {"ensurestore", "ensureset"}, k \in K, v \in V :
          /\ Has(op) /\ UNCHANGED <<pl, ob, fin, drp>>
          /\ mp' = IF k \in Dom THEN mp ELSE MapPut(mp, k, v)
          /\ RecM([op |-> op, k |-> k, v |-> v], B(k \notin Dom))
    \* Swap (go1.20): previous value and whether there was one
    \/ \E k \in K, v \in V :
          /\ Has("swap") /\ UNCHANGED <<pl, ob, fin, drp>> /\ mp' = MapPut(mp, k, v)
          /\ RecM([op |-> "swap", k |-> k, v |-> v], IF k \in Dom THEN S(mp[k]) \o ":true" ELSE "0:false")
    \* EnsureDefault: "The returned value is *always* the value of the key ... The constructor function is *always* called"
    \/ \E k \in K, v \in V :
          /\ Has("ensuredefault") /\ UNCHANGED <<pl, ob, fin, drp>>
          /\ mp' = IF k \in Dom THEN mp ELSE MapPut(mp, k, v)
          /\ RecM([op |-> "ensuredefault", k |-> k, v |-> v, calls |-> 1], S(mp'[k]))
    \* Get: "If the key is not present in the map a default value is created and added to the map."  The default comes
    \* from the pool Default (fetched before the lookup).  When the key is present the fetched default is not needed;
    \* the documentation does not say what happens to it: it may re-enter the pool (the hook runs) or be dropped (AO-3,
    \* both branches are generated; `may` is then left as it is, because which pooled value was dropped is not visible).
    \/ \E k \in K : \E t \in Picks(pl, ob), back \in BOOLEAN :
          /\ Has("get") /\ UNCHANGED <<fin, drp>>
          /\ IF k \in Dom THEN back \in BackChoices ELSE back = ("mapget-put" \in AsIs)
          /\ mp' = IF k \in Dom THEN mp ELSE MapPut(mp, k, t.id)
          /\ IF back THEN LET r == PutOb(t.p, t.o, t.id) IN pl' = r[1] /\ ob' = r[2]
             ELSE IF k \in Dom
                    \* dropped: `may` stays as it was (which pooled value went is not visible; when no logging hook is
                    \* installed not even whether it was dropped: `may` covers both)
                    THEN pl' = [pl EXCEPT !.ncons = t.p.ncons, !.sure = t.p.sure,
                                          !.may = IF HookEv(pl, t.id) = <<>> THEN @ \cup {t.id} ELSE @] /\ ob' = t.o
             ELSE pl' = t.p /\ ob' = t.o
          /\ LET Ev(x, bk) == x.ev \o (IF bk THEN HookEv(pl, x.id) ELSE <<>>) IN
             RecM([op |-> "get", k |-> k, present |-> B(k \in Dom),
                   ev |-> Ev(t, back),
                   evs |-> {Ev(x, bk) : x \in Takes(pl, ob), bk \in IF k \in Dom THEN BOOLEAN ELSE {"mapget-put" \in AsIs}},
                   allow |-> IF k \in Dom THEN {Desc(ob, mp[k])}
                             ELSE {Desc(IF "mapget-put" \in AsIs THEN Hooked(x.o, x.id, pl.hook) ELSE x.o, x.id)
                                     : x \in Takes(pl, ob)},
                   pick |-> Desc(ob', mp'[k])], S(mp'[k]))
    \* Ensure: "adds a key to the map if it does not already exist, using the default value.  The default value, is
    \* taken from the pool" - through Default.Make, i.e. with a finalizer armed; an unused one is garbage at once.
    \/ \E k \in K : \E t \in Picks(pl, ob) :
          /\ Has("ensure") /\ UNCHANGED drp
          /\ ("ensure-nil" \in AsIs => t.id # 0)             \* as is: Make() of a nil pointer ends the process
          /\ pl' = t.p /\ ob' = t.o
          /\ mp' = IF k \in Dom THEN mp ELSE MapPut(mp, k, t.id)
          /\ fin' = IF t.id > 100 THEN fin \cup {t.id} ELSE fin
          \* amb: which pooled object Make() armed is not visible when the key is present; with two or more candidates
          \* the replay of this behaviour stops after this step (a later gc would need to know)
          /\ RecM([op |-> "ensure", k |-> k, present |-> B(k \in Dom), crash |-> "yes",
                   amb |-> B(k \in Dom /\ Cardinality({x \in Takes(pl, ob) : x.via # "new"}) >= 2
                                          /\ \E x \in Takes(pl, ob) : x.via # "new" /\ x.id > 100),
                   ev |-> t.ev, evs |-> {x.ev : x \in Takes(pl, ob)},
                   allow |-> IF k \in Dom THEN {Desc(ob, mp[k])} ELSE AllowOf(Takes(pl, ob)),
                   pick |-> Desc(ob', mp'[k])], "-")
    \* a complete garbage collection, finalizers included: pool objects that carry a finalizer (they were handed out by
    \* Ensure -> Make) and that the map no longer references are Put: the hook runs once on each
    \/ /\ Has("gc") /\ UNCHANGED <<mp, drp>>
       /\ LET back == {id \in fin : id \notin LiveInMap} IN
          /\ pl' = [pl EXCEPT !.may = @ \cup back, !.sure = back]      \* two collections empty a sync.Pool
          /\ ob' = [i \in Idx |-> IF Oid(i) \in back THEN Hooked(ob, Oid(i), pl.hook)[i] ELSE ob[i]]
          /\ fin' = fin \ back
          /\ RecM([op |-> "gc", evset |-> UNION {{HookEv(pl, id)[j] : j \in 1..Len(HookEv(pl, id))} : id \in back}], "-")
    \/ Has("len") /\ UNCHANGED <<mp, pl, ob, fin, drp>> /\ RecM([op |-> "len"], S(Cardinality(Dom)))
    \* Range: "The function is called once on every key in the map"; stopping: "When the range function returns false
    \* the iteration stops".  Keys / Values / Iterator drained completely: the same pairs, each once.
    \/ \E op \in {"range", "keys", "values", "iterator", "marshal"} :
          Has(op) /\ UNCHANGED <<mp, pl, ob, fin, drp>> /\ RecM([op |-> op, pairs |-> Pairs(mp)], "-")
    \/ Has("rangestop") /\ UNCHANGED <<mp, pl, ob, fin, drp>>
          /\ RecM([op |-> "rangestop", pairs |-> Pairs(mp)], S(IF Dom = {} THEN 0 ELSE 1))
    \* UnmarshalJSON: "adds the values to the map.  This does not remove or reset the values in the map"
    \/ \E ks \in (SUBSET K) \ {{}}, v \in V :
          /\ Has("unmarshal") /\ UNCHANGED <<pl, ob, fin, drp>>
          /\ mp' = [x \in Dom \cup ks |-> IF x \in ks THEN v ELSE mp[x]]
          /\ RecM([op |-> "unmarshal", ks |-> ks, v |-> v], "-")
    \* configure Default: constructor c1 (numbered cells) and the counting cleanup hook h1
    \/ /\ Has("config") /\ pl.ctor = "zero" /\ UNCHANGED <<mp, ob, fin, drp>>
       /\ pl' = [pl EXCEPT !.ctor = "c1", !.hook = "h1"]
       /\ RecM([op |-> "config"], "-")

(* -------------------------------------------------------------------- Pool *)
PPool(p, h) == [held |-> h]
RecP(call, ret) == hist' = Append(hist, call @@ [ret |-> ret, st |-> PPool(pl', held')])
Immut == "panic:immutable"       \* fun.ErrInvariantViolation wrapping ers.ErrImmutabilityViolation

PoolStep ==
    \* SetConstructor / SetCleanupHook: after FinalizeSetup "future attempts to set the constructor or cleanup hook
    \* result in a panic and invariant violation"; "if the input function is nil, it is not set" (before it; after it
    \* a nil argument panics as well, AO-4)
    \/ \E c \in {"c1", "c2", "nil"} :
          /\ Has("setctor") /\ UNCHANGED <<ob, held, fin, drp>>
          /\ pl' = IF pl.locked \/ c = "nil" THEN pl ELSE [pl EXCEPT !.ctor = c]
          /\ RecP([op |-> "setctor", f |-> c], IF pl.locked THEN Immut ELSE "-")
    \/ \E h \in {"h1", "h2", "nil"} :
          /\ Has("sethook") /\ UNCHANGED <<ob, held, fin, drp>>
          /\ pl' = IF pl.locked \/ h = "nil" THEN pl ELSE [pl EXCEPT !.hook = h]
          /\ RecP([op |-> "sethook", f |-> h], IF pl.locked THEN Immut ELSE "-")
    \/ /\ Has("finalize") /\ UNCHANGED <<ob, held, fin, drp>>
       /\ pl' = [pl EXCEPT !.locked = TRUE] /\ RecP([op |-> "finalize"], "-")
    \* Get: "returns an object from the pool or constructs a default object according to the constructor"
    \* Make: the same, "and attaches a finalizer that returns the item to the pool when the object would be garbage
    \* collected"; the constructor "should" be set first (Make of a nil pointer ends the process): not exercised
    \/ \E op \in {"get", "make"} : \E t \in Picks(pl, ob) :
          /\ Has(op) /\ UNCHANGED drp
          /\ op = "make" => (pl.ctor # "zero" /\ 0 \notin pl.may)
          /\ pl' = t.p /\ ob' = t.o
          /\ held' = IF t.id = 0 THEN held ELSE held \cup {t.id}
          /\ fin' = IF op = "make" THEN fin \cup {t.id} ELSE fin
          /\ RecP([op |-> op, ev |-> t.ev, evs |-> {x.ev : x \in Takes(pl, ob)},
                   allow |-> AllowOf(Takes(pl, ob)), pick |-> Desc(ob', t.id)], S(t.id))
    \* Put of a value the client holds and that carries no finalizer ("objects retrieved with Make should not be
    \* passed manually to Put()"): the hook runs now, exactly once, and the value may be handed out again
    \/ \E x \in held \ fin :
          /\ Has("put")
          /\ LET r == PutOb(pl, ob, x) IN pl' = r[1] /\ ob' = r[2]
          /\ held' = held \ {x} /\ UNCHANGED <<fin, drp>>
          /\ RecP([op |-> "put", x |-> x, ev |-> HookEv(pl, x), evs |-> {HookEv(pl, x)}, after |-> Desc(ob', x)], "-")
    \* the client forgets a value it got
    \/ \E x \in held :
          /\ Has("drop") /\ held' = held \ {x} /\ drp' = drp \cup {x} /\ UNCHANGED <<pl, ob, fin>>
          /\ RecP([op |-> "drop", x |-> x], "-")
    \* a complete garbage collection, finalizers included: dropped values with a finalizer are Put
    \/ /\ Has("gc") /\ held' = held
       /\ LET back == fin \cap drp IN
          /\ pl' = [pl EXCEPT !.may = @ \cup back, !.sure = back]
          /\ ob' = [i \in Idx |-> IF Oid(i) \in back THEN Hooked(ob, Oid(i), pl.hook)[i] ELSE ob[i]]
          /\ fin' = fin \ back /\ drp' = {}
          /\ RecP([op |-> "gc", evset |-> UNION {{HookEv(pl, id)[j] : j \in 1..Len(HookEv(pl, id))} : id \in back}], "-")

(* ------------------------------------------------ pools of value-typed items *)
\* Objects are the backing arrays.  kind "slice": a Pool[dt.Slice[byte]] whose items are taken with Make (finalizer)
\* or Get; "bytesbuf": adt.MakeBytesBufferPool, whose constructor takes the backing array with Make from an inner
\* slice pool (pool.go:115); "bufpool": adt.MakeBufferPool(min, max) with Put of slices that stayed within / grew
\* beyond max.  Judged: a value handed out is not one the client still holds (NoDoubleHandout); bufpool: what Get
\* returns has length 0 and at least the minimum capacity.
VStep ==
    \* take a value: slice/get, slice/make, bytesbuf/get (a new buffer is built on inner.Make()), bufpool/get
    \/ \E op \in {"get", "make"} : \E t \in Picks(pl, ob) :
          /\ Has(op) /\ (op = "make" => vk = "slice") /\ UNCHANGED drp
          /\ ("make-value" \notin AsIs => t.id \notin held)
          /\ pl' = t.p /\ ob' = t.o
          /\ held' = IF t.id = 0 THEN held ELSE held \cup {t.id}
          /\ fin' = IF t.id # 0 /\ (op = "make" \/ (vk = "bytesbuf" /\ t.via # "pool")) THEN fin \cup {t.id} ELSE fin
          /\ RecP([op |-> op, kind |-> vk,
                   allow |-> AllowOf({x \in Takes(pl, ob) : "make-value" \in AsIs \/ x.id \notin held}),
                   pick |-> Desc(ob', t.id), dup |-> B(t.id \in held)], S(t.id))
    \/ \E x \in held, g \in {"same", "over"} :
          /\ Has("put") /\ (g = "over" => vk = "bufpool") /\ (vk = "slice" => x \notin fin)
          /\ LET in == IF g = "same" THEN {x} ELSE IF "buf-nil" \in AsIs THEN {0} ELSE {} IN
             pl' = [pl EXCEPT !.may = @ \cup in, !.sure = @ \cup in]
          /\ held' = held \ {x} /\ UNCHANGED <<ob, fin, drp>>
          /\ RecP([op |-> "put", kind |-> vk, x |-> x, grow |-> g], "-")
    \/ \E x \in held :
          /\ Has("drop") /\ held' = held \ {x} /\ drp' = drp \cup {x} /\ UNCHANGED <<pl, ob, fin>>
          /\ RecP([op |-> "drop", kind |-> vk, x |-> x], "-")
    \* garbage collection.  Documented: the item returns "when the object would be garbage collected", i.e. after
    \* the client dropped it.  As is: the finalizer sits on a copy that is garbage at once, every armed value returns.
    \/ /\ Has("gc") /\ held' = held /\ ob' = ob
       /\ LET back == IF "make-value" \in AsIs THEN fin ELSE fin \cap drp IN
          /\ pl' = IF vk = "bytesbuf" THEN [pl EXCEPT !.inner = @ \cup back, !.sure = back]
                                       ELSE [pl EXCEPT !.may = @ \cup back, !.sure = back]
          /\ fin' = fin \ back /\ drp' = {}
       /\ RecP([op |-> "gc", kind |-> vk], "-")

(* ------------------------------------------------------------------- Init *)
InitRec(extra) == hist = <<[op |-> "new", comp |-> Comp, keys |-> K, vals |-> V] @@ extra>>

Init ==
    /\ at \in (IF Comp = "atomic" THEN {[set |-> FALSE, val |-> 0]} \cup {ASet(v) : v \in V0} ELSE {[set |-> FALSE, val |-> 0]})
    /\ sy \in (IF Comp = "sync" THEN V0 ELSE {0}) /\ ax = 0
    /\ on \in (IF Comp = "once" THEN {OnceZero} \cup {[OnceZero EXCEPT !.ctor = f, !.defined = TRUE] : f \in Fn} ELSE {OnceZero})
    /\ mn = [done |-> FALSE, val |-> 0]
    /\ mp = [k \in {} |-> 0]
    /\ pl \in (IF Comp = "map" THEN {PoolZero, [PoolZero EXCEPT !.ctor = "c1", !.hook = "h1"]}
               ELSE IF Comp = "vpool" THEN {[PoolZero EXCEPT !.ctor = "arr", !.hook = "trim"]}
               ELSE {PoolZero})
    /\ ob = [i \in Idx |-> NoObj]
    /\ held = {} /\ fin = {} /\ drp = {}
    /\ vk \in (IF Comp = "vpool" THEN VKinds ELSE {"-"})
    /\ InitRec(CASE Comp = "atomic" -> [set |-> B(at.set), v |-> at.val, st |-> PAtomic(at)]
                 [] Comp = "sync" -> [v |-> sy, st |-> PSync(sy, ax)]
                 [] Comp = "once" -> [f |-> on.ctor, st |-> POnce(on, mn)]
                 [] Comp = "map" -> [f |-> pl.ctor, st |-> PMap(mp, ob)]
                 [] Comp = "pool" -> [st |-> PPool(pl, held)]
                 [] Comp = "vpool" -> [kind |-> vk, st |-> PPool(pl, held)])

Step == \/ Comp = "atomic" /\ AtomicStep /\ UNCHANGED <<sy, ax, on, mn, mp, pl, ob, held, fin, drp, vk>>
        \/ Comp = "sync" /\ SyncStep /\ UNCHANGED <<at, on, mn, mp, pl, ob, held, fin, drp, vk>>
        \/ Comp = "once" /\ OnceStep /\ UNCHANGED <<at, sy, ax, mp, pl, ob, held, fin, drp, vk>>
        \/ Comp = "map" /\ MapStep /\ UNCHANGED <<at, sy, ax, on, mn, held, vk>>
        \/ Comp = "pool" /\ PoolStep /\ UNCHANGED <<at, sy, ax, on, mn, mp, vk>>
        \/ Comp = "vpool" /\ VStep /\ UNCHANGED <<at, sy, ax, on, mn, mp, vk>>

Next == Len(hist) < Depth + 1 /\ Step
Spec == Init /\ [][Next]_vars

(* ------------------------------------------------ properties of the spec itself *)
TypeOK == /\ at.val \in V0 /\ sy \in V0 /\ on.comp \in V0
          /\ pl.ncons \in 0..MaxCons /\ DOMAIN mp \subseteq K

\* Once, the C15 obligations at the sequential level: at most one execution in a behaviour, the cached value is the
\* result of that execution and never changes afterwards, Set after the execution has no effect
OnceExecs == Len(SelectSeq(hist, LAMBDA h : "ran" \in DOMAIN h /\ h.op \in {"do", "resolve"} /\ h.ran # <<>>))
OnceAtMostOnce == OnceExecs <= 1
OnceStable == [][on.done => (on'.done /\ on'.comp = on.comp /\ on'.called)]_vars

\* a value the pool may hand out is never one that is live elsewhere: held by the client, or a value of the map
\* (violated exactly by the divergences "mapget-put" and "make-value": MC_asis_*.cfg expect the violation)
NoLiveInPool == ((pl.may \cup pl.inner) \ {0}) \cap (held \cup LiveInMap) = {}
\* the hook ran exactly once per Put (counting hook installed): a held object's clean count equals the number of
\* Puts in the history that named it -- checked through `after` by the replayer; here: counts never decrease
CleanMonotone == [][\A i \in Idx : ob'[i].cl >= ob[i].cl]_vars
\* after FinalizeSetup the configuration is frozen
Frozen == [][pl.locked => (pl'.locked /\ pl'.ctor = pl.ctor /\ pl'.hook = pl.hook)]_vars

\* (the behaviour-generating configs check NoLiveInPool only when no divergence that breaks it is switched on)
Inv == TypeOK /\ OnceAtMostOnce /\ (AsIs \cap {"mapget-put", "make-value"} = {} => NoLiveInPool)
ActionProps == OnceStable /\ CleanMonotone /\ Frozen

\* state constraint of the edge-cover configs: the clean counters are the only unbounded part of the abstract state
Bound == \A i \in Idx : ob[i].cl <= 2

(* ------------------------------------------------------- behaviour emission *)
EmitAll  == Len(hist) < Depth + 1 \/ PrintT(<<"BEH", ToJson(hist)>>)
EmitEdge == PrintT(<<"BEH", ToJson(hist')>>)
SimNext == \/ Next
           \/ Len(hist) = Depth + 1 /\ PrintT(<<"BEH", ToJson(hist)>>) /\ UNCHANGED vars
SimSpec == Init /\ [][SimNext]_vars
=============================================================================
