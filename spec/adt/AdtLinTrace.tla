---------------------------- MODULE AdtLinTrace ----------------------------
(* Code -> model: linearizability of concurrent histories of adt.Map,         *)
(* adt.Atomic, adt.Synchronized and adt.Once (check X02).                     *)
(*                                                                            *)
(* `vh-adt record` runs 2-4 goroutines on one real object and logs, with a    *)
(* global sequence, `call` / `ret` of every public operation, `visit` events  *)
(* from inside a Range callback, `fn` enter / exit events from inside the     *)
(* functions handed to a Once, and a closing `final` observation.  This spec  *)
(* explains a history with the sequential meaning of the types (the same      *)
(* transitions as AdtSeq): an operation is pending between call and ret; the  *)
(* silent step Lin applies it atomically somewhere in that window and fixes   *)
(* its result; ret must find exactly the logged result.  Histories are        *)
(* concatenated with `reset` events; acceptance is the high-water mark idiom  *)
(* (CONSTRAINT HighWater, POSTCONDITION Accepted, one worker).                *)
(*                                                                            *)
(* Not atomic by documentation, therefore specified by their contracts:       *)
(*   Map.Range   "keys will only appear at most once but order or which       *)
(*               version of a value is not defined": every visit (k, v) shows *)
(*               a value k had at some moment between the previous visit (or  *)
(*               the call) and this visit; no key twice; a key that is        *)
(*               present from the call to the return is visited.              *)
(*   Map.Len     the number of visits of such a Range.                        *)
(*   Once        Do / Resolve linearize as one atomic "execute unless done";  *)
(*               additionally (C15) the logged function runs at most once, no *)
(*               Do / Resolve returns while it runs or before it finished,    *)
(*               and the value everybody gets is its result.  Defined() is    *)
(*               documented as observational only and is not recorded.        *)
(* AsIs (same names as in AdtSeq) selects the behaviour of the code for a     *)
(* divergence that is listed as a known finding:                              *)
(*   "cas-unset"     CompareAndSwap(a, 0, n) fails on an Atomic never set     *)
(*   "once-set-race" Do(f) overlapping Set(g) may execute g                   *)
(***************************************************************************)
EXTENDS Integers, Sequences, FiniteSets, TLC, Json

CONSTANTS Keys,     \* keys the recorder uses
          AsIs

Trace == ndJsonDeserialize("trace.ndjson")

VARIABLES l,        \* next event
          kind,     \* "map" | "atomic" | "sync" | "once"
          mem,      \* Map: [Keys -> Int], 0 = absent (the recorder stores values >= 1)
          dflt,     \* Map: the value Default's constructor makes
          reg,      \* Atomic / Synchronized: [set, val]
          on,       \* Once: [ctor, called, done, comp, ran]
          ex,       \* Once, from the fn events: [st |-> "none" | "running" | "done", f]
          pend      \* pending operations
vars == <<l, kind, mem, dflt, reg, on, ex, pend>>

Ev == Trace[l]
More == l <= Len(Trace)
B(b) == IF b THEN "true" ELSE "false"
S(i) == ToString(i)
NoCur == [k |-> "", v |-> 0]
RetOf(f) == CASE f = "f1" -> 1 [] f = "f2" -> 2 [] f = "f3" -> 3 [] OTHER -> 0     \* "nil" / "none": the zero value

Init == /\ l = 1 /\ kind = "-" /\ mem = [k \in Keys |-> 0] /\ dflt = 0
        /\ reg = [set |-> FALSE, val |-> 0]
        /\ on = [ctor |-> "none", called |-> FALSE, done |-> FALSE, comp |-> 0, ran |-> <<>>]
        /\ ex = [st |-> "none", f |-> "-"]
        /\ pend = {}

Reset == /\ More /\ Ev.ev = "reset"
         /\ kind' = "-" /\ mem' = [k \in Keys |-> 0] /\ dflt' = 0 /\ reg' = [set |-> FALSE, val |-> 0]
         /\ on' = [ctor |-> "none", called |-> FALSE, done |-> FALSE, comp |-> 0, ran |-> <<>>]
         /\ ex' = [st |-> "none", f |-> "-"] /\ pend' = {} /\ l' = l + 1

\* how the object was constructed
Config == /\ More /\ Ev.ev = "config"
          /\ kind' = Ev.kind /\ dflt' = Ev.v
          /\ reg' = [set |-> Ev.set = 1, val |-> Ev.v]
          /\ on' = [on EXCEPT !.ctor = Ev.f]
          /\ l' = l + 1 /\ UNCHANGED <<mem, ex, pend>>

Call == /\ More /\ Ev.ev = "call"
        /\ pend' = pend \cup {[id |-> Ev.id, op |-> Ev.op, k |-> Ev.k, v |-> Ev.v, o |-> Ev.o, f |-> Ev.f,
                               lin |-> FALSE, res |-> "?", begun |-> FALSE, seen |-> {}, must |-> {}, cur |-> NoCur]}
        /\ l' = l + 1 /\ UNCHANGED <<kind, mem, dflt, reg, on, ex>>

Done(p, r) == pend' = (pend \ {p}) \cup {[p EXCEPT !.lin = TRUE, !.res = r]}
Present == {k \in Keys : mem[k] # 0}
LoadRes(k) == S(mem[k]) \o ":" \o B(mem[k] # 0)

(* ------------------------------------------------------------ Atomic / Synchronized *)
RGet == IF reg.set THEN reg.val ELSE 0
RSet(v) == [set |-> TRUE, val |-> v]
LinReg(p) ==
    /\ kind \in {"atomic", "sync"}
    /\ \/ p.op \in {"get", "load", "with"} /\ Done(p, S(RGet)) /\ UNCHANGED reg
       \/ p.op \in {"set", "store"} /\ reg' = RSet(p.v) /\ Done(p, "-")
       \/ p.op = "swap" /\ reg' = RSet(p.v) /\ Done(p, S(RGet))
       \/ /\ p.op = "cas"
          /\ LET hit == IF kind = "atomic" /\ "cas-unset" \in AsIs THEN reg.set /\ reg.val = p.o ELSE RGet = p.o IN
             reg' = (IF hit THEN RSet(p.v) ELSE reg) /\ Done(p, B(hit))
    /\ UNCHANGED <<mem, on>>

(* ------------------------------------------------------------ Map *)
\* a Delete that takes effect ends "present throughout" for every Range / Len that has begun
DropMust(S0, k) == {IF q.begun THEN [q EXCEPT !.must = @ \ {k}] ELSE q : q \in S0}
LinMap(p) ==
    /\ kind = "map" /\ UNCHANGED <<reg, on>>
    /\ \/ p.op = "store" /\ mem' = [mem EXCEPT ![p.k] = p.v] /\ Done(p, "-")
       \/ /\ p.op = "delete" /\ mem' = [mem EXCEPT ![p.k] = 0]
          /\ pend' = DropMust((pend \ {p}) \cup {[p EXCEPT !.lin = TRUE, !.res = "-"]}, p.k)
       \/ p.op = "load" /\ UNCHANGED mem /\ Done(p, LoadRes(p.k))
       \/ p.op = "check" /\ UNCHANGED mem /\ Done(p, B(mem[p.k] # 0))
       \/ /\ p.op = "ensurestore" /\ mem' = (IF mem[p.k] = 0 THEN [mem EXCEPT ![p.k] = p.v] ELSE mem)
          /\ Done(p, B(mem[p.k] = 0))
       \/ p.op = "swap" /\ mem' = [mem EXCEPT ![p.k] = p.v] /\ Done(p, LoadRes(p.k))
       \/ /\ p.op = "get" /\ mem' = (IF mem[p.k] = 0 THEN [mem EXCEPT ![p.k] = dflt] ELSE mem)
          /\ Done(p, S(mem'[p.k]))
       \/ /\ p.op = "ensuredefault" /\ mem' = (IF mem[p.k] = 0 THEN [mem EXCEPT ![p.k] = p.v] ELSE mem)
          /\ Done(p, S(mem'[p.k]))

\* Range / Len: begin (fixes which keys are "present from now on"), then one silent step per visited key
Begin == \E p \in pend :
           /\ kind = "map" /\ p.op \in {"range", "len"} /\ ~p.begun
           /\ pend' = (pend \ {p}) \cup {[p EXCEPT !.begun = TRUE, !.must = Present]}
           /\ UNCHANGED <<l, kind, mem, dflt, reg, on, ex>>
Look == \E p \in pend : \E k \in Present \ p.seen :
           /\ kind = "map" /\ p.op \in {"range", "len"} /\ p.begun /\ ~p.lin /\ p.cur = NoCur
           /\ pend' = (pend \ {p}) \cup {[p EXCEPT !.seen = @ \cup {k},
                                                   !.cur = IF p.op = "range" THEN [k |-> k, v |-> mem[k]] ELSE NoCur]}
           /\ UNCHANGED <<l, kind, mem, dflt, reg, on, ex>>
\* the callback of Range was entered with (k, v)
Visit == /\ More /\ Ev.ev = "visit"
         /\ \E p \in pend : /\ p.id = Ev.id /\ p.cur = [k |-> Ev.k, v |-> Ev.v]
                            /\ pend' = (pend \ {p}) \cup {[p EXCEPT !.cur = NoCur]}
         /\ l' = l + 1 /\ UNCHANGED <<kind, mem, dflt, reg, on, ex>>
\* the traversal is over: nothing fetched that was not delivered; every key present throughout was seen
Finish == \E p \in pend :
           /\ kind = "map" /\ p.op \in {"range", "len"} /\ p.begun /\ ~p.lin /\ p.cur = NoCur
           /\ p.must \subseteq p.seen
           /\ Done(p, IF p.op = "len" THEN S(Cardinality(p.seen)) ELSE "-")
           /\ UNCHANGED <<l, kind, mem, dflt, reg, on, ex>>

(* ------------------------------------------------------------ Once *)
\* the one execution: Called() is true from then on; the value is the function's result
Exec(f) == /\ ex.st = "none" \/ ex.f = f              \* the function the recorder saw running is this one
           /\ on' = [ctor |-> "none", called |-> TRUE, done |-> TRUE, comp |-> RetOf(f),
                     ran |-> IF f \in {"nil", "none"} THEN <<>> ELSE <<f>>]
\* as is ("once-set-race"): a Do(f) that overlaps a Set(g) may execute g
DoChoices(p) == {p.f} \cup (IF "once-set-race" \in AsIs THEN {q.f : q \in {r \in pend : r.op = "set"}} ELSE {})
LinOnce(p) ==
    /\ kind = "once" /\ UNCHANGED <<mem, reg>>
    /\ \/ /\ p.op = "do"
          /\ IF on.done THEN on' = on ELSE \E f \in DoChoices(p) : Exec(f)
          /\ Done(p, "-")
       \/ /\ p.op = "resolve"
          /\ IF on.done THEN on' = on ELSE Exec(on.ctor)
          /\ Done(p, S(on'.comp))
       \/ /\ p.op = "set"
          /\ on' = IF on.called THEN on ELSE [on EXCEPT !.ctor = p.f]
          /\ Done(p, "-")
       \/ p.op = "called" /\ on' = on /\ Done(p, B(on.called))

\* the recorder's function f was entered / returned (logged from inside the function)
Fn == /\ More /\ Ev.ev = "fn"
      /\ IF Ev.ph = "enter"
           THEN /\ ex.st = "none"                                   \* at most one execution, ever
                /\ (on.done => on.ran = <<Ev.f>>)
                /\ ex' = [st |-> "running", f |-> Ev.f]
           ELSE /\ ex.st = "running" /\ ex.f = Ev.f /\ ex' = [ex EXCEPT !.st = "done"]
      /\ l' = l + 1 /\ UNCHANGED <<kind, mem, dflt, reg, on, pend>>

Lin == \E p \in pend :
         /\ ~p.lin /\ p.op \notin {"range", "len"}
         /\ (LinReg(p) \/ LinMap(p) \/ LinOnce(p))
         /\ UNCHANGED <<l, kind, dflt, ex>>

Ret == /\ More /\ Ev.ev = "ret"
       /\ \E p \in pend : /\ p.id = Ev.id /\ p.lin /\ p.res = Ev.res /\ pend' = pend \ {p}
                          \* C15: no Do / Resolve returns while the function runs or before it finished
                          /\ (p.op \in {"do", "resolve"} => (ex.st # "running" /\ (on.ran # <<>> => ex.st = "done")))
       /\ l' = l + 1 /\ UNCHANGED <<kind, mem, dflt, reg, on, ex>>

\* every caller has returned: the object shows the abstract state
Final == /\ More /\ Ev.ev = "final" /\ pend = {}
         /\ CASE kind = "map" -> /\ Ev.n = Cardinality(Present)
                                 /\ \A k \in Keys : Ev.items[k] = mem[k]
              [] kind \in {"atomic", "sync"} -> Ev.n = RGet
              [] kind = "once" -> /\ Ev.runs = on.ran
                                  /\ (on.ran # <<>> => ex.st = "done") /\ (on.ran = <<>> => ex.st = "none")
         /\ l' = l + 1 /\ UNCHANGED <<kind, mem, dflt, reg, on, ex, pend>>

Next == Reset \/ Config \/ Call \/ Lin \/ Begin \/ Look \/ Visit \/ Finish \/ Fn \/ Ret \/ Final
Spec == Init /\ [][Next]_vars

HighWater == TLCSet(1, IF TLCGet(1) < l THEN l ELSE TLCGet(1))
Accepted == \/ TLCGet(1) = Len(Trace) + 1
            \/ PrintT(<<"REJECTED", ToJson([at |-> TLCGet(1), event |-> Trace[TLCGet(1)]])>>) /\ FALSE
ASSUME TLCSet(1, 0)
=============================================================================
