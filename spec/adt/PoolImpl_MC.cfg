SPECIFICATION Spec
CONSTANTS
  Clients = {c1, c2}
  MaxObj = 3
  Hooks = {"h1"}
  Keys = {"a", "b"}
  OpsOf = {"get", "make", "put", "dirty", "drop", "mapget", "sethook", "finalize"}
  Budget = 6
  PutStored = FALSE
  CopyFinalizer = FALSE
INVARIANTS TypeOK NoLiveInPool CleanInPool HookOncePerPut SingleOwner FutureCallsPanic
CHECK_DEADLOCK FALSE
