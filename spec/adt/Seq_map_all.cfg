SPECIFICATION Spec
CONSTANTS
  Comp = "map"
  Ops = {"store", "delete", "load", "ensurestore", "swap", "ensuredefault", "get", "ensure", "len", "range", "iterator", "rangestop", "unmarshal", "config", "gc"}
  V = {1, 2}
  K = {"a", "b"}
  Depth = 3
  MaxCons = 3
  VKinds = {"slice", "bytesbuf", "bufpool"}
  AsIs = {}
  Prefer = {"pool"}
INVARIANT Inv
PROPERTY ActionProps
CONSTRAINT EmitAll
CHECK_DEADLOCK FALSE
