------------------------------ MODULE PoolImpl ------------------------------
(* Implementation-shaped specification of adt.Pool[T] (adt/pool.go) and of    *)
(* its use by adt.Map.Get (adt/map.go:71-78).                                 *)
(*                                                                            *)
(*   type Pool struct { once sync.Once; locked atomic.Bool; typeIsPtr bool;   *)
(*                      hook *Atomic[func(T) T]; constructor *Atomic[func() T]; pool *sync.Pool } *)
(*   FinalizeSetup()     p.locked.Store(true)                                              :50 *)
(*   SetCleanupHook(h)   Invariant.IsFalse(p.locked.Load()); if h != nil { p.hook.Set(h) } :55-59 *)
(*   SetConstructor(c)   the same for the constructor                                      :63-67 *)
(*   Get()               p.pool.Get().(T)     (sync.Pool.New = constructor.Get()())        :71 *)
(*   Put(x)              p.pool.Put(p.hook.Get()(x))                                       :76-82 *)
(*   Make()              o := p.pool.Get(); SetFinalizer(o, p.Put)  /  for a non-pointer T:           *)
(*                       SetFinalizer(&o, func(in *T){ p.Put( *in ) }) - on a COPY             :94-103 *)
(*   Map.Get(k)          d := Default.Get(); out, loaded := LoadOrStore(k, d); if !loaded { Default.Put(d) } *)
(*                                                                            *)
(* sync.Pool is modelled by its contract: Get returns (and removes) any value *)
(* that was Put, or calls New; anything in it may vanish at any time.         *)
(* The garbage collector is a process: a finalizer fires when its object is   *)
(* unreachable (pointer T: no client holds it, the map does not hold it and   *)
(* the pool does not hold it; non-pointer T as is: the finalizer sits on a    *)
(* private copy that is unreachable at once, so it may fire at any time).     *)
(*                                                                            *)
(* Switches (TRUE = the code as it is):                                       *)
(*   PutStored      Map.Get returns the default to the pool when it was STORED (`!loaded`)      *)
(*   CopyFinalizer  Make arms the finalizer on a copy although T is a value type                *)
(* PoolImpl_MC.cfg (both FALSE = repaired) satisfies every invariant; PoolImpl_asis_mapget.cfg  *)
(* and PoolImpl_asis_make.cfg expect the violation of NoLiveInPool (non-vacuity self-tests).    *)
(* PoolImpl_obs_late.cfg documents an OBSERVATION that is not a divergence: a SetCleanupHook    *)
(* that tested `locked` before FinalizeSetup may store its hook after FinalizeSetup returned    *)
(* (NoChangeAfterLocked is violated; the documentation only promises that FUTURE calls panic,   *)
(* which is FutureCallsPanic and holds).                                      *)
(***************************************************************************)
EXTENDS Integers, Sequences, FiniteSets, TLC

CONSTANTS Clients,        \* goroutines using the pool
          MaxObj,         \* objects the constructor may make
          Hooks,          \* cleanup hooks a client may install (besides the default "h0")
          Keys,           \* keys of the map (for the Map.Get operation)
          OpsOf,          \* operations explored: subset of {"get","make","put","dirty","drop","sethook","finalize","mapget"}
          Budget,         \* total number of client operations
          PutStored, CopyFinalizer

None == "none"
Obj == 1..MaxObj

VARIABLES pc, reg,        \* per client: program counter, registers [x |-> object, h |-> hook, k |-> key, l |-> locked seen, started |-> locked when the call began]
          locked, hook,   \* the wrapper's atomics
          pool,           \* sync.Pool content (set of objects)
          nobj,           \* objects constructed so far
          holder,         \* [Obj -> client or None]: who holds a reference handed out by Get / Make / Map.Get
          map,            \* [Keys -> object or 0]
          dirty,          \* [Obj -> BOOLEAN] the holder has used the object since it was last cleaned
          cleans, puts,   \* [Obj -> Nat] hook executions on / completed Puts of the object
          armed,          \* [Obj -> BOOLEAN] a finalizer is attached
          fz,             \* the finalizer goroutine: [x |-> object being Put or 0, stage]
          res,            \* per client: result of the last call
          lateStore,      \* history: a hook was stored while locked
          budget
vars == <<pc, reg, locked, hook, pool, nobj, holder, map, dirty, cleans, puts, armed, fz, res, lateStore, budget>>

NoReg == [x |-> 0, h |-> "h0", k |-> None, l |-> FALSE, started |-> FALSE]

Init == /\ pc = [c \in Clients |-> "idle"] /\ reg = [c \in Clients |-> NoReg]
        /\ locked = FALSE /\ hook = "h0" /\ pool = {} /\ nobj = 0
        /\ holder = [x \in Obj |-> None] /\ map = [k \in Keys |-> 0]
        /\ dirty = [x \in Obj |-> FALSE] /\ cleans = [x \in Obj |-> 0] /\ puts = [x \in Obj |-> 0]
        /\ armed = [x \in Obj |-> FALSE] /\ fz = [x |-> 0, stage |-> "idle"]
        /\ res = [c \in Clients |-> "-"] /\ lateStore = FALSE /\ budget = Budget

Goto(c, l) == pc' = [pc EXCEPT ![c] = l]
SetReg(c, r) == reg' = [reg EXCEPT ![c] = r]
Held(c) == {x \in Obj : holder[x] = c}
InMap(x) == \E k \in Keys : map[k] = x
Reachable(x) == holder[x] # None \/ InMap(x) \/ x \in pool \/ fz.x = x
                \/ \E c \in Clients : reg[c].x = x /\ pc[c] \notin {"idle", "ret"}

(* ------------------------------------------------------------ client operations: call *)
Start(c, o) ==
    /\ pc[c] \in {"idle", "ret"} /\ budget > 0 /\ o \in OpsOf /\ budget' = budget - 1
    /\ res' = [res EXCEPT ![c] = "-"]
    /\ UNCHANGED <<locked, hook, pool, nobj, map, cleans, puts, armed, fz, lateStore>>
    /\ CASE o \in {"get", "make"} ->
              /\ SetReg(c, [NoReg EXCEPT !.k = o]) /\ Goto(c, "g1") /\ UNCHANGED <<holder, dirty>>
         [] o = "put" ->        \* the client gives up a value it holds (one that carries no finalizer)
              \E x \in {y \in Held(c) : ~armed[y]} :
                 /\ SetReg(c, [NoReg EXCEPT !.x = x]) /\ Goto(c, "u1")
                 /\ holder' = [holder EXCEPT ![x] = None] /\ UNCHANGED dirty
         [] o = "dirty" ->      \* uses the value
              \E x \in Held(c) : /\ dirty' = [dirty EXCEPT ![x] = TRUE] /\ Goto(c, "ret") /\ UNCHANGED <<reg, holder>>
         [] o = "drop" ->       \* forgets the value
              \E x \in Held(c) : /\ holder' = [holder EXCEPT ![x] = None] /\ Goto(c, "ret") /\ UNCHANGED <<reg, dirty>>
         [] o = "sethook" ->
              \E h \in Hooks : /\ SetReg(c, [NoReg EXCEPT !.h = h, !.started = locked]) /\ Goto(c, "k1") /\ UNCHANGED <<holder, dirty>>
         [] o = "finalize" ->
              /\ Goto(c, "f1") /\ UNCHANGED <<reg, holder, dirty>>
         [] o = "mapget" ->
              \E k \in Keys : /\ SetReg(c, [NoReg EXCEPT !.k = k]) /\ Goto(c, "m1") /\ UNCHANGED <<holder, dirty>>

(* ------------------------------------------------------------ library steps *)
\* sync.Pool.Get: a pooled value, or New() = constructor.Get()()
Take(c) ==
    \/ \E x \in pool : /\ pool' = pool \ {x} /\ SetReg(c, [reg[c] EXCEPT !.x = x]) /\ nobj' = nobj
    \/ /\ nobj < MaxObj /\ nobj' = nobj + 1 /\ pool' = pool
       /\ SetReg(c, [reg[c] EXCEPT !.x = nobj + 1])

\* Get / Make
G1(c) == /\ pc[c] = "g1" /\ Take(c) /\ Goto(c, "g2")
         /\ UNCHANGED <<locked, hook, holder, map, dirty, cleans, puts, armed, fz, res, lateStore, budget>>
G2(c) == /\ pc[c] = "g2"
         /\ holder' = [holder EXCEPT ![reg[c].x] = c]
         /\ armed' = IF reg[c].k = "make" THEN [armed EXCEPT ![reg[c].x] = TRUE] ELSE armed
         /\ res' = [res EXCEPT ![c] = reg[c].x] /\ Goto(c, "ret")
         /\ UNCHANGED <<reg, locked, hook, pool, nobj, map, dirty, cleans, puts, fz, lateStore, budget>>

\* Put: h := p.hook.Get(); y := h(x); p.pool.Put(y)
U1(c) == /\ pc[c] = "u1" /\ SetReg(c, [reg[c] EXCEPT !.h = hook]) /\ Goto(c, "u2")
         /\ UNCHANGED <<locked, hook, pool, nobj, holder, map, dirty, cleans, puts, armed, fz, res, lateStore, budget>>
U2(c) == /\ pc[c] = "u2"
         /\ cleans' = [cleans EXCEPT ![reg[c].x] = @ + 1] /\ dirty' = [dirty EXCEPT ![reg[c].x] = FALSE]
         /\ Goto(c, "u3")
         /\ UNCHANGED <<reg, locked, hook, pool, nobj, holder, map, puts, armed, fz, res, lateStore, budget>>
U3(c) == /\ pc[c] = "u3"
         /\ pool' = pool \cup {reg[c].x} /\ puts' = [puts EXCEPT ![reg[c].x] = @ + 1]
         /\ Goto(c, IF reg[c].k = None THEN "ret" ELSE "m4")
         /\ UNCHANGED <<reg, locked, hook, nobj, holder, map, dirty, cleans, armed, fz, res, lateStore, budget>>

\* SetCleanupHook: test, then store
K1(c) == /\ pc[c] = "k1"
         /\ IF locked THEN res' = [res EXCEPT ![c] = "panic"] /\ Goto(c, "ret")
                      ELSE res' = res /\ Goto(c, "k2")
         /\ UNCHANGED <<reg, locked, hook, pool, nobj, holder, map, dirty, cleans, puts, armed, fz, lateStore, budget>>
K2(c) == /\ pc[c] = "k2" /\ hook' = reg[c].h /\ lateStore' = (lateStore \/ locked) /\ Goto(c, "ret")
         /\ UNCHANGED <<reg, locked, pool, nobj, holder, map, dirty, cleans, puts, armed, fz, res, budget>>
F1(c) == /\ pc[c] = "f1" /\ locked' = TRUE /\ Goto(c, "ret")
         /\ UNCHANGED <<reg, hook, pool, nobj, holder, map, dirty, cleans, puts, armed, fz, res, lateStore, budget>>

\* Map.Get: d := Default.Get()
M1(c) == /\ pc[c] = "m1" /\ Take(c) /\ Goto(c, "m2")
         /\ UNCHANGED <<locked, hook, holder, map, dirty, cleans, puts, armed, fz, res, lateStore, budget>>
\* out, loaded := LoadOrStore(k, d); the default goes back to the pool when it is not needed (as is: when it was stored)
M2(c) == /\ pc[c] = "m2"
         /\ LET k == reg[c].k  loaded == map[k] # 0 IN
            /\ map' = IF loaded THEN map ELSE [map EXCEPT ![k] = reg[c].x]
            /\ res' = [res EXCEPT ![c] = IF loaded THEN map[k] ELSE reg[c].x]
            /\ Goto(c, IF loaded # PutStored THEN "u1" ELSE "m4")
         /\ UNCHANGED <<reg, locked, hook, pool, nobj, holder, dirty, cleans, puts, armed, fz, lateStore, budget>>
\* return: the caller now references the map's value (it may use it: the map's values are shared by design)
M4(c) == /\ pc[c] = "m4" /\ Goto(c, "ret")
         /\ UNCHANGED <<reg, locked, hook, pool, nobj, holder, map, dirty, cleans, puts, armed, fz, res, lateStore, budget>>

\* the finalizer goroutine: p.Put(x) for an armed object that the collector found unreachable
FinFire == /\ fz.stage = "idle"
           /\ \E x \in Obj : /\ armed[x] /\ (CopyFinalizer \/ ~Reachable(x))
                             /\ armed' = [armed EXCEPT ![x] = FALSE] /\ fz' = [x |-> x, stage |-> "hook"]
           /\ UNCHANGED <<pc, reg, locked, hook, pool, nobj, holder, map, dirty, cleans, puts, res, lateStore, budget>>
FinHook == /\ fz.stage = "hook"
           /\ cleans' = [cleans EXCEPT ![fz.x] = @ + 1] /\ dirty' = [dirty EXCEPT ![fz.x] = FALSE]
           /\ fz' = [fz EXCEPT !.stage = "put"]
           /\ UNCHANGED <<pc, reg, locked, hook, pool, nobj, holder, map, puts, armed, res, lateStore, budget>>
FinPut == /\ fz.stage = "put"
          /\ pool' = pool \cup {fz.x} /\ puts' = [puts EXCEPT ![fz.x] = @ + 1] /\ fz' = [x |-> 0, stage |-> "idle"]
          /\ UNCHANGED <<pc, reg, locked, hook, nobj, holder, map, dirty, cleans, armed, res, lateStore, budget>>

\* sync.Pool may drop anything (victim cache, per-P caches)
Vanish == /\ \E x \in pool : pool' = pool \ {x}
          /\ UNCHANGED <<pc, reg, locked, hook, nobj, holder, map, dirty, cleans, puts, armed, fz, res, lateStore, budget>>

Lib(c) == G1(c) \/ G2(c) \/ U1(c) \/ U2(c) \/ U3(c) \/ K1(c) \/ K2(c) \/ F1(c) \/ M1(c) \/ M2(c) \/ M4(c)
Next == \/ \E c \in Clients : Lib(c) \/ \E o \in OpsOf : Start(c, o)
        \/ FinFire \/ FinHook \/ FinPut \/ Vanish
Spec == Init /\ [][Next]_vars

(* ------------------------------------------------------------ Properties *)
TypeOK == /\ pool \subseteq Obj /\ nobj \in 0..MaxObj /\ hook \in Hooks \cup {"h0"}

\* a pooled value is referenced by nobody else: not held by a client, not a value of the map
NoLiveInPool == \A x \in pool : holder[x] = None /\ ~InMap(x)
\* "Get returns a cleaned value": whatever sits in the pool has been through the cleanup hook since it was last used
CleanInPool == \A x \in pool : ~dirty[x]
\* the hook runs exactly once per Put, before the value can be reused
HookOncePerPut == \A x \in Obj : cleans[x] \in {puts[x], puts[x] + 1}
                                 /\ (cleans[x] = puts[x] + 1 => (fz.x = x \/ \E c \in Clients : reg[c].x = x /\ pc[c] = "u3"))
\* one owner at a time (checked where a reference is handed out)
SingleOwner == \A c \in Clients : pc[c] = "g2" => (holder[reg[c].x] = None /\ ~InMap(reg[c].x))
\* "future attempts to set the constructor or cleanup hook result in a panic": a call that began after locked was set
FutureCallsPanic == \A c \in Clients : (pc[c] = "k2") => ~reg[c].started
\* NOT promised by the documentation (a racing call is not a future call); PoolImpl_obs_late.cfg shows it is violated
NoChangeAfterLocked == ~lateStore
=============================================================================
