SPECIFICATION SimSpec
CONSTANTS
  Comp = "map"
  Ops = {"store", "setpair", "delete", "load", "check", "ensurestore", "ensureset", "swap", "ensuredefault", "get", "ensure", "len", "range", "keys", "values", "iterator", "marshal", "rangestop", "unmarshal", "config", "gc"}
  V = {1, 2}
  K = {"a", "b", "c"}
  Depth = 30
  MaxCons = 3
  VKinds = {"slice", "bytesbuf", "bufpool"}
  AsIs = {}
  Prefer = {"pool"}
INVARIANT Inv
PROPERTY ActionProps
CHECK_DEADLOCK FALSE
