SPECIFICATION Spec
CONSTANTS
  Comp = "pool"
  Ops = {"setctor", "sethook", "finalize", "get", "make", "put", "drop", "gc"}
  V = {1, 2}
  K = {"a", "b"}
  Depth = 10
  MaxCons = 2
  VKinds = {"slice", "bytesbuf", "bufpool"}
  AsIs = {}
  Prefer = {"pool"}
INVARIANT Inv
PROPERTY ActionProps
CONSTRAINT Bound
VIEW view
ACTION_CONSTRAINT EmitEdge
CHECK_DEADLOCK FALSE
