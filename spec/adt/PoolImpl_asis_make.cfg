SPECIFICATION Spec
CONSTANTS
  Clients = {c1}
  MaxObj = 2
  Hooks = {"h1"}
  Keys = {"a"}
  OpsOf = {"make"}
  Budget = 1
  PutStored = FALSE
  CopyFinalizer = TRUE
INVARIANTS TypeOK NoLiveInPool
CHECK_DEADLOCK FALSE
