SPECIFICATION Spec
CONSTANTS
  Clients = {c1, c2}
  MaxObj = 2
  Hooks = {"h1"}
  Keys = {"a"}
  OpsOf = {"get", "make", "put", "dirty", "drop", "mapget"}
  Budget = 4
  PutStored = FALSE
  CopyFinalizer = FALSE
INVARIANTS TypeOK NoLiveInPool CleanInPool HookOncePerPut SingleOwner FutureCallsPanic
CHECK_DEADLOCK FALSE
