SPECIFICATION SimSpec
CONSTANTS
  Comp = "once"
  Ops = {"do", "resolve", "set", "called", "defined", "mnemo"}
  V = {1, 2}
  K = {"a", "b", "c"}
  Depth = 14
  MaxCons = 1
  VKinds = {"slice", "bytesbuf", "bufpool"}
  AsIs = {}
  Prefer = {"pool"}
INVARIANT Inv
PROPERTY ActionProps
CHECK_DEADLOCK FALSE
