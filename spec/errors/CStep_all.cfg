SPECIFICATION Spec
CONSTANTS
  MaxAdds = 3
  MaxReads = 3
  Iters = {"i1"}
  Depth = 6
CONSTRAINT EmitAll
CHECK_DEADLOCK FALSE
