SPECIFICATION Spec
CONSTANTS
  MaxAdds = 3
  MaxReads = 3
  Iters = {"i1"}
  Depth = 6
  Ops = {"add", "nil", "len", "resolve", "open", "read"}
  Kinds = {}
  Sizes = {}
  HoldKinds = {}
  MaxHolds = 0
  MaxHeld = 3
CONSTRAINT EmitAll
CHECK_DEADLOCK FALSE
