SPECIFICATION SpecMulti
CHECK_DEADLOCK FALSE
