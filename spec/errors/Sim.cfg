INIT SimInit
NEXT SimNext
CONSTANTS
  LeafIds = {"s1", "s2", "p1", "t1", "t2"}
  MaxDepth = 0
  MaxArity = 3
  UnOps = {"wrap1", "erswrap", "panic", "tail"}
  NOps = {"multi", "join", "sres", "stack", "coll", "panics"}
  SimSteps = 12
  NilLike = {"nstack"}
  Holey <- HoleyA
INVARIANT SimSane
CONSTRAINT SimEmit
CHECK_DEADLOCK FALSE
