INIT EnumInit
NEXT EnumNext
CONSTANTS
  LeafIds = {"s1", "t1"}
  MaxDepth = 2
  MaxArity = 2
  UnOps = {"wrap1", "erswrap", "panic"}
  NOps = {"multi", "join", "sres", "stack", "coll", "panics"}
  SimSteps = 0
  NilLike = {}
  Holey = {}
INVARIANT Sane
CONSTRAINT Emit
CHECK_DEADLOCK FALSE
