INIT EnumInit
NEXT EnumNext
CONSTANTS
  LeafIds = {"s1", "t1"}
  MaxDepth = 2
  MaxArity = 2
  UnOps = {"wrap1", "erswrap", "panic"}
  NOps = {"multi", "join", "stack", "coll"}
  SimSteps = 0
  NilLike = {}
  Holey = {}
INVARIANT Sane
CONSTRAINT EmitPlain
CHECK_DEADLOCK FALSE
