SPECIFICATION Spec
CONSTANTS
  MaxAdds = 3
  MaxReads = 4
  Iters = {"i1", "i2"}
  Depth = 9
VIEW view
ACTION_CONSTRAINT EmitEdge
CHECK_DEADLOCK FALSE
