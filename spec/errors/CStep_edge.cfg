SPECIFICATION Spec
CONSTANTS
  MaxAdds = 6
  MaxReads = 4
  Iters = {"i1", "i2"}
  Depth = 9
  Ops = {"add", "nil", "nstack", "len", "resolve", "open", "read", "addc", "hold"}
  Kinds = {"fmtw", "stack", "nested"}
  Sizes = {0, 2}
  HoldKinds = {"gunwind", "gunwrap"}
  MaxHolds = 1
  MaxHeld = 3
VIEW view
ACTION_CONSTRAINT EmitEdge
CHECK_DEADLOCK FALSE
