--------------------------- MODULE CollectorStep ---------------------------
(* Sequential driver schedules for erc.Collector (property C12).  This module  *)
(* only ENUMERATES what the single-goroutine driver does - Add of a fresh      *)
(* error, Add(nil), Len, Resolve, Iterator() ("open") and one ReadOne on an    *)
(* open iterator ("read") in every order, in particular Adds between two reads *)
(* of the same iterator.  The harness executes each schedule against the real  *)
(* Collector, records call/ret events with the values the code returned, and   *)
(* CollectorLinTrace.tla judges the recorded history: the verdict comes from   *)
(* that module, not from here.                                                 *)
(***************************************************************************)
EXTENDS Integers, Sequences, FiniteSets, TLC, Json

CONSTANTS MaxAdds, MaxReads, Iters, Depth

VARIABLES nadds, open, reads, hist
vars == <<nadds, open, reads, hist>>
view == <<nadds, open, reads>>

Init == nadds = 0 /\ open = {} /\ reads = [i \in Iters |-> 0] /\ hist = <<>>

Rec(op, arg) == hist' = Append(hist, [op |-> op, arg |-> arg])

AddFresh == /\ nadds < MaxAdds /\ nadds' = nadds + 1
            /\ Rec("add", "e" \o ToString(nadds + 1)) /\ UNCHANGED <<open, reads>>
AddNil   == Rec("add", "nil") /\ UNCHANGED <<nadds, open, reads>>
LenOp    == Rec("len", "-") /\ UNCHANGED <<nadds, open, reads>>
Resolve  == Rec("resolve", "-") /\ UNCHANGED <<nadds, open, reads>>
Open(i)  == /\ i \notin open /\ open' = open \cup {i}
            /\ Rec("open", i) /\ UNCHANGED <<nadds, reads>>
Read(i)  == /\ i \in open /\ reads[i] < MaxReads
            /\ reads' = [reads EXCEPT ![i] = @ + 1]
            /\ Rec("read", i) /\ UNCHANGED <<nadds, open>>

Step == AddFresh \/ AddNil \/ LenOp \/ Resolve \/ \E i \in Iters : Open(i) \/ Read(i)
Next == Len(hist) < Depth /\ Step
Spec == Init /\ [][Next]_vars

EmitAll  == Len(hist) < Depth \/ PrintT(<<"BEH", ToJson(hist)>>)
EmitEdge == PrintT(<<"BEH", ToJson(hist')>>)
=============================================================================
