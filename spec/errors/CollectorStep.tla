--------------------------- MODULE CollectorStep ---------------------------
(* Driver schedules for erc.Collector (property C12).  This module only        *)
(* ENUMERATES what the driver does - Add of a fresh error, Add(nil), Add of a   *)
(* typed-nil *ers.Stack ("nstack": nil-like, ignored), Add of a COMPOSITE error *)
(* made of fresh leaves (op "addc": errors.Join, fmt.Errorf with several %w, an *)
(* *ers.Stack, the caller's own Unwind()/Unwrap() []error types with nil holes, *)
(* nested), Len, Resolve, Iterator() ("open") and one ReadOne on an open         *)
(* iterator ("read") in every order, in particular Adds between two reads of    *)
(* the same iterator.                                                           *)
(*                                                                              *)
(* HOLD steps (the scheduling device for "used from many goroutines"): op       *)
(* "hold" is an Add of a composite of the driver's own type whose Unwind() /    *)
(* Unwrap() []error method parks at a gate - i.e. the goroutine executing that  *)
(* Add is descheduled in the middle of flattening its operand (the method is    *)
(* harness code, holding it is a schedule, not a fault).  Until "release" every *)
(* further step is issued on its own goroutine and the driver only waits for    *)
(* quiescence: the step has returned, or is parked behind the held Add.  An     *)
(* iterator opened while an Add is held is not read before the release (its     *)
(* Iterator() call may still be pending).                                       *)
(*                                                                              *)
(* The harness executes each schedule against the real Collector, records       *)
(* call/ret events with the values the code returned, and CollectorLinTrace.tla *)
(* judges the recorded history: the verdict comes from that module, not here.   *)
(***************************************************************************)
EXTENDS Integers, Sequences, FiniteSets, TLC, Json

CONSTANTS MaxAdds, MaxReads, Iters, Depth,
          Ops,        \* step families in use: subset of AllOps
          Kinds,      \* composite kinds for "addc"
          Sizes,      \* numbers of fresh leaves in a composite (0 = a composite that lists nothing)
          HoldKinds,  \* gated composite kinds for "hold"
          MaxHolds,
          MaxHeld     \* steps issued while one Add is held (bounds the operations pending at the same time,
                      \* i.e. the linearisation orders CollectorLinTrace has to try per history)

AllOps == {"add", "nil", "nstack", "len", "resolve", "open", "read", "addc", "hold"}
ASSUME Ops \subseteq AllOps

VARIABLES nadds, open, reads, hist, held, popen, nholds, nheld
vars == <<nadds, open, reads, hist, held, popen, nholds, nheld>>
view == <<nadds, open, reads, held, popen, nholds, nheld>>

Init == /\ nadds = 0 /\ open = {} /\ reads = [i \in Iters |-> 0] /\ hist = <<>>
        /\ held = FALSE /\ popen = {} /\ nholds = 0 /\ nheld = 0

Rec(op, arg, ids) == hist' = Append(hist, [op |-> op, arg |-> arg, ids |-> ids])
Fresh(k) == [i \in 1..k |-> "e" \o ToString(nadds + i)]

AddFresh == /\ "add" \in Ops /\ nadds < MaxAdds /\ nadds' = nadds + 1
            /\ Rec("add", "e" \o ToString(nadds + 1), <<>>) /\ UNCHANGED <<open, reads, held, popen, nholds>>
AddNil   == /\ "nil" \in Ops /\ Rec("add", "nil", <<>>) /\ UNCHANGED <<nadds, open, reads, held, popen, nholds>>
AddNStk  == /\ "nstack" \in Ops /\ Rec("add", "nstack", <<>>) /\ UNCHANGED <<nadds, open, reads, held, popen, nholds>>
AddComp  == /\ "addc" \in Ops
            /\ \E kind \in Kinds, k \in Sizes :
                 /\ nadds + k <= MaxAdds /\ nadds' = nadds + k
                 /\ Rec("addc", kind, Fresh(k))
            /\ UNCHANGED <<open, reads, held, popen, nholds>>
LenOp    == /\ "len" \in Ops /\ Rec("len", "-", <<>>) /\ UNCHANGED <<nadds, open, reads, held, popen, nholds>>
Resolve  == /\ "resolve" \in Ops /\ Rec("resolve", "-", <<>>) /\ UNCHANGED <<nadds, open, reads, held, popen, nholds>>
Open(i)  == /\ "open" \in Ops /\ i \notin open /\ open' = open \cup {i}
            /\ popen' = IF held THEN popen \cup {i} ELSE popen
            /\ Rec("open", i, <<>>) /\ UNCHANGED <<nadds, reads, held, nholds>>
Read(i)  == /\ "read" \in Ops /\ i \in open /\ i \notin popen /\ reads[i] < MaxReads
            /\ reads' = [reads EXCEPT ![i] = @ + 1]
            /\ Rec("read", i, <<>>) /\ UNCHANGED <<nadds, open, held, popen, nholds>>
Hold     == /\ "hold" \in Ops /\ ~held /\ nholds < MaxHolds
            /\ \E kind \in HoldKinds, k \in Sizes \ {0} :
                 /\ nadds + k <= MaxAdds /\ nadds' = nadds + k
                 /\ Rec("hold", kind, Fresh(k))
            /\ held' = TRUE /\ nholds' = nholds + 1 /\ UNCHANGED <<open, reads, popen>>
Release  == /\ held /\ held' = FALSE /\ popen' = {}
            /\ Rec("release", "-", <<>>) /\ UNCHANGED <<nadds, open, reads, nholds>>

Other == \/ AddFresh \/ AddNil \/ AddNStk \/ AddComp \/ LenOp \/ Resolve
         \/ \E i \in Iters : Open(i) \/ Read(i)
Step == \/ ~held /\ (Other \/ Hold) /\ nheld' = 0
        \/ held /\ nheld < MaxHeld /\ Other /\ nheld' = nheld + 1
        \/ Release /\ nheld' = 0
Next == Len(hist) < Depth /\ Step
Spec == Init /\ [][Next]_vars

EmitAll  == Len(hist) < Depth \/ PrintT(<<"BEH", ToJson(hist)>>)
\* schedules with at least one hold (everything else is covered by the hold-free configurations);
\* a hold that is still pending at the end is released by the driver before the final observation
EmitHeld == Len(hist) < Depth \/ nholds = 0 \/ PrintT(<<"BEH", ToJson(hist)>>)
EmitEdge == PrintT(<<"BEH", ToJson(hist')>>)
=============================================================================
