SPECIFICATION Spec
CONSTANTS
  MaxAdds = 7
  MaxReads = 3
  Iters = {"i1"}
  Depth = 6
  Ops = {"add", "addc", "len", "open", "read", "hold"}
  Kinds = {"hunwind"}
  Sizes = {2}
  HoldKinds = {"gunwind", "gunwrap"}
  MaxHolds = 1
  MaxHeld = 3
CONSTRAINT EmitHeld
CHECK_DEADLOCK FALSE
