INIT EnumInit
NEXT EnumNext
CONSTANTS
  LeafIds = {"s1"}
  MaxDepth = 2
  MaxArity = 2
  UnOps = {"wrap1", "erswrap", "panic"}
  NOps = {"multi", "join", "coll"}
  SimSteps = 0
  NilLike = {"nstack"}
  Holey <- HoleyB
INVARIANT Sane
CONSTRAINT Emit
CHECK_DEADLOCK FALSE
