------------------------- MODULE CollectorLinTrace -------------------------
(* Code -> model (property C12, Collector half): validates call/ret histories   *)
(* recorded from the real erc.Collector - sequential driver schedules of        *)
(* CollectorStep.tla and concurrent runs of several goroutines - against the    *)
(* sequential meaning of the API:                                               *)
(*                                                                              *)
(*   the Collector holds exactly the non-nil errors added (abstract state       *)
(*   `added`, every recorded Add uses a fresh error, so a set is a bag);        *)
(*   Len() = |added|;  Resolve() = nil  iff  added = {}.                        *)
(*   Nil-like arguments (nil, a typed-nil *ers.Stack "nstack") add nothing.     *)
(*   An Add of a COMPOSITE error (op "addc": errors.Join / fmt.Errorf with      *)
(*   several %w / an *ers.Stack / a type with Unwind() or Unwrap() []error,     *)
(*   possibly nested or with nil holes; field `ids` = its fresh leaves) adds    *)
(*   the bag of its leaves in ONE atomic step: Len() never sees half of it and  *)
(*   no concurrent Add is lost or repeated because of it.  Inside one composite *)
(*   the order of the leaves is not judged (DESIGN 5.0 "C12 order").            *)
(*                                                                              *)
(* Add/Len/Resolve are pending between `call` and `ret`; the silent step        *)
(* Lin(p) applies one atomically and fixes its result, `ret` must find the      *)
(* operation linearised with exactly the logged result.                         *)
(*                                                                              *)
(* Iterators are judged with the WEAKEST reading of "holds exactly the errors   *)
(* added, most recent first" that does not depend on how an implementation      *)
(* snapshots: an iterator obtained by Iterator() (op "open"), read with         *)
(* ReadOne (op "read"; or "iter" = open and drain in one go)                    *)
(*   - yields only errors whose Add had been called           (nothing invented)*)
(*   - yields no error twice                                  (exactly once)    *)
(*   - reports io.EOF only after it yielded every error whose Add had returned  *)
(*     before Iterator() was called                           (nothing lost)    *)
(*   - most recent first: an error listed EARLIER is never strictly OLDER in     *)
(*     real time (its Add returned before the other Add was called) than one    *)
(*     listed later.                                                            *)
(* A `final` event (everything has returned) carries Len() and the ids of       *)
(* ers.Unwind(Resolve()): exactly `added`, each once, most recent first.        *)
(* Many histories are concatenated with `reset` events.  Two ways of running:   *)
(*  Trace.cfg       Spec: every event must be explained; POSTCONDITION Accepted  *)
(*                  names the first unexplained event (used on single histories) *)
(*  TraceMulti.cfg  SpecMulti: a history may be given up (jump behind the next   *)
(*                  `reset`, whose position every event carries in field `nr`);  *)
(*                  the `reset` that closes a history is only reached by         *)
(*                  explaining all its events and then prints <<"ACC", h>>.      *)
(*                  Histories without an ACC line are rejected - one TLC run     *)
(*                  gives a verdict per history.                                 *)
(***************************************************************************)
EXTENDS Integers, Sequences, FiniteSets, TLC, Json

Trace == ndJsonDeserialize("trace.ndjson")

VARIABLES l,        \* next trace position
          added,    \* abstract Collector: ids of the linearised non-nil Adds
          pend,     \* pending Add/Len/Resolve operations
          called,   \* ids of Adds whose call event was seen
          retd,     \* ids of Adds whose ret event was seen
          pred,     \* id -> ids of the Adds that had returned before this Add was called
          its       \* iterator handle -> [must, yielded (sequence)]
vars == <<l, added, pend, called, retd, pred, its>>

Ev == Trace[l]
More == l <= Len(Trace)
NoPred == [x \in {} |-> {}]

Init == /\ l = 1 /\ added = {} /\ pend = {} /\ called = {} /\ retd = {}
        /\ pred = NoPred /\ its = [x \in {} |-> {}]

Reset == /\ More /\ Ev.ev = "reset"
         /\ PrintT(<<"ACC", ToJson([h |-> Ev.h])>>)                 \* history Ev.h (the one before this reset) is explained
         /\ added' = {} /\ pend' = {} /\ called' = {} /\ retd' = {}
         /\ pred' = NoPred /\ its' = [x \in {} |-> {}] /\ l' = l + 1

Ext(f, k, v) == [x \in DOMAIN f \cup {k} |-> IF x = k THEN v ELSE f[x]]
Range(s) == {s[i] : i \in 1..Len(s)}

LinOps  == {"add", "addc", "len", "resolve"}
NilArgs == {"nil", "nstack"}

\* the errors an Add supplies
Supplied(op, arg, ids) == IF op = "add" THEN (IF arg \in NilArgs THEN {} ELSE {arg})
                          ELSE IF op = "addc" THEN Range(ids) ELSE {}

Call == /\ More /\ Ev.ev = "call" /\ Ev.op \in LinOps
        /\ pend' = pend \cup {[id |-> Ev.id, op |-> Ev.op, arg |-> Ev.arg, ids |-> Ev.ids, lin |-> FALSE, res |-> "-"]}
        /\ LET new == Supplied(Ev.op, Ev.arg, Ev.ids) IN
             /\ new \cap called = {}                      \* the recorder uses fresh errors
             /\ Ev.op = "addc" => Cardinality(new) = Len(Ev.ids)
             /\ called' = called \cup new
             /\ pred' = [x \in DOMAIN pred \cup new |-> IF x \in DOMAIN pred THEN pred[x] ELSE retd]
        /\ l' = l + 1 /\ UNCHANGED <<added, retd, its>>

Done(p, r) == pend' = (pend \ {p}) \cup {[p EXCEPT !.lin = TRUE, !.res = r]}

Lin == \E p \in pend :
         /\ ~p.lin
         /\ \/ /\ p.op \in {"add", "addc"}
               /\ added' = added \cup Supplied(p.op, p.arg, p.ids)       \* a composite: all its leaves at once
               /\ Done(p, "ok")
            \/ /\ p.op = "len" /\ Done(p, ToString(Cardinality(added))) /\ UNCHANGED added
            \/ /\ p.op = "resolve" /\ Done(p, IF added = {} THEN "nil" ELSE "err") /\ UNCHANGED added
         /\ UNCHANGED <<l, called, retd, pred, its>>

Ret == /\ More /\ Ev.ev = "ret" /\ Ev.op \in LinOps
       /\ \E p \in pend : /\ p.id = Ev.id /\ p.lin /\ p.res = Ev.res /\ pend' = pend \ {p}
                          /\ retd' = retd \cup Supplied(p.op, p.arg, p.ids)
       /\ l' = l + 1 /\ UNCHANGED <<added, called, pred, its>>

\* ---- iterators (judged declaratively, no linearisation point needed)
\* may x be listed after everything in `before`?
MayFollow(x, before) == /\ x \in called
                        /\ x \notin before
                        /\ pred[x] \cap before = {}       \* nothing listed earlier is strictly older than x

\* a whole listing: only added errors, none twice, most recent first
RECURSIVE Listing(_, _, _)
Listing(ids, j, seen) == IF j > Len(ids) THEN TRUE
                         ELSE /\ MayFollow(ids[j], seen)
                              /\ Listing(ids, j + 1, seen \cup {ids[j]})

OpenCall == /\ More /\ Ev.ev = "call" /\ Ev.op \in {"open", "iter"}
            /\ its' = Ext(its, Ev.arg, [must |-> retd, yielded |-> <<>>])
            /\ l' = l + 1 /\ UNCHANGED <<added, pend, called, retd, pred>>

ReadCall == /\ More /\ Ev.ev = "call" /\ Ev.op = "read"
            /\ Ev.arg \in DOMAIN its
            /\ l' = l + 1 /\ UNCHANGED <<added, pend, called, retd, pred, its>>

OpenRet == /\ More /\ Ev.ev = "ret" /\ Ev.op = "open"
           /\ l' = l + 1 /\ UNCHANGED <<added, pend, called, retd, pred, its>>

ReadRet == /\ More /\ Ev.ev = "ret" /\ Ev.op = "read"
           /\ LET it == its[Ev.arg] IN
              IF Ev.res = "eof"
                THEN it.must \subseteq Range(it.yielded) /\ UNCHANGED its
                ELSE /\ MayFollow(Ev.res, Range(it.yielded))
                     /\ its' = [its EXCEPT ![Ev.arg].yielded = Append(@, Ev.res)]
           /\ l' = l + 1 /\ UNCHANGED <<added, pend, called, retd, pred>>

\* open + drain to EOF by one goroutine
IterRet == /\ More /\ Ev.ev = "ret" /\ Ev.op = "iter"
           /\ LET it == its[Ev.arg]  ids == Ev.ids IN
              /\ Listing(ids, 1, {})
              /\ it.must \subseteq Range(ids)
           /\ l' = l + 1 /\ UNCHANGED <<added, pend, called, retd, pred, its>>

\* a burst: many goroutines Add the fresh errors Ev.ids at once while nothing else runs (the
\* recorder logs one call event before the first and one ret event after the last Add)
BurstCall == /\ More /\ Ev.ev = "call" /\ Ev.op = "burst"
             /\ Range(Ev.ids) \cap called = {}
             /\ called' = called \cup Range(Ev.ids)
             /\ pred' = [x \in DOMAIN pred \cup Range(Ev.ids) |-> IF x \in DOMAIN pred THEN pred[x] ELSE retd]
             /\ l' = l + 1 /\ UNCHANGED <<added, pend, retd, its>>
BurstRet  == /\ More /\ Ev.ev = "ret" /\ Ev.op = "burst"
             /\ added' = added \cup Range(Ev.ids) /\ retd' = retd \cup Range(Ev.ids)
             /\ l' = l + 1 /\ UNCHANGED <<pend, called, pred, its>>

\* everything has returned: the Collector holds exactly the non-nil errors added
Final == /\ More /\ Ev.ev = "final"
         /\ pend = {} /\ added = called
         /\ Ev.res = ToString(Cardinality(added))                      \* Len()
         /\ (Ev.arg = "nil") <=> (added = {})                          \* Resolve() nil iff none
         /\ Len(Ev.ids) = Cardinality(added) /\ Range(Ev.ids) = added   \* Unwind: each exactly once
         /\ Listing(Ev.ids, 1, {})
         /\ l' = l + 1 /\ UNCHANGED <<added, pend, called, retd, pred, its>>

\* abandon the current history: continue as if the next reset had just been taken
GiveUp == /\ More /\ Ev.ev # "reset"
          /\ added' = {} /\ pend' = {} /\ called' = {} /\ retd' = {}
          /\ pred' = NoPred /\ its' = [x \in {} |-> {}] /\ l' = Ev.nr + 1

Next == Reset \/ Call \/ Lin \/ Ret \/ BurstCall \/ BurstRet \/ OpenCall \/ ReadCall \/ OpenRet \/ ReadRet \/ IterRet \/ Final
Spec == Init /\ [][Next]_vars
SpecMulti == Init /\ [][Next \/ GiveUp]_vars

HighWater == TLCSet(1, IF TLCGet(1) < l THEN l ELSE TLCGet(1))
Accepted == \/ TLCGet(1) = Len(Trace) + 1
            \/ PrintT(<<"REJECTED", ToJson([at |-> TLCGet(1), event |-> Trace[TLCGet(1)]])>>) /\ FALSE
ASSUME TLCSet(1, 0)
=============================================================================
