INIT TailInit
NEXT EnumNext
CONSTANTS
  LeafIds = {"s1", "t1"}
  MaxDepth = 1
  MaxArity = 3
  UnOps = {"wrap1", "erswrap", "panic", "tail"}
  NOps = {"multi", "join", "sres", "stack", "coll", "panics"}
  SimSteps = 0
  NilLike = {}
  Holey = {}
INVARIANT Sane
CONSTRAINT Emit
CHECK_DEADLOCK FALSE
