SPECIFICATION Spec
CONSTANTS
  MaxAdds = 12
  MaxReads = 7
  Iters = {"i1", "i2", "i3"}
  Depth = 16
  Ops = {"add", "nil", "nstack", "len", "resolve", "open", "read", "addc", "hold"}
  Kinds = {"join", "fmtw", "stack", "hunwind", "hunwrap", "nested"}
  Sizes = {0, 2, 3}
  HoldKinds = {"gunwind", "gunwrap"}
  MaxHolds = 3
  MaxHeld = 3
CONSTRAINT EmitAll
CHECK_DEADLOCK FALSE
