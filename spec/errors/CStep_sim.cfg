SPECIFICATION Spec
CONSTANTS
  MaxAdds = 6
  MaxReads = 7
  Iters = {"i1", "i2", "i3"}
  Depth = 16
CONSTRAINT EmitAll
CHECK_DEADLOCK FALSE
