---------------------------- MODULE ErrAlgebra ----------------------------
(* Property C12: error aggregation with ers.Join / ers.Stack / ers.Wrap /     *)
(* ers.ParsePanic / erc.Collector is lossless and errors.Is/As/Unwind-         *)
(* consistent.                                                                 *)
(*                                                                             *)
(* Two things live in this module.                                             *)
(*  (1) The TERM LANGUAGE TLC enumerates: finite trees over                    *)
(*        nil | leaf(id) | wrap1(e)   fmt.Errorf("..%w", e)                    *)
(*        | multi(es)                 errors.Join(es...)                       *)
(*        | join(es)                  ers.Join(es...)                          *)
(*        | sres(es)                  s := &ers.Stack{}; s.Push(e)...; s.Resolve() *)
(*        | stack(es)                 the *ers.Stack itself, used as an error  *)
(*        | coll(es)                  c := &erc.Collector{}; c.Add(e)...; c.Resolve() *)
(*        | erswrap(e)                ers.Wrap(e, annotation)                  *)
(*        | panic(e)                  ers.ParsePanic(e)                        *)
(*        | panics(es)                ers.ParsePanic([]error{es...})           *)
(*      with nil allowed in every argument position.                           *)
(*  (2) An ORACLE that is independent of how the Go code walks its linked      *)
(*      list: Cons(t) = the bag of supplied non-nil constituents (a singly     *)
(*      wrapped error counts as ONE constituent; multi-errors and stacks are   *)
(*      transparent), DeepLeaves(t) = the set of leaf errors reachable through *)
(*      any wrapping.  Every expected observation is computed from these:      *)
(*        nonnil   result # nil                                                *)
(*        is[l]    errors.Is(result, l)  <=>  l \in DeepLeaves                 *)
(*        as[l]    errors.As finds typed leaf l  <=>  l \in DeepLeaves         *)
(*        groups   ers.Unwind(result): constituents of the LAST direct         *)
(*                 argument first; inside one flattened argument the order is  *)
(*                 not judged (DESIGN 5.0 "C12 order")                         *)
(*        ident    the single plain constituent the result must be identical   *)
(*                 to ("" = not judged)                                        *)
(*        len      Stack.Len()/Collector.Len()                                 *)
(*                                                                             *)
(* TLC prints one JSON line per term; harness/cmd/vh-errors builds the term    *)
(* with the real functions and compares.                                       *)
(***************************************************************************)
EXTENDS Integers, Sequences, FiniteSets, TLC, Json

CONSTANTS LeafIds,      \* leaves used in enumerated terms, e.g. {"s1","p1","t1"}
          MaxDepth,     \* operator nesting depth of the enumerated terms
          MaxArity,     \* arguments of the n-ary operators
          UnOps, NOps,  \* operators used by the enumeration
          SimSteps      \* length of a random construction in -simulate mode

\* the fixed universe the observation vector ranges over (kind = first letter:
\* s sentinel constant (ers.Error), p pointer error (errors.New), t typed error
\* (its own Go type, found with errors.As), u unrelated, RP = ers.ErrRecoveredPanic)
AllLeaves == {"s1", "s2", "p1", "t1", "t2"}
Unrelated == {"u1", "u2"}
Typed     == {"t1", "t2", "t9"}          \* t9: a type no leaf has
IsKeys    == AllLeaves \cup Unrelated \cup {"RP"}

ASSUME LeafIds \subseteq AllLeaves

--------------------------------------------------------------------------
\* terms: records of one shape so that TLC can compare any two of them
T(op, id, args) == [op |-> op, id |-> id, args |-> args]
Nil      == T("nil", "", <<>>)
Leaf(i)  == T("leaf", i, <<>>)
Un(o, x) == T(o, "", <<x>>)
Nary(o, xs) == T(o, "", xs)

Atoms == {Nil} \cup {Leaf(i) : i \in LeafIds}
Tuples(S, n) == UNION {[1..k -> S] : k \in 0..n}

RECURSIVE Terms(_)
Terms(d) == IF d = 0 THEN Atoms
            ELSE LET S == Terms(d - 1) IN
                 S \cup {Un(o, x) : o \in UnOps, x \in S}
                   \cup {Nary(o, xs) : o \in NOps, xs \in Tuples(S, MaxArity)}

Aggregator == {"join", "sres", "stack", "coll", "erswrap", "panic", "panics"}
Resolving  == {"join", "sres", "panics"}        \* results of Stack.Resolve(): the single case is the error itself
Flat       == {"multi", "join", "sres", "stack", "coll", "panics"}

Child(p, i) == p \o "." \o ToString(i)

RECURSIVE ConcatAll(_)
ConcatAll(ss) == IF ss = <<>> THEN <<>> ELSE Head(ss) \o ConcatAll(Tail(ss))
Rev(s) == [i \in 1..Len(s) |-> s[Len(s) + 1 - i]]
NonEmpty(ss) == SelectSeq(ss, LAMBDA g : g # <<>>)

--------------------------------------------------------------------------
\* the oracle
RECURSIVE Cons(_, _), NonNil(_, _), OkT(_, _), DeepLeaves(_, _), PlainId(_, _)

\* constituents of t (at path p) when t is handed to an aggregator: a bag, written as a sequence
Cons(t, p) ==
  CASE t.op = "nil"     -> <<>>
    [] t.op = "leaf"    -> <<t.id>>
    [] t.op = "wrap1"   -> <<"@" \o p>>                          \* one constituent, whatever it wraps
    [] t.op \in Flat    -> ConcatAll([i \in 1..Len(t.args) |-> Cons(t.args[i], Child(p, i))])
    [] t.op = "erswrap" -> IF OkT(t.args[1], Child(p, 1)) THEN <<>>
                           ELSE Cons(t.args[1], Child(p, 1)) \o <<"ann@" \o p>>
    [] t.op = "panic"   -> IF ~NonNil(t.args[1], Child(p, 1)) THEN <<>>
                           ELSE Cons(t.args[1], Child(p, 1)) \o <<"RP">>

\* is the Go value a non-nil interface?
NonNil(t, p) ==
  CASE t.op = "nil"     -> FALSE
    [] t.op = "leaf"    -> TRUE
    [] t.op = "wrap1"   -> TRUE
    [] t.op = "multi"   -> \E i \in 1..Len(t.args) : NonNil(t.args[i], Child(p, i))
    [] t.op = "stack"   -> TRUE                                  \* a *Stack, possibly empty
    [] t.op \in {"join", "sres", "coll", "panics"} -> Cons(t, p) # <<>>
    [] t.op = "erswrap" -> ~OkT(t.args[1], Child(p, 1))
    [] t.op = "panic"   -> NonNil(t.args[1], Child(p, 1))

\* ers.Ok(value): nil, or an empty *Stack
OkT(t, p) == ~NonNil(t, p) \/ (t.op = "stack" /\ Cons(t, p) = <<>>)

\* every leaf that can be reached through single or multi wrapping
DeepLeaves(t, p) ==
  CASE t.op = "nil"   -> {}
    [] t.op = "leaf"  -> {t.id}
    [] t.op = "panic" -> IF NonNil(t.args[1], Child(p, 1)) THEN DeepLeaves(t.args[1], Child(p, 1)) \cup {"RP"} ELSE {}
    [] OTHER          -> UNION {DeepLeaves(t.args[i], Child(p, i)) : i \in 1..Len(t.args)}

\* the value of t is one plain (non-aggregate) error supplied by the caller: which one
PlainId(t, p) ==
  CASE t.op = "leaf"   -> t.id
    [] t.op = "wrap1"  -> "@" \o p
    [] t.op \in Resolving ->
         LET nn == {i \in 1..Len(t.args) : NonNil(t.args[i], Child(p, i))} IN
         IF Cardinality(nn) = 1 THEN LET i == CHOOSE i \in nn : TRUE IN PlainId(t.args[i], Child(p, i)) ELSE ""
    [] OTHER -> ""

\* Unwind of an aggregator's result: most recent direct argument first
Groups(t, p) ==
  CASE t.op \in (Flat \ {"multi"}) ->
         NonEmpty(Rev([i \in 1..Len(t.args) |-> Cons(t.args[i], Child(p, i))]))
    [] t.op = "erswrap" -> IF OkT(t.args[1], Child(p, 1)) THEN <<>>
                           ELSE NonEmpty(<< <<"ann@" \o p>>, Cons(t.args[1], Child(p, 1)) >>)
    [] t.op = "panic"   -> IF ~NonNil(t.args[1], Child(p, 1)) THEN <<>>
                           ELSE NonEmpty(<< <<"RP">>, Cons(t.args[1], Child(p, 1)) >>)
    [] OTHER -> <<>>

Root == "r"

Obs(t) ==
  LET dl == DeepLeaves(t, Root)
      agg == t.op \in Aggregator IN
  [ term   |-> t,
    agg    |-> agg,
    nonnil |-> NonNil(t, Root),
    ok     |-> OkT(t, Root),
    is     |-> [k \in IsKeys |-> k \in dl],
    as     |-> [k \in Typed |-> k \in dl],
    groups |-> IF agg THEN Groups(t, Root) ELSE <<>>,
    count  |-> IF agg THEN Len(Cons(t, Root)) ELSE -1,
    ident  |-> IF t.op \in Resolving THEN PlainId(t, Root) ELSE "" ]

--------------------------------------------------------------------------
\* sanity of the oracle itself (checked by TLC on every enumerated term)
OracleSane(t) ==
  LET c == Cons(t, Root) IN
  /\ (t.op \in (Aggregator \ {"stack"}) => (NonNil(t, Root) <=> c # <<>>))      \* nil exactly when nothing was supplied
  /\ (t.op \in Aggregator => Len(ConcatAll(Groups(t, Root))) = Len(c))           \* the groups partition the bag
  /\ (\A i \in 1..Len(c) : c[i] \in AllLeaves => c[i] \in DeepLeaves(t, Root))   \* every leaf constituent is reachable

--------------------------------------------------------------------------
\* (a) exhaustive enumeration: every term of depth <= MaxDepth is an initial state
VARIABLES t, stk, n
vars == <<t, stk, n>>

EnumInit == t \in Terms(MaxDepth) /\ stk = <<>> /\ n = 0
EnumNext == FALSE /\ UNCHANGED vars
EnumSpec == EnumInit /\ [][EnumNext]_vars
Emit == PrintT(<<"BEH", ToJson(Obs(t))>>)
Sane == OracleSane(t)

\* (b) random deeper terms (-simulate): a postfix construction; every step picks its
\* operand with RandomElement so that each action has ONE successor and the walk does
\* not drown in PushAtom.
Min(a, b) == IF a < b THEN a ELSE b
SimInit == t = Nil /\ stk = <<>> /\ n = 0
PushAtom == stk' = Append(stk, RandomElement(Atoms))
ApplyUn  == /\ Len(stk) >= 1
            /\ stk' = [stk EXCEPT ![Len(stk)] = Un(RandomElement(UnOps), @)]
ApplyN   == /\ Len(stk) >= 1
            /\ LET k == RandomElement(1..Min(MaxArity, Len(stk))) IN
               stk' = SubSeq(stk, 1, Len(stk) - k) \o
                      <<Nary(RandomElement(NOps), SubSeq(stk, Len(stk) - k + 1, Len(stk)))>>
Finish   == /\ n = SimSteps /\ Len(stk) >= 1
            /\ t' = Nary(RandomElement(NOps \ {"multi"}), stk) /\ stk' = <<>> /\ n' = n + 1
SimNext == \/ n < SimSteps /\ n' = n + 1 /\ UNCHANGED t /\ (PushAtom \/ ApplyUn \/ ApplyN)
           \/ Finish
SimSpec == SimInit /\ [][SimNext]_vars
SimEmit == n <= SimSteps \/ PrintT(<<"BEH", ToJson(Obs(t))>>)
SimSane == n <= SimSteps \/ OracleSane(t)
=============================================================================
