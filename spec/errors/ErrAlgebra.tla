---------------------------- MODULE ErrAlgebra ----------------------------
(* Property C12: error aggregation with ers.Join / ers.Stack / ers.Wrap /     *)
(* ers.ParsePanic / erc.Collector is lossless and errors.Is/As/Unwind-         *)
(* consistent.                                                                 *)
(*                                                                             *)
(* Two things live in this module.                                             *)
(*  (1) The TERM LANGUAGE TLC enumerates: finite trees over                    *)
(*        nil | leaf(id) | wrap1(e)   fmt.Errorf("..%w", e)                    *)
(*        | multi(es)                 errors.Join(es...)                       *)
(*        | join(es)                  ers.Join(es...)                          *)
(*        | sres(es)                  s := &ers.Stack{}; s.Push(e)...; s.Resolve() *)
(*        | stack(es)                 the *ers.Stack itself, used as an error  *)
(*        | coll(es)                  c := &erc.Collector{}; c.Add(e)...; c.Resolve() *)
(*        | erswrap(e)                ers.Wrap(e, annotation)                  *)
(*        | panic(e)                  ers.ParsePanic(e)                        *)
(*        | panics(es)                ers.ParsePanic([]error{es...})           *)
(*        | tail(e)                   errors.Unwrap(e) of a *ers.Stack value   *)
(*                                    holding >= 2 errors (merged.go Unwrap):  *)
(*                                    an INTERIOR node of the linked list -    *)
(*                                    a non-nil *ers.Stack whose cached count  *)
(*                                    is 0 - holding every constituent but the *)
(*                                    most recently pushed one.  Generated     *)
(*                                    only where the model knows which one     *)
(*                                    that is (TailOK); used as result and as  *)
(*                                    operand of every aggregator (TailCtx).   *)
(*      with nil allowed in every argument position, and the "nil-like" and    *)
(*      "holey" operands of XAtoms:                                            *)
(*        nstack                      a typed-nil *ers.Stack (ers.AsStack(nil), *)
(*                                    var st *ers.Stack) stored in an error:    *)
(*                                    Stack.Len/Ok/Resolve/CheckProducer, the   *)
(*                                    *Stack branch of Push (merged.go:90-97)   *)
(*                                    and ers.Ok treat a nil *Stack as "no      *)
(*                                    error", so it must be IGNORED wherever an *)
(*                                    aggregator takes an operand               *)
(*        hunwind(es) hunwrap(es)     the caller's own composite error whose    *)
(*        hboth(es)                   Unwind() []error / Unwrap() []error hands *)
(*                                    out ITS OWN slice, nil holes included     *)
(*                                    (hboth: Unwind() lists es, Unwrap() []error *)
(*                                    lists an unrelated error - Unwind wins,   *)
(*                                    merged.go:98-104, internal/wrap.go:11-17) *)
(*      These are operands only ("Exposed"): they never stand at the root or    *)
(*      below fmt.Errorf(%w), where the standard library - not ers - would walk *)
(*      them (errors.Is on a nil *Stack, errors.As over a nil hole panic in     *)
(*      the callers' own code / stdlib, which C12 does not speak about).        *)
(*  (1b) The OBSERVATION SCHEDULE: besides observing the result once            *)
(*      (<<"root">>), a behaviour may observe the composite OPERANDS with       *)
(*      ers.Unwind while the term is being built, build further, observe the    *)
(*      result, observe the operands again and the result again                 *)
(*      (<<"probe","root","probe","root">>).  Observation is pure: the spec     *)
(*      gives ONE expected listing per operand (probes) and one vector for the  *)
(*      result, whatever was observed before.                                   *)
(*  (2) An ORACLE that is independent of how the Go code walks its linked      *)
(*      list: Cons(t) = the bag of supplied non-nil constituents (a singly     *)
(*      wrapped error counts as ONE constituent; multi-errors and stacks are   *)
(*      transparent), DeepLeaves(t) = the set of leaf errors reachable through *)
(*      any wrapping.  Every expected observation is computed from these:      *)
(*        nonnil   result # nil                                                *)
(*        is[l]    errors.Is(result, l)  <=>  l \in DeepLeaves                 *)
(*        as[l]    errors.As finds typed leaf l  <=>  l \in DeepLeaves         *)
(*        groups   ers.Unwind(result): constituents of the LAST direct         *)
(*                 argument first; inside one flattened argument the order is  *)
(*                 not judged (DESIGN 5.0 "C12 order")                         *)
(*        ident    the single plain constituent the result must be identical   *)
(*                 to ("" = not judged)                                        *)
(*        len      Stack.Len()/Collector.Len()                                 *)
(*                                                                             *)
(* TLC prints one JSON line per term; harness/cmd/vh-errors builds the term    *)
(* with the real functions and compares.                                       *)
(***************************************************************************)
EXTENDS Integers, Sequences, FiniteSets, TLC, Json

CONSTANTS LeafIds,      \* leaves used in enumerated terms, e.g. {"s1","p1","t1"}
          MaxDepth,     \* operator nesting depth of the enumerated terms
          MaxArity,     \* arguments of the n-ary operators
          UnOps, NOps,  \* operators used by the enumeration
          SimSteps,     \* length of a random construction in -simulate mode
          NilLike,      \* extra nil-like atoms: a subset of {"nstack"}
          Holey         \* holey composite atoms: a set of <<op, shape>>, op \in HOps, shape a
                        \* sequence over LeafIds \cup {"nil"}, e.g. <<"hunwind", <<"s1","nil","t1">> >>

\* the fixed universe the observation vector ranges over (kind = first letter:
\* s sentinel constant (ers.Error), p pointer error (errors.New), t typed error
\* (its own Go type, found with errors.As), u unrelated, RP = ers.ErrRecoveredPanic)
AllLeaves == {"s1", "s2", "p1", "t1", "t2"}
Unrelated == {"u1", "u2"}
Typed     == {"t1", "t2", "t9"}          \* t9: a type no leaf has
IsKeys    == AllLeaves \cup Unrelated \cup {"RP"}

ASSUME LeafIds \subseteq AllLeaves

--------------------------------------------------------------------------
\* terms: records of one shape so that TLC can compare any two of them
T(op, id, args) == [op |-> op, id |-> id, args |-> args]
Nil      == T("nil", "", <<>>)
Leaf(i)  == T("leaf", i, <<>>)
Un(o, x) == T(o, "", <<x>>)
Nary(o, xs) == T(o, "", xs)

HOps   == {"hunwind", "hunwrap", "hboth"}
NStack == T("nstack", "", <<>>)
ASSUME NilLike \subseteq {"nstack"}
ASSUME \A h \in Holey : h[1] \in HOps /\ \A i \in 1..Len(h[2]) : h[2][i] \in LeafIds \cup {"nil"}

\* shape sets for the cfg files (a cfg file cannot write tuples): `Holey <- HoleyA`
HoleyA == { <<"hunwind", <<"s1", "nil", "t1">> >>, <<"hunwrap", <<"nil", "s1">> >>,
            <<"hunwrap", <<"t1", "nil", "nil", "s1">> >>, <<"hboth", <<"s1", "nil", "t1">> >>,
            <<"hunwind", <<"nil", "nil">> >> }
HoleyB == { <<"hunwind", <<"s1", "nil", "s1">> >>, <<"hunwrap", <<"nil", "s1">> >> }

PlainAtoms == {Nil} \cup {Leaf(i) : i \in LeafIds}
XAtoms == {T(x, "", <<>>) : x \in NilLike}
          \cup {Nary(h[1], [i \in 1..Len(h[2]) |-> IF h[2][i] = "nil" THEN Nil ELSE Leaf(h[2][i])]) : h \in Holey}
Atoms == PlainAtoms \cup XAtoms
Tuples(S, n) == UNION {[1..k -> S] : k \in 0..n}

\* operand-only values: the aggregators flatten / ignore them, the standard library must never be
\* asked to walk them (so: not the root, not below fmt.Errorf(%w); errors.Join keeps them as they are)
RECURSIVE Exposed(_)
Exposed(x) == \/ x.op \in HOps \cup {"nstack"}
              \/ x.op = "multi" /\ \E i \in 1..Len(x.args) : Exposed(x.args[i])

RECURSIVE Terms(_)
Terms(d) == IF d = 0 THEN Atoms
            ELSE LET S == Terms(d - 1) IN
                 S \cup {Un(o, x) : o \in UnOps \ {"wrap1", "tail"}, x \in S}
                   \cup {Un("wrap1", x) : x \in {y \in S : "wrap1" \in UnOps /\ ~Exposed(y)}}
                   \cup {Nary(o, xs) : o \in NOps, xs \in Tuples(S, MaxArity)}

Aggregator == {"join", "sres", "stack", "coll", "erswrap", "panic", "panics"}
Resolving  == {"join", "sres", "panics"}        \* results of Stack.Resolve(): the single case is the error itself
Flat       == {"multi", "join", "sres", "stack", "coll", "panics"} \cup HOps

Child(p, i) == p \o "." \o ToString(i)

RECURSIVE ConcatAll(_)
ConcatAll(ss) == IF ss = <<>> THEN <<>> ELSE Head(ss) \o ConcatAll(Tail(ss))
Rev(s) == [i \in 1..Len(s) |-> s[Len(s) + 1 - i]]
NonEmpty(ss) == SelectSeq(ss, LAMBDA g : g # <<>>)

--------------------------------------------------------------------------
\* the oracle
RECURSIVE Cons(_, _), NonNil(_, _), OkT(_, _), DeepLeaves(_, _), PlainId(_, _)

\* constituents of t (at path p) when t is handed to an aggregator: a bag, written as a sequence
Cons(t, p) ==
  CASE t.op = "nil"     -> <<>>
    [] t.op = "nstack"  -> <<>>                                  \* a nil *Stack holds nothing: ignored
    [] t.op = "leaf"    -> <<t.id>>
    [] t.op = "wrap1"   -> <<"@" \o p>>                          \* one constituent, whatever it wraps
    [] t.op \in Flat    -> ConcatAll([i \in 1..Len(t.args) |-> Cons(t.args[i], Child(p, i))])
    [] t.op = "erswrap" -> IF OkT(t.args[1], Child(p, 1)) THEN <<>>
                           ELSE Cons(t.args[1], Child(p, 1)) \o <<"ann@" \o p>>
    [] t.op = "panic"   -> IF ~NonNil(t.args[1], Child(p, 1)) THEN <<>>
                           ELSE Cons(t.args[1], Child(p, 1)) \o <<"RP">>
    [] t.op = "tail"    -> LET c == Cons(t.args[1], Child(p, 1)) IN          \* all but the most recent (TailOK: it is the last one)
                           IF Len(c) >= 2 THEN SubSeq(c, 1, Len(c) - 1) ELSE <<>>

\* is the Go value a non-nil interface?
NonNil(t, p) ==
  CASE t.op = "nil"     -> FALSE
    [] t.op = "nstack"  -> TRUE                                  \* the interface value is not nil ...
    [] t.op \in HOps    -> TRUE                                  \* the caller's own object, even when it lists nothing
    [] t.op = "leaf"    -> TRUE
    [] t.op = "wrap1"   -> TRUE
    [] t.op = "multi"   -> \E i \in 1..Len(t.args) : NonNil(t.args[i], Child(p, i))
    [] t.op = "stack"   -> TRUE                                  \* a *Stack, possibly empty
    [] t.op \in {"join", "sres", "coll", "panics"} -> Cons(t, p) # <<>>
    [] t.op = "erswrap" -> ~OkT(t.args[1], Child(p, 1))
    [] t.op = "panic"   -> NonNil(t.args[1], Child(p, 1))
    [] t.op = "tail"    -> Len(Cons(t.args[1], Child(p, 1))) >= 2          \* an interior node; Unwrap() of a 1-element Stack is nil

\* ers.Ok(value): nil, or an empty / nil *Stack       (... but ers.Ok says it is no error: ers.go Ok, merged.go Ok)
OkT(t, p) == ~NonNil(t, p) \/ (t.op \in {"stack", "nstack"} /\ Cons(t, p) = <<>>)

\* every leaf that can be reached through single or multi wrapping
DeepLeaves(t, p) ==
  CASE t.op = "nil"   -> {}
    [] t.op = "leaf"  -> {t.id}
    [] t.op = "panic" -> IF NonNil(t.args[1], Child(p, 1)) THEN DeepLeaves(t.args[1], Child(p, 1)) \cup {"RP"} ELSE {}
    [] t.op = "tail"  -> LET x == t.args[1]  q == Child(p, 1)
                             ne == {i \in 1..Len(x.args) : Cons(x.args[i], Child(q, i)) # <<>>}
                             last == CHOOSE i \in ne : \A j \in ne : j <= i IN
                         IF Len(Cons(x, q)) < 2 THEN {}
                         ELSE UNION {DeepLeaves(x.args[i], Child(q, i)) : i \in ne \ {last}}
    [] OTHER          -> UNION {DeepLeaves(t.args[i], Child(p, i)) : i \in 1..Len(t.args)}

\* the value of t is one plain (non-aggregate) error supplied by the caller: which one
PlainId(t, p) ==
  CASE t.op = "leaf"   -> t.id
    [] t.op = "wrap1"  -> "@" \o p
    [] t.op \in Resolving ->
         LET nn == {i \in 1..Len(t.args) : Cons(t.args[i], Child(p, i)) # <<>>} IN   \* nil, nil / empty *Stack, all-hole composites are ignored
         IF Cardinality(nn) = 1 THEN LET i == CHOOSE i \in nn : TRUE IN PlainId(t.args[i], Child(p, i)) ELSE ""
    [] OTHER -> ""

\* Unwind of an aggregator's result: most recent direct argument first
Groups(t, p) ==
  CASE t.op \in (Flat \ {"multi"}) ->
         NonEmpty(Rev([i \in 1..Len(t.args) |-> Cons(t.args[i], Child(p, i))]))
    [] t.op = "erswrap" -> IF OkT(t.args[1], Child(p, 1)) THEN <<>>
                           ELSE NonEmpty(<< <<"ann@" \o p>>, Cons(t.args[1], Child(p, 1)) >>)
    [] t.op = "panic"   -> IF ~NonNil(t.args[1], Child(p, 1)) THEN <<>>
                           ELSE NonEmpty(<< <<"RP">>, Cons(t.args[1], Child(p, 1)) >>)
    [] OTHER -> <<>>

Root == "r"

--------------------------------------------------------------------------
\* observing the operands: ers.Unwind(operand) for the composite operands of the term
\* the name the harness knows a directly listed value by ("?" = depends on what an aggregator returned)
DirectId(t, p) ==
  CASE t.op = "leaf"  -> t.id
    [] t.op = "wrap1" -> "@" \o p
    [] t.op = "multi" -> "m@" \o p
    [] t.op = "stack" -> "st@" \o p
    [] t.op \in HOps  -> "h@" \o p
    [] OTHER          -> "?"

\* the listing of a composite that hands out / is made of its direct elements: the non-nil ones, in order
DirectIds(t, p) ==
  LET nn == SelectSeq([i \in 1..Len(t.args) |-> i], LAMBDA i : NonNil(t.args[i], Child(p, i)))
  IN  [k \in 1..Len(nn) |-> DirectId(t.args[nn[k]], Child(p, nn[k]))]

\* what ers.Unwind(operand) must list, every time it is asked
ProbeAt(t, p) ==
  CASE t.op \in HOps  -> {[path |-> p, mode |-> "seq", ids |-> DirectIds(t, p)]}     \* Unwind()/Unwrap() []error minus the holes
    [] t.op = "multi" -> IF \E i \in 1..Len(t.args) : NonNil(t.args[i], Child(p, i)) /\ DirectId(t.args[i], Child(p, i)) = "?"
                           THEN {}
                         ELSE IF NonNil(t, p) THEN {[path |-> p, mode |-> "seq", ids |-> DirectIds(t, p)]} ELSE {}
    [] t.op = "stack" -> {[path |-> p, mode |-> "bag", ids |-> Cons(t, p)]}           \* order inside: see Groups, judged at the root only
    [] OTHER          -> {}

RECURSIVE Probes(_, _)
Probes(t, p) == UNION {ProbeAt(t.args[i], Child(p, i)) \cup Probes(t.args[i], Child(p, i)) : i \in 1..Len(t.args)}

Plain    == <<"root">>
Repeated == <<"probe", "root", "probe", "root">>

Obs(t, sched) ==
  LET dl == DeepLeaves(t, Root)
      agg == t.op \in Aggregator IN
  [ term   |-> t,
    sched  |-> sched,
    probes |-> IF "probe" \in {sched[i] : i \in 1..Len(sched)} THEN Probes(t, Root) ELSE {},
    agg    |-> agg,
    nonnil |-> NonNil(t, Root),
    ok     |-> OkT(t, Root),
    is     |-> [k \in IsKeys |-> k \in dl],
    as     |-> [k \in Typed |-> k \in dl],
    groups |-> IF agg THEN Groups(t, Root) ELSE <<>>,
    count  |-> IF agg THEN Len(Cons(t, Root)) ELSE -1,
    ident  |-> IF t.op \in Resolving THEN PlainId(t, Root) ELSE "" ]

--------------------------------------------------------------------------
\* sanity of the oracle itself (checked by TLC on every enumerated term)
OracleSane(t) ==
  LET c == Cons(t, Root) IN
  /\ (t.op \in (Aggregator \ {"stack"}) => (NonNil(t, Root) <=> c # <<>>))      \* nil exactly when nothing was supplied
  /\ (t.op \in Aggregator => Len(ConcatAll(Groups(t, Root))) = Len(c))           \* the groups partition the bag
  /\ (\A i \in 1..Len(c) : c[i] \in AllLeaves => c[i] \in DeepLeaves(t, Root))   \* every leaf constituent is reachable

--------------------------------------------------------------------------
\* tail(x) is generated only where the model knows WHICH constituent errors.Unwrap drops: x is a *Stack value
\* (ers.Join / Stack.Resolve with >= 2 constituents, or the *Stack itself) whose last non-empty direct argument
\* is one plain constituent (a leaf or a singly wrapped error) - that one was pushed last and sits at the head.
TailOK(x) ==
  /\ x.op \in {"join", "sres", "stack"}
  /\ Len(Cons(x, "q")) >= 2
  /\ LET ne == {i \in 1..Len(x.args) : Cons(x.args[i], Child("q", i)) # <<>>}
         last == CHOOSE i \in ne : \A j \in ne : j <= i
     IN  x.args[last].op \in {"leaf", "wrap1"}

\* the interior node as the observed result, below the unary operators, and as an operand (first, last, only)
\* of every n-ary aggregator next to a plain atom
TailTerms == {Un("tail", x) : x \in {y \in Terms(1) : TailOK(y)}}
TailCtx == TailTerms
           \cup {Un(o, tt) : o \in UnOps \ {"tail"}, tt \in TailTerms}
           \cup {Nary(o, <<tt>>) : o \in NOps, tt \in TailTerms}
           \cup {Nary(o, <<tt, a>>) : o \in NOps, tt \in TailTerms, a \in PlainAtoms}
           \cup {Nary(o, <<a, tt>>) : o \in NOps, tt \in TailTerms, a \in PlainAtoms}

--------------------------------------------------------------------------
\* (a) exhaustive enumeration: every term of depth <= MaxDepth is an initial state
VARIABLES t, stk, n
vars == <<t, stk, n>>

EnumInit == t \in {x \in Terms(MaxDepth) : ~Exposed(x)} /\ stk = <<>> /\ n = 0
EnumNext == FALSE /\ UNCHANGED vars
TailInit == t \in TailCtx /\ stk = <<>> /\ n = 0
EnumSpec == EnumInit /\ [][EnumNext]_vars
EmitBoth(x) == /\ PrintT(<<"BEH", ToJson(Obs(x, Plain))>>)
               /\ (Probes(x, Root) = {} \/ PrintT(<<"BEH", ToJson(Obs(x, Repeated))>>))
Emit == EmitBoth(t)
EmitPlain == PrintT(<<"BEH", ToJson(Obs(t, Plain))>>)      \* (large configurations of the quick tier: result observed once)
Sane == OracleSane(t)

\* (b) random deeper terms (-simulate): a postfix construction; every step picks its
\* operand with RandomElement so that each action has ONE successor and the walk does
\* not drown in PushAtom.
Min(a, b) == IF a < b THEN a ELSE b
SimInit == t = Nil /\ stk = <<>> /\ n = 0
PushAtom == stk' = Append(stk, RandomElement(Atoms))
ApplyUn  == /\ Len(stk) >= 1
            /\ LET top == stk[Len(stk)]
                   ops == {o \in UnOps : (o = "wrap1" => ~Exposed(top)) /\ (o = "tail" => TailOK(top))} IN
               stk' = [stk EXCEPT ![Len(stk)] = Un(RandomElement(ops), @)]
ApplyN   == /\ Len(stk) >= 1
            /\ LET k == RandomElement(1..Min(MaxArity, Len(stk))) IN
               stk' = SubSeq(stk, 1, Len(stk) - k) \o
                      <<Nary(RandomElement(NOps), SubSeq(stk, Len(stk) - k + 1, Len(stk)))>>
Finish   == /\ n = SimSteps /\ Len(stk) >= 1
            /\ t' = Nary(RandomElement(NOps \ {"multi"}), stk) /\ stk' = <<>> /\ n' = n + 1
SimNext == \/ n < SimSteps /\ n' = n + 1 /\ UNCHANGED t /\ (PushAtom \/ ApplyUn \/ ApplyN)
           \/ Finish
SimSpec == SimInit /\ [][SimNext]_vars
SimEmit == n <= SimSteps \/ EmitBoth(t)
SimSane == n <= SimSteps \/ OracleSane(t)
=============================================================================
