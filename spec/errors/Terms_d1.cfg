INIT EnumInit
NEXT EnumNext
CONSTANTS
  LeafIds = {"s1", "s2", "p1", "t1", "t2"}
  MaxDepth = 1
  MaxArity = 3
  UnOps = {"wrap1", "erswrap", "panic"}
  NOps = {"multi", "join", "sres", "stack", "coll", "panics"}
  SimSteps = 0
  NilLike = {}
  Holey = {}
INVARIANT Sane
CONSTRAINT Emit
CHECK_DEADLOCK FALSE
