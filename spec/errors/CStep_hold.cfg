SPECIFICATION Spec
CONSTANTS
  MaxAdds = 6
  MaxReads = 3
  Iters = {"i1"}
  Depth = 5
  Ops = {"add", "addc", "len", "resolve", "hold"}
  Kinds = {"join"}
  Sizes = {2}
  HoldKinds = {"gunwind", "gunwrap"}
  MaxHolds = 1
  MaxHeld = 3
CONSTRAINT EmitHeld
CHECK_DEADLOCK FALSE
