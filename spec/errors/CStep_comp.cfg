SPECIFICATION Spec
CONSTANTS
  MaxAdds = 6
  MaxReads = 3
  Iters = {"i1"}
  Depth = 5
  Ops = {"add", "nstack", "addc", "len", "open", "read"}
  Kinds = {"join", "hunwrap"}
  Sizes = {0, 2}
  HoldKinds = {}
  MaxHolds = 0
  MaxHeld = 3
CONSTRAINT EmitAll
CHECK_DEADLOCK FALSE
