---- MODULE X05_h2_f ----
EXTENDS WrapAlgebra
MC_WScripts == {}
MC_OScripts == {}
MC_FScripts == {}
MC_Conds == Conds4
MC_Checks == Checks3
MC_Excls == Excl3
MC_Filters == {"drop", "swap", "keep"}
MC_WWOps == {"w.if", "w.when", "w.recover", "w.filter", "w.without", "w.errcheck", "w.while", "w.withcancel"}
MC_WOOps == {"w.ignore", "w.must", "w.operation"}
MC_OWOps == {"o.worker", "o.recover"}
MC_OOOps == {"o.if", "o.when", "o.while", "o.withcancel"}
MC_WRoots == {"w.check", "w.observe", "w.wait"}
MC_ORoots == {"o.wait"}
MC_FOps == {}
MC_FRoots == {}
MC_HScripts == Scripts({"ret", "p1"}, 2)
MC_HOps == {"h.if", "h.when", "h.skip", "h.filter", "h.join", "h.prehook", "h.chain", "h.recover", "h.worker", "h.operation"}
MC_HRoots == {"h.recoverpanic"}
MC_MaxDepth == 2
MC_Fuel == 6
MC_AsIs == {"operation-observes-nil"}
====
