---- MODULE X05_w3_a ----
EXTENDS WrapAlgebra
MC_WScripts == Scripts(W4, 1)
MC_OScripts == {}
MC_FScripts == {}
MC_Conds == Conds2
MC_Checks == Checks2
MC_Excls == Excl1
MC_Filters == {}
MC_WWOps == {"w.if", "w.when", "w.recover", "w.without", "w.errcheck", "w.while", "w.withcancel"}
MC_WOOps == {"w.ignore", "w.must", "w.operation"}
MC_OWOps == {"o.worker", "o.recover"}
MC_OOOps == {"o.when", "o.while"}
MC_WRoots == {"w.check", "w.observe", "w.wait"}
MC_ORoots == {"o.wait"}
MC_FOps == {}
MC_FRoots == {}
MC_HScripts == {}
MC_HOps == {}
MC_HRoots == {}
MC_MaxDepth == 3
MC_Fuel == 6
MC_AsIs == {"operation-observes-nil"}
====
