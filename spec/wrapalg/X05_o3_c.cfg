\* generated by run/props/x05.py (thorough tier): depth <= 3 over the core combinators, operation scripts of length <= 2
INIT EnumInit
NEXT EnumNext
CONSTANTS
  WScripts <- MC_WScripts
  OScripts <- MC_OScripts
  FScripts <- MC_FScripts
  Conds <- MC_Conds
  Checks <- MC_Checks
  Excls <- MC_Excls
  Filters <- MC_Filters
  WWOps <- MC_WWOps
  WOOps <- MC_WOOps
  OWOps <- MC_OWOps
  OOOps <- MC_OOOps
  WRoots <- MC_WRoots
  ORoots <- MC_ORoots
  FOps <- MC_FOps
  FRoots <- MC_FRoots
  HScripts <- MC_HScripts
  HOps <- MC_HOps
  HRoots <- MC_HRoots
  MaxDepth <- MC_MaxDepth
  Fuel <- MC_Fuel
  AsIs <- MC_AsIs
CONSTRAINT Emit
CHECK_DEADLOCK FALSE
