---- MODULE X05_h3_g ----
EXTENDS WrapAlgebra
MC_WScripts == {}
MC_OScripts == {}
MC_FScripts == {}
MC_Conds == Conds2
MC_Checks == Checks2
MC_Excls == Excl1
MC_Filters == {"drop", "swap"}
MC_WWOps == {"w.recover"}
MC_WOOps == {"w.ignore"}
MC_OWOps == {}
MC_OOOps == {"o.when"}
MC_WRoots == {"w.check"}
MC_ORoots == {}
MC_FOps == {}
MC_FRoots == {}
MC_HScripts == Scripts({"ret", "p1"}, 1)
MC_HOps == {"h.if", "h.when", "h.skip", "h.filter", "h.join", "h.prehook", "h.recover", "h.worker", "h.operation"}
MC_HRoots == {"h.recoverpanic"}
MC_MaxDepth == 3
MC_Fuel == 6
MC_AsIs == {"operation-observes-nil"}
====
