---- MODULE X05_f3_d ----
EXTENDS WrapAlgebra
MC_WScripts == {}
MC_OScripts == {}
MC_FScripts == (Scripts({1, 2}, 1) \ {<<>>}) \cup {<<1, 2>>}
MC_Conds == Conds2
MC_Checks == Checks2
MC_Excls == Excl1
MC_Filters == {"drop", "swap"}
MC_WWOps == {"w.if", "w.when", "w.recover", "w.filter", "w.without", "w.errcheck", "w.while", "w.withcancel"}
MC_WOOps == {"w.ignore", "w.must", "w.operation"}
MC_OWOps == {"o.worker", "o.recover"}
MC_OOOps == {"o.if", "o.when", "o.while", "o.withcancel"}
MC_WRoots == {}
MC_ORoots == {}
MC_FOps == {"f.if", "f.not", "f.when", "f.prehook", "f.posthook", "f.once", "f.reduce", "f.join", "f.translate"}
MC_FRoots == {"f.slice", "f.ignore", "f.producer"}
MC_HScripts == {}
MC_HOps == {}
MC_HRoots == {}
MC_MaxDepth == 3
MC_Fuel == 6
MC_AsIs == {"operation-observes-nil"}
====
