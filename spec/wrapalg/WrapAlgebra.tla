---------------------------- MODULE WrapAlgebra ----------------------------
(* Extra check X05: the SEQUENTIAL combinator algebra of the function types   *)
(* fun.Worker, fun.Operation and fun.Future of github.com/tychoish/fun, for   *)
(* the combinators that C15 (spec/wrappers) does not cover.                    *)
(*                                                                             *)
(* Functional specification in the style of spec/iter/IterAlgebra.tla: a TERM  *)
(* is a tree of combinators over LEAVES; a leaf is a base function with a      *)
(* scripted outcome sequence (the i-th invocation consumes the i-th outcome;   *)
(* an exhausted worker leaf "halts": cancels its context and returns errEx, an *)
(* exhausted operation leaf cancels its context - so that While loops end).    *)
(* Eval(t, p, ctx, st) is ONE call of the composed function with context ctx   *)
(* (1, 2 = the cancellable context of the first / second call, 0 = context.    *)
(* Background of Wait()); it yields the result, and the state after the call:  *)
(* the order of all invocations of leaves / condition functions / error        *)
(* futures / handlers (ids = tree paths), the cancelled contexts, the contexts *)
(* bound by WithCancel nodes, what handlers observed.                          *)
(*                                                                             *)
(* results  k   "nil" "err" (worker) "ret" (operation) "true" "false" (Check)  *)
(*              "val" (future) "panic" (escaped) "div" (loop fuel exhausted:   *)
(*              the term is not emitted)                                       *)
(*          ids identity of the error / panic value as the set of sentinel     *)
(*              errors it `errors.Is`: e1 e2 ex ctx (context.Canceled)         *)
(*              recovered (ers.ErrRecoveredPanic) invariant                    *)
(*              (fun.ErrInvariantViolation)                                    *)
(*          v   future value                                                   *)
(*                                                                             *)
(* Code references (/repo): worker.go operation.go future.go ft/ft.go          *)
(*   w.if      Worker.If        worker.go:196   w.when   Worker.When :204      *)
(*   w.recover Worker.WithRecover :113          w.filter WithErrorFilter :414  *)
(*   w.without WithoutErrors :421               w.errcheck WithErrorCheck :375 *)
(*   w.while   While :278       w.withcancel WithCancel :338                   *)
(*   w.ignore  Ignore :190      w.must Must :186     w.operation Operation:169 *)
(*   w.check   Check :273       w.observe Observe :122   w.wait Wait :181      *)
(*   o.worker  Operation.Worker operation.go:146  o.recover WithRecover :140   *)
(*   o.if :175 o.when :171 o.while :119 o.withcancel :46 o.wait :136           *)
(*   h.* handler.go (If :70 When :75 Skip :83 Filter :91 Join :97 PreHook :101  *)
(*       Chain :104 WithRecover :37 RecoverPanic :43 Worker :48 Operation :54)  *)
(*       a Handler[int] term is called with the call number (1, 2) as argument; *)
(*       Worker(in) / Operation(in) capture in = 7                              *)
(*   f.* future.go (If :45 Not :49 When :55 PreHook :68 PostHook :72 Once :33  *)
(*       Reduce :80 Join :85 Slice :76 Ignore :40 Producer :36 Translate :24) *)
(* Documented-vs-actual switches (AsIs): see Switch below.                     *)
(***************************************************************************)
EXTENDS Integers, Sequences, FiniteSets, TLC, Json

CONSTANTS WScripts,    \* scripts of worker leaves: sequences over {"nil","e1","e2","p1","cancel"}
          OScripts,    \* scripts of operation leaves: sequences over {"ret","p1","cancel"}
          FScripts,    \* scripts of future leaves: non-empty sequences of integers ({} = futures not enumerated)
          Conds,       \* scripts of condition functions (sequences over "t","f")
          Checks,      \* scripts of error futures (sequences over "nil","e1","e2")
          Excls,       \* argument lists of WithoutErrors (sequences over "e1","e2","ex")
          Filters,     \* subset of {"drop","swap","keep"}
          WWOps, WOOps, OWOps, OOOps,   \* combinators used, by type
          WRoots, ORoots,               \* root-only observers: subset of {"w.check","w.observe","w.wait"} / {"o.wait"}
          FOps,                         \* future combinators
          HScripts, HOps, HRoots,       \* handler leaves (sequences over {"ret","p1"}), combinators (incl. "h.worker","h.operation"), root observers {"h.recoverpanic"}
          FRoots,                       \* root-only observers of futures: subset of {"f.slice","f.ignore","f.producer"}
          MaxDepth,
          Fuel,        \* bound on loop iterations (While)
          AsIs         \* set of switches: the code AS IT IS (documented model = {})

AllWW == {"w.if", "w.when", "w.recover", "w.filter", "w.without", "w.errcheck", "w.while", "w.withcancel"}
AllWO == {"w.ignore", "w.must", "w.operation"}
AllOW == {"o.worker", "o.recover"}
AllOO == {"o.if", "o.when", "o.while", "o.withcancel"}
AllF  == {"f.if", "f.not", "f.when", "f.prehook", "f.posthook", "f.once", "f.reduce", "f.join", "f.translate"}
CoreWW == {"w.if", "w.when", "w.recover", "w.without", "w.errcheck", "w.while"}
CoreOO == {"o.when", "o.while"}
Conds4 == {<<"t">>, <<"f">>, <<"f", "t">>, <<"t", "f">>}
Conds2 == {<<"f", "t">>, <<"t", "f">>}
Checks3 == {<<>>, <<"e2">>, <<"nil", "e2">>}
Checks2 == {<<"e2">>, <<"nil", "e2">>}
Excl3 == {<<"e1">>, <<"e2">>, <<"ex", "e1">>}
Excl1 == {<<"e1">>}
NoSeqs == {}

Switch(s) == s \in AsIs
\* "operation-observes-nil": Worker.Operation is documented "Only non-nil errors are observed"; the code
\*                           (worker.go:169 -> Observe) hands every result, nil included, to the handler.

--------------------------------------------------------------------------
Tm(op, kids, script, cs, b, excl, fn) ==
  [op |-> op, kids |-> kids, script |-> script, cs |-> cs, b |-> b, excl |-> excl, fn |-> fn]
Un(op, x)  == Tm(op, <<x>>, <<>>, <<>>, FALSE, <<>>, "")

Scripts(S, n) == UNION {[1..j -> S] : j \in 0..n}
W4 == {"nil", "e1", "p1", "cancel"}
W5 == {"nil", "e1", "e2", "p1", "cancel"}
O3 == {"ret", "p1", "cancel"}
WLeaves == {Tm("wl", <<>>, s, <<>>, FALSE, <<>>, "") : s \in WScripts}
OLeaves == {Tm("ol", <<>>, s, <<>>, FALSE, <<>>, "") : s \in OScripts}
FLeaves == {Tm("fl", <<>>, s, <<>>, FALSE, <<>>, "") : s \in FScripts}
HLeaves == {Tm("hl", <<>>, s, <<>>, FALSE, <<>>, "") : s \in HScripts}
HArgs   == {x \in HLeaves : Len(x.script) <= 1}          \* second / third operands of Join / PreHook / Chain
AllH    == {"h.if", "h.when", "h.skip", "h.filter", "h.join", "h.prehook", "h.chain", "h.recover", "h.worker", "h.operation"}
HWrap(x) ==
     {Un(o, x) : o \in HOps \cap {"h.skip", "h.filter", "h.recover"}}
\cup (IF "h.if" \in HOps THEN {Tm("h.if", <<x>>, <<>>, <<>>, b, <<>>, "") : b \in BOOLEAN} ELSE {})
\cup (IF "h.when" \in HOps THEN {Tm("h.when", <<x>>, <<>>, c, FALSE, <<>>, "") : c \in Conds} ELSE {})
\cup {Tm(o, <<x, y>>, <<>>, <<>>, FALSE, <<>>, "") : o \in HOps \cap {"h.join", "h.prehook"}, y \in HArgs}
\cup {Tm(o, <<x, y, z>>, <<>>, <<>>, FALSE, <<>>, "") : o \in HOps \cap {"h.chain"}, y \in HArgs, z \in HArgs}
FArgs   == {x \in FLeaves : Len(x.script) = 1}           \* second / third operands of Reduce / Join

Simple == {"recover", "while", "withcancel", "ignore", "must", "operation", "worker"}
Wrap(ops, pre, x) ==
     {y \in {Un(pre \o o, x) : o \in Simple} : y.op \in ops}
\cup (IF (pre \o "if") \in ops THEN {Tm(pre \o "if", <<x>>, <<>>, <<>>, b, <<>>, "") : b \in BOOLEAN} ELSE {})
\cup (IF (pre \o "when") \in ops THEN {Tm(pre \o "when", <<x>>, <<>>, c, FALSE, <<>>, "") : c \in Conds} ELSE {})
\cup (IF (pre \o "filter") \in ops THEN {Tm(pre \o "filter", <<x>>, <<>>, <<>>, FALSE, <<>>, f) : f \in Filters} ELSE {})
\cup (IF (pre \o "without") \in ops THEN {Tm(pre \o "without", <<x>>, <<>>, <<>>, FALSE, e, "") : e \in Excls} ELSE {})
\cup (IF (pre \o "errcheck") \in ops THEN {Tm(pre \o "errcheck", <<x>>, <<>>, c, FALSE, <<>>, "") : c \in Checks} ELSE {})

FWrap(x, S) ==
     {Un(o, x) : o \in FOps \cap {"f.prehook", "f.posthook", "f.once", "f.translate"}}
\cup (IF "f.if" \in FOps THEN {Tm("f.if", <<x>>, <<>>, <<>>, b, <<>>, "") : b \in BOOLEAN} ELSE {})
\cup (IF "f.not" \in FOps THEN {Tm("f.not", <<x>>, <<>>, <<>>, b, <<>>, "") : b \in BOOLEAN} ELSE {})
\cup (IF "f.when" \in FOps THEN {Tm("f.when", <<x>>, <<>>, c, FALSE, <<>>, "") : c \in Conds} ELSE {})

RECURSIVE Terms(_)
Terms(d) ==
  IF d = 0 THEN [w |-> WLeaves, o |-> OLeaves, f |-> FLeaves, h |-> HLeaves]
  ELSE LET S == Terms(d - 1) IN
       [w |-> S.w \cup UNION {Wrap(WWOps, "w.", x) : x \in S.w} \cup UNION {Wrap(OWOps, "o.", x) : x \in S.o}
                  \cup {Un(o, x) : o \in HOps \cap {"h.worker"}, x \in S.h},
        o |-> S.o \cup UNION {Wrap(OOOps, "o.", x) : x \in S.o} \cup UNION {Wrap(WOOps, "w.", x) : x \in S.w}
                  \cup {Un(o, x) : o \in HOps \cap {"h.operation"}, x \in S.h},
        h |-> S.h \cup UNION {HWrap(x) : x \in S.h},
        f |-> S.f \cup UNION {FWrap(x, S.f) : x \in S.f}
                  \cup (IF "f.reduce" \in FOps THEN {Tm("f.reduce", <<x, y>>, <<>>, <<>>, FALSE, <<>>, "") : x \in S.f, y \in FArgs} ELSE {})
                  \cup (IF "f.join" \in FOps THEN {Tm("f.join", <<x, y, z>>, <<>>, <<>>, FALSE, <<>>, "") : x \in S.f, y \in FArgs, z \in FArgs} ELSE {})]

Roots == LET S == Terms(MaxDepth) IN
         S.w \cup S.o \cup S.f \cup S.h \cup {Un(o, x) : o \in HRoots, x \in S.h} \cup {Un(o, x) : o \in WRoots, x \in S.w} \cup {Un(o, x) : o \in ORoots, x \in S.o}
               \cup {Un(o, x) : o \in FRoots, x \in S.f}

--------------------------------------------------------------------------
Child(p, i) == p \o "." \o ToString(i)
St0 == [order |-> <<>>, cancelled |-> {}, bound |-> {}, seen |-> <<>>, cache |-> {}, arg |-> 0]
Invoke(st, id) == [st EXCEPT !.order = Append(@, id)]
Count(st, id) == Cardinality({j \in 1..Len(st.order) : st.order[j] = id})
Outcome(script, n, dflt) == IF n <= Len(script) THEN script[n] ELSE dflt
Cancel(st, ctx) == IF ctx = 0 THEN st ELSE [st EXCEPT !.cancelled = @ \cup {ctx}]
IsCancelled(st, ctx) == ctx \in st.cancelled
R(k, ids, v, st) == [k |-> k, ids |-> ids, v |-> v, st |-> st]
Bad(r) == r.k \in {"panic", "div"}
See(st, h, r) == [Invoke(st, h) EXCEPT !.seen = Append(@, [h |-> h, isnil |-> r.k = "nil", ids |-> r.ids, arg |-> 0])]
SeeArg(st, h) == [Invoke(st, h) EXCEPT !.seen = Append(@, [h |-> h, isnil |-> FALSE, ids |-> {}, arg |-> st.arg])]
WithArg(st, a) == [st EXCEPT !.arg = a]
Restore(r, st) == [r EXCEPT !.st.arg = st.arg]
Recovered(r) == IF r.k = "panic" THEN R("err", r.ids \cup {"recovered"}, 0, r.st) ELSE IF r.k = "div" THEN r ELSE R("nil", {}, 0, r.st)
BoundCtx(st, p, ctx) == IF \E b \in st.bound : b[1] = p THEN (CHOOSE b \in st.bound : b[1] = p)[2] ELSE ctx
Bind(st, p, ctx) == IF \E b \in st.bound : b[1] = p THEN st ELSE [st EXCEPT !.bound = @ \cup {<<p, ctx>>}]
Cached(st, p) == \E b \in st.cache : b[1] = p
CacheVal(st, p) == (CHOOSE b \in st.cache : b[1] = p)[2]

RECURSIVE Eval(_, _, _, _), LoopW(_, _, _, _, _), LoopO(_, _, _, _, _)

\* Worker.While (worker.go:278): for { err, cerr := wf(ctx), ctx.Err(); if err != nil || cerr != nil { return Default(err, cerr) } }
LoopW(x, p, ctx, st, fuel) ==
  IF fuel = 0 THEN R("div", {}, 0, st)
  ELSE LET r == Eval(x, p, ctx, st) IN
       IF Bad(r) \/ r.k = "err" THEN r
       ELSE IF IsCancelled(r.st, ctx) THEN R("err", {"ctx"}, 0, r.st)
       ELSE LoopW(x, p, ctx, r.st, fuel - 1)

\* Operation.While (operation.go:119): for { wf.Run(ctx); if ctx.Err() != nil { return } }
LoopO(x, p, ctx, st, fuel) ==
  IF fuel = 0 THEN R("div", {}, 0, st)
  ELSE LET r == Eval(x, p, ctx, st) IN
       IF Bad(r) THEN r
       ELSE IF IsCancelled(r.st, ctx) THEN R("ret", {}, 0, r.st)
       ELSE LoopO(x, p, ctx, r.st, fuel - 1)

Eval(t, p, ctx, st) ==
  LET kp   == Child(p, 1)
      kid(c, s) == Eval(t.kids[1], kp, c, s)
      aux  == p \o "?"            \* the condition function / error future of this node
      hid  == p \o "!"            \* the handler / hook of this node
      Nil(s) == R("nil", {}, 0, s)
      Ret(s) == R("ret", {}, 0, s) IN
  CASE t.op = "wl" ->
         LET s1 == Invoke(st, p)  o == Outcome(t.script, Count(s1, p), "halt") IN
         (CASE o = "nil"           -> Nil(s1)
           [] o \in {"e1", "e2"}   -> R("err", {o}, 0, s1)
           [] o = "p1"             -> R("panic", {"e1"}, 0, s1)          \* panic(err1)
           [] o = "cancel"         -> Nil(Cancel(s1, ctx))
           [] o = "halt"           -> R("err", {"ex"}, 0, Cancel(s1, ctx)))
    [] t.op = "ol" ->
         LET s1 == Invoke(st, p)  o == Outcome(t.script, Count(s1, p), "cancel") IN
         (CASE o = "ret"           -> Ret(s1)
           [] o = "p1"             -> R("panic", {"e1"}, 0, s1)
           [] o = "cancel"         -> Ret(Cancel(s1, ctx)))
    \* ---- Worker -> Worker
    [] t.op = "w.if"   -> IF t.b THEN kid(ctx, st) ELSE Nil(st)
    [] t.op = "w.when" ->
         LET s1 == Invoke(st, aux) IN
         IF Outcome(t.cs, Count(s1, aux), "t") = "t" THEN kid(ctx, s1) ELSE Nil(s1)
    [] t.op = "w.recover" ->
         LET r == kid(ctx, st) IN
         IF r.k = "panic" THEN R("err", r.ids \cup {"recovered"}, 0, r.st) ELSE r
    [] t.op = "w.filter" ->                                  \* the filter is called with nil as well
         LET r == kid(ctx, st) IN
         IF Bad(r) \/ t.fn = "keep" THEN r
         ELSE IF t.fn = "drop" THEN Nil(r.st)
         ELSE IF r.k = "err" THEN R("err", {"e2"}, 0, r.st) ELSE r      \* swap: any error becomes err2
    [] t.op = "w.without" ->
         LET r == kid(ctx, st) IN
         IF r.k = "err" /\ r.ids \cap {t.excl[i] : i \in 1..Len(t.excl)} # {} THEN Nil(r.st) ELSE r
    [] t.op = "w.errcheck" ->
         LET s1 == Invoke(st, aux)  o1 == Outcome(t.cs, Count(s1, aux), "nil") IN
         IF o1 # "nil" THEN R("err", {o1}, 0, s1)
         ELSE LET r == kid(ctx, s1) IN
              IF Bad(r) THEN r
              ELSE LET s2 == Invoke(r.st, aux)  o2 == Outcome(t.cs, Count(s2, aux), "nil")
                       ids == r.ids \cup (IF o2 = "nil" THEN {} ELSE {o2}) IN
                   R(IF ids = {} THEN "nil" ELSE "err", ids, 0, s2)
    [] t.op = "w.while" -> LoopW(t.kids[1], kp, ctx, st, Fuel)
    [] t.op \in {"w.withcancel", "o.withcancel"} ->          \* the context of the FIRST call is bound for ever (once.Do)
         kid(BoundCtx(st, p, ctx), Bind(st, p, ctx))
    \* ---- Worker -> Operation
    [] t.op = "w.ignore" -> LET r == kid(ctx, st) IN IF Bad(r) THEN r ELSE Ret(r.st)
    [] t.op = "w.must" ->
         LET r == kid(ctx, st) IN
         IF r.k = "err" THEN R("panic", r.ids \cup {"invariant"}, 0, r.st) ELSE IF Bad(r) THEN r ELSE Ret(r.st)
    [] t.op = "w.operation" ->
         LET r == kid(ctx, st) IN
         IF Bad(r) THEN r
         ELSE IF r.k = "nil" /\ ~Switch("operation-observes-nil") THEN Ret(r.st)
         ELSE Ret(See(r.st, hid, r))
    \* ---- Operation -> Worker
    [] t.op = "o.worker" ->
         LET r == kid(ctx, st) IN
         IF Bad(r) THEN r ELSE IF IsCancelled(r.st, ctx) THEN R("err", {"ctx"}, 0, r.st) ELSE Nil(r.st)
    [] t.op = "o.recover" ->
         LET r == kid(ctx, st) IN
         IF r.k = "panic" THEN R("err", r.ids \cup {"recovered"}, 0, r.st) ELSE IF Bad(r) THEN r ELSE Nil(r.st)
    \* ---- Operation -> Operation   (If / When are wf.Worker().When(cond).Ignore(): the context error is dropped)
    [] t.op = "o.if"   -> IF t.b THEN kid(ctx, st) ELSE Ret(st)
    [] t.op = "o.when" ->
         LET s1 == Invoke(st, aux) IN
         IF Outcome(t.cs, Count(s1, aux), "t") = "t" THEN kid(ctx, s1) ELSE Ret(s1)
    [] t.op = "o.while" -> LoopO(t.kids[1], kp, ctx, st, Fuel)
    \* ---- root observers
    [] t.op = "w.check" ->
         LET r == kid(ctx, st) IN IF Bad(r) THEN r ELSE R(IF r.k = "nil" THEN "true" ELSE "false", {}, 0, r.st)
    [] t.op = "w.observe" -> LET r == kid(ctx, st) IN IF Bad(r) THEN r ELSE Ret(See(r.st, hid, r))
    [] t.op \in {"w.wait", "o.wait"} -> kid(0, st)           \* context.Background(): never cancelled, cancel is a no-op
    \* ---- Handler[int]
    [] t.op = "hl" ->
         LET s1 == SeeArg(st, p) IN
         IF Outcome(t.script, Count(s1, p), "ret") = "p1" THEN R("panic", {"e1"}, 0, s1) ELSE Ret(s1)
    [] t.op = "h.if"   -> IF t.b THEN kid(ctx, st) ELSE Ret(st)
    [] t.op = "h.when" ->
         LET s1 == Invoke(st, aux) IN
         IF Outcome(t.cs, Count(s1, aux), "t") = "t" THEN kid(ctx, s1) ELSE Ret(s1)
    [] t.op = "h.skip"   -> IF st.arg % 2 = 1 THEN kid(ctx, st) ELSE Ret(st)        \* hook = "is odd": the handler runs when the hook says true
    [] t.op = "h.filter" -> Restore(kid(ctx, WithArg(st, 10 * st.arg)), st)       \* filter = times ten
    [] t.op \in {"h.join", "h.chain"} ->                                         \* root handler first, then the others in order
         LET r1 == kid(ctx, st) IN
         IF Bad(r1) THEN r1
         ELSE LET r2 == Eval(t.kids[2], Child(p, 2), ctx, r1.st) IN
              IF Bad(r2) \/ t.op = "h.join" THEN r2 ELSE Eval(t.kids[3], Child(p, 3), ctx, r2.st)
    [] t.op = "h.prehook" ->                                                     \* prev (second operand) first
         LET r2 == Eval(t.kids[2], Child(p, 2), ctx, st) IN
         IF Bad(r2) THEN r2 ELSE kid(ctx, r2.st)
    [] t.op = "h.recover" ->                                                     \* oe(of.RecoverPanic(in)): the error handler sees nil as well
         LET r == Recovered(kid(ctx, st)) IN IF r.k = "div" THEN r ELSE Ret(See(r.st, hid, r))
    [] t.op = "h.recoverpanic" -> Recovered(kid(ctx, st))
    [] t.op = "h.worker"    -> Restore(Recovered(kid(ctx, WithArg(st, 7))), st)   \* Handler.Worker(7): "Safe-mode": a panic becomes the error
    [] t.op = "h.operation" -> Restore(kid(ctx, WithArg(st, 7)), st)
    \* ---- Future[int]
    [] t.op = "fl" ->
         LET s1 == Invoke(st, p) IN R("val", {}, Outcome(t.script, Count(s1, p), t.script[Len(t.script)]), s1)
    [] t.op = "f.if"  -> IF t.b THEN kid(ctx, st) ELSE R("val", {}, 0, st)
    [] t.op = "f.not" -> IF ~t.b THEN kid(ctx, st) ELSE R("val", {}, 0, st)
    [] t.op = "f.when" ->
         LET s1 == Invoke(st, aux) IN
         IF Outcome(t.cs, Count(s1, aux), "t") = "t" THEN kid(ctx, s1) ELSE R("val", {}, 0, s1)
    [] t.op = "f.prehook"  -> kid(ctx, Invoke(st, hid))
    [] t.op = "f.posthook" -> LET r == kid(ctx, st) IN [r EXCEPT !.st = Invoke(r.st, hid)]
    [] t.op \in {"f.slice", "f.producer"} -> kid(ctx, st)     \* Slice(): the one-element slice of the value; Producer(): (value, nil)
    [] t.op = "f.ignore" -> Ret(kid(ctx, st).st)            \* Ignore(): runs the future, drops the value
    [] t.op = "f.translate" -> LET r == kid(ctx, st) IN [r EXCEPT !.v = 10 * @]
    [] t.op = "f.once" ->
         IF Cached(st, p) THEN R("val", {}, CacheVal(st, p), st)
         ELSE LET r == kid(ctx, st) IN [r EXCEPT !.st.cache = @ \cup {<<p, r.v>>}]
    [] t.op \in {"f.reduce", "f.join"} ->                    \* merge = (a, b) -> 3a + b: order sensitive
         LET r1 == kid(ctx, st)
             r2 == Eval(t.kids[2], Child(p, 2), ctx, r1.st)
             m12 == R("val", {}, 3 * r1.v + r2.v, r2.st) IN
         IF t.op = "f.reduce" THEN m12
         ELSE LET r3 == Eval(t.kids[3], Child(p, 3), ctx, r2.st) IN R("val", {}, 3 * m12.v + r3.v, r3.st)

--------------------------------------------------------------------------
\* a composed function called twice in a row (a fresh cancellable context per call; the context of the
\* first call is NOT cancelled when the call returns)

CntOf(st) == {[id |-> i, n |-> Count(st, i)] : i \in {st.order[j] : j \in 1..Len(st.order)}}
View(r) == [k |-> r.k, ids |-> r.ids, v |-> r.v, order |-> r.st.order, cnt |-> CntOf(r.st), seen |-> r.st.seen]

--------------------------------------------------------------------------
\* algebraic laws of the model, checked by TLC on every enumerated term
Laws(t, c, c2) ==
  LET kc == Eval(t.kids[1], "r.1", 1, WithArg(St0, 1)) IN
  /\ (t.op \in {"w.if", "o.if", "f.if", "h.if"} /\ ~t.b) => (c.st = WithArg(St0, 1) /\ c.k \in {"nil", "ret", "val"})   \* If(false) never invokes
  /\ (t.op = "f.not" /\ t.b) => c.st = WithArg(St0, 1)
  /\ t.op = "w.ignore" => (c.k # "err" /\ c.st = kc.st)                  \* never an error, the worker runs exactly as alone
  /\ t.op = "w.check" => (c.k = "true" <=> kc.k = "nil")
  /\ t.op \in {"w.recover", "o.recover"} =>
        /\ c.k # "panic"
        /\ kc.k = "panic" => (c.k = "err" /\ "recovered" \in c.ids /\ kc.ids \subseteq c.ids)
  /\ t.op = "w.must" => (c.k # "err" /\ (c.k = "panic" <=> kc.k \in {"err", "panic"}))
  /\ (t.op = "w.without" /\ c.k = "err") => c.ids \cap {t.excl[i] : i \in 1..Len(t.excl)} = {}
  /\ (t.op = "w.filter" /\ t.fn = "drop") => c.k # "err"
  /\ t.op = "w.while" => c.k # "nil"                                      \* While only returns with an error (or panics / diverges)
  /\ t.op = "o.worker" => (c.k = "err" => c.ids = {"ctx"})
  /\ t.op \in {"w.wait", "o.wait"} => c.st.cancelled = {}
  /\ t.op \in {"h.recover", "h.recoverpanic", "h.worker"} => c.k # "panic"
  /\ t.op = "h.filter" => \A i \in 1..Len(c.st.seen) : c.st.seen[i].arg % 10 = 0
  /\ t.op = "f.ignore" => (c.k = "ret" /\ c.st = kc.st)
  /\ t.op = "f.once" => Count(c2.st, "r.1") <= 1 /\ c2.v = c.v

\* the documentation's promise about Worker.Operation: the handler only sees non-nil errors
DocLaws(t, c2) == \A i \in 1..Len(c2.st.seen) : (c2.st.seen[i].h = "r!" /\ t.op = "w.operation") => ~c2.st.seen[i].isnil

--------------------------------------------------------------------------
VARIABLES t
EnumInit == t \in Roots
EnumNext == FALSE /\ UNCHANGED t
\* one evaluation per term: laws (LawInv), emission of the expected observation; terms that diverge are not emitted
Check(doc) ==
  LET c1 == Eval(t, "r", 1, WithArg(St0, 1))
      c2 == Eval(t, "r", 2, WithArg(c1.st, 2)) IN
  \/ c1.k = "div" \/ c2.k = "div"
  \/ /\ Laws(t, c1, c2) \/ Assert(FALSE, <<"LAW violated by", t>>)
     /\ (~doc) \/ DocLaws(t, c2) \/ Assert(FALSE, <<"DOCLAW violated by", t>>)
     /\ PrintT(<<"BEH", ToJson([term |-> t, calls |-> <<View(c1), View(c2)>>])>>)
Emit == Check(FALSE)
EmitDoc == Check(TRUE)
=============================================================================
