SPECIFICATION Spec
CONSTANTS
  Scale = 60
  Depth = 16
  MaxAdds = 6
  Setups <- AllSetups
INVARIANT Inv
CONSTRAINT EmitAll
CHECK_DEADLOCK FALSE
