SPECIFICATION Spec
CONSTANTS
  Scale = 60
  Depth = 5
  MaxAdds = 3
  Setups <- AllSetups
INVARIANT Inv
CONSTRAINT EmitAll
CHECK_DEADLOCK FALSE
