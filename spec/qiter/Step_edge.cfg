SPECIFICATION Spec
CONSTANTS
  Scale = 60
  Depth = 12
  MaxAdds = 3
  Setups <- AllSetups
INVARIANT Inv
VIEW view
ACTION_CONSTRAINT EmitEdge
CHECK_DEADLOCK FALSE
