SPECIFICATION Spec
CONSTANTS
  Scale = 60
INVARIANT Inv
CONSTRAINT HighWater
POSTCONDITION Accepted
CHECK_DEADLOCK FALSE
