------------------------------ MODULE IterTrace ------------------------------
(* Code -> model for property C20: a history recorded from concurrent use of  *)
(* a real pubsub.Queue / pubsub.Deque and its non-destructive iterators       *)
(* (vh-qiter record) must be explainable by the abstract meaning IterAbs.     *)
(*                                                                            *)
(* Events (one JSON object per line; many histories concatenated):            *)
(*   reset(kind, trk, hard, soft, credit, blocking)   a new container;        *)
(*         blocking is a record iterator name -> BOOLEAN                      *)
(*   call(id, op, arg, hint)   op: "next" (arg = iterator), "add" (arg = the  *)
(*         value), "fadd" (Deque Force push at the far end: evicts at the     *)
(*         near end when the deque is at capacity - a removal), "popn" /      *)
(*         "popf", "close", "badd" (arg = the value)                          *)
(*   ret(id, res)     cancel(id)     quiescent(blocked = ids still pending)   *)
(*                                                                            *)
(* An operation is pending between call and ret; the silent step Lin applies  *)
(* it atomically to the abstract state and fixes its result; ret must find    *)
(* exactly that result.  For a call of an iterator Lin demands a result that  *)
(* IterAbs.Allowed permits in the state of the linearisation point: a value   *)
(* must have been added before and lie behind the iterator's position (the    *)
(* yields are an increasing subsequence of the add history), an iterator that *)
(* saw no concurrent removal yields the next present value (nothing skipped,  *)
(* nothing twice), "eof" needs a closed container (Queue, blocking Deque) or  *)
(* the end (non-blocking Deque), "ctx" a cancelled context, and a recovered   *)
(* panic ("panic:...") is never allowed.  A removal linearised after an       *)
(* iterator's first call event is a concurrent removal for it.  At a          *)
(* `quiescent` event nothing runs: whatever is still pending must be a call   *)
(* the abstract state allows to block (no unseen item present absent          *)
(* removals, container open, context live).                                   *)
(*                                                                            *)
(* `hint` (added to every call event by run/props/c20.py: the result of the   *)
(* matching ret of the same history, "-" if there is none) only prunes the    *)
(* search: Lin explores only the outcome that ret will ask for.  It cannot    *)
(* make a history acceptable - ret compares with the logged result itself.    *)
(***************************************************************************)
EXTENDS IterAbs, Json

Trace == ndJsonDeserialize("trace.ndjson")

VARIABLES l, c, its, pend, canc
vars == <<l, c, its, pend, canc>>

Ev == Trace[l]
More == l <= Len(Trace)

Init == l = 1 /\ c = CNew("queue", NoLimit) /\ its = <<>> /\ pend = {} /\ canc = {}

MkTracker(e) == IF e.trk = "nolimit" THEN NoLimit ELSE IF e.trk = "hard" THEN Hard(e.hard) ELSE Quota(e.hard, e.soft, e.credit)

Reset == /\ More /\ Ev.ev = "reset"
         /\ c' = CNew(Ev.kind, MkTracker(Ev))
         /\ its' = [i \in DOMAIN Ev.blocking |-> INew(Ev.blocking[i])]
         /\ pend' = {} /\ canc' = {} /\ l' = l + 1

\* the first call of an iterator starts it: removals linearised from now on are concurrent removals
Call == /\ More /\ Ev.ev = "call"
        /\ pend' = pend \cup {[id |-> Ev.id, op |-> Ev.op, arg |-> Ev.arg, hint |-> Ev.hint, lin |-> FALSE, res |-> "-"]}
        /\ its' = IF Ev.op = "next" THEN [its EXCEPT ![Ev.arg].started = TRUE] ELSE its
        /\ l' = l + 1 /\ UNCHANGED <<c, canc>>

Fix(p, r) == pend' = (pend \ {p}) \cup {[p EXCEPT !.lin = TRUE, !.res = r]}

Lin == \E p \in pend :
         /\ ~p.lin /\ p.hint # "-"
         /\ \/ /\ p.op = "next"
               /\ p.hint \in Results(c, its[p.arg], p.id \in canc)
               /\ its' = [its EXCEPT ![p.arg] = AfterNext(c, @, p.hint)]
               /\ Fix(p, p.hint) /\ UNCHANGED c
            \/ /\ p.op \in {"add", "fadd", "popn", "popf", "close", "badd"}
               /\ \E o \in (CASE p.op = "add" -> AAdd(c, p.arg)
                              [] p.op = "fadd" -> AForce(c, p.arg)
                              [] p.op = "popn" -> APop(c, "n")
                              [] p.op = "popf" -> APop(c, "f")
                              [] p.op = "close" -> AClose(c)
                              [] p.op = "badd" -> ABAdd(c, p.arg, p.id \in canc)) :
                    /\ o.res = p.hint
                    /\ c' = o.c /\ Fix(p, o.res)
                    /\ its' = IF (p.op \in {"popn", "popf"} /\ o.res # "none") \/ (p.op = "fadd" /\ Evicts(c))
                                THEN [i \in DOMAIN its |-> Taint(its[i])] ELSE its
         /\ UNCHANGED <<l, canc>>

Ret == /\ More /\ Ev.ev = "ret"
       /\ \E p \in pend : p.id = Ev.id /\ p.lin /\ p.res = Ev.res /\ pend' = pend \ {p}
       /\ l' = l + 1 /\ UNCHANGED <<c, its, canc>>

Cancel == /\ More /\ Ev.ev = "cancel"
          /\ canc' = canc \cup {Ev.id}
          /\ l' = l + 1 /\ UNCHANGED <<c, its, pend>>

\* nothing is running: a pending operation has had no effect and the abstract state lets it block
Quiet == /\ More /\ Ev.ev = "quiescent"
         /\ \A p \in pend :
              /\ ~p.lin
              /\ \/ p.op = "next" /\ ~MustReturn(c, its[p.arg], p.id \in canc)
                 \/ p.op = "badd" /\ ABAdd(c, p.arg, p.id \in canc) = {}
         /\ {p.id : p \in pend} = {Ev.blocked[k] : k \in 1..Len(Ev.blocked)}
         /\ l' = l + 1 /\ UNCHANGED <<c, its, pend, canc>>

Next == Reset \/ Call \/ Lin \/ Ret \/ Cancel \/ Quiet
Spec == Init /\ [][Next]_vars

Inv == COK(c)

HighWater == TLCSet(1, IF TLCGet(1) < l THEN l ELSE TLCGet(1))
Accepted == \/ TLCGet(1) = Len(Trace) + 1
            \/ PrintT(<<"REJECTED", ToJson([at |-> TLCGet(1), event |-> Trace[TLCGet(1)]])>>) /\ FALSE
ASSUME TLCSet(1, 0)
=============================================================================
