------------------------------ MODULE IterStep ------------------------------
(* Quiescence-stepped driver schedules for the non-destructive iterators of   *)
(* pubsub.Queue / pubsub.Deque (property C20) with the observations the       *)
(* abstract meaning (IterAbs) allows at every quiescent point.                *)
(*                                                                            *)
(* Every action is one driver step of the conformance harness (vh-qiter)      *)
(* followed by "run to quiescence": start a call of an iterator, Add at the   *)
(* far end (plain, or a Deque Force push that evicts at the near end when the *)
(* deque is full), remove at the near / far end, Close, cancel the context of *)
(* a blocked call, start / cancel a Queue.BlockingAdd (which shares the       *)
(* condition variable of the Queue iterators), or two of Add / Remove / Close *)
(* back to back with no quiescent point in between.  `hist` records the step  *)
(* together with, for every call that was pending during the step,            *)
(*     vals, errs, mayblock  the set of observations C20 allows (IterAbs)     *)
(*     br                    the outcome this behaviour continues with        *)
(* (porder, the order in which the pending calls were started, tcause, how    *)
(* items were removed so far, and stale, whether `br` is a value that is no   *)
(* longer present, are recorded for the sampling of schedules only.)          *)
(* The harness judges the real observation against the allowed set only; when *)
(* the real outcome is allowed but differs from `br` (possible only where the *)
(* property leaves a choice: concurrent removals, float credit) the remainder *)
(* of the schedule does not apply and is dropped.  TLC explores one branch    *)
(* per distinguishable outcome, so some behaviour follows the real one.       *)
(*                                                                            *)
(* hold: the call is started with the yield points armed                      *)
(* (pubsub.wait.before-cond-wait, and pubsub.Queue.Producer.unlocked should   *)
(* the code under test still have that window): if the call reaches one it is *)
(* kept there while the NEXT driver step is issued, then released - an Add /  *)
(* Remove / Close / cancellation landing between the iterator's look at the   *)
(* tail and its decision to wait.  The abstract expectations are the same     *)
(* with and without the window.                                               *)
(*                                                                            *)
(* Deque: at most one blocking iterator per schedule (two waiters on one      *)
(* Deque cond busy-loop and never reach a quiescent point, DESIGN.md 3.3).    *)
(***************************************************************************)
EXTENDS IterAbs, Json

CONSTANTS Depth, MaxAdds, Setups

Blk(b1) == ("i1" :> b1)
Blk2(b1, b2) == ("i1" :> b1 @@ "i2" :> b2)
Setup(kind, dir, trk, blk) == [kind |-> kind, dir |-> dir, trk |-> trk, blk |-> blk]
AllSetups ==
  {Setup("queue", "fwd", "nolimit", Blk(TRUE)), Setup("queue", "fwd", "nolimit", Blk2(TRUE, TRUE)),
   Setup("queue", "fwd", "quota", Blk(TRUE))}
  \cup {Setup("deque", d, "nolimit", b) : d \in {"fwd", "rev"}, b \in {Blk(TRUE), Blk(FALSE), Blk2(TRUE, FALSE)}}
  \* a fixed-capacity deque used as a ring buffer (Force pushes evict at the near end)
  \cup {Setup("deque", "fwd", "hard", Blk(FALSE)), Setup("deque", "rev", "hard", Blk(TRUE))}
QueueSetups == {s \in AllSetups : s.kind = "queue"}
DequeSetups == {s \in AllSetups : s.kind = "deque"}

\* the quota tracker of the "quota" setups: soft quota 1, hard limit 2, burst credit 1 - an Add beyond the soft
\* quota is admitted on credit while a BlockingAdd stays blocked (cap() = soft quota <= len())
\* and the fixed capacity of the "hard" setups: 2 (an iterator resting on an evicted element needs a second
\* eviction to walk through another evicted element; capacity 1 has no such walk)
TrOf(s) == IF s.trk = "quota" THEN Quota(2, 1, 1) ELSE IF s.trk = "hard" THEN Hard(2) ELSE NoLimit

\* porder: the pending calls in the order in which they were started - the abstract meaning does not depend on
\* it, the implementation's notify lists do; it is part of the view so that the edge cover visits both orders
\* tcause: how items were removed so far ("", "pop", "evict", "both") - like porder it has no abstract meaning,
\* it makes the edge cover and the sampling distinguish removals by Pop from evictions by Force pushes
VARIABLES setup, c, its, pend, canc, badd, held, porder, tcause, hist
vars == <<setup, c, its, pend, canc, badd, held, porder, tcause, hist>>

\* a ring buffer needs one more value than the others before something interesting happens
AddBound == IF setup.trk = "hard" THEN MaxAdds + 1 ELSE MaxAdds

Order == <<"i1", "i2">>
Names == DOMAIN its
NoBadd == [st |-> "none", val |-> "", canc |-> FALSE]

view == <<setup, Len(c.added), {Pos(c, v) : v \in ItemSet(c)}, c.closed, c.tr, its, pend, canc,
          [badd EXCEPT !.val = ""], held, porder, tcause>>

Init == \E s \in Setups :
          /\ setup = s /\ c = CNew(s.kind, TrOf(s))
          /\ its = [i \in DOMAIN s.blk |-> INew(s.blk[i])]
          /\ pend = [i \in DOMAIN s.blk |-> FALSE] /\ canc = {} /\ badd = NoBadd /\ held = "" /\ porder = <<>> /\ tcause = ""
          /\ hist = <<[op |-> "new", arg |-> s.kind, it |-> s.dir, hold |-> FALSE, res |-> s.trk, ralw |-> {},
                       obs |-> <<>>, blocking |-> [k \in 1..Cardinality(DOMAIN s.blk) |-> s.blk[Order[k]]],
                       hard |-> TrOf(s).hard, soft |-> TrOf(s).soft, credit |-> TrOf(s).credit \div Scale,
                       porder |-> <<>>, tcause |-> ""]>>

Id == Len(hist) + 1
Val == "v" \o ToString(Id)

(* ---------------------------------------------------------------- run to quiescence *)
\* the pending BlockingAdd completes iff it is enabled
BaddOuts(c1, b1) ==
  IF b1.st # "pend" THEN {[c |-> c1, b |-> b1, ob |-> <<>>]}
  ELSE LET outs == ABAdd(c1, b1.val, b1.canc) IN
       IF outs = {}
         THEN {[c |-> c1, b |-> b1,
                ob |-> <<[t |-> "badd", br |-> "blocked", vals |-> {}, errs |-> {}, mayblock |-> TRUE, stale |-> FALSE]>>]}
         ELSE {[c |-> o.c, b |-> NoBadd,
                ob |-> <<[t |-> "badd", br |-> o.res, vals |-> {}, errs |-> {x.res : x \in outs}, mayblock |-> FALSE, stale |-> FALSE]>>] : o \in outs}

\* outcomes a behaviour continues with for a pending call of iterator state s: everything C20 allows when the
\* iterator is not tainted (exactly one), and for a tainted one the distinguishable candidates - the successor in
\* the add history, the first value still present, ending, staying blocked
Branches(c1, s, cancelled) ==
  LET a == Allowed(c1, s, cancelled)
      nextv == IF s.p + 1 <= Len(c1.added) THEN {c1.added[s.p + 1]} ELSE {}
      first == IF Cands(c1, s) # {} THEN {c1.added[Min(Cands(c1, s))]} ELSE {}
      \* a tainted iterator MAY end at any time; behaviours continue with that only where an iterator plausibly
      \* ends (non-blocking, or the container is closed) - elsewhere the branch would merely be dropped on replay
      errs == IF s.tainted /\ s.blocking /\ ~c1.closed THEN a.errs \ {"eof"} ELSE a.errs
  IN (a.vals \cap (nextv \cup first)) \cup errs \cup (IF a.mayblock THEN {"blocked"} ELSE {})

\* stale: the behaviour continues with a value that is no longer present (the iterator walks through a removed item)
Ob(i, a, br, c1) == [t |-> i, br |-> br, vals |-> a.vals, errs |-> a.errs, mayblock |-> a.mayblock,
                     stale |-> br \in a.vals /\ br \notin ItemSet(c1)]

\* all of it: the successor state and the observation record, given the state after the driver's own action
Settle(c1, its1, pend1, canc1, badd1, op, arg, it, hold, res, ralw) ==
  \E bo \in BaddOuts(c1, badd1) :
    LET P == {i \in Names : pend1[i]}
        brs == [i \in P |-> Branches(bo.c, its1[i], i \in canc1)]
        all == UNION {brs[i] : i \in P}
    IN \E f \in [P -> all] :
         /\ \A i \in P : f[i] \in brs[i]
         /\ hold => it \in P /\ f[it] = "blocked"
         /\ c' = bo.c /\ badd' = bo.b
         /\ its' = [i \in Names |-> IF i \in P /\ f[i] # "blocked" THEN AfterNext(bo.c, its1[i], f[i]) ELSE its1[i]]
         /\ pend' = [i \in Names |-> i \in P /\ f[i] = "blocked"]
         /\ canc' = {i \in canc1 : i \in P /\ f[i] = "blocked"}
         /\ held' = IF hold THEN it ELSE ""
         /\ LET still(t) == IF t = "badd" THEN bo.b.st = "pend" ELSE t \in P /\ f[t] = "blocked"
                new == IF op = "badd" THEN <<"badd">> ELSE IF op = "next" THEN <<it>> ELSE <<>>
            IN porder' = SelectSeq(porder \o new, still)
         /\ hist' = Append(hist, [op |-> op, arg |-> arg, it |-> it, hold |-> hold, res |-> res, ralw |-> ralw,
                                  obs |-> bo.ob \o [k \in 1..Cardinality(P) |->
                                            LET i == SelectSeq(Order, LAMBDA x : x \in P)[k]
                                            IN Ob(i, Allowed(bo.c, its1[i], i \in canc1), f[i], bo.c)],
                                  blocking |-> <<>>, hard |-> 0, soft |-> 0, credit |-> 0, porder |-> porder, tcause |-> tcause])
         /\ UNCHANGED setup

(* ---------------------------------------------------------------- driver steps *)
Merge(k) == IF k = "" \/ k = tcause THEN tcause ELSE IF tcause = "" THEN k ELSE "both"
StartNext(i, hold) ==
  /\ ~pend[i] /\ ~its[i].fin
  /\ hold => held = "" /\ its[i].blocking
  /\ Settle(c, [its EXCEPT ![i].started = TRUE], [pend EXCEPT ![i] = TRUE], canc, badd,
            "next", "", i, hold, "", {})
  /\ UNCHANGED tcause

Add == /\ Len(c.added) < AddBound /\ UNCHANGED tcause
       /\ \E o \in AAdd(c, Val) :
            Settle(o.c, its, pend, canc, badd, "add", Val, "", FALSE, o.res, {x.res : x \in AAdd(c, Val)})

\* Force push at the far end (Deque only): on a full deque it evicts the item at the near end first - a
\* concurrent removal for every iterator that has been started
ForceAdd == /\ setup.trk = "hard" /\ Len(c.added) < AddBound    \* on an unlimited deque it is a plain push
            /\ tcause' = Merge(IF Evicts(c) THEN "evict" ELSE "")
            /\ \E o \in AForce(c, Val) :
                 Settle(o.c, IF Evicts(c) THEN [i \in Names |-> Taint(its[i])] ELSE its, pend, canc, badd,
                        "fadd", Val, "", FALSE, o.res, {x.res : x \in AForce(c, Val)})

\* a successful removal is a concurrent removal for every iterator that has been started
Pop(end) == /\ end = "f" => setup.kind = "deque"
            /\ \E o \in APop(c, end) :
                 /\ Settle(o.c, IF o.res = "none" THEN its ELSE [i \in Names |-> Taint(its[i])], pend, canc, badd,
                           "pop", end, "", FALSE, o.res, {x.res : x \in APop(c, end)})
                 /\ tcause' = Merge(IF o.res = "none" THEN "" ELSE "pop")

Close == /\ ~c.closed /\ UNCHANGED tcause
         /\ \E o \in AClose(c) : Settle(o.c, its, pend, canc, badd, "close", "", "", FALSE, o.res, {"ok"})

Cancel(i) == /\ pend[i] /\ i \notin canc /\ UNCHANGED tcause
             /\ Settle(c, its, pend, canc \cup {i}, badd, "cancel", "", i, FALSE, "", {})

StartBAdd == /\ setup.trk = "quota" /\ badd.st = "none" /\ Len(c.added) < AddBound /\ UNCHANGED tcause
             /\ Settle(c, its, pend, canc, [st |-> "pend", val |-> Val, canc |-> FALSE],
                       "badd", Val, "", FALSE, "", {})

CancelBAdd == /\ badd.st = "pend" /\ ~badd.canc /\ UNCHANGED tcause
              /\ Settle(c, its, pend, canc, [badd EXCEPT !.canc = TRUE], "cancel", "", "badd", FALSE, "", {})

\* two driver operations issued back to back, with no quiescent point in between: the second lands while the
\* calls woken by the first are still on their way (Add then Close; Add then Remove; Remove then Add)
DoOp(c1, o) == CASE o = "add" -> AAdd(c1, Val) [] o = "pop" -> APop(c1, "n") [] o = "close" -> AClose(c1)
Burst(o1, o2) ==
  /\ Len(c.added) < AddBound /\ ~c.closed
  /\ badd.st = "none"      \* a pending BlockingAdd could take effect between the two (it changes the container)
  /\ \E a \in DoOp(c, o1) : \E b \in DoOp(a.c, o2) :
       LET popped == (o1 = "pop" /\ a.res # "none") \/ (o2 = "pop" /\ b.res # "none")
           alw == UNION {{x.res \o "+" \o y.res : y \in DoOp(x.c, o2)} : x \in DoOp(c, o1)}
       IN /\ Settle(b.c, IF popped THEN [i \in Names |-> Taint(its[i])] ELSE its, pend, canc, badd,
                    o1 \o "+" \o o2, Val, "", FALSE, a.res \o "+" \o b.res, alw)
          /\ tcause' = Merge(IF popped THEN "pop" ELSE "")

Driver == \/ \E i \in Names, h \in BOOLEAN : StartNext(i, h)
          \/ Add \/ ForceAdd \/ Close \/ StartBAdd \/ CancelBAdd
          \/ Burst("add", "close") \/ Burst("add", "pop") \/ Burst("pop", "add")
          \/ \E e \in {"n", "f"} : Pop(e)
          \/ \E i \in Names : Cancel(i)

Next == Len(hist) < Depth /\ Driver
Spec == Init /\ [][Next]_vars

\* sanity of the abstract spec itself: a call stays pending only where C20 allows it to block; at most one
\* blocking Deque iterator is blocked; iterators move forward only
Inv == /\ COK(c)
       /\ \A i \in Names : pend[i] => Allowed(c, its[i], i \in canc).mayblock
       /\ badd.st = "pend" => ABAdd(c, badd.val, badd.canc) = {}
       /\ setup.kind = "deque" => Cardinality({i \in Names : pend[i]}) <= 1
       /\ \A i \in Names : its[i].p <= Len(c.added)

EmitAll == Len(hist) < Depth \/ PrintT(<<"BEH", ToJson(hist)>>)
EmitEdge == PrintT(<<"BEH", ToJson(hist')>>)
=============================================================================
