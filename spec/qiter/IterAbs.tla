------------------------------ MODULE IterAbs ------------------------------
(* Abstract meaning of the non-destructive iterators of pubsub.Queue and      *)
(* pubsub.Deque, exactly as property C20 states it, as pure operators.        *)
(*                                                                            *)
(* A container value is [kind, items, added, closed, tr]:                     *)
(*   added  the add history: every value ever admitted at the far end, in     *)
(*          order (Queue.Add / BlockingAdd; Deque.PushBack / ForcePushBack    *)
(*          for forward, PushFront / ForcePushFront for reverse iterators)    *)
(*   items  the values present, in iteration order (near end first)           *)
(* Everything is expressed in iteration direction: "n" is the near end (where *)
(* iteration starts: front for forward, back for reverse iterators), "f" the  *)
(* far end (where items are added).  Values are distinct.                     *)
(*                                                                            *)
(* An iterator is a position: [p, started, tainted, fin, blocking], p = index *)
(* in `added` of the value yielded last (0: none yet).  `tainted` = a removal *)
(* (Remove, Pop, or the eviction done by a Force push on a full deque) took   *)
(* place after the iterator's first call (a concurrent removal).              *)
(*                                                                            *)
(* Allowed(c, s, cancelled) is the set of observations C20 allows for one     *)
(* call of the iterator in container state c:                                 *)
(*  - not tainted: the first present value behind the position (container     *)
(*    order, nothing skipped, nothing twice); at the end a non-blocking Deque *)
(*    iterator reports io.EOF, a Queue iterator / blocking Deque producer     *)
(*    reports io.EOF iff the container is closed, a context error iff its     *)
(*    context is cancelled, and otherwise stays blocked.                      *)
(*  - tainted (readings of DESIGN.md 5.0: strongest premise / weakest         *)
(*    obligation): any value added behind the position (it may omit removed   *)
(*    items and may still yield them, but never a value that was not added,   *)
(*    and it moves forward in the add history); it may end; it may stay       *)
(*    blocked only while the container is open and its context live.          *)
(* A cancelled context may always be reported instead of a value (fun's       *)
(* Iterator.ReadOne checks the context first, the bare producers do not).     *)
(***************************************************************************)
EXTENDS Tracker, Sequences, FiniteSets, TLC

CNew(kind, tr) == [kind |-> kind, items |-> <<>>, added |-> <<>>, closed |-> FALSE, tr |-> tr]
Out(c, r) == [c |-> c, res |-> r]

\* Add / PushBack / PushFront at the far end
AAdd(c, v) ==
  IF c.closed THEN {Out(c, "closed")}
  ELSE {IF o.res = "ok" THEN Out([c EXCEPT !.items = Append(@, v), !.added = Append(@, v), !.tr = o.t], "ok")
                        ELSE Out(c, o.res) : o \in TrAdd(c.tr)}

\* Remove (Queue: near end only, also after Close) / PopFront / PopBack (Deque: not-ok once closed)
APop(c, end) ==
  IF c.items = <<>> \/ (c.kind = "deque" /\ c.closed) THEN {Out(c, "none")}
  ELSE IF end = "n" THEN {Out([c EXCEPT !.items = Tail(@), !.tr = TrRemove(@)], Head(c.items))}
  ELSE {Out([c EXCEPT !.items = SubSeq(@, 1, Len(@) - 1), !.tr = TrRemove(@)], c.items[Len(c.items)])}

AClose(c) == {Out([c EXCEPT !.closed = TRUE], "ok")}

\* Deque.ForcePushBack (forward) / ForcePushFront (reverse) / DistributorNonBlocking.Send: a push at the far end
\* that, on a deque at its capacity (cap() = len()), first evicts the item at the opposite - the near - end, in
\* the same critical section.  An eviction is a removal.  Judged for fixed-capacity and unlimited deques
\* (DESIGN.md 5.0).  Nothing happens on a closed deque (pop and addAfter both refuse).
Evicts(c) == ~c.closed /\ c.items # <<>> /\ TrCap(c.tr) = TrLen(c.tr)
AForce(c, v) ==
  IF c.closed THEN {Out(c, "closed")}
  ELSE IF Evicts(c) THEN AAdd([c EXCEPT !.items = Tail(@), !.tr = TrRemove(@)], v)
  ELSE AAdd(c, v)

\* Queue.BlockingAdd: as Add once cap() > len(); ErrQueueClosed when closed; ctx error when cancelled
ABAdd(c, v, cancelled) ==
  (IF c.closed THEN {Out(c, "closed")} ELSE {})
  \cup (IF ~c.closed /\ TrCap(c.tr) > TrLen(c.tr) THEN AAdd(c, v) ELSE {})
  \cup (IF cancelled THEN {Out(c, "ctx")} ELSE {})

INew(blocking) == [p |-> 0, started |-> FALSE, tainted |-> FALSE, fin |-> FALSE, blocking |-> blocking]

ItemSet(c) == {c.items[k] : k \in 1..Len(c.items)}
Pos(c, v) == CHOOSE i \in 1..Len(c.added) : c.added[i] = v
Min(S) == CHOOSE x \in S : \A y \in S : x <= y
\* positions behind the iterator whose value is present
Cands(c, s) == {i \in (s.p + 1)..Len(c.added) : c.added[i] \in ItemSet(c)}

Allowed(c, s, cancelled) ==
  LET ctx == IF cancelled THEN {"ctx"} ELSE {} IN
  IF s.tainted
    THEN [vals |-> {c.added[i] : i \in (s.p + 1)..Len(c.added)}, errs |-> {"eof"} \cup ctx,
          mayblock |-> s.blocking /\ ~c.closed /\ ~cancelled]
  ELSE IF Cands(c, s) # {}
    THEN [vals |-> {c.added[Min(Cands(c, s))]}, errs |-> ctx, mayblock |-> FALSE]
  ELSE IF ~s.blocking \/ c.closed
    THEN [vals |-> {}, errs |-> {"eof"} \cup ctx, mayblock |-> FALSE]
  ELSE IF cancelled
    THEN [vals |-> {}, errs |-> {"ctx"}, mayblock |-> FALSE]
  ELSE [vals |-> {}, errs |-> {}, mayblock |-> TRUE]

\* the results a call may return / whether it is obliged to return
Results(c, s, cancelled) == Allowed(c, s, cancelled).vals \cup Allowed(c, s, cancelled).errs
MustReturn(c, s, cancelled) == ~Allowed(c, s, cancelled).mayblock

\* the iterator after a call returned r
AfterNext(c, s, r) == IF r \in {"eof", "ctx"} THEN [s EXCEPT !.fin = TRUE] ELSE [s EXCEPT !.p = Pos(c, r)]
\* a removal succeeded
Taint(s) == IF s.started THEN [s EXCEPT !.tainted = TRUE] ELSE s

COK(c) == /\ TrOK(c.tr) /\ TrLen(c.tr) = Len(c.items)
          /\ ItemSet(c) \subseteq {c.added[i] : i \in 1..Len(c.added)}
=============================================================================
