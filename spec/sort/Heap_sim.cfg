SPECIFICATION Spec
CONSTANTS
  DomP = {0, 1, 2}
  Shift = 1
  Cmps = {"lt", "gt", "mod2"}
  MaxPush = 12
  Depth = 20
INVARIANT Inv
CONSTRAINT EmitAll
CHECK_DEADLOCK FALSE
