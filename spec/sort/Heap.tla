------------------------------ MODULE Heap ------------------------------
(* Property C17, Heap part: "a Heap pops every pushed value exactly once in   *)
(* non-decreasing lt order".  State = the elements currently in the heap in   *)
(* the order the library pops them (stable: first pushed first among          *)
(* equivalents).  Every behaviour is a sequence of Push(v) / Pop; each record *)
(* carries: the element a stable heap pops (`id`), the set of elements any    *)
(* correct heap may pop (`oneof` = all present elements of minimal key), Ok,  *)
(* Len, and `rest`/`keys` = the remaining elements in pop order with their    *)
(* keys, which the harness uses for the final drain.  A pop that is correct   *)
(* but not the stable choice ends the replay of that behaviour undecided.     *)
(***************************************************************************)
EXTENDS SortDefs, TLC, Json

CONSTANTS DomP, Shift, Cmps, MaxPush, Depth    \* Dom = DomP shifted down by Shift
Dom == {x - Shift : x \in DomP}

VARIABLES cmp, heap, hval, n, hist
vars == <<cmp, heap, hval, n, hist>>

Init == /\ cmp \in Cmps /\ heap = <<>> /\ hval = [i \in 1..MaxPush |-> 0] /\ n = 0 /\ hist = <<>>

K(i) == Key(cmp, hval[i])
Rec(op, v, id, okk, oneof, h, hv) ==
    hist' = Append(hist, [op |-> op, cmp |-> cmp, v |-> v, id |-> id, ok |-> okk, oneof |-> oneof,
                          rest |-> h, keys |-> [k \in 1..Len(h) |-> Key(cmp, hv[h[k]])]])

\* insert after the last element whose key is <= the new key (Heap.Push scans from the back)
Push(v) == /\ n < MaxPush
           /\ LET id == n + 1
                  hv == [hval EXCEPT ![id] = v]
                  k  == Cardinality({i \in 1..Len(heap) : K(heap[i]) <= Key(cmp, v)})
                  h  == InsAt(heap, k, id)
              IN  /\ heap' = h /\ hval' = hv /\ n' = id
                  /\ Rec("Push", v, id, TRUE, <<>>, h, hv)
           /\ UNCHANGED cmp

MinIds == {heap[i] : i \in {i \in 1..Len(heap) : \A j \in 1..Len(heap) : K(heap[i]) <= K(heap[j])}}
SetToSeq(S) == LET m == Cardinality(S) IN
               [k \in 1..m |-> CHOOSE x \in S : Cardinality({y \in S : y < x}) = k - 1]

Pop == /\ IF heap = <<>> THEN /\ Rec("Pop", 0, 0, FALSE, <<>>, heap, hval) /\ UNCHANGED heap
          ELSE /\ heap' = Tail(heap)
               /\ Rec("Pop", hval[Head(heap)], Head(heap), TRUE, SetToSeq(MinIds), Tail(heap), hval)
       /\ UNCHANGED <<cmp, hval, n>>

Next == Len(hist) < Depth /\ (Pop \/ \E v \in Dom : Push(v))
Spec == Init /\ [][Next]_vars

\* sanity: the model's heap is sorted, stable, and its head is a minimum
Inv == /\ \A i \in 1..(Len(heap) - 1) : K(heap[i]) <= K(heap[i+1])
       /\ \A i, j \in 1..Len(heap) : (i < j /\ K(heap[i]) = K(heap[j])) => heap[i] < heap[j]
       /\ heap # <<>> => Head(heap) \in MinIds

EmitAll == Len(hist) < Depth \/ PrintT(<<"BEH", ToJson(hist)>>)
=============================================================================
