------------------------------ MODULE SortDefs ------------------------------
(* Ordering vocabulary shared by Sort.tla and Heap.tla (property C17).        *)
(* Comparators are strict weak orderings given by a key projection:           *)
(*   lt   x < y          gt   y < x  (the reversed comparator proper,         *)
(*   mod2 x mod 2 < y mod 2     div2  floor(x/2) < floor(y/2)                 *)
(* (mod and div are the mathematical ones: (-1) % 2 = 1, (-1) \div 2 = -1;    *)
(* the harness implements the same functions and checks its binding against   *)
(* the ranks emitted here).                                                   *)
(***************************************************************************)
EXTENDS Integers, Sequences, FiniteSets

Key(c, x) == CASE c = "lt"   -> x
               [] c = "gt"   -> 0 - x
               [] c = "mod2" -> x % 2
               [] c = "div2" -> x \div 2
Less(c, x, y) == Key(c, x) < Key(c, y)

\* the property's predicates, on a sequence of VALUES
Sorted(s, c) == \A i \in 1..(Len(s) - 1) : ~Less(c, s[i+1], s[i])

\* ... and on a sequence p of INDICES into the input s (p[k] = which input element is k-th)
Perm(p, n)        == Len(p) = n /\ {p[k] : k \in 1..Len(p)} = 1..n
SortedIdx(p, s, c) == \A k \in 1..(Len(p) - 1) : ~Less(c, s[p[k+1]], s[p[k]])
StableIdx(p, s, c) == \A k, l \in 1..Len(p) : (k < l /\ Key(c, s[p[k]]) = Key(c, s[p[l]])) => p[k] < p[l]

\* rank of every input element = number of distinct smaller keys: lt(s[i], s[j]) <=> Rank[i] < Rank[j]
Rank(s, c) == [i \in 1..Len(s) |-> Cardinality({Key(c, s[j]) : j \in {j \in 1..Len(s) : Key(c, s[j]) < Key(c, s[i])}})]

InsAt(p, k, x) == SubSeq(p, 1, k) \o <<x>> \o SubSeq(p, k+1, Len(p))
\* stable insertion sort (what sort.SliceStable must equal): indices of s in stable sorted order
RECURSIVE InsertionSort(_, _, _)
InsertionSort(s, n, c) ==
    IF n = 0 THEN <<>>
    ELSE LET p == InsertionSort(s, n-1, c)
             k == Cardinality({i \in 1..Len(p) : Key(c, s[p[i]]) <= Key(c, s[n])})
         IN  InsAt(p, k, n)
=============================================================================
