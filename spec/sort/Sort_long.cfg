INIT Init
NEXT Next
CONSTANTS
  DomP = {0, 2, 5}
  Shift = 2
  MaxLen = 6
  Cmps = {"lt", "gt", "mod2", "div2"}
  IsSortedFixed = TRUE
INVARIANT InsertionOK
INVARIANT ImplIsSortedOK
INVARIANT MergeOK
INVARIANT UniqueOK
INVARIANT IsSortedOK
CONSTRAINT Emit
CHECK_DEADLOCK FALSE
