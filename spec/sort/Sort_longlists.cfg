INIT InitLong
NEXT Next
CONSTANTS
  DomP = {0, 1, 2, 3}
  Shift = 1
  MaxLen = 0
  Cmps = {"lt", "gt", "mod2", "div2"}
  IsSortedFixed = TRUE
  LongLens = {13, 14, 17, 24}
  LongSamples = 12
INVARIANT InsertionOK
INVARIANT ImplIsSortedOK
INVARIANT MergeOK
INVARIANT UniqueOK
INVARIANT IsSortedOK
CONSTRAINT Emit
CHECK_DEADLOCK FALSE
