SPECIFICATION Spec
CONSTANTS
  DomP = {0, 1, 2, 3}
  Shift = 1
  Cmps = {"lt", "gt", "mod2", "div2"}
  MaxPush = 5
  Depth = 6
INVARIANT Inv
CONSTRAINT EmitAll
CHECK_DEADLOCK FALSE
