INIT Init
NEXT Next
CONSTANTS
  DomP = {0, 1, 2, 3}
  Shift = 1
  MaxLen = 4
  Cmps = {"lt", "gt", "mod2", "div2"}
  IsSortedFixed = FALSE
INVARIANT InsertionOK
INVARIANT ImplIsSortedOK
INVARIANT MergeOK
INVARIANT UniqueOK
INVARIANT IsSortedOK
CHECK_DEADLOCK FALSE
