------------------------------ MODULE Sort ------------------------------
(* Property C17, sorting part.  TLC enumerates every input sequence over Dom  *)
(* of length <= MaxLen x every comparator (as initial states) and prints, per *)
(* case, what the real code must show:                                        *)
(*   sorted  - the value IsSorted must return for the input                   *)
(*   rank    - rank of every input element (lt(a,b) <=> rank a < rank b);     *)
(*             a valid sort result is a permutation of the input ELEMENTS     *)
(*             (by identity) whose ranks never decrease                       *)
(*   stable  - the unique stable result as indices into the input (SortQuick  *)
(*             must produce exactly this; SortMerge any sorted permutation)   *)
(*   tail    - operations performed on the list after sorting ("fully usable  *)
(*             afterwards") with the expected list after each, written in     *)
(*             tokens relative to the sort result: k>0 = k-th element of the  *)
(*             result, 101/102 = elements pushed by the tail.                 *)
(* In-model checks: the insertion transcription and the transcription of the  *)
(* library's merge sort (split first ceil(n/2) off the front, merge(second,   *)
(* first) taking from the second part only when strictly smaller) both yield  *)
(* Sorted /\ Perm /\ Stable for every enumerated case.                        *)
(***************************************************************************)
EXTENDS SortDefs, TLC, Json

CONSTANTS DomP, Shift, MaxLen, Cmps, IsSortedFixed    \* Dom = DomP shifted down by Shift (a cfg file cannot hold a negative number)
Dom == {x - Shift : x \in DomP}

VARIABLES inp, cmp
vars == <<inp, cmp>>

Init == \E n \in 0..MaxLen : \E s \in [1..n -> Dom] : \E c \in Cmps : inp = s /\ cmp = c
Next == FALSE /\ UNCHANGED vars          \* every case is an initial state

\* ---- transcription of dt/cmp.go mergeSort / split / merge on index sequences
RECURSIVE Merge(_, _, _, _)
Merge(a, b, s, c) == IF a = <<>> THEN b ELSE IF b = <<>> THEN a
                     ELSE IF Less(c, s[Head(a)], s[Head(b)]) THEN <<Head(a)>> \o Merge(Tail(a), b, s, c)
                     ELSE <<Head(b)>> \o Merge(a, Tail(b), s, c)
RECURSIVE MergeSort(_, _, _)
MergeSort(p, s, c) == IF Len(p) < 2 THEN p
                      ELSE LET keep  == Len(p) \div 2                         \* stays in `head`: the LAST floor(n/2)
                               tail  == SubSeq(p, 1, Len(p) - keep)           \* split() pops these off the front
                               head  == SubSeq(p, Len(p) - keep + 1, Len(p))
                           IN  Merge(MergeSort(head, s, c), MergeSort(tail, s, c), s, c)

Idx     == [i \in 1..Len(inp) |-> i]
Stable  == InsertionSort(inp, Len(inp), cmp)
Merged  == MergeSort(Idx, inp, cmp)

InsertionOK == Perm(Stable, Len(inp)) /\ SortedIdx(Stable, inp, cmp) /\ StableIdx(Stable, inp, cmp)
MergeOK     == Perm(Merged, Len(inp)) /\ SortedIdx(Merged, inp, cmp) /\ StableIdx(Merged, inp, cmp)
\* for a total preorder the stable result is unique
UniqueOK    == Merged = Stable
\* IsSorted agrees with "the stable sort is the identity"
IsSortedOK  == Sorted(inp, cmp) <=> (Stable = Idx)

\* ---- transcription of dt/cmp.go List.IsSorted.  As shipped (IsSortedFixed = FALSE) the loop starts
\* at the first element, compares it with the root sentinel (value 0) and stops before the last
\* element; fixes/list-issorted-boundaries.diff (IsSortedFixed = TRUE) compares elements 2..n with
\* their predecessors.  Sort_asis.cfg must violate ImplIsSortedOK (non-vacuity self-test).
ImplIsSorted == IF Len(inp) <= 1 THEN TRUE
                ELSE IF IsSortedFixed THEN \A i \in 2..Len(inp) : ~Less(cmp, inp[i], inp[i-1])
                ELSE \A i \in 1..(Len(inp) - 1) : ~Less(cmp, inp[i], IF i = 1 THEN 0 ELSE inp[i-1])
ImplIsSortedOK == ImplIsSorted = Sorted(inp, cmp)

\* ---- the tail: usability after sorting
TailOps == <<"PushBack", "PopFront", "PushFront", "PopBack", "PopFront", "PopBack", "PopFront">>
RECURSIVE TailRun(_, _, _)
\* returns the sequence of records [op, ret, l]; ret: 0 none, -1 an element with Ok()=false, else token
TailRun(k, l, new) ==
    IF k > Len(TailOps) THEN <<>>
    ELSE LET op == TailOps[k] IN
         CASE op = "PushBack"  -> <<[op |-> op, ret |-> 0, l |-> Append(l, new)]>> \o TailRun(k+1, Append(l, new), new+1)
           [] op = "PushFront" -> <<[op |-> op, ret |-> 0, l |-> <<new>> \o l]>> \o TailRun(k+1, <<new>> \o l, new+1)
           [] op = "PopFront"  -> IF l = <<>> THEN <<[op |-> op, ret |-> -1, l |-> l]>> \o TailRun(k+1, l, new)
                                  ELSE <<[op |-> op, ret |-> Head(l), l |-> Tail(l)]>> \o TailRun(k+1, Tail(l), new)
           [] op = "PopBack"   -> IF l = <<>> THEN <<[op |-> op, ret |-> -1, l |-> l]>> \o TailRun(k+1, l, new)
                                  ELSE <<[op |-> op, ret |-> l[Len(l)], l |-> SubSeq(l, 1, Len(l)-1)]>>
                                       \o TailRun(k+1, SubSeq(l, 1, Len(l)-1), new)

Case == [in |-> inp, cmp |-> cmp, sorted |-> Sorted(inp, cmp), rank |-> Rank(inp, cmp), stable |-> Stable,
         tail |-> TailRun(1, Idx, 101)]
Emit == PrintT(<<"BEH", ToJson(Case)>>)
=============================================================================
