---------------------------- MODULE SortLong ----------------------------
(* Long inputs for property C17.  Go's sort.Slice / sort.SliceStable switch    *)
(* algorithm at 12 elements (insertion sort below, pdqsort / block merges      *)
(* above), so stability and element preservation must also be exercised on     *)
(* lists longer than that.  The full input space is out of reach; this module  *)
(* draws LongSamples random inputs per length (TLC's RandomSubset, seeded by   *)
(* -seed) over a small domain - i.e. with many equal keys, which is what       *)
(* stability is about - and reuses Sort's expectations (IsSorted answer, ranks,*)
(* the unique stable result computed by the insertion transcription, tail).    *)
(* The in-model checks (MergeOK, UniqueOK, ...) run on every drawn input too.  *)
(***************************************************************************)
EXTENDS Sort, Randomization

CONSTANTS LongLens, LongSamples

InitLong == \E n \in LongLens : \E s \in RandomSubset(LongSamples, [1..n -> Dom]) : \E c \in Cmps :
              inp = s /\ cmp = c
=============================================================================
