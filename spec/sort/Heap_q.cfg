SPECIFICATION Spec
CONSTANTS
  DomP = {0, 1, 2, 3}
  Shift = 1
  Cmps = {"lt", "gt", "mod2"}
  MaxPush = 4
  Depth = 5
INVARIANT Inv
CONSTRAINT EmitAll
CHECK_DEADLOCK FALSE
