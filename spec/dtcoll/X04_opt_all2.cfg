\* generated by run/props/x04.py (quick tier): Optional: every call sequence of length 2, all methods
SPECIFICATION Spec
CONSTANTS
  V <- MC_V
  Ops <- MC_Ops
  Inits <- MC_Inits
  Depth <- MC_Depth
INVARIANT Inv
PROPERTY ActionProps
CONSTRAINT EmitAll
CHECK_DEADLOCK FALSE
