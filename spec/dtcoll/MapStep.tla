------------------------------ MODULE MapStep ------------------------------
(* Extra check X04: dt.Map (/repo/dt/map.go) as a finite map (function with a finite domain).  One object;   *)
(* the harness uses dt.Map[string,int] (key i <-> "k<i>", zero value 0).  Every action is one public method; *)
(* `hist` records op, arguments, expected return value and the expected map (as a set of <<k, v>>) after it. *)
(* Iteration order of a Go map is unspecified: Keys / Values / Iterator / Pairs / Tuples are compared as     *)
(* bags (set of keys, sorted values, set of pairs).  A nil map is outside the model (writing to a nil map    *)
(* is the ordinary Go panic, map.go:13-21 "All normal map operations are still accessible").                 *)
(***************************************************************************)
EXTENDS Integers, Sequences, FiniteSets, TLC, Json

CONSTANTS K, V, Ops,
          PSeqs,   \* argument sequences of pairs (Append / Extend / ConsumePairs / ConsumeTuples)
          VSeqs,   \* argument sequences of values (ConsumeSlice / ConsumeValues), keyf(v) = v % 10
          Maps,    \* argument maps as sets of pairs with distinct keys (ConsumeMap)
          Inits,   \* initial maps (sets of pairs)
          Depth

VARIABLES m, hist
vars == <<m, hist>>
view == <<m>>

Zero == 0
KeyF(v) == v % 10
B(b) == IF b THEN "true" ELSE "false"
Bit(b) == IF b THEN 1 ELSE 0
AsSet(f) == {<<k, f[k]>> : k \in DOMAIN f}
FromSet(S) == [k \in {a[1] : a \in S} |-> (CHOOSE a \in S : a[1] = k)[2]]
Put(f, k, v) == [x \in DOMAIN f \cup {k} |-> IF x = k THEN v ELSE f[x]]
Del(f, k) == [x \in DOMAIN f \ {k} |-> f[x]]
\* adding a sequence of pairs one after the other: the LAST value of a key wins (map.go:159 "Existing values
\* for K are always overwritten")
RECURSIVE PutAll(_, _)
PutAll(f, q) == IF q = <<>> THEN f ELSE PutAll(Put(f, Head(q)[1], Head(q)[2]), Tail(q))
FromVals(vs) == [i \in 1..Len(vs) |-> <<KeyF(vs[i]), vs[i]>>]
SortedKeys(S) == CHOOSE q \in [1..Cardinality(S) -> S] : \A i, j \in 1..Cardinality(S) : i < j => q[i] < q[j]

Rec(call, ret) == hist' = Append(hist, call @@ [ret |-> ret, pan |-> 0, st |-> AsSet(m')])

Init == /\ \E i \in Inits : m = FromSet(i)
        /\ hist = <<[op |-> "new", ret |-> "-", pan |-> 0, st |-> AsSet(m)]>>

\* map.go:79 Check, 87 Get (zero value when absent), 91 Load, 127 Len
ReadOp(op, k) ==
    /\ op \in Ops /\ UNCHANGED m
    /\ Rec([op |-> op, k |-> k],
           CASE op = "check" -> B(k \in DOMAIN m)
             [] op = "get" -> IF k \in DOMAIN m THEN m[k] ELSE Zero
             [] op = "load" -> <<IF k \in DOMAIN m THEN m[k] ELSE Zero, Bit(k \in DOMAIN m)>>)
LenOp == /\ "len" \in Ops /\ UNCHANGED m /\ Rec([op |-> "len"], Cardinality(DOMAIN m))

\* map.go:208 Keys, 211 Values, 205 Iterator, 98 Pairs, 107 Tuples - the contents, order unspecified
IterOp(op) ==
    /\ op \in Ops /\ UNCHANGED m
    /\ Rec([op |-> op],
           CASE op = "keys" -> DOMAIN m
             [] op = "values" -> LET ks == SortedKeys(DOMAIN m) IN [i \in 1..Len(ks) |-> m[ks[i]]]
             [] OTHER -> AsSet(m))

\* map.go:95 SetDefault "sets the provided key in the map to the zero value"
SetDefault(k) == /\ "setdefault" \in Ops /\ m' = Put(m, k, Zero) /\ Rec([op |-> "setdefault", k |-> k], "-")
\* map.go:116 Add, 122 AddPair, 125 AddTuple
AddOp(op, k, v) == /\ op \in Ops /\ m' = Put(m, k, v) /\ Rec([op |-> op, k |-> k, v |-> v], "-")
\* map.go:119 Delete
DeleteOp(k) == /\ "delete" \in Ops /\ m' = Del(m, k) /\ Rec([op |-> "delete", k |-> k], "-")
\* map.go:128 Append(pairs...), 135 Extend(*Pairs), 160 ConsumePairs, 166 ConsumeTuples
SeqOp(op, q) == /\ op \in Ops /\ m' = PutAll(m, q) /\ Rec([op |-> op, arg |-> q], "-")
\* map.go:149 ConsumeSlice "Existing values in the map are overridden", 175 ConsumeValues (worker, nil error)
ValsOp(op, vs) == /\ op \in Ops /\ m' = PutAll(m, FromVals(vs))
                  /\ Rec([op |-> op, vals |-> vs], IF op = "consumevalues" THEN "nil" ELSE "-")
\* map.go:140 ConsumeMap
ConsumeMapOp(mp) == /\ "consumemap" \in Ops
                    /\ m' = [k \in DOMAIN m \cup {a[1] : a \in mp} |-> IF \E a \in mp : a[1] = k THEN FromSet(mp)[k] ELSE m[k]]
                    /\ Rec([op |-> "consumemap", map |-> mp], "-")

Step == \/ \E op \in {"check", "get", "load"}, k \in K : ReadOp(op, k)
        \/ LenOp
        \/ \E op \in {"keys", "values", "iterator", "pairs", "tuples"} : IterOp(op)
        \/ \E k \in K : SetDefault(k) \/ DeleteOp(k)
        \/ \E op \in {"add", "addpair", "addtuple"}, k \in K, v \in V : AddOp(op, k, v)
        \/ \E op \in {"append", "extend", "consumepairs", "consumetuples"}, q \in PSeqs : SeqOp(op, q)
        \/ \E op \in {"consumeslice", "consumevalues"}, vs \in VSeqs : ValsOp(op, vs)
        \/ \E mp \in Maps : ConsumeMapOp(mp)

Next == Len(hist) < Depth + 1 /\ Step
Spec == Init /\ [][Next]_vars

\* ---- properties of the model itself
TypeOK == DOMAIN m \subseteq K /\ \A k \in DOMAIN m : m[k] \in V \cup {Zero}
LenIsCard == Cardinality(AsSet(m)) = Cardinality(DOMAIN m)
Inv == TypeOK /\ LenIsCard

LastOp == hist'[Len(hist')]
\* a write of key k leaves every other key alone; Add then Get returns the value; Delete then Check is false;
\* a sequence of pairs keeps the LAST value per key
Frame == (LastOp.op \in {"add", "addpair", "addtuple", "setdefault", "delete"}) =>
             \A x \in K \ {LastOp.k} : (x \in DOMAIN m <=> x \in DOMAIN m') /\ (x \in DOMAIN m => m'[x] = m[x])
AddGet == (LastOp.op \in {"add", "addpair", "addtuple"}) => (LastOp.k \in DOMAIN m' /\ m'[LastOp.k] = LastOp.v)
DelCheck == (LastOp.op = "delete") => LastOp.k \notin DOMAIN m'
LastWins == (LastOp.op \in {"append", "extend", "consumepairs", "consumetuples"}) =>
                LET q == LastOp.arg IN
                \A i \in 1..Len(q) : (\A j \in (i + 1)..Len(q) : q[j][1] # q[i][1]) => m'[q[i][1]] = q[i][2]
ActionProps == [][Frame /\ AddGet /\ DelCheck /\ LastWins]_vars

EmitAll  == Len(hist) < Depth + 1 \/ PrintT(<<"BEH", ToJson(hist)>>)
EmitEdge == PrintT(<<"BEH", ToJson(hist')>>)
SimNext == \/ Next
           \/ Len(hist) = Depth + 1 /\ PrintT(<<"BEH", ToJson(hist)>>) /\ UNCHANGED vars
SimSpec == Init /\ [][SimNext]_vars
=============================================================================
