\* generated by run/props/x04.py: DocProps, asis model (TLC must report a violation)
SPECIFICATION Spec
CONSTANTS
  K <- MC_K
  V <- MC_V
  Objs <- MC_Objs
  Mut <- MC_Mut
  Ops <- MC_Ops
  PSeqs <- MC_PSeqs
  VSeqs <- MC_VSeqs
  Maps <- MC_Maps
  InitB <- MC_InitB
  Makes <- MC_Makes
  MaxLen <- MC_MaxLen
  Depth <- MC_Depth
  AsIs <- MC_AsIs
INVARIANT Inv
PROPERTY DocProps
CONSTRAINT EmitAll
CHECK_DEADLOCK FALSE
