\* generated by run/props/x04.py (quick tier): Map: one shortest behaviour per edge, K={1,2,3}
SPECIFICATION Spec
CONSTANTS
  K <- MC_K
  V <- MC_V
  Ops <- MC_Ops
  PSeqs <- MC_PSeqs
  VSeqs <- MC_VSeqs
  Maps <- MC_Maps
  Inits <- MC_Inits
  Depth <- MC_Depth
INVARIANT Inv
PROPERTY ActionProps
VIEW view
ACTION_CONSTRAINT EmitEdge
CHECK_DEADLOCK FALSE
