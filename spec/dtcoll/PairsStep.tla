----------------------------- MODULE PairsStep -----------------------------
(* Extra check X04: dt.Pairs (/repo/dt/pair.go, pair_extra.go) as a SEQUENCE of <<key, value>> pairs.      *)
(* Two objects "A", "B" (donor / copy / JSON partner).  Every action is one public method call; `hist`      *)
(* records op, arguments, the expected return value `ret`, whether a panic is expected (`pan`) and the       *)
(* expected abstract state of BOTH objects after the call (`st`).  harness/cmd/vh-dtcoll replays each        *)
(* behaviour on real *dt.Pairs[string,int] values (key i <-> "k<i>") and compares after every call.          *)
(*                                                                                                          *)
(* Documented-vs-actual divergences are modelled behind the switch set AsIs (element present = model the    *)
(* code as it is, absent = model the doc comment):                                                          *)
(*   "extend-donor"   pair.go:133-135 "without modifying the donating object"; list.go:430-439 List.Extend  *)
(*                    pops every element off the donor: the donor is empty afterwards.                      *)
(*   "zero-slice"     pair.go:85 Slice() is the only accessor that does not call p.init(): on a never-used  *)
(*                    &dt.Pairs{} it dereferences the nil list (runtime panic); Len/Iterator/List work.     *)
(*   "zero-donor"     pair.go:135 Extend(toAdd) reads toAdd.ll directly: a never-used zero-value donor      *)
(*                    panics (nil dereference) instead of adding nothing.                                   *)
(*   "json-dup"       pair_extra.go:14-17 "by first converting it to a map" (Map(), pair_extra.go:72-74,    *)
(*                    keeps the FIRST occurrence of a key); the code (20-41) writes every pair, so the      *)
(*                    document has duplicate keys and a round trip keeps the LAST occurrence.               *)
(***************************************************************************)
EXTENDS Integers, Sequences, FiniteSets, TLC, Json

CONSTANTS K,        \* keys (integers; the harness uses "k<i>")
          V,        \* values (integers; keyf(v) = v % 10 must be in K)
          Objs,     \* {"A","B"}
          Mut,      \* objects that may be the receiver of a call
          Ops,      \* enabled operation names
          PSeqs,    \* argument sequences of pairs (Append / Consume)
          VSeqs,    \* argument sequences of values (ConsumeValues / ConsumeSlice)
          Maps,     \* argument maps, as sets of pairs with distinct keys (ConsumeMap)
          InitB,    \* initial contents of B: set of sequences of pairs
          Makes,    \* how the objects are created: subset of {"make","zero"}
          MaxLen, Depth,
          AsIs      \* subset of {"extend-donor","zero-slice","zero-donor","json-dup"}

VARIABLES ps,       \* [Objs -> Seq(K \X V)]
          fresh,    \* [Objs -> BOOLEAN]: a zero value (&dt.Pairs{}) no method has touched yet
          hist

vars == <<ps, fresh, hist>>
view == <<ps, fresh>>

Bit(b) == IF b THEN 1 ELSE 0
KeyF(v) == v % 10
Range(q) == {q[i] : i \in 1..Len(q)}
Perms(S) == {q \in [1..Cardinality(S) -> S] : \A i, j \in 1..Cardinality(S) : i # j => q[i] # q[j]}
Less(a, b) == a[1] < b[1] \/ (a[1] = b[1] /\ a[2] < b[2])
Before(a, b, dir) == IF dir = "asc" THEN Less(a, b) ELSE Less(b, a)
RECURSIVE Insert(_, _, _)
Insert(q, x, dir) == IF q = <<>> THEN <<x>>
                     ELSE IF Before(x, Head(q), dir) THEN <<x>> \o q
                     ELSE <<Head(q)>> \o Insert(Tail(q), x, dir)
RECURSIVE SortBy(_, _)
SortBy(q, dir) == IF q = <<>> THEN <<>> ELSE Insert(SortBy(Tail(q), dir), Head(q), dir)
KeysOf(q) == [i \in 1..Len(q) |-> q[i][1]]
ValsOf(q) == [i \in 1..Len(q) |-> q[i][2]]
\* Map(): the FIRST occurrence of a key is retained (pair_extra.go:72-74)
FirstMap(q) == {q[i] : i \in {i \in 1..Len(q) : \A j \in 1..(i - 1) : q[j][1] # q[i][1]}}
\* what encoding/json leaves in a map when a document repeats a key: the LAST occurrence
LastMap(q) == {q[i] : i \in {i \in 1..Len(q) : \A j \in (i + 1)..Len(q) : q[j][1] # q[i][1]}}
Functional(S) == \A a, b \in S : a[1] = b[1] => a = b
FromVals(vs) == [i \in 1..Len(vs) |-> <<KeyF(vs[i]), vs[i]>>]

P(q, f, o) == [fr |-> Bit(f[o]), q |-> q[o]]
Rec(call, ret, pan) ==
    hist' = Append(hist, call @@ [ret |-> ret, pan |-> Bit(pan), st |-> [o \in Objs |-> P(ps', fresh', o)]])
Touch(s) == fresh' = [fresh EXCEPT ![s] = FALSE]
Fits(s, n) == Len(ps[s]) + n <= MaxLen

Init == /\ \E qb \in InitB, mk \in [Objs -> Makes] :
             /\ ps = [o \in Objs |-> IF o = "B" THEN qb ELSE <<>>]
             /\ fresh = [o \in Objs |-> mk[o] = "zero" /\ ps[o] = <<>>]
        /\ hist = <<[op |-> "new", ret |-> "-", pan |-> 0, st |-> [o \in Objs |-> P(ps, fresh, o)]]>>

\* ---- writers -----------------------------------------------------------------------------------------
\* pair.go:123 Add(k, v) appends (duplicate keys allowed) and returns the receiver; pair.go:127 Push(pair)
AddOp(s, k, v, op) ==
    /\ op \in Ops /\ Fits(s, 1)
    /\ ps' = [ps EXCEPT ![s] = Append(@, <<k, v>>)] /\ Touch(s)
    /\ Rec([op |-> op, s |-> s, k |-> k, v |-> v], IF op = "add" THEN "self" ELSE "-", FALSE)

\* pair.go:131 Append(new...), pair.go:62 Consume(iter) (worker, nil error), pair_extra.go:60 ConsumeValues,
\* pair_extra.go:66 ConsumeSlice: the items are added at the end, in order
AppendOp(s, q, op) ==
    /\ op \in Ops /\ Fits(s, Len(q))
    /\ ps' = [ps EXCEPT ![s] = @ \o q] /\ Touch(s)
    /\ Rec([op |-> op, s |-> s, arg |-> q], IF op = "consume" THEN "nil" ELSE "-", FALSE)
ValuesOp(s, vs, op) ==
    /\ op \in Ops /\ Fits(s, Len(vs))
    /\ ps' = [ps EXCEPT ![s] = @ \o FromVals(vs)] /\ Touch(s)
    /\ Rec([op |-> op, s |-> s, vals |-> vs], IF op = "consumevalues" THEN "nil" ELSE "-", FALSE)

\* pair_extra.go:70 ConsumeMap(map): all items, in Go map order (every permutation; `free` = how many
\* trailing positions the harness compares as a bag, stopping the behaviour if the real order differs)
ConsumeMapOp(s, mp) ==
    /\ "consumemap" \in Ops /\ Fits(s, Cardinality(mp))
    /\ \E p \in Perms(mp) :
        /\ ps' = [ps EXCEPT ![s] = @ \o p] /\ Touch(s)
        /\ Rec([op |-> "consumemap", s |-> s, map |-> mp, free |-> Cardinality(mp)], "-", FALSE)

\* pair.go:133-135 Extend(toAdd) "without modifying the donating object"
ExtendOp(s, t) ==
    /\ "extend" \in Ops /\ s # t /\ Fits(s, Len(ps[t]))
    /\ IF fresh[t] /\ "zero-donor" \in AsIs
       THEN /\ UNCHANGED ps /\ Touch(s)
            /\ Rec([op |-> "extend", s |-> s, t |-> t], "-", TRUE)
       ELSE /\ ps' = [ps EXCEPT ![s] = @ \o ps[t],
                                ![t] = IF "extend-donor" \in AsIs THEN <<>> ELSE @]
            /\ Touch(s)
            /\ Rec([op |-> "extend", s |-> s, t |-> t], "-", FALSE)

\* pair.go:94,98 SortMerge / SortQuick with the lexicographic (key, value) order or its converse
SortOp(s, op, dir) ==
    /\ op \in Ops
    /\ ps' = [ps EXCEPT ![s] = SortBy(@, dir)] /\ Touch(s)
    /\ Rec([op |-> op, s |-> s, dir |-> dir], "-", FALSE)

\* pair.go:91 t := s.Copy()  "a new Pairs object with the same values"
CopyOp(s, t) ==
    /\ "copy" \in Ops /\ s # t
    /\ ps' = [ps EXCEPT ![t] = ps[s]]
    /\ fresh' = [fresh EXCEPT ![s] = FALSE, ![t] = FALSE]
    /\ Rec([op |-> "copy", s |-> s, t |-> t], "-", FALSE)

\* json.Unmarshal(json.Marshal(s), t): pair_extra.go:14-41 MarshalJSON, 43-56 UnmarshalJSON ("appends it to
\* the existing Pairs").  `doc` = the pairs the document must contain: as documented the map of s (first
\* occurrence per key, any order), as-is every pair in order.
JsonOp(s, t) ==
    /\ "json" \in Ops
    /\ LET asis == "json-dup" \in AsIs
           got  == IF asis THEN LastMap(ps[s]) ELSE FirstMap(ps[s])
       IN /\ Len(ps[t]) + Cardinality(got) <= MaxLen
          /\ \E p \in Perms(got) :
              /\ ps' = [ps EXCEPT ![t] = @ \o p]
              /\ fresh' = [fresh EXCEPT ![s] = FALSE, ![t] = FALSE]
              /\ Rec([op |-> "json", s |-> s, t |-> t, free |-> Cardinality(got), inorder |-> Bit(asis),
                      doc |-> IF asis THEN ps[s] ELSE SortBy(p, "asc")], "-", FALSE)

\* ---- readers -----------------------------------------------------------------------------------------
\* pair.go:101 Len, 70 Keys, 76 Values, 67 Iterator, 88 List, 104/108 Observe/Process (every pair, in order),
\* pair_extra.go:72 Map
ReadOp(s, op) ==
    /\ op \in Ops /\ op \in {"len", "keys", "values", "iterator", "list", "observe", "process", "map"}
    /\ UNCHANGED ps /\ Touch(s)
    /\ Rec([op |-> op, s |-> s],
           CASE op = "len" -> Len(ps[s])
             [] op = "keys" -> KeysOf(ps[s])
             [] op = "values" -> ValsOf(ps[s])
             [] op = "map" -> FirstMap(ps[s])
             [] OTHER -> ps[s], FALSE)

\* pair.go:85 Slice() "creates a new slice of all the Pair objects"
SliceOp(s) ==
    /\ "slice" \in Ops
    /\ UNCHANGED ps
    /\ IF fresh[s] /\ "zero-slice" \in AsIs
       THEN UNCHANGED fresh /\ Rec([op |-> "slice", s |-> s], <<>>, TRUE)
       ELSE UNCHANGED fresh /\ Rec([op |-> "slice", s |-> s], ps[s], FALSE)

Step == \/ \E s \in Mut, k \in K, v \in V, op \in {"add", "push"} : AddOp(s, k, v, op)
        \/ \E s \in Mut, q \in PSeqs, op \in {"append", "consume"} : AppendOp(s, q, op)
        \/ \E s \in Mut, vs \in VSeqs, op \in {"consumevalues", "consumeslice"} : ValuesOp(s, vs, op)
        \/ \E s \in Mut, mp \in Maps : ConsumeMapOp(s, mp)
        \/ \E s \in Mut, t \in Objs : ExtendOp(s, t) \/ CopyOp(s, t)
        \/ \E s \in Objs, t \in Mut : JsonOp(s, t)
        \/ \E s \in Mut, op \in {"sortmerge", "sortquick"}, dir \in {"asc", "desc"} : SortOp(s, op, dir)
        \/ \E s \in Mut, op \in Ops : ReadOp(s, op)
        \/ \E s \in Mut : SliceOp(s)

Next == Len(hist) < Depth + 1 /\ Step
Spec == Init /\ [][Next]_vars

\* ---- properties of the model itself ----------------------------------------------------------------------
TypeOK == /\ \A o \in Objs : ps[o] \in Seq(K \X V) /\ Len(ps[o]) <= MaxLen
          /\ fresh \in [Objs -> BOOLEAN]
          /\ \A o \in Objs : fresh[o] => ps[o] = <<>>
\* Pairs -> Map: one entry per distinct key, and it is the FIRST pair with that key
MapKeepsFirst ==
    \A o \in Objs : LET q == ps[o] mp == FirstMap(q) IN
        /\ Functional(mp)
        /\ {a[1] : a \in mp} = Range(KeysOf(q))
        /\ \A i \in 1..Len(q) : (\A j \in 1..(i - 1) : q[j][1] # q[i][1]) => q[i] \in mp
\* Keys / Values are the projections of the pair sequence
Projections == \A o \in Objs : Len(KeysOf(ps[o])) = Len(ps[o]) /\ Len(ValsOf(ps[o])) = Len(ps[o])
Inv == TypeOK /\ MapKeepsFirst /\ Projections

LastOp == hist'[Len(hist')]
\* no call except a sort, and (as is) the emptied donor of Extend, removes or reorders pairs: the old contents
\* stay a prefix
IsPrefix(a, b) == Len(a) <= Len(b) /\ SubSeq(b, 1, Len(a)) = a
AppendOnly ==
    \A o \in Objs : (~(LastOp.op \in {"sortmerge", "sortquick", "copy"})
                     /\ ~(LastOp.op = "extend" /\ LastOp.t = o /\ "extend-donor" \in AsIs))
                    => IsPrefix(ps[o], ps'[o])
SortSorts == (LastOp.op \in {"sortmerge", "sortquick"}) =>
                LET q == ps'[LastOp.s] IN
                /\ \A i \in 1..(Len(q) - 1) : ~Before(q[i + 1], q[i], LastOp.dir)
                /\ \A x \in Range(ps[LastOp.s]) :
                       Cardinality({i \in 1..Len(q) : q[i] = x}) = Cardinality({i \in 1..Len(q) : ps[LastOp.s][i] = x})
ActionProps == [][AppendOnly /\ SortSorts]_vars

\* what the DOCUMENTATION promises; holds with AsIs = {} and is violated by the as-is model (the expected
\* violation is the non-vacuity test of the switches, run/props/x04.py)
DonorUntouched == (LastOp.op = "extend") => ps'[LastOp.t] = ps[LastOp.t]
NoUndocumentedPanic == (LastOp.op \in {"slice", "extend"}) => LastOp.pan = 0
JsonIsMap == (LastOp.op = "json") => Functional(Range(LastOp.doc))
DocProps == [][DonorUntouched /\ NoUndocumentedPanic /\ JsonIsMap]_vars

\* ---- behaviour emission ------------------------------------------------------------------------------------
EmitAll  == Len(hist) < Depth + 1 \/ PrintT(<<"BEH", ToJson(hist)>>)
EmitEdge == PrintT(<<"BEH", ToJson(hist')>>)
SimNext == \/ Next
           \/ Len(hist) = Depth + 1 /\ PrintT(<<"BEH", ToJson(hist)>>) /\ UNCHANGED vars
SimSpec == Init /\ [][SimNext]_vars
=============================================================================
