\* generated by run/props/x04.py (quick tier): Pairs: every call sequence of length 3 over 9 methods
SPECIFICATION Spec
CONSTANTS
  K <- MC_K
  V <- MC_V
  Objs <- MC_Objs
  Mut <- MC_Mut
  Ops <- MC_Ops
  PSeqs <- MC_PSeqs
  VSeqs <- MC_VSeqs
  Maps <- MC_Maps
  InitB <- MC_InitB
  Makes <- MC_Makes
  MaxLen <- MC_MaxLen
  Depth <- MC_Depth
  AsIs <- MC_AsIs
INVARIANT Inv
PROPERTY ActionProps
CONSTRAINT EmitAll
CHECK_DEADLOCK FALSE
