----------------------------- MODULE SliceStep -----------------------------
(* Extra check X04: dt.Slice (/repo/dt/slice.go) as a SEQUENCE.  One object; the harness uses dt.Slice[int]   *)
(* (zero value 0).  Every action is one public method; `hist` records op, arguments, expected return value,   *)
(* whether a panic is expected, and the expected sequence after the call.  Only capacity-independent calls    *)
(* are modelled: re-slicing beyond len (legal up to cap in Go) is outside the model, Cap() is not judged.     *)
(* Indexes are 0-based in the records (Go), 1-based inside the model.                                         *)
(*                                                                                                          *)
(* Divergence switch (AsIs):                                                                                *)
(*   "zerorange-bounds"  slice.go:231-243 ZeroRange "replaces values between the specified indexes          *)
(*                       (inclusive) ... If the indexes provided are outside of the bounds of the slice, an  *)
(*                       invariant violation panic is raised"; the guard is                                  *)
(*                       start >= 0 && end > start && end < len(s)-1: the in-bounds calls with               *)
(*                       end = len(s)-1 (last element) and with start = end (one element) panic as well.     *)
(* Panics the documentation announces are modelled as outcomes (pan = 1): Index out of range (slice.go:212), *)
(* Reslice* / Truncate out of bounds (slice.go:177-199), FillTo / Grow / GrowCapacity to a length that is    *)
(* not larger than the current one (the message of the invariant at slice.go:248-250 says "<=").             *)
(***************************************************************************)
EXTENDS Integers, Sequences, FiniteSets, TLC, Json

CONSTANTS V, Ops,
          Args,     \* argument sequences (Append / Extend / Prepend / Populate)
          Inits,    \* initial contents
          MaxLen, Depth, AsIs

VARIABLES s, hist
vars == <<s, hist>>
view == <<s>>

Bit(b) == IF b THEN 1 ELSE 0
B(b) == IF b THEN "true" ELSE "false"
Zero == 0
Zeros(n) == [i \in 1..n |-> Zero]
Odd(x) == x % 2 = 1
RECURSIVE Insert(_, _, _)
Insert(q, x, dir) == IF q = <<>> THEN <<x>>
                     ELSE IF (IF dir = "asc" THEN x < Head(q) ELSE x > Head(q)) THEN <<x>> \o q
                     ELSE <<Head(q)>> \o Insert(Tail(q), x, dir)
RECURSIVE SortBy(_, _)
SortBy(q, dir) == IF q = <<>> THEN <<>> ELSE Insert(SortBy(Tail(q), dir), Head(q), dir)

Rec(call, ret, pan) == hist' = Append(hist, call @@ [ret |-> ret, pan |-> Bit(pan), st |-> s'])
Panic(call) == UNCHANGED s /\ Rec(call, "-", TRUE)

Init == /\ s \in Inits
        /\ hist = <<[op |-> "new", ret |-> "-", pan |-> 0, st |-> s]>>

\* slice.go:125 Add, 129 AddWhen(cond, v)
AddOp(op, c, v) ==
    /\ op \in Ops /\ (op = "add" => c) /\ Len(s) < MaxLen
    /\ s' = IF c THEN Append(s, v) ELSE s
    /\ Rec([op |-> op, c |-> Bit(c), v |-> v], "-", FALSE)
\* slice.go:132 Append, 139 AppendWhen, 142 Extend, 146 ExtendWhen, 135 Prepend, 308 Populate(iter) (worker)
SeqOp(op, c, q) ==
    /\ op \in Ops /\ (op \in {"append", "extend", "prepend", "populate"} => c) /\ Len(s) + Len(q) <= MaxLen
    /\ s' = IF ~c THEN s ELSE IF op = "prepend" THEN q \o s ELSE s \o q
    /\ Rec([op |-> op, c |-> Bit(c), arg |-> q], IF op = "populate" THEN "nil" ELSE "-", FALSE)
\* readers: 152 Len, 204 Last, 208 IsEmpty, 149 Copy, 113 Iterator, 165 Observe, 302 Process, 275 Ptrs (the
\* pointed-to values), 286 Sparse (no nil values in a Slice[int]: a copy), 173 Filter / 180 FilterFuture (odd values)
ReadOp(op) ==
    /\ op \in Ops /\ UNCHANGED s
    /\ Rec([op |-> op],
           CASE op = "len" -> Len(s)
             [] op = "last" -> Len(s) - 1
             [] op = "isempty" -> B(s = <<>>)
             [] op \in {"filter", "filterfuture"} -> SelectSeq(s, Odd)
             [] OTHER -> s, FALSE)
\* 158 Empty, 162 Reset, 222 Zero
ClearOp(op) ==
    /\ op \in Ops
    /\ s' = IF op = "zero" THEN Zeros(Len(s)) ELSE <<>>
    /\ Rec([op |-> op], "-", FALSE)
\* 118 Sort(less)
SortOp(dir) == /\ "sort" \in Ops /\ s' = SortBy(s, dir) /\ Rec([op |-> "sort", dir |-> dir], "-", FALSE)
\* 212 Index(i) "If the provided index is not within the bounds of the slice the operation panics", 215 Ptr(i)
IndexOp(op, i) ==
    /\ op \in Ops
    /\ IF i < Len(s) THEN UNCHANGED s /\ Rec([op |-> op, i |-> i], s[i + 1], FALSE)
       ELSE Panic([op |-> op, i |-> i])
\* 183 Reslice(start, end), 189 ResliceBeginning, 195 ResliceEnd, 201 Truncate(n) "removes the last n items"
\* ("can lead to panics if the indexes are out of bounds"); end <= len only (beyond len is capacity-dependent)
ResliceOp(i, j) ==
    /\ "reslice" \in Ops
    /\ IF i <= j THEN s' = SubSeq(s, i + 1, j) /\ Rec([op |-> "reslice", i |-> i, j |-> j], "-", FALSE)
       ELSE Panic([op |-> "reslice", i |-> i, j |-> j])
ResliceBeg(i) == /\ "reslicebeginning" \in Ops /\ s' = SubSeq(s, i + 1, Len(s)) /\ Rec([op |-> "reslicebeginning", i |-> i], "-", FALSE)
ResliceEnd(j) == /\ "resliceend" \in Ops /\ s' = SubSeq(s, 1, j) /\ Rec([op |-> "resliceend", i |-> j], "-", FALSE)
TruncateOp(n) ==
    /\ "truncate" \in Ops
    /\ IF n <= Len(s) THEN s' = SubSeq(s, 1, Len(s) - n) /\ Rec([op |-> "truncate", i |-> n], "-", FALSE)
       ELSE Panic([op |-> "truncate", i |-> n])
\* 245 FillTo(n) returns the slice extended with zero values (receiver unchanged), 219 Grow(n) extends the
\* receiver, 257 GrowCapacity(n) leaves the contents alone
GrowOp(op, n) ==
    /\ op \in Ops
    /\ IF n <= Len(s) THEN Panic([op |-> op, i |-> n])
       ELSE /\ s' = IF op = "grow" THEN s \o Zeros(n - Len(s)) ELSE s
            /\ Rec([op |-> op, i |-> n], IF op = "fillto" THEN s \o Zeros(n - Len(s)) ELSE "-", FALSE)
\* 231 ZeroRange(start, end) inclusive, panics when out of bounds
ZeroRangeOp(i, j) ==
    /\ "zerorange" \in Ops
    /\ LET okdoc  == i <= j /\ j <= Len(s) - 1
           okasis == j > i /\ j < Len(s) - 1
           ok     == IF "zerorange-bounds" \in AsIs THEN okasis ELSE okdoc
       IN IF ok THEN /\ s' = [x \in 1..Len(s) |-> IF x >= i + 1 /\ x <= j + 1 THEN Zero ELSE s[x]]
                     /\ Rec([op |-> "zerorange", i |-> i, j |-> j], "-", FALSE)
          ELSE Panic([op |-> "zerorange", i |-> i, j |-> j])

Step == \/ \E op \in {"add", "addwhen"}, c \in BOOLEAN, v \in V : AddOp(op, c, v)
        \/ \E op \in {"append", "appendwhen", "extend", "extendwhen", "prepend", "populate"}, c \in BOOLEAN, q \in Args : SeqOp(op, c, q)
        \/ \E op \in {"len", "last", "isempty", "copy", "iterator", "observe", "process", "ptrs", "sparse", "filter", "filterfuture"} : ReadOp(op)
        \/ \E op \in {"empty", "reset", "zero"} : ClearOp(op)
        \/ \E dir \in {"asc", "desc"} : SortOp(dir)
        \/ \E op \in {"index", "ptr"}, i \in 0..Len(s) : IndexOp(op, i)
        \/ \E i, j \in 0..Len(s) : ResliceOp(i, j) \/ ZeroRangeOp(i, j)
        \/ \E i \in 0..Len(s) : ResliceBeg(i) \/ ResliceEnd(i)
        \/ \E n \in 0..(Len(s) + 1) : TruncateOp(n)
        \/ \E op \in {"fillto", "grow", "growcapacity"}, n \in 0..MaxLen : GrowOp(op, n)

Next == Len(hist) < Depth + 1 /\ Step
Spec == Init /\ [][Next]_vars

\* ---- properties of the model itself
TypeOK == s \in Seq(V \cup {Zero}) /\ Len(s) <= MaxLen
LastOp == hist'[Len(hist')]
\* Last = Len - 1; a panicking call changes nothing; Truncate(n) removes exactly n; Grow reaches exactly n
PanicKeeps == LastOp.pan = 1 => s' = s
TruncLen == (LastOp.op = "truncate" /\ LastOp.pan = 0) => Len(s') = Len(s) - LastOp.i
GrowLen == (LastOp.op = "grow" /\ LastOp.pan = 0) => (Len(s') = LastOp.i /\ SubSeq(s', 1, Len(s)) = s)
SortPerm == LastOp.op = "sort" => \A x \in V \cup {Zero} :
                Cardinality({i \in 1..Len(s) : s[i] = x}) = Cardinality({i \in 1..Len(s') : s'[i] = x})
ActionProps == [][PanicKeeps /\ TruncLen /\ GrowLen /\ SortPerm]_vars
Inv == TypeOK
\* what the DOCUMENTATION promises: an in-bounds inclusive range is zeroed, not rejected; holds with AsIs = {},
\* violated by the as-is model
ZeroRangeDoc == (LastOp.op = "zerorange" /\ LastOp.i <= LastOp.j /\ LastOp.j <= Len(s) - 1) => LastOp.pan = 0
DocProps == [][ZeroRangeDoc]_vars

EmitAll  == Len(hist) < Depth + 1 \/ PrintT(<<"BEH", ToJson(hist)>>)
EmitEdge == PrintT(<<"BEH", ToJson(hist')>>)
SimNext == \/ Next
           \/ Len(hist) = Depth + 1 /\ PrintT(<<"BEH", ToJson(hist)>>) /\ UNCHANGED vars
SimSpec == Init /\ [][SimNext]_vars
=============================================================================
