\* generated by run/props/x04.py (thorough tier): Pairs: random walks of 12 calls on A and B
SPECIFICATION SimSpec
CONSTANTS
  K <- MC_K
  V <- MC_V
  Objs <- MC_Objs
  Mut <- MC_Mut
  Ops <- MC_Ops
  PSeqs <- MC_PSeqs
  VSeqs <- MC_VSeqs
  Maps <- MC_Maps
  InitB <- MC_InitB
  Makes <- MC_Makes
  MaxLen <- MC_MaxLen
  Depth <- MC_Depth
  AsIs <- MC_AsIs
INVARIANT Inv
PROPERTY ActionProps
CHECK_DEADLOCK FALSE
