---- MODULE X04_docprops_pairs_asis ----
EXTENDS PairsStep
MC_K == {1, 2}
MC_V == {11, 12}
MC_Objs == {"A", "B"}
MC_Mut == {"A"}
MC_Ops == {"add", "extend", "slice", "json", "copy"}
MC_PSeqs == {<<>>, <<<<1, 11>>>>, <<<<2, 12>>, <<1, 12>>>>, <<<<1, 11>>, <<1, 12>>>>}
MC_VSeqs == {<<>>, <<12, 11>>, <<11, 11>>}
MC_Maps == {{}, {<<1, 11>>}, {<<1, 12>>, <<2, 11>>}}
MC_InitB == {<<>>, <<<<1, 11>>, <<1, 12>>>>}
MC_Makes == {"make", "zero"}
MC_MaxLen == 4
MC_Depth == 2
MC_AsIs == {"extend-donor", "json-dup", "zero-donor", "zero-slice"}
====
