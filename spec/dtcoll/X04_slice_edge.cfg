\* generated by run/props/x04.py (quick tier): Slice: one shortest behaviour per edge
SPECIFICATION Spec
CONSTANTS
  V <- MC_V
  Ops <- MC_Ops
  Args <- MC_Args
  Inits <- MC_Inits
  MaxLen <- MC_MaxLen
  Depth <- MC_Depth
  AsIs <- MC_AsIs
INVARIANT Inv
PROPERTY ActionProps
VIEW view
ACTION_CONSTRAINT EmitEdge
CHECK_DEADLOCK FALSE
