---- MODULE X04_docprops_slice_asis ----
EXTENDS SliceStep
MC_V == {1, 2}
MC_Ops == {"add", "zerorange"}
MC_Args == {<<>>, <<2>>, <<2, 1>>}
MC_Inits == {<<>>, <<2, 1>>, <<1, 2, 1, 2>>}
MC_MaxLen == 4
MC_Depth == 2
MC_AsIs == {"zerorange-bounds"}
====
