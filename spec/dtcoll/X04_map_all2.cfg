\* generated by run/props/x04.py (quick tier): Map: every call sequence of length 2, all methods, K={1,2,3}
SPECIFICATION Spec
CONSTANTS
  K <- MC_K
  V <- MC_V
  Ops <- MC_Ops
  PSeqs <- MC_PSeqs
  VSeqs <- MC_VSeqs
  Maps <- MC_Maps
  Inits <- MC_Inits
  Depth <- MC_Depth
INVARIANT Inv
PROPERTY ActionProps
CONSTRAINT EmitAll
CHECK_DEADLOCK FALSE
