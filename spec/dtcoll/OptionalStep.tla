---------------------------- MODULE OptionalStep ----------------------------
(* Extra check X04: dt.Optional (/repo/dt/optional.go) as a pair (value, defined).  The harness uses          *)
(* dt.Optional[int] (zero value 0).  Every action is one public method; `hist` records op, arguments, the     *)
(* expected return value and the expected (value, defined) after the call.  Futures handed to SetWhenFuture / *)
(* DefaultFuture count their invocations: the count is the return value (optional.go:41,48 "resolves the      *)
(* future only when ..." / "if the optional has not yet been set").  Text forms are the JSON form of an int   *)
(* (optional.go:154-159, 179-183: "falls back to json.Marshal()"); malformed input is outside the model.       *)
(***************************************************************************)
EXTENDS Integers, Sequences, FiniteSets, TLC, Json

CONSTANTS V, Ops, Inits, Depth   \* Inits: subset of {<<0, FALSE>>} \cup (V \X {TRUE})

VARIABLES v, def, hist
vars == <<v, def, hist>>
view == <<v, def>>

Zero == 0
Bit(b) == IF b THEN 1 ELSE 0
B(b) == IF b THEN "true" ELSE "false"
P(x, d) == [v |-> x, d |-> Bit(d)]
Rec(call, ret) == hist' = Append(hist, call @@ [ret |-> ret, pan |-> 0, st |-> P(v', def')])
SetTo(x) == v' = x /\ def' = TRUE

Init == /\ \E i \in Inits : v = i[1] /\ def = i[2]
        /\ hist = <<[op |-> "new", ret |-> "-", pan |-> 0, st |-> P(v, def)]>>

\* optional.go:52 Set "marks the optional value as defined, and sets the optional value", 77 Handler
SetOp(op, x) == /\ op \in Ops /\ SetTo(x) /\ Rec([op |-> op, v |-> x], "-")
\* 44 SetWhen(cond, v), 47 SetWhenFuture(cond, future): ret = number of times the future ran (0 for SetWhen)
SetWhenOp(op, c, x) ==
    /\ op \in Ops
    /\ IF c THEN SetTo(x) ELSE UNCHANGED <<v, def>>
    /\ Rec([op |-> op, c |-> Bit(c), v |-> x], IF op = "setwhenfuture" THEN Bit(c) ELSE 0)
\* 36 Default(v) "if it is not already been defined", 40 DefaultFuture
DefaultOp(op, x) ==
    /\ op \in Ops
    /\ IF ~def THEN SetTo(x) ELSE UNCHANGED <<v, def>>
    /\ Rec([op |-> op, v |-> x], IF op = "defaultfuture" THEN Bit(~def) ELSE 0)
\* 55 Resolve, 71 Future, 67 Get, 83 Ok, 129 Value (nil when undefined), 154 MarshalText
ReadOp(op) ==
    /\ op \in Ops /\ UNCHANGED <<v, def>>
    /\ Rec([op |-> op],
           CASE op \in {"resolve", "future"} -> v
             [] op = "get" -> <<v, Bit(def)>>
             [] op = "ok" -> B(def)
             [] op = "value" -> IF def THEN ToString(v) ELSE "nil"
             [] op = "marshaltext" -> ToString(v))
\* 59 Reset "unsets the OK value of the optional, and unsets the reference to the existing value"
ResetOp == /\ "reset" \in Ops /\ v' = Zero /\ def' = FALSE /\ Rec([op |-> "reset"], "-")
\* 63 Swap "returns the previous value of the optional and replaces it with the provided value"
SwapOp(x) == /\ "swap" \in Ops /\ SetTo(x) /\ Rec([op |-> "swap", v |-> x], v)
\* 179 UnmarshalText(text of x), 86 Scan(x): the value becomes x and is defined; Scan(nil) resets
ParseOp(op, x) == /\ op \in Ops /\ SetTo(x) /\ Rec([op |-> op, v |-> x], "nil")
ScanNil == /\ "scannil" \in Ops /\ v' = Zero /\ def' = FALSE /\ Rec([op |-> "scannil"], "nil")

Step == \/ \E op \in {"set", "handler"}, x \in V \cup {Zero} : SetOp(op, x)
        \/ \E op \in {"setwhen", "setwhenfuture"}, c \in BOOLEAN, x \in V : SetWhenOp(op, c, x)
        \/ \E op \in {"default", "defaultfuture"}, x \in V : DefaultOp(op, x)
        \/ \E op \in {"resolve", "future", "get", "ok", "value", "marshaltext"} : ReadOp(op)
        \/ ResetOp \/ ScanNil
        \/ \E x \in V \cup {Zero} : SwapOp(x)
        \/ \E op \in {"unmarshaltext", "scan"}, x \in V \cup {Zero} : ParseOp(op, x)

Next == Len(hist) < Depth + 1 /\ Step
Spec == Init /\ [][Next]_vars

TypeOK == v \in V \cup {Zero} /\ def \in BOOLEAN
\* an undefined optional holds the zero value (Reset clears the reference)
UndefinedIsZero == ~def => v = Zero
Inv == TypeOK /\ UndefinedIsZero
LastOp == hist'[Len(hist')]
\* Default never changes a defined optional; Set(x) then Get = (x, true)
DefaultKeeps == (LastOp.op \in {"default", "defaultfuture"} /\ def) => (v' = v /\ def')
SetGet == (LastOp.op \in {"set", "handler", "swap"}) => (v' = LastOp.v /\ def')
ActionProps == [][DefaultKeeps /\ SetGet]_vars

EmitAll  == Len(hist) < Depth + 1 \/ PrintT(<<"BEH", ToJson(hist)>>)
EmitEdge == PrintT(<<"BEH", ToJson(hist')>>)
SimNext == \/ Next
           \/ Len(hist) = Depth + 1 /\ PrintT(<<"BEH", ToJson(hist)>>) /\ UNCHANGED vars
SimSpec == Init /\ [][SimNext]_vars
=============================================================================
