\* generated by run/props/x04.py (quick tier): Slice: every call sequence of length 2, all methods
SPECIFICATION Spec
CONSTANTS
  V <- MC_V
  Ops <- MC_Ops
  Args <- MC_Args
  Inits <- MC_Inits
  MaxLen <- MC_MaxLen
  Depth <- MC_Depth
  AsIs <- MC_AsIs
INVARIANT Inv
PROPERTY ActionProps
CONSTRAINT EmitAll
CHECK_DEADLOCK FALSE
