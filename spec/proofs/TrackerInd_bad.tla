--------------------------- MODULE TrackerInd_bad ---------------------------
(* Non-vacuity self-tests for TrackerInd: deliberately broken tracker steps.  *)
(* Each must make the inductive check FAIL (Apalache reports an invariant     *)
(* violation):                                                                *)
(*   --next=NextNoCap     remove() that forgets to clamp the credit to the    *)
(*                        cap (hardLimit - softQuota)  -> `capped => credit   *)
(*                        <= CreditCap` breaks                                *)
(*   --next=NextNoDeduct  add() that bursts without raising the soft quota    *)
(*                        -> `len <= soft` breaks                             *)
(***************************************************************************)
EXTENDS TrackerInd

\* TrRemove of Tracker.tla without the `IF c2 > cap THEN cap` clamp
RemoveNoCap ==
  /\ tr.kind = "quota" /\ tr.len > 0
  /\ LET l2 == tr.len - 1 IN
       IF l2 < tr.soft
         THEN LET s2 == IF tr.soft > 1 /\ l2 < (tr.soft \div 2) THEN tr.soft - 1 ELSE tr.soft
                  c2 == tr.credit + ((s2 - l2) * Scale) \div s2
              IN tr' = [tr EXCEPT !.len = l2, !.soft = s2, !.credit = c2]
         ELSE tr' = [tr EXCEPT !.len = l2]
  /\ capped' = (capped \/ Grants)

\* burst add that deducts credit but leaves the soft quota where it was
AddNoRaise ==
  /\ tr.kind = "quota" /\ tr.len >= tr.soft /\ tr.len < tr.hard /\ tr.credit >= Scale
  /\ tr' = [tr EXCEPT !.credit = @ - Scale, !.len = @ + 1]
  /\ capped' = capped

NextNoCap == Add \/ RemoveNoCap
NextNoRaise == AddNoRaise \/ Remove
=============================================================================
