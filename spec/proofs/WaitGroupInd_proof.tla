------------------------- MODULE WaitGroupInd_proof -------------------------
(* TLAPS proof that WaitGroupInd!IndInv is an inductive invariant of the      *)
(* unmodified spec/waitgroup/WaitGroup.tla, for an ARBITRARY set of Wait      *)
(* calls (finite or not), any MaxCounter, any Budget, both HelperLocked, and  *)
(* Add with any integer argument; and that the returning step of Wait sees    *)
(* counter = 0 or its context done (StepInv).                                 *)
(*   tlapm --threads 4 WaitGroupInd_proof.tla                                 *)
(***************************************************************************)
EXTENDS WaitGroupInd, TLAPS

ASSUME ConstAssm == MaxCounter \in Nat /\ Budget \in Nat /\ HelperLocked \in BOOLEAN
ASSUME FreeAssm == Free \notin Waiters      \* "free" is not the name of a Wait call

\* Apalache gets sequence-hood from the type annotation of waitq; TLAPS needs it in the invariant
PInv == IndInv /\ waitq \in Seq(Waiters)

(* Justifies the one non-comment adaptation the Apalache runs make to WaitGroup.tla *)
(* (`1..Len(s)` -> `DOMAIN s` in SeqToSet; Apalache needs constant range bounds).    *)
LEMMA SeqToSetDomain ==
  ASSUME NEW S, NEW s \in Seq(S)
  PROVE  SeqToSet(s) = {s[i] : i \in DOMAIN s}
  BY DEF SeqToSet

THEOREM InitInv == Init => PInv
  <1> SUFFICES ASSUME Init PROVE PInv OBVIOUS
  <1> USE ConstAssm, FreeAssm
  <1>1. waitq = <<>> /\ waitq \in Seq(Waiters) /\ DOMAIN waitq = {}
    BY DEF Init
  <1> QED
    BY <1>1 DEF Init, PInv, IndInv, PCs, InCS, NoDup

THEOREM Inductive == PInv /\ [NextAny]_vars => PInv'
  <1> SUFFICES ASSUME PInv, [NextAny]_vars PROVE PInv' OBVIOUS
  <1> USE ConstAssm, FreeAssm
  <1>0. DOMAIN waitq = 1..Len(waitq) /\ Len(waitq) \in Nat
    BY DEF PInv
  <1>1. ASSUME NEW w \in Waiters, WStart(w) PROVE PInv'
    BY <1>1 DEF PInv, IndInv, PCs, InCS, NoDup, WStart
  <1>2. ASSUME NEW w \in Waiters, Cancel(w) PROVE PInv'
    BY <1>2 DEF PInv, IndInv, PCs, InCS, NoDup, Cancel
  <1>3. ASSUME NEW n \in Int, Add(n) PROVE PInv'
    <2>1. CASE counter + n < 0
      BY <1>3, <2>1 DEF PInv, IndInv, PCs, InCS, NoDup, Add
    <2>2. CASE ~(counter + n < 0) /\ counter + n # 0
      BY <1>3, <2>2 DEF PInv, IndInv, PCs, InCS, NoDup, Add
    <2>3. CASE ~(counter + n < 0) /\ counter + n = 0
      <3>1. waitq' = <<>> /\ woken' = woken \cup SeqToSet(waitq) /\ counter' = 0 /\ sum' = sum + n
            /\ UNCHANGED <<mu, pc, done, helper, early>> /\ panics' = panics /\ budget' = budget - 1
        BY <1>3, <2>3 DEF Add
      <3>2. SeqToSet(waitq) = {waitq[i] : i \in DOMAIN waitq}
        BY SeqToSetDomain DEF PInv
      <3>3. waitq' \in Seq(Waiters) /\ DOMAIN waitq' = {}
        BY <3>1
      <3> QED
        BY <3>1, <3>2, <3>3, <2>3 DEF PInv, IndInv, PCs, InCS, NoDup
    <2> QED
      BY <2>1, <2>2, <2>3
  <1>4. ASSUME NEW w \in Waiters, WEnter(w) PROVE PInv'
    BY <1>4 DEF PInv, IndInv, PCs, InCS, NoDup, WEnter, Return
  <1>5. ASSUME NEW w \in Waiters, WLoop(w) PROVE PInv'
    BY <1>5 DEF PInv, IndInv, PCs, InCS, NoDup, WLoop, Return
  <1>6. ASSUME NEW w \in Waiters, WPark(w) PROVE PInv'
    <2>1. waitq' = Append(waitq, w) /\ mu' = Free /\ pc' = [pc EXCEPT ![w] = "parked"]
          /\ UNCHANGED <<counter, woken, done, helper, budget, sum, panics, early>>
          /\ pc[w] = "prepark" /\ mu = w
      BY <1>6 DEF WPark
    <2>2. /\ waitq' \in Seq(Waiters) /\ Len(waitq') = Len(waitq) + 1
          /\ DOMAIN waitq' = 1..(Len(waitq) + 1)
          /\ \A i \in 1..Len(waitq) : waitq'[i] = waitq[i]
          /\ waitq'[Len(waitq) + 1] = w
      BY <2>1 DEF PInv
    <2>3. \A i \in DOMAIN waitq : waitq[i] # w
      BY <2>1 DEF PInv, IndInv
    <2>4. w \notin woken
      BY <2>1 DEF PInv, IndInv
    <2>5. NoDup(waitq')
      BY <1>0, <2>2, <2>3 DEF PInv, IndInv, NoDup
    <2>6. \A i \in DOMAIN waitq' : waitq'[i] \in Waiters /\ pc'[waitq'[i]] = "parked" /\ waitq'[i] \notin woken'
      BY <1>0, <2>1, <2>2, <2>3, <2>4 DEF PInv, IndInv, PCs
    <2>7. \A v \in Waiters : pc'[v] = "parked" => (v \in woken' \/ \E i \in DOMAIN waitq' : waitq'[i] = v)
      BY <1>0, <2>1, <2>2 DEF PInv, IndInv, PCs
    <2>8. \A v \in Waiters : (mu' = v) <=> InCS(v)'
      BY <2>1 DEF PInv, IndInv, PCs, InCS
    <2>9. pc' \in [Waiters -> PCs] /\ \A v \in woken' : pc'[v] = "parked"
      BY <2>1, <2>4 DEF PInv, IndInv, PCs
    <2> QED
      BY <2>1, <2>2, <2>5, <2>6, <2>7, <2>8, <2>9 DEF PInv, IndInv
  <1>7. ASSUME NEW w \in Waiters, WWake(w) PROVE PInv'
    <2>1. \A i \in DOMAIN waitq : waitq[i] # w
      BY <1>7 DEF PInv, IndInv, WWake
    <2> QED
      BY <1>7, <2>1 DEF PInv, IndInv, PCs, InCS, NoDup, WWake, Return
  <1>8. ASSUME NEW w \in Waiters, HelperFire(w) PROVE PInv'
    <2>1. waitq' = <<>> /\ woken' = woken \cup SeqToSet(waitq) /\ helper' = [helper EXCEPT ![w] = "fired"]
          /\ UNCHANGED <<counter, mu, pc, done, budget, sum, panics, early>>
      BY <1>8 DEF HelperFire
    <2>2. SeqToSet(waitq) = {waitq[i] : i \in DOMAIN waitq}
      BY SeqToSetDomain DEF PInv
    <2>3. waitq' \in Seq(Waiters) /\ DOMAIN waitq' = {}
      BY <2>1
    <2> QED
      BY <2>1, <2>2, <2>3 DEF PInv, IndInv, PCs, InCS, NoDup
  <1>9. ASSUME UNCHANGED vars PROVE PInv'
    BY <1>9 DEF PInv, IndInv, PCs, InCS, NoDup, vars
  <1> QED
    BY <1>1, <1>2, <1>3, <1>4, <1>5, <1>6, <1>7, <1>8, <1>9
       DEF NextAny, Next, Internal, External, Deltas

(* NoEarlyReturn at the level of the returning step *)
THEOREM StepThm == PInv /\ [NextAny]_vars => StepInv
  <1> SUFFICES ASSUME PInv, [NextAny]_vars, NEW v \in Waiters, pc[v] # "ret", pc'[v] = "ret"
               PROVE  (counter = 0 \/ done[v]) /\ counter' = counter
    BY DEF StepInv
  <1> USE ConstAssm, FreeAssm
  <1>1. ASSUME NEW w \in Waiters, WStart(w) PROVE FALSE
    BY <1>1 DEF PInv, IndInv, PCs, WStart
  <1>2. ASSUME NEW w \in Waiters, Cancel(w) PROVE FALSE
    BY <1>2 DEF Cancel
  <1>3. ASSUME NEW n \in Int, Add(n) PROVE FALSE
    BY <1>3 DEF Add
  <1>4. ASSUME NEW w \in Waiters, WEnter(w) PROVE (counter = 0 \/ done[v]) /\ counter' = counter
    BY <1>4 DEF PInv, IndInv, PCs, WEnter, Return
  <1>5. ASSUME NEW w \in Waiters, WLoop(w) PROVE (counter = 0 \/ done[v]) /\ counter' = counter
    BY <1>5 DEF PInv, IndInv, PCs, WLoop, Return
  <1>6. ASSUME NEW w \in Waiters, WPark(w) PROVE FALSE
    BY <1>6 DEF PInv, IndInv, PCs, WPark
  <1>7. ASSUME NEW w \in Waiters, WWake(w) PROVE (counter = 0 \/ done[v]) /\ counter' = counter
    BY <1>7 DEF PInv, IndInv, PCs, WWake, Return
  <1>8. ASSUME NEW w \in Waiters, HelperFire(w) PROVE FALSE
    BY <1>8 DEF HelperFire
  <1>9. ASSUME UNCHANGED vars PROVE FALSE
    BY <1>9 DEF vars
  <1> QED
    BY <1>1, <1>2, <1>3, <1>4, <1>5, <1>6, <1>7, <1>8, <1>9
       DEF NextAny, Next, Internal, External, Deltas

THEOREM Conseq == PInv => Consequences
  <1> SUFFICES ASSUME PInv PROVE Consequences OBVIOUS
  <1> USE ConstAssm, FreeAssm
  <1>0. DOMAIN waitq = 1..Len(waitq)
    BY DEF PInv
  <1>1. MutexExclusion
    BY DEF PInv, IndInv, MutexExclusion, InCS
  <1>2. QueuedNotHolder
    BY DEF PInv, IndInv, QueuedNotHolder, InCS
  <1>3. NoEarlyReturn /\ CounterIsSum /\ counter \in 0..MaxCounter
    BY DEF PInv, IndInv, NoEarlyReturn, CounterIsSum
  <1>4. ParkedAccounted
    BY <1>0 DEF PInv, IndInv, ParkedAccounted, SeqToSet
  <1> QED
    BY <1>1, <1>2, <1>3, <1>4 DEF Consequences

(* The original specification (Deltas only, with its fairness) and the one with arbitrary Adds *)
THEOREM SafetyAny == SpecAny => [](PInv /\ Consequences) /\ [][StepInv]_vars
  <1>1. SpecAny => []PInv
    BY InitInv, Inductive, PTL DEF SpecAny
  <1>2. SpecAny => [](PInv /\ Consequences)
    BY <1>1, Conseq, PTL
  <1>3. PInv /\ [NextAny]_vars => [StepInv]_vars
    BY StepThm
  <1> QED
    BY <1>1, <1>2, <1>3, PTL DEF SpecAny

THEOREM Safety == Spec => [](PInv /\ Consequences) /\ [][StepInv]_vars
  <1>1. [Next]_vars => [NextAny]_vars
    BY DEF NextAny
  <1>2. Spec => SpecAny
    BY <1>1, PTL DEF Spec, SpecAny
  <1> QED
    BY <1>2, SafetyAny
=============================================================================
