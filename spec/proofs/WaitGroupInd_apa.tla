-------------------------- MODULE WaitGroupInd_apa --------------------------
(* Apalache front end of WaitGroupInd: parametric instances and the          *)
(* "any state satisfying the invariant" initial predicate.                    *)
(*                                                                            *)
(* ConstInitN quantifies over EVERY subset of N names (0..N Wait calls), any  *)
(* natural MaxCounter and Budget, both values of HelperLocked; the integer    *)
(* variables are unbounded.  For N in {3, 5, 10}:                              *)
(*   apalache-mc check --cinit=ConstInitN --init=Init --next=NextAny          *)
(*        --inv=IndInv --length=0 WaitGroupInd_apa.tla                        *)
(*   apalache-mc check --cinit=ConstInitN --init=IndInitN --next=NextAny      *)
(*        --inv=IndInv,StepInv,Consequences --length=1 WaitGroupInd_apa.tla   *)
(***************************************************************************)
EXTENDS WaitGroupInd, Apalache

ConstInit(names) == /\ Waiters \in SUBSET names
                    /\ MaxCounter \in Nat
                    /\ Budget \in Nat
                    /\ HelperLocked \in BOOLEAN

ConstInit3 == ConstInit({"w1", "w2", "w3"})
ConstInit5 == ConstInit({"w1", "w2", "w3", "w4", "w5"})
ConstInit10 == ConstInit({"w1", "w2", "w3", "w4", "w5", "w6", "w7", "w8", "w9", "w10"})

\* any state satisfying IndInv.  Gen(N) yields an arbitrary sequence of at most N entries; the
\* conjunct NoDup(waitq) of IndInv makes that exhaustive for |Waiters| <= N.
\* @type: Seq(Str) => Bool;
IndInitQ(q) ==
  /\ counter \in Int /\ budget \in Int /\ sum \in Int /\ panics \in Int
  /\ early \in BOOLEAN
  /\ mu \in Waiters \cup {Free}
  /\ woken \in SUBSET Waiters
  /\ pc \in [Waiters -> PCs]
  /\ done \in [Waiters -> BOOLEAN]
  /\ helper \in [Waiters -> {"none", "armed", "fired"}]
  /\ waitq = q
  /\ IndInv

IndInit3 == IndInitQ(Gen(3))
IndInit5 == IndInitQ(Gen(5))
IndInit10 == IndInitQ(Gen(10))
=============================================================================
