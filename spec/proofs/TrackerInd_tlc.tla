--------------------------- MODULE TrackerInd_tlc ---------------------------
(* TLC cross-check of TrackerInd!Inv on the reachable states of small         *)
(* trackers (third tool, TLC's own semantics of the unadapted Tracker.tla).   *)
(***************************************************************************)
EXTENDS TrackerInd

MCInit == /\ capped = FALSE
          /\ tr \in {NoLimit} \cup {Hard(c) : c \in 1..3}
                    \cup {Quota(h, s, c) : h \in 1..4, s \in 0..4, c \in 0..2}
          /\ tr.soft <= tr.hard
MCSpec == MCInit /\ [][Next]_vars
\* the unlimited tracker has no bound of its own
MCBound == tr.len <= 5
=============================================================================
