-------------------------- MODULE TrackerInd_proof --------------------------
(* TLAPS proof that TrackerInd!Inv is an inductive invariant of the tracker   *)
(* arithmetic of spec/lib/Tracker.tla (the unmodified original), for every    *)
(* Scale >= 1 and all integer hard limits / soft quotas / credits.            *)
(*   tlapm --threads 4 -I <dir with Tracker.tla> TrackerInd_proof.tla         *)
(***************************************************************************)
EXTENDS TrackerInd, TLAPS

ASSUME ScaleAssm == Scale \in Nat /\ Scale >= 1

TrType == [kind : {"nolimit", "hard", "quota"}, len : Int, soft : Int, hard : Int,
           credit : Int, frac : BOOLEAN]

\* Apalache gets the record type from the annotation of `tr`; TLAPS needs it in the invariant
PInv == tr \in TrType /\ Inv

LEMMA MulNat == \A a, b \in Nat : a * b \in Nat
  OBVIOUS
LEMMA DivNat == \A a \in Nat, b \in Nat : b >= 1 => a \div b \in Nat
  OBVIOUS
LEMMA MulDist == \A a \in Int, b \in Int : (a - 1) * b = a * b - b
  OBVIOUS

THEOREM InitInv == Init => PInv
  <1> SUFFICES ASSUME Init PROVE PInv OBVIOUS
  <1> USE ScaleAssm
  <1>1. CASE tr = NoLimit
    BY <1>1 DEF Init, PInv, Inv, TrType, NoLimit, TrOK
  <1>2. CASE \E c \in Nat : c >= 1 /\ tr = Hard(c)
    BY <1>2 DEF Init, PInv, Inv, TrType, Hard, TrOK
  <1>3. CASE \E h \in Nat, s \in Int, c \in Nat : h >= 1 /\ s <= h /\ tr = Quota(h, s, c)
    <2> PICK h \in Nat, s \in Int, c \in Nat : h >= 1 /\ s <= h /\ tr = Quota(h, s, c)
      BY <1>3
    <2> DEFINE s2 == IF s <= 0 THEN h ELSE s
    <2> DEFINE c2 == IF c = 0 THEN s2 ELSE c
    <2>1. s2 \in Nat /\ 1 <= s2 /\ s2 <= h /\ c2 \in Nat
      OBVIOUS
    <2>2. c2 * Scale \in Nat
      BY <2>1, MulNat
    <2>3. tr = [kind |-> "quota", len |-> 0, soft |-> s2, hard |-> h, credit |-> c2 * Scale, frac |-> FALSE]
      BY DEF Quota
    <2> HIDE DEF s2, c2
    <2>4. capped = FALSE
      BY DEF Init
    <2> QED
      BY <2>1, <2>2, <2>3, <2>4 DEF PInv, Inv, TrType, TrOK, CreditCap
  <1> QED
    BY <1>1, <1>2, <1>3 DEF Init

THEOREM AddInv == PInv /\ Add => PInv'
  <1> SUFFICES ASSUME PInv, Add PROVE PInv' OBVIOUS
  <1> USE ScaleAssm
  <1> PICK o \in TrAdd(tr) : tr' = o.t /\ capped' = capped
    BY DEF Add
  <1>1. CASE tr.kind = "nolimit"
    BY <1>1 DEF PInv, Inv, TrType, TrAdd, TrOK, CreditCap
  <1>2. CASE tr.kind = "hard"
    BY <1>2 DEF PInv, Inv, TrType, TrAdd, TrOK, CreditCap
  <1>3. CASE tr.kind = "quota"
    <2>1. CASE o.t = tr
      BY <2>1, <1>3 DEF PInv, Inv, TrType, TrOK, CreditCap
    <2>2. CASE o.t = [tr EXCEPT !.len = @ + 1] /\ tr.len < tr.soft
      BY <2>2, <1>3 DEF PInv, Inv, TrType, TrOK, CreditCap
    <2>3. CASE /\ o.t = [tr EXCEPT !.credit = @ - Scale, !.soft = tr.len + 1, !.len = @ + 1]
               /\ tr.len >= tr.soft /\ tr.len # tr.hard /\ tr.credit >= Scale
      <3>1. tr.len = tr.soft /\ tr.len < tr.hard
        BY <2>3, <1>3 DEF PInv, Inv, TrType
      <3>2. (tr.hard - (tr.soft + 1)) * Scale = (tr.hard - tr.soft) * Scale - Scale
        BY <1>3, MulDist DEF PInv, Inv, TrType
      <3> QED
        BY <2>3, <1>3, <3>1, <3>2 DEF PInv, Inv, TrType, TrOK, CreditCap
    <2> QED
      BY <1>3, <2>1, <2>2, <2>3 DEF TrAdd, PInv, Inv, TrType
  <1> QED
    BY <1>1, <1>2, <1>3 DEF PInv, Inv, TrType

THEOREM RemoveInv == PInv /\ Remove => PInv'
  <1> SUFFICES ASSUME PInv, Remove PROVE PInv' OBVIOUS
  <1> USE ScaleAssm
  <1>1. CASE tr.kind # "quota"
    BY <1>1 DEF PInv, Inv, TrType, Remove, TrRemove, TrOK, CreditCap, Grants
  <1>2. CASE tr.kind = "quota"
    <2> DEFINE l2 == tr.len - 1
    <2>0. tr.len > 0 /\ tr.len \in Int /\ tr.soft \in Int /\ tr.hard \in Int /\ tr.credit \in Int
          /\ tr.len <= tr.soft /\ 1 <= tr.soft /\ tr.soft <= tr.hard /\ tr.credit >= 0
      BY <1>2 DEF PInv, Inv, TrType, Remove
    <2>1. l2 < tr.soft /\ l2 >= 0 /\ l2 \in Int
      BY <2>0
    <2> DEFINE s2 == IF tr.soft > 1 /\ l2 < (tr.soft \div 2) THEN tr.soft - 1 ELSE tr.soft
    <2> DEFINE g == ((s2 - l2) * Scale) \div s2
    <2> DEFINE c2 == tr.credit + g
    <2> DEFINE cap == (tr.hard - s2) * Scale
    <2> DEFINE f2 == IF c2 > cap THEN FALSE ELSE (tr.frac \/ ~Dyadic(s2 - l2, s2))
    <2>2. s2 \in Int /\ 1 <= s2 /\ s2 <= tr.soft /\ s2 <= tr.hard /\ l2 <= s2
      BY <2>0, <2>1
    <2>3. g \in Nat
      <3>1. (s2 - l2) \in Nat /\ s2 \in Nat
        BY <2>1, <2>2
      <3>2. (s2 - l2) * Scale \in Nat
        BY <3>1, MulNat
      <3> QED
        BY <3>1, <3>2, <2>2, DivNat
    <2>4. cap \in Nat
      <3>1. (tr.hard - s2) \in Nat
        BY <2>0, <2>2
      <3> QED
        BY <3>1, MulNat
    <2>5. c2 \in Int /\ c2 >= 0
      BY <2>0, <2>3
    <2>6. tr' = [tr EXCEPT !.len = l2, !.soft = s2, !.credit = IF c2 > cap THEN cap ELSE c2, !.frac = f2]
      BY <1>2, <2>1 DEF Remove, TrRemove
    <2>7. capped' = TRUE
      BY <1>2, <2>1 DEF Remove, Grants
    <2> HIDE DEF s2, g, c2, cap, f2, l2
    <2>8. f2 \in BOOLEAN
      BY DEF f2
    <2>9. /\ tr'.kind = "quota" /\ tr'.len = l2 /\ tr'.soft = s2 /\ tr'.hard = tr.hard
          /\ tr'.credit = (IF c2 > cap THEN cap ELSE c2) /\ tr'.frac = f2
          /\ tr' \in TrType
      BY <2>6, <2>1, <2>2, <2>4, <2>5, <2>8, <1>2 DEF PInv, TrType
    <2>10. (tr'.hard - tr'.soft) * Scale = cap
      BY <2>9 DEF cap
    <2>11. tr'.credit >= 0 /\ tr'.credit <= cap
      BY <2>4, <2>5, <2>9
    <2>12. TrOK(tr')
      BY <2>0, <2>1, <2>2, <2>9, <2>11 DEF TrOK
    <2>13. Inv'
      BY <2>0, <2>1, <2>2, <2>7, <2>8, <2>9, <2>10, <2>11, <2>12 DEF Inv, CreditCap
    <2> QED
      BY <2>9, <2>13 DEF PInv
  <1> QED
    BY <1>1, <1>2

THEOREM Inductive == PInv /\ [Next]_vars => PInv'
  <1>1. PInv /\ UNCHANGED vars => PInv'
    BY DEF PInv, Inv, TrOK, CreditCap, vars
  <1> QED
    BY <1>1, AddInv, RemoveInv DEF Next

THEOREM Safety == Spec => []PInv
  BY InitInv, Inductive, PTL DEF Spec
=============================================================================
