SPECIFICATION MCSpec
CONSTANTS
  Scale = 6
  Values = {"a", "b"}
INVARIANTS Inv LenBound PrefixFIFO
CONSTRAINT MCBound
CHECK_DEADLOCK FALSE
