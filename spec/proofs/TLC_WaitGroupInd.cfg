\* TLC cross-check of WaitGroupInd on the reachable states of the unadapted WaitGroup.tla
SPECIFICATION Spec
CONSTANTS
  Waiters = {"w1", "w2"}
  MaxCounter = 2
  Budget = 3
  HelperLocked = TRUE
INVARIANTS IndInv Consequences
PROPERTIES StepProp
CHECK_DEADLOCK FALSE
