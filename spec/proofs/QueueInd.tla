------------------------------ MODULE QueueInd ------------------------------
(* FIFO / at-most-once kernel of pubsub.Queue as an inductive invariant over  *)
(* the ORIGINAL sequential operators of spec/queue/QueueCore.tla (QAdd,       *)
(* QRemove, QClose, QWait, QBlockingAdd), which this module INSTANCEs.        *)
(*                                                                            *)
(* State machine: a queue value `q` driven by any sequence of operations      *)
(* with arbitrary arguments; history variables record the values whose Add    *)
(* returned "ok" (`added`) and the values handed out (`removed`).             *)
(*                                                                            *)
(*   Inv:  added = removed \o q.items          (FIFO, nothing lost, nothing   *)
(*                                              duplicated, nothing invented) *)
(*         Len(q.items) = q.tr.len             (the tracker counts the list)  *)
(*         the tracker invariant of TrackerInd (hence len <= hard)            *)
(*                                                                            *)
(* TLAPS: QueueInd_proof.tla (unbounded: any value set, any lengths).         *)
(* Apalache: QueueInd_apa.tla (unbounded integers, histories up to Gen(N)).   *)
(***************************************************************************)
EXTENDS Integers, Sequences

CONSTANTS
  \* @type: Int;
  Scale,
  \* @type: Set(Str);
  Values

VARIABLES
  \* @type: {items: Seq(Str), closed: Bool, tr: {kind: Str, len: Int, soft: Int, hard: Int, credit: Int, frac: Bool}};
  q,
  \* @type: Seq(Str);
  added,
  \* @type: Seq(Str);
  removed

INSTANCE QueueCore

\* the tracker's own inductive invariant, on q.tr (`capped` is not needed here)
TI == INSTANCE TrackerInd WITH tr <- q.tr, capped <- FALSE

vars == <<q, added, removed>>

\* NewUnlimitedQueue / NewQueue(hard) / NewQueueWithOptions(hard, soft, credit) after Validate
Init == /\ \/ q = QNew(NoLimit)
           \/ \E c \in Nat : c >= 1 /\ q = QNew(Hard(c))
           \/ \E h \in Nat, s \in Int, c \in Nat : h >= 1 /\ s <= h /\ q = QNew(Quota(h, s, c))
        /\ added = <<>> /\ removed = <<>>

\* bookkeeping of the histories for an outcome o of an adding / a removing operation
\* @type: ({q: {items: Seq(Str), closed: Bool, tr: {kind: Str, len: Int, soft: Int, hard: Int, credit: Int, frac: Bool}}, res: Str, amb: Bool}, Str) => Bool;
Added(o, v) == /\ q' = o.q
               /\ added' = IF o.res = "ok" THEN Append(added, v) ELSE added
               /\ removed' = removed
\* a removing operation hands out o.res exactly when it shortened the list
\* @type: ({q: {items: Seq(Str), closed: Bool, tr: {kind: Str, len: Int, soft: Int, hard: Int, credit: Int, frac: Bool}}, res: Str, amb: Bool}) => Bool;
Took(o) == /\ q' = o.q
           /\ removed' = IF o.q.items # q.items THEN Append(removed, o.res) ELSE removed
           /\ added' = added

Add(v)         == \E o \in QAdd(q, v) : Added(o, v)
BlockingAdd(v) == \E c \in BOOLEAN : \E o \in QBlockingAdd(q, v, c) : Added(o, v)
Remove         == \E o \in QRemove(q) : Took(o)
Wait           == \E c \in BOOLEAN : \E o \in QWait(q, c) : Took(o)
Close          == \E o \in QClose(q) : q' = o.q /\ UNCHANGED <<added, removed>>

Next == \/ \E v \in Values : Add(v) \/ BlockingAdd(v)
        \/ Remove \/ Wait \/ Close

Spec == Init /\ [][Next]_vars

Inv == /\ q.closed \in BOOLEAN
       /\ added = removed \o q.items
       /\ Len(q.items) = q.tr.len
       /\ TI!Inv
       /\ QOK(q)               \* the invariant the C05 check uses (implied)

\* consequences, for the record
LenBound == q.tr.kind # "nolimit" => Len(q.items) <= q.tr.hard
PrefixFIFO == /\ Len(removed) <= Len(added)
              /\ \A i \in 1..Len(removed) : removed[i] = added[i]
=============================================================================
