SPECIFICATION MCSpec
CONSTANTS Scale = 12
INVARIANTS Inv
CONSTRAINT MCBound
CHECK_DEADLOCK FALSE
