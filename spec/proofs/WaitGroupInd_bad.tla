-------------------------- MODULE WaitGroupInd_bad --------------------------
(* Non-vacuity self-tests for WaitGroupInd: deliberately broken steps; each   *)
(* must make the inductive check FAIL.                                        *)
(*   --next=NextNegative   Add(n) without the `counter + n < 0` guard         *)
(*                         (sync.go:46 Invariant.IsTrue removed): counter>=0  *)
(*   --next=NextNoRecheck  a woken waiter returns without re-checking the     *)
(*                         counter (the `if wg.counter == 0` after            *)
(*                         cond.Wait dropped): StepInv / ~early               *)
(*   --next=NextKeepLock   WPark that joins the notify list but keeps the     *)
(*                         mutex: "a queued waiter does not hold the mutex"   *)
(***************************************************************************)
EXTENDS WaitGroupInd_apa

AddNoGuard(n) ==
  /\ budget > 0 /\ mu = Free
  /\ budget' = budget - 1
  /\ counter + n <= MaxCounter
  /\ counter' = counter + n
  /\ sum' = sum + n
  /\ panics' = panics
  /\ IF counter + n = 0
       THEN waitq' = <<>> /\ woken' = woken \cup SeqToSet(waitq)
       ELSE UNCHANGED <<waitq, woken>>
  /\ UNCHANGED <<mu, pc, done, helper, early>>
NextNegative == Next \/ \E n \in Deltas : AddNoGuard(n)

WWakeNoRecheck(w) ==
  /\ pc[w] = "parked" /\ w \in woken /\ mu = Free
  /\ woken' = woken \ {w}
  /\ pc' = [pc EXCEPT ![w] = "ret"]
  /\ early' = (early \/ ~(counter = 0 \/ done[w]))
  /\ UNCHANGED <<mu, counter, waitq, done, helper, budget, sum, panics>>
NextNoRecheck == Next \/ \E w \in Waiters : WWakeNoRecheck(w)

WParkKeepLock(w) ==
  /\ pc[w] = "prepark" /\ mu = w
  /\ waitq' = Append(waitq, w)
  /\ pc' = [pc EXCEPT ![w] = "parked"]
  /\ UNCHANGED <<mu, counter, woken, done, helper, budget, sum, panics, early>>
NextKeepLock == Next \/ \E w \in Waiters : WParkKeepLock(w)
=============================================================================
