---------------------------- MODULE QueueInd_apa ----------------------------
(* Apalache front end of QueueInd.  Integers (hard, soft, credit, Scale) are  *)
(* unbounded; the list and the removed-history are arbitrary sequences of at  *)
(* most N entries (Gen(N)), the value set is an arbitrary set of strings.     *)
(*   apalache-mc check --cinit=ConstInit --init=Init --inv=Inv --length=0     *)
(*   apalache-mc check --cinit=ConstInit --init=IndInitN --inv=Inv,LenBound,PrefixFIFO --length=1 *)
(***************************************************************************)
EXTENDS QueueInd, Apalache

ConstInit == /\ Scale \in Nat /\ Scale >= 1
             /\ Values = Gen(3)

\* @type: (Seq(Str), Seq(Str)) => Bool;
IndInitQ(its, rem) ==
  /\ \E k \in {"nolimit", "hard", "quota"}, l \in Int, s \in Int, h \in Int, c \in Int, f \in BOOLEAN, cl \in BOOLEAN :
       q = [items |-> its, closed |-> cl,
            tr |-> [kind |-> k, len |-> l, soft |-> s, hard |-> h, credit |-> c, frac |-> f]]
  /\ removed = rem
  /\ added = rem \o its
  /\ Inv

IndInit2 == IndInitQ(Gen(2), Gen(2))
IndInit3 == IndInitQ(Gen(3), Gen(3))
IndInit5 == IndInitQ(Gen(5), Gen(5))
IndInit6 == IndInitQ(Gen(6), Gen(6))
=============================================================================
