---------------------------- MODULE QueueInd_tlc ----------------------------
(* TLC cross-check of QueueInd!Inv on the reachable states of small queues    *)
(* (third tool, TLC's own semantics of the unadapted QueueCore/Tracker).      *)
(***************************************************************************)
EXTENDS QueueInd

MCInit == /\ q \in {QNew(NoLimit)} \cup {QNew(Hard(c)) : c \in 1..2}
                   \cup {QNew(Quota(h, s, c)) : h \in 1..3, s \in 0..3, c \in 0..1}
          /\ q.tr.soft <= q.tr.hard
          /\ added = <<>> /\ removed = <<>>
MCSpec == MCInit /\ [][Next]_vars
MCBound == Len(added) <= 5
=============================================================================
