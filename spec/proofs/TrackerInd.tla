----------------------------- MODULE TrackerInd -----------------------------
(* Unbounded inductive invariant of the limit-tracker arithmetic              *)
(* (spec/lib/Tracker.tla; Go: /repo/pubsub/tracker.go).                       *)
(*                                                                            *)
(* The operators TrAdd / TrRemove / TrOK are the ORIGINAL ones: this module   *)
(* INSTANCEs Tracker.  (For Apalache the runner run/props/proofs.py puts a    *)
(* copy of Tracker.tla next to this file in which `@type` comment lines have  *)
(* been inserted in front of the operator definitions -- comments only; the   *)
(* runner checks that removing the inserted lines gives back the original.)   *)
(*                                                                            *)
(* State machine: a tracker value `tr` that starts as any value the Go        *)
(* constructors can build (NewUnlimitedQueue, NewQueue(hard),                 *)
(* NewQueueWithOptions after Validate) and is then driven by add() and        *)
(* remove() in any order; `capped` remembers that a credit-granting remove    *)
(* has happened (before that the credit is the configured BurstCredit, which  *)
(* Validate does not bound from above).                                       *)
(*                                                                            *)
(* The burst credit is the exact rational of Tracker.tla scaled by Scale; the  *)
(* invariant needs Scale >= 1 only (not that Scale is a common multiple of    *)
(* the soft quotas), so it covers every scale the checks use.                 *)
(*                                                                            *)
(* Apalache (unbounded integers: all hard limits, soft quotas, burst credits  *)
(* and scales at once):                                                       *)
(*   apalache-mc check --cinit=ConstInit --init=Init    --inv=Inv --length=0  *)
(*   apalache-mc check --cinit=ConstInit --init=IndInit --inv=Inv --length=1  *)
(* TLAPS: TrackerInd_proof.tla (Spec => []Inv, unmodified Tracker.tla).       *)
(* TLC cross-check on small trackers: TrackerInd_tlc.tla, TLC_TrackerInd.cfg. *)
(* Broken variants that must fail: TrackerInd_bad.tla.                        *)
(***************************************************************************)
EXTENDS Integers

CONSTANT
  \* @type: Int;
  Scale

VARIABLES
  \* @type: {kind: Str, len: Int, soft: Int, hard: Int, credit: Int, frac: Bool};
  tr,
  \* @type: Bool;
  capped

INSTANCE Tracker

\* Scale is a positive common multiple of the soft quotas; nothing below needs more than Scale >= 1
ConstInit == Scale \in Nat /\ Scale >= 1

\* tracker.go constructors; QueueOptions.Validate (queue.go:314): 0 < hard, soft <= hard, credit >= 0
Init == /\ capped = FALSE
        /\ \/ tr = NoLimit
           \/ \E c \in Nat : c >= 1 /\ tr = Hard(c)
           \/ \E h \in Nat, s \in Int, c \in Nat : h >= 1 /\ s <= h /\ tr = Quota(h, s, c)

\* add(): any allowed outcome (the float-ambiguous comparison allows two)
Add == \E o \in TrAdd(tr) : tr' = o.t /\ capped' = capped

\* remove(): callers guarantee len > 0 for the quota tracker (Queue.popFront, Deque.pop)
Grants == tr.kind = "quota" /\ tr.len - 1 < tr.soft
Remove == /\ tr.kind = "quota" => tr.len > 0
          /\ tr' = TrRemove(tr)
          /\ capped' = (capped \/ Grants)

\* Deque.ForcePush* on a full deque runs tracker.remove() and then tracker.add() in one critical
\* section (DequeCore!DForce = DPush(Evicted(q))): two steps of this machine, Remove then Add.
Next == Add \/ Remove

vars == <<tr, capped>>
Spec == Init /\ [][Next]_vars

CreditCap == (tr.hard - tr.soft) * Scale

Inv == /\ tr.kind \in {"nolimit", "hard", "quota"}
       /\ capped \in BOOLEAN
       /\ tr.frac \in BOOLEAN
       /\ tr.len >= 0
       /\ tr.kind = "hard"  => tr.len <= tr.hard
       /\ tr.kind = "quota" => /\ tr.len <= tr.soft
                               /\ 1 <= tr.soft /\ tr.soft <= tr.hard
                               /\ tr.credit >= 0
                               /\ capped => tr.credit <= CreditCap
       /\ TrOK(tr)              \* the invariant the C05/C06 checks use (implied by the above)

\* any state that satisfies the invariant (all integers: nothing is bounded)
IndInit == /\ \E k \in {"nolimit", "hard", "quota"}, l \in Int, s \in Int, h \in Int, c \in Int, f \in BOOLEAN :
                tr = [kind |-> k, len |-> l, soft |-> s, hard |-> h, credit |-> c, frac |-> f]
           /\ capped \in BOOLEAN
           /\ Inv

=============================================================================
