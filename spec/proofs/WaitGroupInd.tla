---------------------------- MODULE WaitGroupInd ----------------------------
(* Inductive safety invariant of fun.WaitGroup (spec/waitgroup/WaitGroup.tla; *)
(* Go: /repo/sync.go) for ANY number of Wait calls and Add steps.             *)
(*                                                                            *)
(* The actions are the ORIGINAL ones: the constants and variables are         *)
(* declared here (with Apalache type annotations) and WaitGroup is            *)
(* INSTANCEd, so Init, Next, Add, WEnter ... below are WaitGroup's.           *)
(*                                                                            *)
(* Apalache (parametric instances, unbounded integers): WaitGroupInd_apa.tla.  *)
(* TLAPS (arbitrary Waiters): WaitGroupInd_proof.tla.                         *)
(* TLC (cross-check on the reachable states of a small instance of the        *)
(* unadapted original): TLC_WaitGroupInd.cfg.                                 *)
(***************************************************************************)
EXTENDS Integers, Sequences, FiniteSets

CONSTANTS
  \* @type: Set(Str);
  Waiters,
  \* @type: Int;
  MaxCounter,
  \* @type: Int;
  Budget,
  \* @type: Bool;
  HelperLocked

VARIABLES
  \* @type: Int;
  counter,
  \* @type: Str;
  mu,
  \* @type: Seq(Str);
  waitq,
  \* @type: Set(Str);
  woken,
  \* @type: Str -> Str;
  pc,
  \* @type: Str -> Bool;
  done,
  \* @type: Str -> Str;
  helper,
  \* @type: Int;
  budget,
  \* @type: Int;
  sum,
  \* @type: Int;
  panics,
  \* @type: Bool;
  early

INSTANCE WaitGroup

PCs == {"idle", "enter", "loop", "prepark", "parked", "ret"}
InCS(w) == pc[w] \in {"loop", "prepark"}       \* between Lock and cond.Wait / Unlock in Wait()

\* @type: Seq(Str) => Bool;
NoDup(s) == \A i, j \in DOMAIN s : s[i] = s[j] => i = j

(* The inductive invariant *)
IndInv ==
  \* types
  /\ counter \in Int /\ budget \in Int /\ sum \in Int /\ panics \in Int /\ early \in BOOLEAN
  /\ mu \in Waiters \cup {Free}
  /\ woken \subseteq Waiters
  /\ pc \in [Waiters -> PCs]
  /\ done \in [Waiters -> BOOLEAN]
  /\ helper \in [Waiters -> {"none", "armed", "fired"}]
  /\ \A i \in DOMAIN waitq : waitq[i] \in Waiters
  \* the counter
  /\ counter >= 0
  /\ counter <= MaxCounter
  /\ counter = sum                                   \* CounterIsSum
  /\ panics >= 0
  \* the mutex: its holder is exactly the Wait call inside its critical section
  /\ \A w \in Waiters : (mu = w) <=> InCS(w)
  \* cond-var bookkeeping
  /\ NoDup(waitq)
  /\ \A i \in DOMAIN waitq : pc[waitq[i]] = "parked" /\ waitq[i] \notin woken
  /\ \A w \in woken : pc[w] = "parked"
  /\ \A w \in Waiters : pc[w] = "parked" => (w \in woken \/ \E i \in DOMAIN waitq : waitq[i] = w)
  \* Wait never returned early
  /\ ~early

(* Consequences (checked as invariants of the inductive invariant) *)
MutexExclusion == \A w1, w2 \in Waiters : InCS(w1) /\ InCS(w2) => w1 = w2
QueuedNotHolder == \A i \in DOMAIN waitq : mu # waitq[i]
Consequences == /\ MutexExclusion /\ QueuedNotHolder
                /\ NoEarlyReturn /\ CounterIsSum /\ ParkedAccounted
                /\ counter \in 0..MaxCounter

(* NoEarlyReturn as a property of the returning step itself: a Wait call  *)
(* returns only in a step that sees counter = 0 or its context done       *)
(* (and the same step does not change the counter).                       *)
StepInv == \A w \in Waiters :
             (pc[w] # "ret" /\ pc'[w] = "ret") => ((counter = 0 \/ done[w]) /\ counter' = counter)

StepProp == [][StepInv]_vars

(* The client may call Add with any integer, not only the Deltas the TLC models explore *)
NextAny == Next \/ \E n \in Int : Add(n)
SpecAny == Init /\ [][NextAny]_vars

=============================================================================
