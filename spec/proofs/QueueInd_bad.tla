---------------------------- MODULE QueueInd_bad ----------------------------
(* Non-vacuity self-tests for QueueInd: deliberately broken operations; each  *)
(* must make the inductive check FAIL.                                        *)
(*   --next=NextLIFO      Remove hands out the LAST item       (FIFO)         *)
(*   --next=NextDup       Remove hands out the head but leaves it queued      *)
(*                        (at-most-once delivery)                             *)
(*   --next=NextNoCount   Add appends without tracker.add()  (len accounting, *)
(*                        and with it the hard limit)                         *)
(***************************************************************************)
EXTENDS QueueInd_apa

RemoveLast ==
  /\ q.items # <<>>
  /\ q' = [q EXCEPT !.items = SubSeq(@, 1, Len(@) - 1), !.tr = TrRemove(@)]
  /\ removed' = Append(removed, q.items[Len(q.items)])
  /\ added' = added
NextLIFO == Next \/ RemoveLast

RemoveDup ==
  /\ q.items # <<>>
  /\ q' = q
  /\ removed' = Append(removed, Head(q.items))
  /\ added' = added
NextDup == Next \/ RemoveDup

AddNoCount(v) ==
  /\ ~q.closed
  /\ q' = [q EXCEPT !.items = Append(@, v)]
  /\ added' = Append(added, v)
  /\ removed' = removed
NextNoCount == Next \/ \E v \in Values : AddNoCount(v)
=============================================================================
