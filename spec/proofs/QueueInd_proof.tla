--------------------------- MODULE QueueInd_proof ---------------------------
(* TLAPS proof that QueueInd!Inv is an inductive invariant of the sequential  *)
(* queue kernel of the unmodified spec/queue/QueueCore.tla + lib/Tracker.tla, *)
(* for an ARBITRARY value set, unbounded list and history lengths, and all    *)
(* integer hard limits / soft quotas / credits / Scale >= 1.                  *)
(*   tlapm --threads 4 QueueInd_proof.tla                                     *)
(***************************************************************************)
EXTENDS QueueInd, TLAPS

ASSUME ScaleAssm == Scale \in Nat /\ Scale >= 1

TrType == [kind : {"nolimit", "hard", "quota"}, len : Int, soft : Int, hard : Int,
           credit : Int, frac : BOOLEAN]
QType == [items : Seq(Values), closed : BOOLEAN, tr : TrType]

\* TI!Inv written out on a tracker value (capped <- FALSE makes the credit-cap conjunct void)
TrI(t) == /\ t.len >= 0
          /\ t.kind = "hard"  => t.len <= t.hard
          /\ t.kind = "quota" => /\ t.len <= t.soft
                                 /\ 1 <= t.soft /\ t.soft <= t.hard
                                 /\ t.credit >= 0

\* Apalache gets the types from the annotations; TLAPS needs them in the invariant
PInv == /\ q \in QType /\ added \in Seq(Values) /\ removed \in Seq(Values)
        /\ Inv

LEMMA TIisTrI == ASSUME q \in QType PROVE TI!Inv <=> TrI(q.tr)
  BY DEF QType, TrType, TI!Inv, TI!TrOK, TI!CreditCap, TrI
LEMMA TIisTrIPrime == ASSUME q' \in QType PROVE TI!Inv' <=> TrI(q'.tr)
  BY DEF QType, TrType, TI!Inv, TI!TrOK, TI!CreditCap, TrI

LEMMA MulNat == \A a, b \in Nat : a * b \in Nat
  OBVIOUS
LEMMA DivNat == \A a \in Nat, b \in Nat : b >= 1 => a \div b \in Nat
  OBVIOUS

(* ------------------------------------------------------------ sequences *)
(* (proved directly by the SMT back end; extending SequenceTheorems doubles the *)
(* running time of every obligation of this module)                              *)
LEMMA AppendConcat ==
  ASSUME NEW S, NEW r \in Seq(S), NEW s \in Seq(S), NEW v \in S
  PROVE  Append(r \o s, v) = r \o Append(s, v)
  OBVIOUS

LEMMA ShiftHead ==
  ASSUME NEW S, NEW r \in Seq(S), NEW s \in Seq(S), s # <<>>
  PROVE  /\ r \o s = Append(r, Head(s)) \o Tail(s)
         /\ Head(s) \in S /\ Tail(s) \in Seq(S)
         /\ Len(Tail(s)) = Len(s) - 1
         /\ Tail(s) # s
  <1>1. Head(s) \in S /\ Tail(s) \in Seq(S) /\ Len(Tail(s)) = Len(s) - 1 /\ Tail(s) # s
    OBVIOUS
  <1>2. r \o s = Append(r, Head(s)) \o Tail(s)
    OBVIOUS
  <1> QED
    BY <1>1, <1>2

LEMMA AppendProperties ==
  ASSUME NEW S, NEW s \in Seq(S), NEW v \in S
  PROVE  Append(s, v) \in Seq(S) /\ Len(Append(s, v)) = Len(s) + 1
  OBVIOUS

LEMMA EmptySeq ==
  ASSUME NEW S, NEW s \in Seq(S), s # <<>>
  PROVE  Len(s) > 0
  OBVIOUS

LEMMA ConcatProperties ==
  ASSUME NEW S, NEW r \in Seq(S), NEW s \in Seq(S)
  PROVE  Len(r) <= Len(r \o s) /\ \A i \in 1..Len(r) : r[i] = (r \o s)[i]
  OBVIOUS

(* -------------------------------------------------- tracker, value level *)
LEMMA TrAddVal ==
  ASSUME NEW t \in TrType, TrI(t), NEW o \in TrAdd(t)
  PROVE  /\ o.t \in TrType /\ TrI(o.t)
         /\ \/ o.res = "ok" /\ o.t.len = t.len + 1
            \/ o.res \in {"full", "nocredit"} /\ o.t = t
  <1> USE ScaleAssm
  <1>1. CASE t.kind = "nolimit"
    BY <1>1 DEF TrType, TrAdd, TrI
  <1>2. CASE t.kind = "hard"
    BY <1>2 DEF TrType, TrAdd, TrI
  <1>3. CASE t.kind = "quota"
    <2>1. CASE o = [t |-> t, res |-> "full", amb |-> FALSE]
      BY <2>1, <1>3 DEF TrType, TrI
    <2>2. CASE \E a \in BOOLEAN : o = [t |-> t, res |-> "nocredit", amb |-> a]
      BY <2>2, <1>3 DEF TrType, TrI
    <2>3. CASE o = [t |-> [t EXCEPT !.len = @ + 1], res |-> "ok", amb |-> FALSE] /\ t.len < t.soft
      BY <2>3, <1>3 DEF TrType, TrI
    <2>4. CASE /\ \E a \in BOOLEAN : o = [t |-> [t EXCEPT !.credit = @ - Scale, !.soft = t.len + 1, !.len = @ + 1],
                                          res |-> "ok", amb |-> a]
               /\ t.len >= t.soft /\ t.len # t.hard /\ t.credit >= Scale
      BY <2>4, <1>3 DEF TrType, TrI
    <2> QED
      BY <1>3, <2>1, <2>2, <2>3, <2>4 DEF TrAdd, TrType, TrI
  <1> QED
    BY <1>1, <1>2, <1>3 DEF TrType

LEMMA TrRemoveVal ==
  ASSUME NEW t \in TrType, TrI(t), t.len > 0
  PROVE  /\ TrRemove(t) \in TrType /\ TrI(TrRemove(t))
         /\ TrRemove(t).len = t.len - 1
  <1> USE ScaleAssm
  <1>1. CASE t.kind # "quota"
    BY <1>1 DEF TrType, TrRemove, TrI
  <1>2. CASE t.kind = "quota"
    <2> DEFINE l2 == t.len - 1
    <2>0. t.len > 0 /\ t.len \in Int /\ t.soft \in Int /\ t.hard \in Int /\ t.credit \in Int
          /\ t.len <= t.soft /\ 1 <= t.soft /\ t.soft <= t.hard /\ t.credit >= 0
      BY <1>2 DEF TrType, TrI
    <2>1. l2 < t.soft /\ l2 >= 0 /\ l2 \in Int
      BY <2>0
    <2> DEFINE s2 == IF t.soft > 1 /\ l2 < (t.soft \div 2) THEN t.soft - 1 ELSE t.soft
    <2> DEFINE g == ((s2 - l2) * Scale) \div s2
    <2> DEFINE c2 == t.credit + g
    <2> DEFINE cap == (t.hard - s2) * Scale
    <2> DEFINE f2 == IF c2 > cap THEN FALSE ELSE (t.frac \/ ~Dyadic(s2 - l2, s2))
    <2>2. s2 \in Int /\ 1 <= s2 /\ s2 <= t.soft /\ s2 <= t.hard /\ l2 <= s2
      BY <2>0, <2>1
    <2>3. g \in Nat
      <3>1. (s2 - l2) \in Nat /\ s2 \in Nat
        BY <2>1, <2>2
      <3>2. (s2 - l2) * Scale \in Nat
        BY <3>1, MulNat
      <3> QED
        BY <3>1, <3>2, <2>2, DivNat
    <2>4. cap \in Nat
      <3>1. (t.hard - s2) \in Nat
        BY <2>0, <2>2
      <3> QED
        BY <3>1, MulNat
    <2>5. c2 \in Int /\ c2 >= 0
      BY <2>0, <2>3
    <2>6. TrRemove(t) = [t EXCEPT !.len = l2, !.soft = s2, !.credit = IF c2 > cap THEN cap ELSE c2, !.frac = f2]
      BY <1>2, <2>1 DEF TrRemove
    <2> HIDE DEF s2, g, c2, cap, f2, l2
    <2>8. f2 \in BOOLEAN
      BY DEF f2
    <2>9. /\ TrRemove(t).kind = "quota" /\ TrRemove(t).len = l2 /\ TrRemove(t).soft = s2
          /\ TrRemove(t).hard = t.hard
          /\ TrRemove(t).credit = (IF c2 > cap THEN cap ELSE c2) /\ TrRemove(t).frac = f2
          /\ TrRemove(t) \in TrType
      BY <2>6, <2>1, <2>2, <2>4, <2>5, <2>8, <1>2 DEF TrType
    <2>11. TrRemove(t).credit >= 0
      BY <2>4, <2>5, <2>9
    <2>12. TrI(TrRemove(t))
      BY <2>0, <2>1, <2>2, <2>9, <2>11 DEF TrI
    <2> QED
      BY <2>9, <2>12 DEF l2
  <1> QED
    BY <1>1, <1>2

(* ---------------------------------------------------- queue, value level *)
LEMMA QAddVal ==
  ASSUME NEW qq \in QType, TrI(qq.tr), NEW v \in Values, NEW o \in QAdd(qq, v)
  PROVE  \/ o.res # "ok" /\ o.q = qq
         \/ /\ o.res = "ok"
            /\ \E t2 \in TrType : /\ TrI(t2) /\ t2.len = qq.tr.len + 1
                                  /\ o.q = [qq EXCEPT !.items = Append(@, v), !.tr = t2]
  <1>1. CASE qq.closed
    BY <1>1 DEF QAdd, Out
  <1>2. CASE ~qq.closed
    <2>1. PICK o2 \in TrAdd(qq.tr) :
            o = IF o2.res = "ok" THEN Out([qq EXCEPT !.items = Append(@, v), !.tr = o2.t], "ok", o2.amb)
                                 ELSE Out(qq, o2.res, o2.amb)
      BY <1>2 DEF QAdd
    <2>2. qq.tr \in TrType
      BY DEF QType
    <2>3. /\ o2.t \in TrType /\ TrI(o2.t)
          /\ \/ o2.res = "ok" /\ o2.t.len = qq.tr.len + 1
             \/ o2.res \in {"full", "nocredit"} /\ o2.t = qq.tr
      BY <2>2, TrAddVal
    <2> QED
      BY <2>1, <2>3 DEF Out
  <1> QED
    BY <1>1, <1>2

LEMMA QRemoveVal ==
  ASSUME NEW qq \in QType, TrI(qq.tr), Len(qq.items) = qq.tr.len, NEW o \in QRemove(qq)
  PROVE  \/ qq.items = <<>> /\ o.q = qq
         \/ /\ qq.items # <<>> /\ o.res = Head(qq.items)
            /\ \E t2 \in TrType : /\ TrI(t2) /\ t2.len = qq.tr.len - 1
                                  /\ o.q = [qq EXCEPT !.items = Tail(@), !.tr = t2]
  <1>1. CASE qq.items = <<>>
    BY <1>1 DEF QRemove, Out
  <1>2. CASE qq.items # <<>>
    <2>1. qq.tr \in TrType /\ qq.items \in Seq(Values)
      BY DEF QType
    <2>2. Len(qq.items) > 0
      BY <1>2, <2>1, EmptySeq
    <2>3. TrRemove(qq.tr) \in TrType /\ TrI(TrRemove(qq.tr)) /\ TrRemove(qq.tr).len = qq.tr.len - 1
      BY <2>1, <2>2, TrRemoveVal
    <2>4. o = Out([qq EXCEPT !.items = Tail(@), !.tr = TrRemove(@)], Head(qq.items), FALSE)
      BY <1>2 DEF QRemove
    <2> QED
      BY <1>2, <2>3, <2>4 DEF Out
  <1> QED
    BY <1>1, <1>2

(* ------------------------------------------------- preservation, per kind *)
LEMMA AddedStep ==
  ASSUME PInv, NEW v \in Values, NEW o \in QAdd(q, v), Added(o, v)
  PROVE  PInv'
  <1>0. q \in QType /\ added \in Seq(Values) /\ removed \in Seq(Values) /\ q.items \in Seq(Values)
        /\ q.tr \in TrType /\ TrI(q.tr) /\ Len(q.items) = q.tr.len /\ added = removed \o q.items
        /\ q.closed \in BOOLEAN
    BY TIisTrI DEF PInv, Inv, QType
  <1>1. CASE o.res # "ok" /\ o.q = q
    BY <1>1 DEF Added, PInv, Inv, QOK, TI!Inv, TI!TrOK, TI!CreditCap, TrOK
  <1>2. CASE /\ o.res = "ok"
             /\ \E t2 \in TrType : /\ TrI(t2) /\ t2.len = q.tr.len + 1
                                   /\ o.q = [q EXCEPT !.items = Append(@, v), !.tr = t2]
    <2>1. PICK t2 \in TrType : /\ TrI(t2) /\ t2.len = q.tr.len + 1
                               /\ o.q = [q EXCEPT !.items = Append(@, v), !.tr = t2]
      BY <1>2
    <2>2. q' = [q EXCEPT !.items = Append(@, v), !.tr = t2] /\ added' = Append(added, v) /\ removed' = removed
      BY <1>2, <2>1 DEF Added
    <2>3. /\ q'.items = Append(q.items, v) /\ q'.tr = t2 /\ q'.closed = q.closed
          /\ q' \in QType
      BY <1>0, <2>2, AppendProperties DEF QType
    <2>4. added' = removed' \o q'.items
      BY <1>0, <2>2, <2>3, AppendConcat
    <2>5. Len(q'.items) = q'.tr.len
      BY <1>0, <2>1, <2>3, AppendProperties
    <2>6. added' \in Seq(Values) /\ removed' \in Seq(Values)
      BY <1>0, <2>2, AppendProperties
    <2>7. TI!Inv'
      BY <2>1, <2>3, TIisTrIPrime
    <2>8. QOK(q')
      BY <2>1, <2>3, <2>5 DEF QOK, TrOK, TrI, TrLen, TrType
    <2> QED
      BY <1>0, <2>3, <2>4, <2>5, <2>6, <2>7, <2>8 DEF PInv, Inv
  <1> QED
    BY <1>0, <1>1, <1>2, QAddVal

LEMMA TookStep ==
  ASSUME PInv, NEW o \in QRemove(q), Took(o)
  PROVE  PInv'
  <1>0. q \in QType /\ added \in Seq(Values) /\ removed \in Seq(Values) /\ q.items \in Seq(Values)
        /\ q.tr \in TrType /\ TrI(q.tr) /\ Len(q.items) = q.tr.len /\ added = removed \o q.items
        /\ q.closed \in BOOLEAN
    BY TIisTrI DEF PInv, Inv, QType
  <1>1. CASE q.items = <<>> /\ o.q = q
    BY <1>1 DEF Took, PInv, Inv, QOK, TI!Inv, TI!TrOK, TI!CreditCap, TrOK
  <1>2. CASE /\ q.items # <<>> /\ o.res = Head(q.items)
             /\ \E t2 \in TrType : /\ TrI(t2) /\ t2.len = q.tr.len - 1
                                   /\ o.q = [q EXCEPT !.items = Tail(@), !.tr = t2]
    <2>1. PICK t2 \in TrType : /\ TrI(t2) /\ t2.len = q.tr.len - 1
                               /\ o.q = [q EXCEPT !.items = Tail(@), !.tr = t2]
      BY <1>2
    <2>2. /\ removed \o q.items = Append(removed, Head(q.items)) \o Tail(q.items)
          /\ Head(q.items) \in Values /\ Tail(q.items) \in Seq(Values)
          /\ Len(Tail(q.items)) = Len(q.items) - 1
          /\ Tail(q.items) # q.items
      BY <1>0, <1>2, ShiftHead
    <2>3. /\ o.q.items = Tail(q.items) /\ o.q.tr = t2 /\ o.q.closed = q.closed
          /\ o.q \in QType
      BY <1>0, <2>1, <2>2 DEF QType
    <2>4. q' = o.q /\ removed' = Append(removed, Head(q.items)) /\ added' = added
      BY <1>2, <2>2, <2>3 DEF Took
    <2>5. added' = removed' \o q'.items
      BY <1>0, <2>2, <2>3, <2>4
    <2>6. Len(q'.items) = q'.tr.len
      BY <1>0, <2>1, <2>2, <2>3, <2>4
    <2>7. added' \in Seq(Values) /\ removed' \in Seq(Values)
      BY <1>0, <2>2, <2>4, AppendProperties
    <2>8. TI!Inv'
      BY <2>1, <2>3, <2>4, TIisTrIPrime
    <2>9. QOK(q')
      BY <2>1, <2>3, <2>4, <2>6 DEF QOK, TrOK, TrI, TrLen, TrType
    <2> QED
      BY <1>0, <2>3, <2>4, <2>5, <2>6, <2>7, <2>8, <2>9 DEF PInv, Inv
  <1> QED
    BY <1>0, <1>1, <1>2, QRemoveVal

LEMMA KeepStep ==
  ASSUME PInv, q' = q, added' = added, removed' = removed
  PROVE  PInv'
  BY DEF PInv, Inv, QOK, TI!Inv, TI!TrOK, TI!CreditCap, TrOK, TrLen

(* ------------------------------------------------------------- theorems *)
THEOREM InitInv == Init => PInv
  <1> SUFFICES ASSUME Init PROVE PInv OBVIOUS
  <1> USE ScaleAssm
  <1>1. added = <<>> /\ removed = <<>> /\ q.items = <<>> /\ q.closed = FALSE
        /\ \/ q.tr = NoLimit
           \/ \E c \in Nat : c >= 1 /\ q.tr = Hard(c)
           \/ \E h \in Nat, s \in Int, c \in Nat : h >= 1 /\ s <= h /\ q.tr = Quota(h, s, c)
        /\ q = [items |-> <<>>, closed |-> FALSE, tr |-> q.tr]
    BY DEF Init, QNew
  <1>2. q.tr \in TrType /\ TrI(q.tr) /\ q.tr.len = 0
    <2>1. CASE q.tr = NoLimit
      BY <2>1 DEF NoLimit, TrType, TrI
    <2>2. CASE \E c \in Nat : c >= 1 /\ q.tr = Hard(c)
      BY <2>2 DEF Hard, TrType, TrI
    <2>3. CASE \E h \in Nat, s \in Int, c \in Nat : h >= 1 /\ s <= h /\ q.tr = Quota(h, s, c)
      <3> PICK h \in Nat, s \in Int, c \in Nat : h >= 1 /\ s <= h /\ q.tr = Quota(h, s, c)
        BY <2>3
      <3> DEFINE s2 == IF s <= 0 THEN h ELSE s
      <3> DEFINE c2 == IF c = 0 THEN s2 ELSE c
      <3>1. s2 \in Nat /\ 1 <= s2 /\ s2 <= h /\ c2 \in Nat
        OBVIOUS
      <3>2. c2 * Scale \in Nat
        BY <3>1, MulNat
      <3>3. q.tr = [kind |-> "quota", len |-> 0, soft |-> s2, hard |-> h, credit |-> c2 * Scale, frac |-> FALSE]
        BY DEF Quota
      <3> HIDE DEF s2, c2
      <3> QED
        BY <3>1, <3>2, <3>3 DEF TrType, TrI
    <2> QED
      BY <1>1, <2>1, <2>2, <2>3
  <1>3. q \in QType /\ <<>> \in Seq(Values)
    BY <1>1, <1>2 DEF QType
  <1>4. <<>> \o <<>> = <<>> /\ Len(<<>>) = 0
    OBVIOUS
  <1>5. TI!Inv
    BY <1>2, <1>3, TIisTrI
  <1>6. QOK(q)
    BY <1>1, <1>2, <1>4 DEF QOK, TrOK, TrI, TrLen, TrType
  <1> QED
    BY <1>1, <1>2, <1>3, <1>4, <1>5, <1>6 DEF PInv, Inv

THEOREM Inductive == PInv /\ [Next]_vars => PInv'
  <1> SUFFICES ASSUME PInv, [Next]_vars PROVE PInv' OBVIOUS
  <1>1. ASSUME NEW v \in Values, Add(v) PROVE PInv'
    BY <1>1, AddedStep DEF Add
  <1>2. ASSUME NEW v \in Values, BlockingAdd(v) PROVE PInv'
    <2>0. PICK c \in BOOLEAN : \E o \in QBlockingAdd(q, v, c) : Added(o, v)
      BY <1>2 DEF BlockingAdd
    <2>1. PICK o \in QBlockingAdd(q, v, c) : Added(o, v)
      BY <2>0
    <2>2. CASE o \in QAdd(q, v)
      BY <2>1, <2>2, AddedStep
    <2>3. CASE o = Out(q, "closed", FALSE) \/ o = Out(q, "ctx", FALSE)
      BY <2>1, <2>3, KeepStep DEF Added, Out
    <2> QED
      BY <2>1, <2>2, <2>3 DEF QBlockingAdd
  <1>3. ASSUME Remove PROVE PInv'
    BY <1>3, TookStep DEF Remove
  <1>4. ASSUME Wait PROVE PInv'
    <2>0. PICK c \in BOOLEAN : \E o \in QWait(q, c) : Took(o)
      BY <1>4 DEF Wait
    <2>1. PICK o \in QWait(q, c) : Took(o)
      BY <2>0
    <2>2. CASE o \in QRemove(q)
      BY <2>1, <2>2, TookStep
    <2>3. CASE o = Out(q, "closed", FALSE) \/ o = Out(q, "ctx", FALSE)
      BY <2>1, <2>3, KeepStep DEF Took, Out
    <2> QED
      BY <2>1, <2>2, <2>3 DEF QWait
  <1>5. ASSUME Close PROVE PInv'
    <2>1. q' = [q EXCEPT !.closed = TRUE] /\ added' = added /\ removed' = removed
      BY <1>5 DEF Close, QClose, Out
    <2>2. q' \in QType /\ q'.items = q.items /\ q'.tr = q.tr /\ q'.closed = TRUE
      BY <2>1 DEF PInv, QType
    <2> QED
      BY <2>1, <2>2 DEF PInv, Inv, QOK, TI!Inv, TI!TrOK, TI!CreditCap, TrOK, TrLen
  <1>6. ASSUME UNCHANGED vars PROVE PInv'
    BY <1>6, KeepStep DEF vars
  <1> QED
    BY <1>1, <1>2, <1>3, <1>4, <1>5, <1>6 DEF Next

THEOREM Conseq == PInv => LenBound /\ PrefixFIFO
  <1> SUFFICES ASSUME PInv PROVE LenBound /\ PrefixFIFO OBVIOUS
  <1>0. q \in QType /\ added \in Seq(Values) /\ removed \in Seq(Values) /\ q.items \in Seq(Values)
        /\ q.tr \in TrType /\ TrI(q.tr) /\ Len(q.items) = q.tr.len /\ added = removed \o q.items
    BY TIisTrI DEF PInv, Inv, QType
  <1>1. LenBound
    BY <1>0 DEF LenBound, TrI, TrType
  <1>2. PrefixFIFO
    BY <1>0, ConcatProperties DEF PrefixFIFO
  <1> QED
    BY <1>1, <1>2

THEOREM Safety == Spec => [](PInv /\ LenBound /\ PrefixFIFO)
  <1>1. Spec => []PInv
    BY InitInv, Inductive, PTL DEF Spec
  <1> QED
    BY <1>1, Conseq, PTL
=============================================================================
