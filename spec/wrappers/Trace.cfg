SPECIFICATION Spec
CONSTRAINT HighWater
POSTCONDITION Accepted
CHECK_DEADLOCK FALSE
