------------------------------ MODULE Lock ------------------------------
(* Implementation-shaped specification of Lock / WithLock (C15):             *)
(*   Worker.WithLock    worker.go:267-269   mtx.Lock(); defer mtx.Unlock(); return wf(ctx)   *)
(*   Operation.WithLock operation.go:213-219, Producer.WithLock producer.go:343-349,         *)
(*   Processor.WithLock process.go:239-245, Handler.WithLock handler.go:125-131,             *)
(*   Future.WithLock    future.go:62-64     defer with(lock(m)); return f()                  *)
(* Lock() is WithLock(&sync.Mutex{}).  WithLock lets several wrapped functions share one     *)
(* mutex: Fns is the set of wrapped functions guarded by the same mutex; every call picks    *)
(* one of them.                                                                              *)
(*                                                                                           *)
(* External: a caller invokes a wrapper; the wrapped function returns or panics.             *)
(* EarlyUnlock = TRUE is the mutation "lock taken but released before the call";             *)
(* Lock_bug.cfg expects MutualExclusion to fail (non-vacuity self-test).                     *)
(***************************************************************************)
EXTENDS Integers, FiniteSets, TLC

CONSTANTS Callers, Fns, Results, Budget, EarlyUnlock

Free == "free"
VARIABLES pc, mu, fn, res, execs, maxconc, budget
vars == <<pc, mu, fn, res, execs, maxconc, budget>>

Init == /\ pc = [c \in Callers |-> "idle"] /\ mu = Free
        /\ fn = [c \in Callers |-> CHOOSE f \in Fns : TRUE]
        /\ res = [c \in Callers |-> "-"] /\ execs = 0 /\ maxconc = 0 /\ budget = Budget

Goto(c, l) == pc' = [pc EXCEPT ![c] = l]
InFlight == Cardinality({c \in Callers : pc[c] = "exec"})

(* External *)
Start(c, f) == /\ pc[c] \in {"idle", "ret"} /\ budget > 0
               /\ budget' = budget - 1 /\ Goto(c, "lock") /\ fn' = [fn EXCEPT ![c] = f]
               /\ res' = [res EXCEPT ![c] = "-"]
               /\ UNCHANGED <<mu, execs, maxconc>>

FnReturn(c, r) == /\ pc[c] = "exec"
                  /\ res' = [res EXCEPT ![c] = r]
                  /\ Goto(c, IF EarlyUnlock THEN "ret" ELSE "unlock")       \* deferred Unlock, also on panic
                  /\ UNCHANGED <<mu, fn, execs, maxconc, budget>>

External == \E c \in Callers : (\E f \in Fns : Start(c, f)) \/ (\E r \in Results : FnReturn(c, r))

(* Internal *)
Lock(c) == /\ pc[c] = "lock" /\ mu = Free
           /\ mu' = IF EarlyUnlock THEN Free ELSE c
           /\ Goto(c, "exec") /\ execs' = execs + 1
           /\ maxconc' = IF InFlight + 1 > maxconc THEN InFlight + 1 ELSE maxconc
           /\ UNCHANGED <<fn, res, budget>>

Unlock(c) == /\ pc[c] = "unlock" /\ mu = c
             /\ mu' = Free /\ Goto(c, "ret")
             /\ UNCHANGED <<fn, res, execs, maxconc, budget>>

Internal == \E c \in Callers : Lock(c) \/ Unlock(c)
Next == Internal \/ External
Spec == Init /\ [][Next]_vars /\ WF_vars(Internal)

TypeOK == mu \in Callers \cup {Free} /\ execs \in 0..Budget
Quiescent == ~ENABLED Internal

\* C15: Lock/WithLock never run two executions at once (across all functions sharing the mutex)
MutualExclusion == InFlight <= 1 /\ maxconc <= 1
\* the holder of the mutex is the one executing
HolderExecutes == \A c \in Callers : pc[c] = "exec" => mu = c
\* every call executes the function once the lock is free (also after a panic: deferred unlock)
NoStuck == (Quiescent /\ InFlight = 0) => (\A c \in Callers : pc[c] \in {"idle", "ret"}) /\ mu = Free
AllExecute == (Quiescent /\ InFlight = 0) => execs = Budget - budget
Settles == <>[]Quiescent
=============================================================================
