------------------------------ MODULE Hooks ------------------------------
(* Join / PreHook / PostHook of the function types, as sequential machines (C15). *)
(*                                                                              *)
(*  Join (parts a, b, c in the documented order "root first, then the arguments"):*)
(*   Worker.Join     worker.go:317-332    merge: if err := wf(ctx); err != nil { return err }   *)
(*                                               return next.If(ctx.Err() == nil).Run(ctx)      *)
(*   Processor.Join  process.go:172-186   same shape                                          *)
(*   Operation.Join  operation.go:224-233 wf(ctx); next.If(ctx.Err() == nil).Run(ctx)          *)
(*   Handler.Join/Chain handler.go:97,104-111   of(in); next(in)                               *)
(*   Future.Join     future.go:85-93      out = f(); for ops: out = merge(out, op())           *)
(*   Join(b, c) nests as merge(merge(a, b), c); because a context never becomes live again     *)
(*   the nested checks are equivalent to the loop below (check before every part but the first).*)
(*  PreHook (parts h then m):                                                                  *)
(*   Worker.PreHook  worker.go:354-356    Join(WithRecoverCall(op), wf(ctx))  - hook panic recovered, m still runs *)
(*   Producer.PreHook producer.go:449-455, Processor.PreHook process.go:289-293   same          *)
(*   Operation.PreHook operation.go:245-247  hook(c); wf(c)      Future.PreHook future.go:68    *)
(*   Handler.PreHook handler.go:101       prev.Join(of)                                        *)
(*  PostHook (parts m then h):                                                                 *)
(*   Worker.PostHook worker.go:361-363    Join(Flip(wf(ctx), WithRecoverCall(op)))  - not run if m panics *)
(*   Producer.PostHook producer.go:463-469, Processor.PostHook process.go:300-304  same         *)
(*   Operation.PostHook operation.go:237-239  defer hook(); wf(ctx)   Future.PostHook future.go:72 - deferred *)
(*                                                                              *)
(* External: a part (client code) returns ok / an error / panics / cancels the   *)
(* context and returns ("cancel"); the client cancels the context at any time.   *)
(* SkipCtxCheck = TRUE is the mutation "Join ignores context expiry";            *)
(* Hooks_bug.cfg expects NoRunAfterExpiry to fail.                               *)
(***************************************************************************)
EXTENDS Integers, Sequences, FiniteSets, TLC

CONSTANTS Kinds, SkipCtxCheck

JoinErr  == {"Worker.Join", "Processor.Join"}
JoinCtx  == JoinErr \cup {"Operation.Join"}
JoinAll  == JoinCtx \cup {"Handler.Join", "Handler.Chain", "Future.Join"}
PreRec   == {"Worker.PreHook", "Producer.PreHook", "Processor.PreHook"}
PrePlain == {"Operation.PreHook", "Future.PreHook", "Handler.PreHook"}
PostRec  == {"Worker.PostHook", "Producer.PostHook", "Processor.PostHook"}
PostDef  == {"Operation.PostHook", "Future.PostHook"}
AllKinds == JoinAll \cup PreRec \cup PrePlain \cup PostRec \cup PostDef

Parts(k) == IF k \in JoinAll THEN <<"a", "b", "c">>
            ELSE IF k \in PreRec \cup PrePlain THEN <<"h", "m">> ELSE <<"m", "h">>
HasErr(k) == k \in JoinErr \cup PreRec \cup PostRec        \* parts can return an error that matters to the wrapper
ErrStop(k) == k \in JoinErr
HasCtx(k) == k \in JoinCtx \cup PreRec \cup PostRec \cup {"Operation.PreHook", "Operation.PostHook"}
CtxCheck(k) == k \in JoinCtx /\ ~SkipCtxCheck
Recovered(k, j) == (k \in PreRec /\ j = 1) \/ (k \in PostRec /\ j = 2)
Deferred(k, j) == k \in PostDef /\ j = 2
PartResults(k) == {"ok", "panic"} \cup (IF ErrStop(k) THEN {"err"} ELSE {}) \cup (IF HasCtx(k) THEN {"cancel"} ELSE {})

VARIABLES kind, pc, idx, ctxdone, log, rets, doneAtRet, panicking
vars == <<kind, pc, idx, ctxdone, log, rets, doneAtRet, panicking>>

Init == /\ kind \in Kinds /\ pc = "check" /\ idx = 1 /\ ctxdone \in (IF HasCtx(kind) THEN BOOLEAN ELSE {FALSE})
        /\ log = <<>> /\ rets = <<>> /\ doneAtRet = <<>> /\ panicking = FALSE

N == Len(Parts(kind))

\* Internal: decide whether part idx runs
Check == /\ pc = "check"
         /\ IF idx > N \/ (panicking /\ ~Deferred(kind, idx)) \/ (CtxCheck(kind) /\ idx > 1 /\ ctxdone /\ ~panicking)
              THEN pc' = "done" /\ UNCHANGED log
              ELSE pc' = "run" /\ log' = Append(log, Parts(kind)[idx])
         /\ UNCHANGED <<kind, idx, ctxdone, rets, doneAtRet, panicking>>

\* External: the running part returns
PartReturn(r) == /\ pc = "run" /\ r \in PartResults(kind)
                 /\ rets' = Append(rets, r)
                 /\ ctxdone' = (ctxdone \/ r = "cancel")
                 /\ doneAtRet' = Append(doneAtRet, ctxdone')
                 /\ CASE r = "err"   -> pc' = "done" /\ UNCHANGED <<idx, panicking>>
                      [] r = "panic" /\ ~Recovered(kind, idx)
                                     -> pc' = "check" /\ idx' = idx + 1 /\ panicking' = TRUE
                      [] OTHER       -> pc' = "check" /\ idx' = idx + 1 /\ UNCHANGED panicking
                 /\ UNCHANGED <<kind, log>>

\* External: the client cancels the context
Cancel == /\ HasCtx(kind) /\ ~ctxdone /\ pc # "done"
          /\ ctxdone' = TRUE
          /\ UNCHANGED <<kind, pc, idx, log, rets, doneAtRet, panicking>>

Internal == Check
External == Cancel \/ \E r \in {"ok", "err", "panic", "cancel"} : PartReturn(r)
Next == Internal \/ External
Spec == Init /\ [][Next]_vars /\ WF_vars(Internal)

(* ------------------------------------------------------------ Properties *)
IsPrefix(s, t) == Len(s) <= Len(t) /\ \A j \in 1..Len(s) : s[j] = t[j]
Done == pc = "done"

\* C15: the parts run in the documented order, each at most once
OrderOK == IsPrefix(log, Parts(kind))
\* Join stops at the first error (Worker/Processor) ...
NoRunAfterError == \A j \in 1..Len(rets) : (rets[j] = "err" /\ ErrStop(kind)) => Len(log) = j
\* ... and when the context has expired (the short-circuit): nothing starts after a part that
\* returned with the context already expired
NoRunAfterExpiry == \A j \in 1..Len(rets) : (kind \in JoinCtx /\ doneAtRet[j]) => Len(log) <= j
\* nothing else stops a Join
JoinRunsAll == (Done /\ kind \in JoinAll /\ ~ctxdone /\ \A j \in 1..Len(rets) : rets[j] \in {"ok"}) => log = Parts(kind)
\* PreHook: the hook runs first, unconditionally (also with an expired context); the wrapped function
\* follows unless the hook's panic propagates
PreHookOrder == (Done /\ kind \in PreRec \cup PrePlain) =>
                    /\ Len(log) >= 1 /\ log[1] = "h"
                    /\ (kind \in PreRec \/ rets[1] # "panic") => log = <<"h", "m">>
\* PostHook: the wrapped function first, then the hook - always when the function returns, and for the
\* deferred kinds also when it panics
PostHookOrder == (Done /\ kind \in PostRec \cup PostDef) =>
                    /\ Len(log) >= 1 /\ log[1] = "m"
                    /\ (kind \in PostDef \/ rets[1] # "panic") => log = <<"m", "h">>
Terminates == <>[](pc = "done" \/ pc = "run")
=============================================================================
