--------------------------- MODULE WrappersStep ---------------------------
(* Abstract, quiescence-stepped specification of the function-wrapper contracts   *)
(* of property C15.  A behaviour is a *scenario* (`sc`: which wrapper of which     *)
(* function type - the constructor table -, the limit n / group size m, and the    *)
(* script of results the wrapped function returns on its 1st, 2nd, ... execution)   *)
(* followed by driver steps, each of which is followed by "run to quiescence":      *)
(*    start c    caller c invokes the wrapped value in its own goroutine            *)
(*    release    the oldest execution of the wrapped function held in its gate      *)
(*               returns its scripted result (or panics)                            *)
(*    waiter w   (Signal/Launch/Background/StartGroup) waiter w is invoked          *)
(*    cancel w   the context of waiter w is cancelled                               *)
(*    call       (Retry, Join/PreHook/PostHook) one synchronous call; Producer.Join: *)
(*               one of several successive calls                                    *)
(* `hist` records each step with the observations the contract allows at the next   *)
(* quiescent point; harness/cmd/vh-wrappers executes the steps against the real     *)
(* wrappers and compares.  Expectations are ranges / sets, and exactly as strong    *)
(* as the property text with the readings of DESIGN.md 5.0:                         *)
(*   exp.lo..exp.hi   executions of the wrapped function entered so far             *)
(*   exp.maxc         bound on the concurrency observed inside the wrapped function *)
(*   exp.nlo..exp.nhi number of callers that have returned                          *)
(*   exp.jr, exp.rets when jr: the multiset of execution indices whose result the   *)
(*                    returned callers observed (-1: the caller got the panic)      *)
(*   exp.minb         number of live waiters that must still be blocked             *)
(*   exp.attempts, exp.classes, exp.val     Retry                                   *)
(*   exp.allowed      Join/PreHook/PostHook: the allowed execution orders           *)
(* Unspecified corners are not judged: what callers see after a panicking           *)
(* execution (Once, Limit), whether a panicking execution counts towards Limit's n  *)
(* (the schedule follows the code - it does not for limitExec - but the count is    *)
(* then only bounded), what Lock callers return, how many executions a Launch does. *)
(*                                                                                  *)
(* The refinement link to the implementation-shaped specs: Once.tla / Limit.tla /    *)
(* Lock.tla / Launch.tla satisfy, at every quiescent state, exactly the observations *)
(* computed here (their invariants ExactlyOnce, NoReturnBeforeDone, AllSeeResult,    *)
(* Progress, MutualExclusion, LaterCallsSeeLast, BlockedWhileRunning).               *)
(***************************************************************************)
EXTENDS Integers, Sequences, FiniteSets, TLC, Json

CONSTANTS Callers,     \* caller / waiter identities (strings)
          Families,    \* subset of {"once","limit","oplimit","lock","launch","retry","hooks","pjoin"}
          MaxN,        \* limits / retry counts explored: 1..MaxN (Retry: 0..MaxN)
          MaxM,        \* group sizes for StartGroup
          ScriptLen,   \* length of result scripts
          Results,     \* result classes the wrapped function may produce
          Depth        \* number of driver steps per behaviour

(* ------------------------------------------------------------ the constructor table *)
OnceKinds   == {"Worker.Once", "Operation.Once", "Producer.Once", "Processor.Once", "Handler.Once", "Future.Once",
                "adt.Once.Resolve", "adt.Once.Do", "adt.Once.DoOnly", "adt.Mnemonize", "ft.Once", "ft.OnceDo",
                "Worker.Once.Lock", "Worker.Lock.Once", "Producer.Limit.Once"}
LimitKinds  == {"Worker.Limit", "Processor.Limit", "Producer.Limit", "Future.Limit",
                "Worker.Limit.Lock", "Worker.Lock.Limit"}
OpLimitKinds == {"Operation.Limit"}
LockKinds   == {"Worker.Lock", "Operation.Lock", "Producer.Lock", "Processor.Lock", "Handler.Lock", "Future.Lock",
                "Worker.WithLock", "Operation.WithLock", "Producer.WithLock", "Processor.WithLock",
                "Handler.WithLock", "Future.WithLock", "Mixed.WithLock"}
GroupKinds  == {"Operation.StartGroup", "Worker.StartGroup", "Worker.Group"}
LazyKinds   == {"Worker.Group"}      \* the background starts when the (single) waiter is invoked, not at construction
LaunchKinds == {"Operation.Signal", "Operation.Launch", "Operation.Add", "Worker.Signal", "Worker.Launch",
                "Worker.Background", "Producer.Launch", "Producer.Background", "Processor.Background",
                "Processor.Add"} \cup GroupKinds
NoCtxWaiter == {"Operation.Signal", "Worker.Signal", "Producer.Launch"}   \* waiter is a bare channel receive / not cancelled here
RetryKinds  == {"Worker.Retry", "Producer.Retry", "Processor.Retry"}

JoinErr  == {"Worker.Join", "Processor.Join"}
JoinCtx  == JoinErr \cup {"Operation.Join"}
JoinAll  == JoinCtx \cup {"Handler.Join", "Handler.Chain", "Future.Join"}
PreKinds == {"Worker.PreHook", "Producer.PreHook", "Processor.PreHook", "Operation.PreHook", "Future.PreHook", "Handler.PreHook"}
PostKinds == {"Worker.PostHook", "Producer.PostHook", "Processor.PostHook", "Operation.PostHook", "Future.PostHook"}
HookKinds == JoinAll \cup PreKinds \cup PostKinds
Parts(k) == IF k \in JoinAll THEN <<"a", "b", "c">> ELSE IF k \in PreKinds THEN <<"h", "m">> ELSE <<"m", "h">>
HasCtx(k) == k \in JoinCtx \cup {"Worker.PreHook", "Producer.PreHook", "Processor.PreHook", "Operation.PreHook",
                                "Worker.PostHook", "Producer.PostHook", "Processor.PostHook", "Operation.PostHook"}
HasErr(k) == k \in JoinErr \cup {"Worker.PreHook", "Producer.PreHook", "Processor.PreHook",
                                "Worker.PostHook", "Producer.PostHook", "Processor.PostHook"}
\* results of a part that matter to the wrapper: an error only for the error-returning main functions
PartResults(k, p) == {"ok", "panic"} \cup (IF HasCtx(k) THEN {"cancel"} ELSE {})
                     \cup (IF HasErr(k) /\ p # "h" THEN {"err"} ELSE {})

Sc(f, k, n, m, pre, s) == [fam |-> f, kind |-> k, n |-> n, m |-> m, pre |-> pre, script |-> s]
Scripts(R, L) == [1..L -> R]
Fam(f, S) == IF f \in Families THEN S ELSE {}

\* Producer.Join: the scripts of the first and of the second producer, joined by "|"; an error ends the scenario
\* (what happens after a non-EOF error is not part of the documented order)
PJScripts == {t \in UNION {[1..k -> {"ok", "eof", "err"}] : k \in 0..2} :
                \A j \in 1..Len(t) : (t[j] \in {"eof", "err"}) => j = Len(t)}

Scenarios ==
       Fam("once",    {Sc("once", k, 1, 0, FALSE, <<r>>) : k \in OnceKinds, r \in Results})
  \cup Fam("limit",   {Sc("limit", x[1], x[2], 0, FALSE, x[3]) : x \in LimitKinds \X (1..MaxN) \X Scripts(Results, ScriptLen)})
  \cup Fam("oplimit", {Sc("oplimit", x[1], x[2], 0, FALSE, x[3]) :
                           x \in OpLimitKinds \X (1..MaxN) \X Scripts(Results \cap {"ok", "panic"}, ScriptLen)})
  \cup Fam("lock",    {Sc("lock", k, 0, 0, FALSE, s) : k \in LockKinds, s \in Scripts(Results, ScriptLen)})
  \cup Fam("launch",  {Sc("launch", k, 0, 1, FALSE, <<r>>) : k \in (LaunchKinds \ GroupKinds) \ {"Producer.Launch"},
                                                            r \in Results \ {"panic"}}
                      \cup {Sc("launch", x[1], 0, x[2], FALSE, <<x[3]>>) : x \in GroupKinds \X (1..MaxM) \X (Results \ {"panic"})}
                      \cup {Sc("launch", "Producer.Launch", 0, 1, FALSE, s) : s \in Scripts(Results \ {"panic"}, ScriptLen)})
  \cup Fam("retry",   {Sc("retry", x[1], x[2], 0, FALSE, x[3]) : x \in RetryKinds \X (0..MaxN) \X Scripts(Results, ScriptLen)})
  \cup Fam("hooks",   UNION {{Sc("hooks", k, 0, 0, pre, s) :
                                  pre \in (IF HasCtx(k) THEN BOOLEAN ELSE {FALSE}),
                                  s \in {t \in [1..Len(Parts(k)) -> {"ok", "err", "panic", "cancel"}] :
                                            \A j \in 1..Len(Parts(k)) : t[j] \in PartResults(k, Parts(k)[j])}} : k \in HookKinds})
  \cup Fam("pjoin",   {Sc("pjoin", "Producer.Join", 0, 0, FALSE, x[1] \o <<"|">> \o x[2]) : x \in PJScripts \X PJScripts})

VARIABLES sc, started, cancelled, entered, held, counted, lastc, retfrom, panics,
          bgdone, okdone, ended, sendblocked, blk, called, hist
state == <<sc, started, cancelled, entered, held, counted, lastc, retfrom, panics,
           bgdone, okdone, ended, sendblocked, blk, called>>
vars == <<state, hist>>
view == state

Serial == {"once", "limit", "lock"}
Conc   == Serial \cup {"oplimit", "launch"}
Min(a, b) == IF a < b THEN a ELSE b
Res(k) == IF k <= Len(sc.script) THEN sc.script[k] ELSE "ok"
Cap == CASE sc.fam = "once" -> 1 [] sc.fam = "limit" -> sc.n [] OTHER -> 99

Init == /\ sc \in Scenarios
        /\ started = {} /\ cancelled = {} /\ counted = 0 /\ lastc = 0 /\ retfrom = <<>> /\ panics = 0
        /\ entered = (IF sc.fam = "launch" /\ sc.kind \notin LazyKinds THEN sc.m ELSE 0)   \* Signal/Launch/StartGroup start the
        /\ held = (IF sc.fam = "launch" /\ sc.kind \notin LazyKinds THEN sc.m ELSE 0)      \* background executions at construction
        /\ bgdone = 0 /\ okdone = 0 /\ ended = FALSE /\ sendblocked = FALSE /\ blk = {} /\ called = FALSE
        /\ hist = <<>>

NoExp == [lo |-> 0, hi |-> 99, maxc |-> 99, nlo |-> 0, nhi |-> 99, jr |-> FALSE, rets |-> <<>>, minb |-> 0,
          attempts |-> -1, classes |-> <<>>, val |-> 0, allowed |-> {}]

\* expectations of the caller/execution families, computed from the primed state
ConcExp ==
  LET ns == Cardinality(started') dirty == panics' > 0 IN
  CASE sc.fam = "lock" ->
         [NoExp EXCEPT !.maxc = 1, !.nhi = ns]
    [] sc.fam = "oplimit" ->
         [NoExp EXCEPT !.lo = Min(sc.n, ns), !.hi = Min(sc.n + panics', ns), !.nhi = ns]
    [] sc.fam = "launch" ->
         [NoExp EXCEPT !.minb = Cardinality(blk')]
    [] sc.fam = "once" /\ dirty ->
         [NoExp EXCEPT !.lo = entered', !.hi = entered', !.maxc = 1, !.nhi = ns]
    [] sc.fam = "limit" /\ dirty ->
         [NoExp EXCEPT !.hi = entered', !.maxc = 1, !.nhi = ns]
    [] OTHER ->
         [NoExp EXCEPT !.lo = entered', !.hi = entered', !.maxc = 1, !.nlo = Len(retfrom'), !.nhi = Len(retfrom'),
                       !.jr = TRUE, !.rets = retfrom']

Rec(op, arg, e) == hist' = Append(hist, [op |-> op, arg |-> arg, exp |-> e])
LaunchVars == <<bgdone, okdone, ended, sendblocked, blk>>

(* ------------------------------------------------------------ once / limit / lock *)
Waiting == Cardinality(started) - Len(retfrom) - held

StartSerial(c) ==
  /\ sc.fam \in Serial /\ c \notin started
  /\ started' = started \cup {c}
  /\ IF held = 1 THEN UNCHANGED <<entered, held, retfrom>>                       \* blocked behind the running execution
     ELSE IF counted < Cap THEN entered' = entered + 1 /\ held' = 1 /\ UNCHANGED retfrom
     ELSE retfrom' = Append(retfrom, lastc) /\ UNCHANGED <<entered, held>>      \* the cached (last) result
  /\ UNCHANGED <<sc, cancelled, counted, lastc, panics, LaunchVars, called>>
  /\ Rec("start", c, ConcExp)

ReleaseSerial ==
  /\ sc.fam \in Serial /\ held = 1
  /\ LET k   == entered
         p   == Res(k) = "panic"
         cnt == IF p /\ sc.fam # "once" THEN counted ELSE counted + 1
         lc  == IF p THEN (IF sc.fam = "once" THEN 0 ELSE lastc) ELSE k
         w   == Waiting
         rf  == Append(retfrom, IF p THEN -1 ELSE k)                             \* the executing caller returns its own result
     IN /\ counted' = cnt /\ lastc' = lc /\ panics' = panics + (IF p THEN 1 ELSE 0)
        /\ IF w > 0 /\ cnt < Cap
             THEN entered' = entered + 1 /\ held' = 1 /\ retfrom' = rf           \* one of the blocked callers executes next
             ELSE entered' = entered /\ held' = 0 /\ retfrom' = rf \o [i \in 1..w |-> lc]
  /\ UNCHANGED <<sc, started, cancelled, LaunchVars, called>>
  /\ Rec("release", "", ConcExp)

(* ------------------------------------------------------------ Operation.Limit *)
StartOp(c) ==
  /\ sc.fam = "oplimit" /\ c \notin started
  /\ started' = started \cup {c}
  /\ IF entered < sc.n THEN entered' = entered + 1 /\ held' = held + 1 /\ UNCHANGED retfrom
     ELSE retfrom' = Append(retfrom, 0) /\ UNCHANGED <<entered, held>>
  /\ UNCHANGED <<sc, cancelled, counted, lastc, panics, LaunchVars, called>>
  /\ Rec("start", c, ConcExp)

ReleaseOp ==
  /\ sc.fam = "oplimit" /\ held > 0
  /\ LET k == entered - held + 1 IN                                              \* the oldest held execution
       /\ panics' = panics + (IF Res(k) = "panic" THEN 1 ELSE 0)
       /\ retfrom' = Append(retfrom, IF Res(k) = "panic" THEN -1 ELSE k)
  /\ held' = held - 1
  /\ UNCHANGED <<sc, started, cancelled, entered, counted, lastc, LaunchVars, called>>
  /\ Rec("release", "", ConcExp)

(* ------------------------------------------------------------ Signal / Launch / Background / StartGroup *)
PL == sc.kind = "Producer.Launch"
Pick(S) == CHOOSE x \in S : TRUE

Waiter(w) ==
  /\ sc.fam = "launch" /\ w \notin started
  /\ sc.kind \in LazyKinds => started = {} /\ w \notin cancelled      \* Worker.Group: one call, it starts its own m copies
  /\ started' = started \cup {w}
  /\ IF sc.kind \in LazyKinds
       THEN entered' = sc.m /\ held' = sc.m /\ blk' = {w} /\ UNCHANGED sendblocked
     ELSE IF PL
       THEN IF ended \/ w \in cancelled THEN UNCHANGED <<blk, sendblocked, entered, held>>
            ELSE IF sendblocked THEN /\ sendblocked' = FALSE /\ entered' = entered + 1 /\ held' = 1   \* takes the pending value;
                                     /\ UNCHANGED blk                                                 \* the loop calls the producer again
            ELSE blk' = blk \cup {w} /\ UNCHANGED <<sendblocked, entered, held>>
       ELSE /\ blk' = IF bgdone < sc.m /\ w \notin cancelled THEN blk \cup {w} ELSE blk
            /\ UNCHANGED <<sendblocked, entered, held>>
  /\ UNCHANGED <<sc, cancelled, counted, lastc, retfrom, panics, bgdone, okdone, ended, called>>
  /\ Rec("waiter", w, ConcExp)

ReleaseBg ==
  /\ sc.fam = "launch" /\ held > 0
  /\ IF PL
       THEN LET r == Res(entered) IN
            CASE r = "ok" ->
                   /\ okdone' = okdone + 1 /\ bgdone' = bgdone + 1 /\ UNCHANGED ended
                   /\ IF blk # {} THEN /\ blk' = blk \ {Pick(blk)} /\ entered' = entered + 1       \* a blocked waiter gets the value
                                       /\ UNCHANGED <<held, sendblocked>>
                      ELSE sendblocked' = TRUE /\ held' = 0 /\ UNCHANGED <<blk, entered>>
              [] r = "skip" -> /\ bgdone' = bgdone + 1 /\ entered' = entered + 1
                               /\ UNCHANGED <<okdone, ended, blk, held, sendblocked>>
              [] OTHER -> /\ bgdone' = bgdone + 1 /\ ended' = TRUE /\ held' = 0 /\ blk' = {}
                          /\ UNCHANGED <<okdone, entered, sendblocked>>
       ELSE /\ bgdone' = bgdone + 1 /\ held' = held - 1
            /\ blk' = IF bgdone + 1 = sc.m THEN {} ELSE blk
            /\ UNCHANGED <<okdone, ended, sendblocked, entered>>
  /\ UNCHANGED <<sc, started, cancelled, counted, lastc, retfrom, panics, called>>
  /\ Rec("release", "", ConcExp)

Cancel(w) ==
  /\ sc.fam = "launch" /\ sc.kind \notin NoCtxWaiter /\ w \notin cancelled
  /\ cancelled' = cancelled \cup {w} /\ blk' = blk \ {w}
  /\ UNCHANGED <<sc, started, entered, held, counted, lastc, retfrom, panics, bgdone, okdone, ended, sendblocked, called>>
  /\ Rec("cancel", w, ConcExp)

(* ------------------------------------------------------------ Retry *)
Stops == {"ok", "eof", "ctx", "panic"}
FirstStop == IF \E j \in 1..Len(sc.script) : sc.script[j] \in Stops
               THEN CHOOSE j \in 1..Len(sc.script) : sc.script[j] \in Stops /\ \A k \in 1..(j-1) : sc.script[k] \notin Stops
               ELSE Len(sc.script) + 1
RetryExp ==
  LET a == Min(sc.n, Min(FirstStop, Len(sc.script)))
      last == IF a = 0 THEN "-" ELSE sc.script[a]
      cls == CASE last = "ok"    -> <<"ok">>
               [] last = "panic" -> <<"panic", "err">>                 \* unspecified: propagated or converted
               [] last = "ctx"   -> <<"err">>                          \* context errors are returned (documented)
               [] last = "eof"   -> <<"ok", "err">>                    \* other terminating errors: not fixed by C15
               [] \E j \in 1..a : sc.script[j] = "err" -> <<"err">>    \* retry failed: the failures are reported
               [] OTHER          -> <<"ok", "err">>                    \* nothing attempted / only skips
  IN [NoExp EXCEPT !.attempts = a, !.classes = cls,
                   !.val = IF last = "ok" /\ sc.kind = "Producer.Retry" THEN a ELSE 0]

CallRetry == /\ sc.fam = "retry" /\ ~called /\ called' = TRUE
             /\ UNCHANGED <<sc, started, cancelled, entered, held, counted, lastc, retfrom, panics, LaunchVars>>
             /\ Rec("call", "", RetryExp)

(* ------------------------------------------------------------ Join / PreHook / PostHook *)
Prefix(s, j) == SubSeq(s, 1, j)
HookExp ==
  LET k == sc.kind  ps == Parts(k)  s == sc.script IN
  IF k \in JoinAll THEN
       LET stop(j) == s[j] = "panic" \/ (s[j] = "err" /\ k \in JoinErr) \/ (s[j] = "cancel" /\ k \in JoinCtx)
           first == IF \E j \in 1..3 : stop(j) THEN CHOOSE j \in 1..3 : stop(j) /\ \A i \in 1..(j-1) : ~stop(i) ELSE 3
       IN IF sc.pre /\ k \in JoinCtx THEN {<<>>, <<"a">>}             \* context expired on entry: the root may or may not run
          ELSE {Prefix(ps, first)}
  ELSE IF k \in PreKinds THEN
       IF s[1] = "panic" \/ s[1] = "cancel" \/ sc.pre THEN {<<"h">>, <<"h", "m">>} ELSE {<<"h", "m">>}
  ELSE IF s[1] = "panic" THEN {<<"m">>, <<"m", "h">>} ELSE {<<"m", "h">>}

CallHooks == /\ sc.fam = "hooks" /\ ~called /\ called' = TRUE
             /\ UNCHANGED <<sc, started, cancelled, entered, held, counted, lastc, retfrom, panics, LaunchVars>>
             /\ Rec("call", "", [NoExp EXCEPT !.allowed = HookExp])

(* ------------------------------------------------------------ Producer.Join *)
\* "on successive calls, runs the first producer until it returns io.EOF, and then returns the results of the
\* second; when the second returns io.EOF all successive calls return io.EOF" (producer.go:104-110).  Each call
\* is one step; the expectation is which producers that call executed, in order.  State (re-using the counters
\* of the other families): counted / lastc = results consumed from the first / second producer, entered = stage
\* (0 first, 1 second, 2 exhausted, 3 nothing more to judge).
SplitAt == CHOOSE j \in 1..Len(sc.script) : sc.script[j] = "|"
PJA == SubSeq(sc.script, 1, SplitAt - 1)
PJB == SubSeq(sc.script, SplitAt + 1, Len(sc.script))
At(s, i) == IF i <= Len(s) THEN s[i] ELSE "eof"               \* beyond its script a producer reports io.EOF
CallPJoin ==
  /\ sc.fam = "pjoin" /\ entered < 3
  /\ LET ra == At(PJA, counted + 1)
         rb == At(PJB, lastc + 1)
         after(r) == CASE r = "ok" -> 1 [] r = "eof" -> 2 [] OTHER -> 3
     IN CASE entered = 0 /\ ra = "ok"  -> /\ counted' = counted + 1 /\ UNCHANGED <<lastc, entered>>
                                          /\ Rec("call", "", [NoExp EXCEPT !.allowed = {<<"a">>}])
          [] entered = 0 /\ ra = "err" -> /\ counted' = counted + 1 /\ entered' = 3 /\ UNCHANGED lastc
                                          /\ Rec("call", "", [NoExp EXCEPT !.allowed = {<<"a">>}])
          [] entered = 0 /\ ra = "eof" -> /\ counted' = counted + 1 /\ lastc' = lastc + 1 /\ entered' = after(rb)
                                          /\ Rec("call", "", [NoExp EXCEPT !.allowed = {<<"a", "b">>}])
          [] entered = 1               -> /\ lastc' = lastc + 1 /\ entered' = after(rb) /\ UNCHANGED counted
                                          /\ Rec("call", "", [NoExp EXCEPT !.allowed = {<<"b">>}])
          [] entered = 2               -> /\ entered' = 3 /\ UNCHANGED <<counted, lastc>>        \* exhausted: nothing runs
                                          /\ Rec("call", "", [NoExp EXCEPT !.allowed = {<<>>}])
  /\ UNCHANGED <<sc, started, cancelled, held, retfrom, panics, LaunchVars, called>>

(* ------------------------------------------------------------ *)
Step == \/ \E c \in Callers : StartSerial(c) \/ StartOp(c) \/ Waiter(c) \/ Cancel(c)
        \/ ReleaseSerial \/ ReleaseOp \/ ReleaseBg \/ CallRetry \/ CallHooks \/ CallPJoin

Next == Len(hist) < Depth /\ Step
Spec == Init /\ [][Next]_vars

\* sanity of the abstract spec itself
Inv == /\ (sc.fam # "pjoin" => held <= entered) /\ Len(retfrom) <= Cardinality(started)
       /\ (sc.fam \in Serial => held \in {0, 1})
       /\ (sc.fam \in {"once", "limit"} /\ panics = 0 => entered <= Cap)
       /\ (sc.fam \in {"once", "limit"} /\ panics = 0 /\ held = 0 => entered = Min(Cap, Cardinality(started)))
       /\ blk \subseteq (started \ cancelled)

Beh == [sc |-> sc, steps |-> hist]
Terminal == Len(hist) = Depth \/ ~ENABLED Step
\* all behaviours (BFS with hist in the state, or -simulate) ...
EmitAll == ~Terminal \/ PrintT(<<"BEH", ToJson(Beh)>>)
\* ... or one shortest behaviour per edge of the abstract state graph (VIEW hides hist)
EmitEdge == PrintT(<<"BEH", ToJson([sc |-> sc', steps |-> hist'])>>)
=============================================================================
