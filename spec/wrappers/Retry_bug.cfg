SPECIFICATION Spec
CONSTANTS
  Results = {"ok", "err", "skip", "eof", "ctx", "panic"}
  ScriptLen = 4
  MaxN = 3
  Kinds = {"worker", "producer"}
  ContinueAfterEOF = TRUE
INVARIANTS AtMostN StopsAtFirst ReportOnlyIfNoSuccess SuccessWins FailureReported CtxReported SkipNeverReported
CHECK_DEADLOCK FALSE
