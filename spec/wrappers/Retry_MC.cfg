SPECIFICATION Spec
CONSTANTS
  Results = {"ok", "err", "skip", "eof", "ctx", "panic"}
  ScriptLen = 4
  MaxN = 3
  Kinds = {"worker", "producer"}
  ContinueAfterEOF = FALSE
INVARIANTS AtMostN StopsAtFirst ReportOnlyIfNoSuccess SuccessWins FailureReported CtxReported SkipNeverReported
PROPERTIES Terminates
CHECK_DEADLOCK FALSE
