SPECIFICATION Spec
CONSTANTS
  Callers = {c1, c2}
  Results = {"ok", "panic"}
  Budget = 2
  StoreFirst = TRUE
INVARIANTS TypeOK AtMostOnce NoReturnBeforeDone
CHECK_DEADLOCK FALSE
