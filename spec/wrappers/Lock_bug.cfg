SPECIFICATION Spec
CONSTANTS
  Callers = {c1, c2}
  Fns = {f1}
  Results = {"ok"}
  Budget = 2
  EarlyUnlock = TRUE
INVARIANTS TypeOK MutualExclusion
CHECK_DEADLOCK FALSE
