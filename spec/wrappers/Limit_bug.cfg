SPECIFICATION Spec
CONSTANTS
  Callers = {c1, c2}
  Results = {"ok", "err"}
  N = 1
  Budget = 2
  Mode = "limitExec"
  StaleFast = TRUE
INVARIANTS TypeOK AtMostN MutualExclusion LaterCallsSeeLast
CHECK_DEADLOCK FALSE
