SPECIFICATION Spec
CONSTANTS
  Callers = {"c1"}
  Families = {"hooks", "pjoin"}
  MaxN = 1
  MaxM = 1
  ScriptLen = 1
  Results = {"ok"}
  Depth = 6
INVARIANT Inv
CONSTRAINT EmitAll
CHECK_DEADLOCK FALSE
