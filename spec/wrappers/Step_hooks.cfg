SPECIFICATION Spec
CONSTANTS
  Callers = {"c1"}
  Families = {"hooks"}
  MaxN = 1
  MaxM = 1
  ScriptLen = 1
  Results = {"ok"}
  Depth = 1
INVARIANT Inv
CONSTRAINT EmitAll
CHECK_DEADLOCK FALSE
