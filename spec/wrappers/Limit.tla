------------------------------ MODULE Limit ------------------------------
(* Implementation-shaped specification of the Limit(n) wrappers (C15).        *)
(*                                                                            *)
(* Mode = "limitExec": process.go:403-425, used by Worker.Limit (worker.go:245),*)
(* Processor.Limit (process.go:248), Producer.Limit (producer.go:382) and      *)
(* Future.Limit (future.go:100):                                               *)
(*     if counter.CompareAndSwap(n, n) { return output }        fast path      *)
(*     mtx.Lock(); defer mtx.Unlock()                                           *)
(*     num := counter.Load()                                                    *)
(*     if num < n { output = op(); counter.Store(min(n, num+1)) }               *)
(*     return output                                                            *)
(* Mode = "opLimit": Operation.Limit, operation.go:181-197, a CAS loop in the   *)
(* When-condition; executions are not serialised (documented), there is no     *)
(* result:                                                                      *)
(*     for { cur := counter.Load(); if cur >= n { return false }                *)
(*           if counter.CompareAndSwap(cur, cur+1) { return true } }            *)
(*                                                                            *)
(* External (client-controlled): a caller invokes the wrapper; the wrapped     *)
(* function returns a result or panics.  Everything else is Internal.          *)
(*                                                                            *)
(* A panicking execution unwinds through the deferred Unlock without the       *)
(* counter being bumped (limitExec), whereas opLimit has counted it already.   *)
(* C15 does not say which is right, so executions are compared with            *)
(* min(n, calls) only on panic-free runs; the safety bounds hold always.       *)
(*                                                                            *)
(* StaleFast = TRUE is the mutation "counter published before the output is    *)
(* written" (fast path can return a stale output); Limit_bug.cfg expects the   *)
(* violation of LaterCallsSeeLast and is the non-vacuity self-test.            *)
(***************************************************************************)
EXTENDS Integers, Sequences, FiniteSets, TLC

CONSTANTS Callers, Results, N, Budget, Mode, StaleFast

Free == "free"
Min(a, b) == IF a < b THEN a ELSE b

VARIABLES pc, counter, mu, output,
          num,      \* per caller: the local `num` / `cur`
          mine,     \* per caller: index of the execution this call performs (0: none)
          res,      \* per caller: [from |-> execution index whose result was returned, val |-> that result]
          execs,    \* history: executions entered
          okexecs,  \* history: executions that returned normally
          panics,   \* history: executions that panicked
          calls,    \* history: calls started
          results,  \* history: results[k] = result of the k-th execution to *finish counting* (limitExec order)
          budget,
          bad       \* history: a call that did not execute returned something other than the last result
vars == <<pc, counter, mu, output, num, mine, res, execs, okexecs, panics, calls, results, budget, bad>>

None == [from |-> 0, val |-> "-"]

Init == /\ pc = [c \in Callers |-> "idle"]
        /\ counter = 0 /\ mu = Free /\ output = [from |-> 0, val |-> "zero"]
        /\ num = [c \in Callers |-> 0] /\ mine = [c \in Callers |-> 0]
        /\ res = [c \in Callers |-> None]
        /\ execs = 0 /\ okexecs = 0 /\ panics = 0 /\ calls = 0 /\ results = <<>>
        /\ budget = Budget /\ bad = FALSE

Goto(c, l) == pc' = [pc EXCEPT ![c] = l]

(* ------------------------------------------------------------ External *)
Start(c) == /\ pc[c] \in {"idle", "ret"} /\ budget > 0
            /\ budget' = budget - 1 /\ calls' = calls + 1
            /\ Goto(c, IF Mode = "limitExec" THEN "fast" ELSE "load")
            /\ res' = [res EXCEPT ![c] = None] /\ mine' = [mine EXCEPT ![c] = 0]
            /\ UNCHANGED <<counter, mu, output, num, execs, okexecs, panics, results, bad>>

FnReturn(c, r) ==
    /\ pc[c] = "exec"
    /\ IF r = "panic"
         THEN /\ panics' = panics + 1
              /\ Goto(c, IF Mode = "limitExec" THEN "unlockpanic" ELSE "retpanic")
              /\ UNCHANGED <<output, okexecs, results, counter, mine>>
         ELSE /\ okexecs' = okexecs + 1 /\ panics' = panics
              /\ IF Mode = "limitExec"
                   THEN /\ results' = Append(results, r)
                        /\ mine' = [mine EXCEPT ![c] = Len(results) + 1]     \* index among the counted executions
                        /\ IF StaleFast
                             THEN /\ counter' = Min(N, num[c] + 1) /\ Goto(c, "lateoutput") /\ UNCHANGED output
                             ELSE /\ output' = [from |-> Len(results) + 1, val |-> r]      \* output = op()
                                  /\ Goto(c, "bump") /\ UNCHANGED counter
                   ELSE /\ Goto(c, "retown") /\ UNCHANGED <<output, results, counter, mine>>
    /\ UNCHANGED <<mu, num, res, execs, calls, budget, bad>>

External == \E c \in Callers : Start(c) \/ \E r \in Results : FnReturn(c, r)

(* ------------------------------------------------------------ Internal: limitExec *)
\* counter.CompareAndSwap(n, n): fast path, lock-free read of output
Fast(c) == /\ pc[c] = "fast"
           /\ IF counter = N
                THEN /\ res' = [res EXCEPT ![c] = output] /\ Goto(c, "ret")
                     /\ bad' = (bad \/ output.from # Len(results) \/ Len(results) < N)
                ELSE /\ Goto(c, "lock") /\ UNCHANGED <<res, bad>>
           /\ UNCHANGED <<counter, mu, output, num, mine, execs, okexecs, panics, calls, results, budget>>

Lock(c) == /\ pc[c] = "lock" /\ mu = Free
           /\ mu' = c /\ Goto(c, "loadnum")
           /\ UNCHANGED <<counter, output, num, mine, res, execs, okexecs, panics, calls, results, budget, bad>>

\* num := counter.Load(); if num < n { output = op() ... : the wrapped function is entered
LoadNum(c) == /\ pc[c] = "loadnum"
              /\ num' = [num EXCEPT ![c] = counter]
              /\ IF counter < N
                   THEN /\ Goto(c, "exec") /\ execs' = execs + 1
                   ELSE /\ Goto(c, "retoutput") /\ UNCHANGED execs
              /\ UNCHANGED <<counter, mu, output, mine, res, okexecs, panics, calls, results, budget, bad>>

\* counter.Store(min(n, num+1))
Bump(c) == /\ pc[c] = "bump"
           /\ counter' = Min(N, num[c] + 1) /\ Goto(c, "retoutput")
           /\ UNCHANGED <<mu, output, num, mine, res, execs, okexecs, panics, calls, results, budget, bad>>

\* mutation only: the output is written after the counter was published
LateOutput(c) == /\ pc[c] = "lateoutput"
                 /\ output' = [from |-> mine[c], val |-> results[Len(results)]] /\ Goto(c, "retoutput")
                 /\ UNCHANGED <<counter, mu, num, mine, res, execs, okexecs, panics, calls, results, budget, bad>>

\* return output (evaluated before the deferred Unlock runs)
RetOutput(c) == /\ pc[c] = "retoutput"
                /\ res' = [res EXCEPT ![c] = output] /\ Goto(c, "unlock")
                /\ bad' = (bad \/ (mine[c] = 0 /\ (output.from # Len(results) \/ Len(results) < N))
                               \/ (mine[c] # 0 /\ output.from # mine[c]))
                /\ UNCHANGED <<counter, mu, output, num, mine, execs, okexecs, panics, calls, results, budget>>

Unlock(c) == /\ pc[c] \in {"unlock", "unlockpanic"} /\ mu = c
             /\ mu' = Free /\ Goto(c, "ret")
             /\ res' = IF pc[c] = "unlockpanic" THEN [res EXCEPT ![c] = [from |-> mine[c], val |-> "panic"]] ELSE res
             /\ UNCHANGED <<counter, output, num, mine, execs, okexecs, panics, calls, results, budget, bad>>

(* ------------------------------------------------------------ Internal: Operation.Limit *)
Load(c) == /\ pc[c] = "load"
           /\ num' = [num EXCEPT ![c] = counter]
           /\ Goto(c, IF counter >= N THEN "ret" ELSE "cas")
           /\ UNCHANGED <<counter, mu, output, mine, res, execs, okexecs, panics, calls, results, budget, bad>>

Cas(c) == /\ pc[c] = "cas"
          /\ IF counter = num[c]
               THEN /\ counter' = counter + 1 /\ Goto(c, "exec")                 \* When(true): the operation runs
                    /\ execs' = execs + 1 /\ mine' = [mine EXCEPT ![c] = execs + 1]
               ELSE /\ Goto(c, "load") /\ UNCHANGED <<counter, execs, mine>>
          /\ UNCHANGED <<mu, output, num, res, okexecs, panics, calls, results, budget, bad>>

OpRet(c) == /\ pc[c] \in {"retown", "retpanic"}
            /\ Goto(c, "ret")
            /\ res' = [res EXCEPT ![c] = [from |-> mine[c], val |-> IF pc[c] = "retpanic" THEN "panic" ELSE "-"]]
            /\ UNCHANGED <<counter, mu, output, num, mine, execs, okexecs, panics, calls, results, budget, bad>>

Internal == \E c \in Callers : \/ Fast(c) \/ Lock(c) \/ LoadNum(c) \/ Bump(c) \/ LateOutput(c) \/ RetOutput(c) \/ Unlock(c)
                               \/ Load(c) \/ Cas(c) \/ OpRet(c)

Next == Internal \/ External
Spec == Init /\ [][Next]_vars /\ WF_vars(Internal)

(* ------------------------------------------------------------ Properties *)
TypeOK == /\ counter \in 0..N /\ mu \in Callers \cup {Free} /\ execs \in 0..Budget

Quiescent == ~ENABLED Internal
InFlight == Cardinality({c \in Callers : pc[c] = "exec"})
AllBack == \A c \in Callers : pc[c] \in {"idle", "ret"}

\* C15: never more than n executions that ran to completion, never more than n + panics entered
AtMostN == okexecs <= N /\ execs <= N + panics /\ execs <= calls

\* C15: exactly min(n, calls) executions (judged on panic-free runs, see header; observed when
\* nothing is in flight any more)
ExactlyMin == (Quiescent /\ AllBack /\ panics = 0) => execs = Min(N, calls)
\* at every quiescent point: whoever could execute has entered (nobody waits while capacity is free)
Progress == (Quiescent /\ panics = 0) =>
               IF Mode = "limitExec" THEN execs = Min(N, calls) \/ (InFlight = 1 /\ execs <= Min(N, calls))
                                     ELSE execs = Min(N, calls)

\* C15 (5.0): mutual exclusion for the limitExec family only
MutualExclusion == Mode = "limitExec" => InFlight <= 1

\* C15: calls beyond the limit return the last result; executing calls return their own
LaterCallsSeeLast == ~bad

\* NOT a property: Operation.Limit documents that executions may overlap.  OpLimit_overlap.cfg expects this
\* to be violated, which shows the model really allows it (why only the count is judged there).
Overlap1 == InFlight <= 1

NoStuck == (Quiescent /\ InFlight = 0) => AllBack
NoLeak  == (Quiescent /\ InFlight = 0) => mu = Free

Settles == <>[]Quiescent
=============================================================================
