------------------------------ MODULE Retry ------------------------------
(* The Retry(n) classification loops as sequential machines over scripted       *)
(* result sequences (C15):                                                     *)
(*   Kind = "worker"    Worker.Retry   worker.go:436-455  (Processor.Retry,     *)
(*                      process.go:394, is pf.Worker(in).Retry(n))              *)
(*       for i := 0; i < n; i++ { e := wf(ctx)                                  *)
(*         e == nil              -> return nil                                  *)
(*         IsExpiredContext(e)   -> return Join(e, err)                         *)
(*         Is(e, ErrIteratorSkip)-> continue                                    *)
(*         IsTerminating(e)      -> return nil          (io.EOF, ErrCurrentOpAbort) *)
(*         default               -> err = Join(e, err) }                        *)
(*       return err                                                             *)
(*   Kind = "producer"  Producer.Retry producer.go:410-429                      *)
(*         e == nil              -> return value, nil                           *)
(*         IsTerminating(e)      -> return zero, Join(e, err)   (EOF, abort, context) *)
(*         Is(e, ErrIteratorSkip)-> continue                                    *)
(*         default               -> err = Join(e, err)                          *)
(* The script (what the wrapped function returns on its 1st, 2nd, ... call) and *)
(* n are chosen in Init, so TLC enumerates every script of length Len over      *)
(* Results and every n in 0..MaxN.  A panic of the wrapped function propagates. *)
(*                                                                            *)
(* ContinueAfterEOF = TRUE is the mutation "terminating error treated like an   *)
(* ordinary one"; Retry_bug.cfg expects StopsAtFirst to fail.                   *)
(***************************************************************************)
EXTENDS Integers, Sequences, FiniteSets, TLC

CONSTANTS Results, ScriptLen, MaxN, Kinds, ContinueAfterEOF

VARIABLES kind, n, script, pc, i, attempts, acc, result
vars == <<kind, n, script, pc, i, attempts, acc, result>>

NoResult == [class |-> "-", errs |-> {}, val |-> 0]

Init == /\ kind \in Kinds /\ n \in 0..MaxN /\ script \in [1..ScriptLen -> Results]
        /\ pc = "loop" /\ i = 0 /\ attempts = 0 /\ acc = {} /\ result = NoResult

Return(cl, es, v) == pc' = "done" /\ result' = [class |-> cl, errs |-> es, val |-> v]
Class(es) == IF es = {} THEN "ok" ELSE "err"

\* Internal: for i < n  -> call the wrapped function, else return err
Loop == /\ pc = "loop"
        /\ IF i < n /\ attempts < ScriptLen
             THEN pc' = "call" /\ attempts' = attempts + 1 /\ UNCHANGED result
             ELSE Return(Class(acc), acc, 0) /\ UNCHANGED attempts
        /\ UNCHANGED <<kind, n, script, i, acc>>

\* the wrapped function (client code) returns script[attempts] and the switch classifies it; the machine is
\* sequential, so the client's step and the library's step are one action here
Classify ==
  /\ pc = "call"
  /\ LET r == script[attempts] IN
       CASE r = "ok"    -> Return("ok", {}, attempts) /\ UNCHANGED <<i, acc>>
         [] r = "panic" -> Return("panic", {}, 0) /\ UNCHANGED <<i, acc>>
         [] r = "ctx"   -> Return("err", acc \cup {attempts}, 0) /\ UNCHANGED <<i, acc>>
         [] r = "skip"  -> pc' = "loop" /\ i' = i + 1 /\ UNCHANGED <<acc, result>>
         [] r = "eof"   -> IF ContinueAfterEOF
                             THEN pc' = "loop" /\ i' = i + 1 /\ acc' = acc \cup {attempts} /\ UNCHANGED result
                             ELSE /\ IF kind = "worker" THEN Return("ok", {}, 0)
                                                         ELSE Return("err", acc \cup {attempts}, 0)
                                  /\ UNCHANGED <<i, acc>>
         [] OTHER       -> pc' = "loop" /\ i' = i + 1 /\ acc' = acc \cup {attempts} /\ UNCHANGED result
  /\ UNCHANGED <<kind, n, script, attempts>>

Next == Loop \/ Classify
Spec == Init /\ [][Next]_vars /\ WF_vars(Next)

(* ------------------------------------------------------------ Properties *)
Stops == {"ok", "eof", "ctx", "panic"}
Min(a, b) == IF a < b THEN a ELSE b
FirstStop == IF \E j \in 1..ScriptLen : script[j] \in Stops
               THEN CHOOSE j \in 1..ScriptLen : script[j] \in Stops /\ \A k \in 1..(j-1) : script[k] \notin Stops
               ELSE ScriptLen + 1
Done == pc = "done"

\* C15: at most n attempts
AtMostN == attempts <= n
\* C15: stops at the first success or terminating error (and at nothing else but n)
StopsAtFirst == Done => attempts = Min(n, Min(FirstStop, ScriptLen))
\* C15: failures are reported only if no attempt succeeded
ReportOnlyIfNoSuccess == (Done /\ result.class = "err") => \A j \in 1..attempts : script[j] # "ok"
SuccessWins == (Done /\ attempts > 0 /\ script[attempts] = "ok") =>
                   result.class = "ok" /\ (kind = "producer" => result.val = attempts)
\* documented by all three Retry methods: ordinary failures are aggregated and returned when the retry
\* fails; a context error is returned; skips are never reported
FailureReported == (Done /\ attempts = n /\ FirstStop > n) =>
                       result.errs = {j \in 1..attempts : script[j] = "err"}
CtxReported == (Done /\ attempts > 0 /\ script[attempts] = "ctx") => (result.class = "err" /\ attempts \in result.errs)
SkipNeverReported == \A j \in result.errs : script[j] # "skip"
Terminates == <>Done
=============================================================================
