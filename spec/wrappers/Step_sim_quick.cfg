SPECIFICATION Spec
CONSTANTS
  Callers = {"c1", "c2", "c3", "c4"}
  Families = {"once", "limit", "oplimit", "launch"}
  MaxN = 3
  MaxM = 3
  ScriptLen = 3
  Results = {"ok", "err", "skip", "eof", "ctx", "panic"}
  Depth = 10
INVARIANT Inv
CONSTRAINT EmitAll
CHECK_DEADLOCK FALSE
