SPECIFICATION Spec
CONSTANTS
  Callers = {c1, c2, c3, c4}
  Fns = {f1, f2}
  Results = {"ok", "err", "skip", "eof", "ctx", "panic"}
  Budget = 5
  EarlyUnlock = FALSE
INVARIANTS TypeOK MutualExclusion HolderExecutes NoStuck AllExecute
PROPERTIES Settles
CHECK_DEADLOCK FALSE
