SPECIFICATION Spec
CONSTANTS
  Kinds = {"Operation.Launch"}
  Bgs = {b1}
  Waiters = {w1, w2}
  Results = {"ok"}
  MaxExecs = 1
  LaunchWaits = FALSE
INVARIANTS WaiterImpliesDone BlockedWhileRunning
CHECK_DEADLOCK FALSE
