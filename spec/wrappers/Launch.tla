------------------------------ MODULE Launch ------------------------------
(* Signal / Launch / Background / StartGroup: a background goroutine plus a waiter (C15). *)
(*                                                                                      *)
(*  "Operation.Signal"  operation.go:66-70   out := make(chan struct{}); go func(){ defer close(out); wf(ctx) }() *)
(*                                           waiter = <-out                                                       *)
(*  "Operation.Launch"  operation.go:75-78   sig := wf.Signal(ctx)                                                 *)
(*                                           return func(ctx) { WaitChannel(sig) }                                 *)
(*        AS PINNED the returned operation only *constructs* WaitChannel(sig) and never calls it, so it           *)
(*        returns at once (LaunchWaits = FALSE).  LaunchWaits = TRUE is the repaired code                         *)
(*        (fixes/operation-launch-wait.diff): return WaitChannel(sig), i.e. select { <-ctx.Done(); <-sig }.       *)
(*  "Worker.Signal"     worker.go:131-135    go func(){ defer out.Close(); out.Send().Ignore(ctx, wf.Run(ctx)) }() *)
(*                                           (blocking send of the error, then close); waiter = <-out              *)
(*  "Worker.Launch"     worker.go:143-146    WorkerFuture(wf.Signal(ctx)): select { ctx.Done / receive }           *)
(*        also Worker.Background (worker.go:150), Producer.Background (producer.go:78),                          *)
(*        Processor.Background (process.go:196), which are Launch plus a conversion                               *)
(*  "Group"             operation.go:91-95, worker.go:390-398, sync.go:90  wg.Inc(); go func(){ op(ctx); wg.Done() } *)
(*        for each of the M copies; waiter = wg.Wait(ctx) (the WaitGroup itself is C14's subject)                  *)
(*  "Producer.Launch"   producer.go:216-225  background loop ReadAll: v, err := pf(ctx); ok -> blocking send;     *)
(*        skip -> again; EOF / error -> record error, close.  Waiter = WithErrorCheck(receive).  The producer    *)
(*        is executed repeatedly, so "the background execution" of a waiter is the one whose value it got.        *)
(*                                                                                      *)
(* External: a waiter is invoked; a waiter's context is cancelled; the background function returns.              *)
(***************************************************************************)
EXTENDS Integers, Sequences, FiniteSets, TLC

CONSTANTS Kinds,       \* which constructors are explored (chosen in Init)
          Bgs, Waiters, Results, MaxExecs, LaunchWaits

Chan == {"Worker.Signal", "Worker.Launch", "Producer.Launch"}          \* a value is handed over
TakesCtx == {"Operation.Launch", "Worker.Launch", "Group", "Producer.Launch"}

VARIABLES Kind, bpc, wpc, closed, counter, wdone, execs, fin, okfin, ended, returned, early
vars == <<Kind, bpc, wpc, closed, counter, wdone, execs, fin, okfin, ended, returned, early>>

\* StartGroup runs one copy per element of Bgs, everything else a single background goroutine
B1 == CHOOSE b \in Bgs : TRUE
Live(k) == IF k = "Group" THEN Bgs ELSE {B1}
NB == Cardinality(Live(Kind))

\* construction (Signal/Launch/StartGroup called by the client) has happened: the goroutines exist
Init == /\ Kind \in Kinds
        /\ bpc = [b \in Bgs |-> IF b \in Live(Kind) THEN "exec" ELSE "done"] /\ wpc = [w \in Waiters |-> "idle"]
        /\ closed = FALSE /\ counter = NB /\ wdone = [w \in Waiters |-> FALSE]
        /\ execs = NB /\ fin = 0 /\ okfin = 0 /\ ended = FALSE /\ returned = 0 /\ early = FALSE

(* ------------------------------------------------------------ External *)
StartWaiter(w) == /\ wpc[w] = "idle" /\ wpc' = [wpc EXCEPT ![w] = "recv"]
                  /\ UNCHANGED <<Kind, bpc, closed, counter, wdone, execs, fin, okfin, ended, returned, early>>

CancelWaiter(w) == /\ Kind \in TakesCtx /\ ~wdone[w] /\ wdone' = [wdone EXCEPT ![w] = TRUE]
                   /\ UNCHANGED <<Kind, bpc, wpc, closed, counter, execs, fin, okfin, ended, returned, early>>

FnReturn(b, r) ==
    /\ bpc[b] = "exec" /\ fin' = fin + 1
    /\ CASE Kind \in {"Operation.Signal", "Operation.Launch"} -> bpc' = [bpc EXCEPT ![b] = "close"] /\ UNCHANGED <<okfin, ended>>
         [] Kind \in {"Worker.Signal", "Worker.Launch"}       -> bpc' = [bpc EXCEPT ![b] = "send"] /\ UNCHANGED <<okfin, ended>>
         [] Kind = "Group"                                    -> bpc' = [bpc EXCEPT ![b] = "wgdone"] /\ UNCHANGED <<okfin, ended>>
         [] Kind = "Producer.Launch" ->
               CASE r = "ok"   -> bpc' = [bpc EXCEPT ![b] = "send"] /\ okfin' = okfin + 1 /\ UNCHANGED ended
                 [] r = "skip" -> bpc' = [bpc EXCEPT ![b] = "again"] /\ UNCHANGED <<okfin, ended>>
                 [] OTHER      -> bpc' = [bpc EXCEPT ![b] = "close"] /\ ended' = TRUE /\ UNCHANGED okfin
    /\ UNCHANGED <<Kind, wpc, closed, counter, wdone, execs, returned>>
    /\ UNCHANGED early

External == \/ \E w \in Waiters : StartWaiter(w) \/ CancelWaiter(w)
            \/ \E b \in Bgs, r \in Results : FnReturn(b, r)

(* ------------------------------------------------------------ Internal *)
\* has the background work this waiter is entitled to wait for completed?
\* (Producer.Launch: a value handed over comes from a completed execution that no other waiter consumed:
\*  `returned` counts the values received, okfin the executions that produced one)
Justified(handoff) == IF Kind = "Producer.Launch" THEN ended \/ (handoff /\ returned + 1 <= okfin) ELSE fin = NB
WReturn(w, handoff) == /\ wpc' = [wpc EXCEPT ![w] = "ret"]
                       /\ returned' = IF handoff THEN returned + 1 ELSE returned
                       /\ early' = (early \/ ~(wdone[w] \/ Justified(handoff)))

Close(b) == /\ bpc[b] = "close" /\ closed' = TRUE /\ bpc' = [bpc EXCEPT ![b] = "done"]
            /\ UNCHANGED <<Kind, wpc, counter, wdone, execs, fin, okfin, ended, returned, early>>

\* unbuffered channel: the blocked sender meets a blocked receiver
Handoff(b, w) == /\ Kind \in Chan /\ bpc[b] = "send" /\ wpc[w] = "recv"
                 /\ bpc' = [bpc EXCEPT ![b] = IF Kind = "Producer.Launch" THEN "again" ELSE "close"]
                 /\ WReturn(w, TRUE)
                 /\ UNCHANGED <<Kind, closed, counter, wdone, execs, fin, okfin, ended>>

\* Producer.Launch: ReadAll calls the producer again
Again(b) == /\ bpc[b] = "again" /\ execs < MaxExecs
            /\ bpc' = [bpc EXCEPT ![b] = "exec"] /\ execs' = execs + 1
            /\ UNCHANGED <<Kind, wpc, closed, counter, wdone, fin, okfin, ended, returned, early>>

WgDone(b) == /\ bpc[b] = "wgdone" /\ counter' = counter - 1 /\ bpc' = [bpc EXCEPT ![b] = "done"]
             /\ UNCHANGED <<Kind, wpc, closed, wdone, execs, fin, okfin, ended, returned, early>>

\* the waiter's own exits (other than a handoff)
WaiterStep(w) ==
    /\ wpc[w] = "recv"
    /\ CASE Kind = "Operation.Signal" -> closed
         [] Kind = "Operation.Launch" -> IF LaunchWaits THEN closed \/ wdone[w] ELSE TRUE
         [] Kind = "Worker.Signal"    -> closed
         [] Kind = "Worker.Launch"    -> closed \/ wdone[w]
         [] Kind = "Group"            -> counter = 0 \/ wdone[w]
         [] Kind = "Producer.Launch"  -> closed \/ wdone[w] \/ ended       \* ended: the error future already reports
    /\ WReturn(w, FALSE)
    /\ UNCHANGED <<Kind, bpc, closed, counter, wdone, execs, fin, okfin, ended>>

Internal == \/ \E b \in Bgs : Close(b) \/ Again(b) \/ WgDone(b) \/ \E w \in Waiters : Handoff(b, w)
            \/ \E w \in Waiters : WaiterStep(w)
Next == Internal \/ External
Spec == Init /\ [][Next]_vars /\ WF_vars(Internal)

(* ------------------------------------------------------------ Properties *)
Quiescent == ~ENABLED Internal
\* C15: a waiter does not complete before the background execution has (unless its own context ended)
WaiterImpliesDone == ~early
\* at quiescence with the background finished nobody is left waiting (single-shot kinds)
NoStuck == (Quiescent /\ Kind # "Producer.Launch" /\ \A b \in Bgs : bpc[b] = "done") =>
               \A w \in Waiters : wpc[w] # "recv"
\* a waiter that must wait is really blocked at quiescence (what the harness observes)
BlockedWhileRunning == (Quiescent /\ Kind # "Producer.Launch" /\ fin < NB) =>
               \A w \in Waiters : (wpc[w] = "ret" => wdone[w])
Settles == <>[]Quiescent
=============================================================================
