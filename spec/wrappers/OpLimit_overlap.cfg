SPECIFICATION Spec
CONSTANTS
  Callers = {c1, c2}
  Results = {"ok"}
  N = 2
  Budget = 2
  Mode = "opLimit"
  StaleFast = FALSE
INVARIANTS TypeOK Overlap1
CHECK_DEADLOCK FALSE
