------------------------------ MODULE Once ------------------------------
(* Implementation-shaped specification of the Once wrappers of tychoish/fun   *)
(* (property C15):                                                            *)
(*   Worker.Once      worker.go:157-164     once.Do(func(){ err = wf(ctx) }); return err          *)
(*   Operation.Once   operation.go:59-62    once.Do(func(){ wf(ctx) })                            *)
(*   Producer.Once    producer.go:249-261   once.Do(func(){ out, err = pf(ctx) }); return out,err *)
(*   Processor.Once   process.go:225-232    once.Do(func(){ err = pf(ctx, in) }); return err      *)
(*   Handler.Once     handler.go:115-118    once.Do(func(){ of(in) })                             *)
(*   Future.Once, adt.Mnemonize, ft.OnceDo  ft/ft.go:238-246  opw := Once(cache = op()); opw(); return cache *)
(*   adt.Once.Resolve adt/atomics.go:73-74  o.once.Do(o.populate); return o.comp                  *)
(*                                                                            *)
(* All are sync.Once plus a cached result.  sync.Once (Go 1.23 sync/once.go): *)
(*   Do(f):     if done.Load() == 0 { doSlow(f) }                             *)
(*   doSlow(f): m.Lock(); defer m.Unlock()                                     *)
(*              if done.Load() == 0 { defer done.Store(1); f() }               *)
(* One action per atomic step of that code.  Client-controlled steps - a      *)
(* caller invoking the wrapper, the wrapped function returning (or            *)
(* panicking) - are External; everything else is Internal, and                *)
(* Quiescent == ~ENABLED Internal is where the harness observes the code.     *)
(*                                                                            *)
(* StoreFirst = TRUE models the mutation "flag set before the function has    *)
(* finished" (callers then return the cached zero value early); the cfg       *)
(* Once_bug.cfg expects the violation and is the non-vacuity self-test.       *)
(***************************************************************************)
EXTENDS Integers, Sequences, FiniteSets, TLC

CONSTANTS Callers,     \* concurrent callers of the wrapped value
          Results,     \* what the wrapped function may return: "ok","err","skip","eof","ctx","panic"
          Budget,      \* total number of calls explored (callers may call again after returning)
          StoreFirst   \* BOOLEAN mutation switch, FALSE = the code as it is

Free == "free"
Zero == "zero"        \* the cache before any execution stored into it

VARIABLES pc,        \* per caller
          flag,      \* once.done
          mu,        \* once.m holder
          cache,     \* the captured result variable(s)
          res,       \* per caller: what its current/last call returned
          execs,     \* history: number of executions of the wrapped function started
          fin,       \* history: number of executions finished (returned or panicked)
          outcome,   \* history: what the (first) execution produced
          budget,
          early      \* history: some call returned before the execution had finished
vars == <<pc, flag, mu, cache, res, execs, fin, outcome, budget, early>>

Init == /\ pc = [c \in Callers |-> "idle"]
        /\ flag = 0 /\ mu = Free /\ cache = Zero
        /\ res = [c \in Callers |-> "-"]
        /\ execs = 0 /\ fin = 0 /\ outcome = "-" /\ budget = Budget /\ early = FALSE

Goto(c, l) == pc' = [pc EXCEPT ![c] = l]

(* ------------------------------------------------------------ External *)
Start(c) == /\ pc[c] \in {"idle", "ret"} /\ budget > 0
            /\ budget' = budget - 1 /\ Goto(c, "fast")
            /\ res' = [res EXCEPT ![c] = "-"]
            /\ UNCHANGED <<flag, mu, cache, execs, fin, outcome, early>>

\* the wrapped function (the client's code) returns r, or panics
FnReturn(c, r) == /\ pc[c] = "exec"
                  /\ fin' = fin + 1
                  /\ outcome' = IF outcome = "-" THEN r ELSE outcome
                  /\ IF r = "panic"
                       THEN /\ Goto(c, "unwind") /\ UNCHANGED cache      \* the assignment never happens
                       ELSE /\ Goto(c, "store") /\ cache' = r            \* err = wf(ctx)
                  /\ UNCHANGED <<flag, mu, res, execs, budget, early>>

External == \E c \in Callers : Start(c) \/ \E r \in Results : FnReturn(c, r)

(* ------------------------------------------------------------ Internal *)
\* Do: if done.Load() == 0 { doSlow }
Fast(c) == /\ pc[c] = "fast"
           /\ Goto(c, IF flag = 0 THEN "lock" ELSE "read")
           /\ UNCHANGED <<flag, mu, cache, res, execs, fin, outcome, budget, early>>

\* doSlow: m.Lock()
Lock(c) == /\ pc[c] = "lock" /\ mu = Free
           /\ mu' = c /\ Goto(c, "check")
           /\ UNCHANGED <<flag, cache, res, execs, fin, outcome, budget, early>>

\* if done.Load() == 0 { defer done.Store(1); f() }  -- f() begins: the wrapped function is entered
Check(c) == /\ pc[c] = "check"
            /\ IF flag = 0
                 THEN /\ Goto(c, "exec") /\ execs' = execs + 1
                      /\ flag' = IF StoreFirst THEN 1 ELSE flag
                 ELSE /\ Goto(c, "unlock") /\ UNCHANGED <<execs, flag>>
            /\ UNCHANGED <<mu, cache, res, fin, outcome, budget, early>>

\* deferred done.Store(1) (runs on normal return and on panic)
Store(c) == /\ pc[c] \in {"store", "unwind"}
            /\ flag' = 1
            /\ Goto(c, IF pc[c] = "store" THEN "unlock" ELSE "unlockpanic")
            /\ UNCHANGED <<mu, cache, res, execs, fin, outcome, budget, early>>

\* deferred m.Unlock()
Unlock(c) == /\ pc[c] \in {"unlock", "unlockpanic"} /\ mu = c
             /\ mu' = Free
             /\ IF pc[c] = "unlock"
                  THEN Goto(c, "read") /\ UNCHANGED <<res, early>>
                  ELSE /\ Goto(c, "ret") /\ res' = [res EXCEPT ![c] = "panic"]     \* the panic propagates to this caller
                       /\ early' = (early \/ fin = 0)
             /\ UNCHANGED <<flag, cache, execs, fin, outcome, budget>>

\* return err  (read of the captured variable after once.Do returned)
Read(c) == /\ pc[c] = "read"
           /\ res' = [res EXCEPT ![c] = cache] /\ Goto(c, "ret")
           /\ early' = (early \/ fin = 0)
           /\ UNCHANGED <<flag, mu, cache, execs, fin, outcome, budget>>

Internal == \E c \in Callers : Fast(c) \/ Lock(c) \/ Check(c) \/ Store(c) \/ Unlock(c) \/ Read(c)

Next == Internal \/ External
Spec == Init /\ [][Next]_vars /\ WF_vars(Internal)

(* ------------------------------------------------------------ Properties *)
TypeOK == /\ flag \in {0, 1} /\ mu \in Callers \cup {Free}
          /\ execs \in 0..Budget /\ fin \in 0..execs

Quiescent == ~ENABLED Internal
Executing == \E c \in Callers : pc[c] = "exec"
InCall(c) == pc[c] \notin {"idle", "ret"}

\* C15: the function executes at most once, and exactly once as soon as anybody has called
AtMostOnce  == execs <= 1
ExactlyOnce == Quiescent /\ (\E c \in Callers : pc[c] # "idle") => execs = 1

\* C15: no caller returns before that execution has finished
NoReturnBeforeDone == ~early

\* C15: all callers observe its result (a panicking execution has no result: not judged)
AllSeeResult == \A c \in Callers : (pc[c] = "ret" /\ outcome \notin {"-", "panic"}) => res[c] = outcome

\* at quiescence a caller is still inside the wrapper only while the execution is held by the client
NoStuck == Quiescent /\ ~Executing => \A c \in Callers : ~InCall(c)
NoLeak  == Quiescent /\ ~Executing => mu = Free

\* with finitely many client steps the library always settles
Settles == <>[]Quiescent
=============================================================================
