SPECIFICATION Spec
CONSTANTS
  Callers = {c1, c2, c3, c4}
  Results = {"ok", "err", "skip", "eof", "ctx", "panic"}
  Budget = 5
  StoreFirst = FALSE
INVARIANTS TypeOK AtMostOnce ExactlyOnce NoReturnBeforeDone AllSeeResult NoStuck NoLeak
PROPERTIES Settles
CHECK_DEADLOCK FALSE
