SPECIFICATION Spec
CONSTANTS
  Kinds = {"Operation.Signal", "Operation.Launch", "Worker.Signal", "Worker.Launch", "Group", "Producer.Launch"}
  Bgs = {b1, b2, b3}
  Waiters = {w1, w2, w3}
  Results = {"ok", "err", "skip", "eof", "ctx"}
  MaxExecs = 3
  LaunchWaits = TRUE
INVARIANTS WaiterImpliesDone NoStuck BlockedWhileRunning
PROPERTIES Settles
CHECK_DEADLOCK FALSE
