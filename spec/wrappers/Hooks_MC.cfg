SPECIFICATION Spec
CONSTANTS
  Kinds = {"Worker.Join", "Processor.Join", "Operation.Join", "Handler.Join", "Handler.Chain", "Future.Join", "Worker.PreHook", "Producer.PreHook", "Processor.PreHook", "Operation.PreHook", "Future.PreHook", "Handler.PreHook", "Worker.PostHook", "Producer.PostHook", "Processor.PostHook", "Operation.PostHook", "Future.PostHook"}
  SkipCtxCheck = FALSE
INVARIANTS OrderOK NoRunAfterError NoRunAfterExpiry JoinRunsAll PreHookOrder PostHookOrder
PROPERTIES Terminates
CHECK_DEADLOCK FALSE
