SPECIFICATION Spec
CONSTANTS
  Callers = {c1, c2, c3}
  Results = {"ok", "err", "skip", "eof", "ctx", "panic"}
  N = 3
  Budget = 5
  Mode = "opLimit"
  StaleFast = FALSE
INVARIANTS TypeOK AtMostN ExactlyMin Progress MutualExclusion LaterCallsSeeLast NoStuck NoLeak
PROPERTIES Settles
CHECK_DEADLOCK FALSE
