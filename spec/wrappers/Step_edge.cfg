SPECIFICATION Spec
CONSTANTS
  Callers = {"c1", "c2", "c3"}
  Families = {"once", "limit", "oplimit", "lock", "launch"}
  MaxN = 3
  MaxM = 3
  ScriptLen = 3
  Results = {"ok", "err", "panic"}
  Depth = 8
INVARIANT Inv
VIEW view
ACTION_CONSTRAINT EmitEdge
CHECK_DEADLOCK FALSE
