--------------------------- MODULE WrappersTrace ---------------------------
(* Code -> model: validates un-stepped, really concurrent histories recorded from   *)
(* the wrappers of tychoish/fun (harness: vh-wrappers record) against the abstract  *)
(* contracts of property C15.  The wrapped function is the harness's probe, so its   *)
(* executions are logged directly (`enter k` / `exit k res`, global sequence), as    *)
(* are the calls of the wrapped value (`call id` / `ret id from`, where `from` is    *)
(* the execution whose result the caller observed: 0 = not identifiable for this     *)
(* function type, -1 = the caller got the panic).  TLC is a monitor here: every      *)
(* event must be allowed by the contract state.                                      *)
(*                                                                                   *)
(* Soundness of the event order: `enter` is logged after the execution began and     *)
(* `exit` before it ends, so "enter k2 logged before exit k1" implies a real overlap; *)
(* `call` is logged before and `ret` after the invocation, so an execution entered    *)
(* after `call id` and the results exited before `ret id` are the only ones the call  *)
(* can legitimately report.  Reorderings by the logger only make the check more       *)
(* permissive.                                                                        *)
(*                                                                                   *)
(*   once    at most one `enter`; no `ret` before an `exit`; an identifiable result   *)
(*           is the result of that execution (not judged after a panic)               *)
(*   limit   (limitExec family) no overlap; enters <= n + panics; an identifiable     *)
(*           result is the call's own execution or, once n executions completed, the  *)
(*           n-th (last) one; a call returns only if an execution entered during it   *)
(*           or the limit is exhausted; at the end enters = min(n, calls) (panic-free)*)
(*   oplimit (Operation.Limit) only the count                                         *)
(*   lock    no overlap                                                               *)
(*   launch  a waiter (live context) returns only after all m background executions   *)
(*           have exited                                                              *)
(***************************************************************************)
EXTENDS Integers, Sequences, FiniteSets, TLC, Json

Trace == ndJsonDeserialize("trace.ndjson")

VARIABLES l, cfg, entered, inflight, exited, okidx, panics, calls, pend,
          skip     \* the current history has been rejected: its remaining events are consumed unjudged
vars == <<l, cfg, entered, inflight, exited, okidx, panics, calls, pend, skip>>

Ev == Trace[l]
More == l <= Len(Trace)
Min(a, b) == IF a < b THEN a ELSE b
NoCfg == [fam |-> "-", n |-> 0, m |-> 0]
Exclusive == cfg.fam \in {"once", "limit", "lock"}
abs == <<cfg, entered, inflight, exited, okidx, panics, calls, pend>>

Init == l = 1 /\ cfg = NoCfg /\ entered = 0 /\ inflight = 0 /\ exited = {} /\ okidx = <<>>
        /\ panics = 0 /\ calls = 0 /\ pend = {} /\ skip = FALSE

\* an event the contract does not allow: report it, and do not judge the rest of this history
\* (one TLC run thus reports every offending history of the concatenation)
Reject == /\ PrintT(<<"REJECTED", ToJson([at |-> l, event |-> Ev])>>)
          /\ skip' = TRUE /\ l' = l + 1 /\ UNCHANGED abs
Judge(ok, update) == IF skip THEN l' = l + 1 /\ UNCHANGED <<abs, skip>>
                     ELSE IF ok THEN update /\ l' = l + 1 /\ UNCHANGED skip
                     ELSE Reject

Reset == /\ More /\ Ev.ev = "reset"
         /\ cfg' = NoCfg /\ entered' = 0 /\ inflight' = 0 /\ exited' = {} /\ okidx' = <<>>
         /\ panics' = 0 /\ calls' = 0 /\ pend' = {} /\ skip' = FALSE /\ l' = l + 1

Start == /\ More /\ Ev.ev = "init"
         /\ Judge(TRUE, /\ cfg' = [fam |-> Ev.fam, n |-> Ev.n, m |-> Ev.m]
                        /\ UNCHANGED <<entered, inflight, exited, okidx, panics, calls, pend>>)

Call == /\ More /\ Ev.ev = "call"
        /\ Judge(TRUE, /\ pend' = pend \cup {[id |-> Ev.id, since |-> {}]} /\ calls' = calls + 1
                       /\ UNCHANGED <<cfg, entered, inflight, exited, okidx, panics>>)

\* an execution of the wrapped function begins
EnterOK == /\ Exclusive => inflight = 0                                           \* MutualExclusion
           /\ cfg.fam = "once" => entered = 0                                     \* ExactlyOnce (at most)
           /\ cfg.fam \in {"limit", "oplimit"} => entered + 1 <= cfg.n + panics   \* never more than n (completed) executions
Enter == /\ More /\ Ev.ev = "enter"
         /\ Judge(EnterOK, /\ entered' = entered + 1 /\ inflight' = inflight + 1
                           /\ pend' = {[p EXCEPT !.since = @ \cup {Ev.k}] : p \in pend}
                           /\ UNCHANGED <<cfg, exited, okidx, panics, calls>>)

Exit == /\ More /\ Ev.ev = "exit"
        /\ Judge(TRUE, /\ exited' = exited \cup {Ev.k} /\ inflight' = inflight - 1
                       /\ IF Ev.res = "panic" THEN panics' = panics + 1 /\ UNCHANGED okidx
                                              ELSE okidx' = Append(okidx, Ev.k) /\ UNCHANGED panics
                       /\ UNCHANGED <<cfg, entered, calls, pend>>)

RetOK(p) ==
  CASE cfg.fam = "once" ->
         /\ exited # {}                                                          \* NoReturnBeforeDone
         /\ (Ev.from > 0 /\ panics = 0) => Ev.from \in exited                    \* AllSeeResult
    [] cfg.fam = "limit" ->
         \/ Ev.from = -1
         \/ panics > 0                                                           \* unspecified corner: not judged
         \/ /\ Ev.from > 0 /\ Ev.from \in exited
            /\ Ev.from \in p.since \/ (Len(okidx) >= cfg.n /\ Ev.from = okidx[cfg.n])
         \/ /\ Ev.from = 0
            /\ p.since # {} \/ Len(okidx) >= cfg.n
    [] cfg.fam = "launch" ->
         Ev.live = 1 => Cardinality(exited) >= cfg.m                             \* WaiterReturn => BackgroundDone
    [] OTHER -> TRUE

Pending(id) == CHOOSE p \in pend : p.id = id
Ret == /\ More /\ Ev.ev = "ret"
       /\ Judge((\E p \in pend : p.id = Ev.id) /\ RetOK(Pending(Ev.id)),
                /\ pend' = pend \ {Pending(Ev.id)}
                /\ UNCHANGED <<cfg, entered, inflight, exited, okidx, panics, calls>>)

\* every call has returned
EndOK == /\ pend = {}
         /\ cfg.fam = "once" => (calls > 0 => entered = 1)
         /\ cfg.fam \in {"limit", "oplimit"} =>
                /\ Min(cfg.n, calls) <= entered /\ entered <= Min(cfg.n + panics, calls)
End == /\ More /\ Ev.ev = "end"
       /\ Judge(EndOK, UNCHANGED abs)

Next == Reset \/ Start \/ Call \/ Enter \/ Exit \/ Ret \/ End
Spec == Init /\ [][Next]_vars

\* acceptance: the highest trace position explained (needs -workers 1)
HighWater == TLCSet(1, IF TLCGet(1) < l THEN l ELSE TLCGet(1))
\* (an event of an unknown type stops the monitor: reported as rejected as well)
Accepted == \/ TLCGet(1) = Len(Trace) + 1
            \/ PrintT(<<"REJECTED", ToJson([at |-> TLCGet(1), event |-> Trace[TLCGet(1)]])>>) /\ FALSE
ASSUME TLCSet(1, 0)
=============================================================================
