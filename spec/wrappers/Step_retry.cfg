SPECIFICATION Spec
CONSTANTS
  Callers = {"c1"}
  Families = {"retry"}
  MaxN = 3
  MaxM = 1
  ScriptLen = 4
  Results = {"ok", "err", "skip", "eof", "ctx", "panic"}
  Depth = 1
INVARIANT Inv
CONSTRAINT EmitAll
CHECK_DEADLOCK FALSE
