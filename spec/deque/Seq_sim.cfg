SPECIFICATION Spec
CONSTANTS
  Scale = 60
  Depth = 40
  Configs <- CfgAll
INVARIANTS Inv 
CONSTRAINT EmitAll
CHECK_DEADLOCK FALSE
