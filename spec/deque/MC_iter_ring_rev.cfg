SPECIFICATION Spec
CONSTANTS
  Iters = {i1}
  Blocking = {i1}
  Dir = "rev"
  MaxPush = 4
  MaxCalls = 3
  Budget = 5
  AllowPop = FALSE
  Cap = 2
  AllowForce = TRUE
  SignalFixed = TRUE
  CloseBroadcasts = TRUE
  HelperLocked = TRUE
  EvictKeepsItem = TRUE
INVARIANTS TypeOK ShapeOK PointersOK YieldsArePushed InOrderNoSkip NoStuckIter ResultsOK NoLeak
PROPERTIES Settles
CHECK_DEADLOCK FALSE
