SPECIFICATION Spec
CONSTANTS
  Iters = {i1}
  Blocking = {i1}
  Dir = "rev"
  MaxPush = 3
  MaxCalls = 3
  Budget = 4
  AllowPop = TRUE
  Cap = 0
  AllowForce = FALSE
  SignalFixed = TRUE
  CloseBroadcasts = TRUE
  HelperLocked = TRUE
  EvictKeepsItem = TRUE
INVARIANTS TypeOK ShapeOK PointersOK YieldsArePushed InOrderNoSkip NoStuckIter ResultsOK NoLeak
PROPERTIES Settles
CHECK_DEADLOCK FALSE
