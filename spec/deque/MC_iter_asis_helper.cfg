SPECIFICATION Spec
CONSTANTS
  Iters = {i1}
  Blocking = {i1}
  Dir = "fwd"
  MaxPush = 1
  MaxCalls = 1
  Budget = 1
  AllowPop = FALSE
  Cap = 0
  AllowForce = FALSE
  SignalFixed = TRUE
  CloseBroadcasts = TRUE
  HelperLocked = FALSE
  EvictKeepsItem = TRUE
INVARIANTS NoStuckIter

CHECK_DEADLOCK FALSE
