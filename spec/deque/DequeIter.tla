----------------------------- MODULE DequeIter -----------------------------
(* Implementation-shaped specification of the non-destructive iterators of    *)
(* pubsub.Deque (/repo/pubsub/deque.go) for property C20.                      *)
(*                                                                            *)
(*   Iters     each runs successive calls of the closure built by             *)
(*             confProducer(direction, blocking) (deque.go:309-329) wrapped   *)
(*             in WithLock(dq.mtx): Producer / ProducerReverse (non-blocking) *)
(*             ProducerBlocking / ProducerReverseBlocking, and the Iterator / *)
(*             IteratorReverse built on them.  Dir is the direction of every  *)
(*             iterator of the model, Blocking the set of blocking ones.      *)
(*   helpers   the per-wait goroutine of element.wait (deque.go:471) and the  *)
(*             `defer cancel()` that fires it when the wait returns           *)
(*   External  Push (at the far end in iteration direction: PushBack for      *)
(*             forward, PushFront for reverse iterators), PopFront, PopBack,  *)
(*             Close, the start of a call, cancellation of a call's context   *)
(*                                                                            *)
(* The list is modelled as it is: node 0 is the root of the circular doubly   *)
(* linked list, node n the n-th element pushed, nxt/prv the pointers.  pop    *)
(* (deque.go:388-412) unlinks the element from its neighbours and leaves the  *)
(* element's own pointers untouched ("in case we're using this item in an     *)
(* iterator"), so no pointer an iterator can reach is ever nil: the nil       *)
(* check of confProducer (deque.go:322) is dead code and `never follows a nil *)
(* pointer` is the structural invariant PointersOK.  An element popped while  *)
(* it was last keeps pointing at the root for ever.                           *)
(*                                                                            *)
(* The whole producer call runs under the deque mutex; element.wait releases  *)
(* it only inside cond.Wait() (Park / Wake).  Every waiter Signals its own    *)
(* cond before each cond.Wait() (deque.go:479): two waiters on one cond wake  *)
(* each other for ever (DESIGN.md 3.3) - explored for safety only             *)
(* (MC_iter_pingpong.cfg), liveness is checked with one blocking iterator.    *)
(*                                                                            *)
(* Switches (TRUE = /repo HEAD, FALSE = before the fix: commit):              *)
(*   SignalFixed     1bb36cf addAfter signals nfront when the new element is  *)
(*                   last and nback when it is first                          *)
(*   CloseBroadcasts 58b061a Close wakes all waiters                          *)
(*   HelperLocked    8d14576 helpers broadcast under the mutex                *)
(*                                                                            *)
(* Deliberate deviations: values are node numbers; pushes at the near end     *)
(* (which a positioned iterator can never see) and the capacity tracker are   *)
(* left out - every Push that happens is an admitted one.                     *)
(***************************************************************************)
EXTENDS Integers, Sequences, FiniteSets, TLC

CONSTANTS Iters, Blocking, Dir, MaxPush, MaxCalls, Budget, AllowPop,
          SignalFixed, CloseBroadcasts, HelperLocked

ASSUME Dir \in {"fwd", "rev"} /\ Blocking \subseteq Iters

Node == 0..MaxPush
Nil == -1
Free == "free"
NF == "nfront"
NB == "nback"
UP == "updates"
Conds == {NF, NB, UP}

VARIABLES nxt, prv, npushed, present, closed,             \* the deque
          mu, waitq, woken,                               \* mutex, notify lists, signalled waiters
          pc, cur, capt, cnd, done, armed, due,           \* per iterator: control, cursor, captured neighbour, cond, ctx, helpers
          yields, last, calls, started, tainted, eofok,   \* history variables
          budget

vars == <<nxt, prv, npushed, present, closed, mu, waitq, woken, pc, cur, capt, cnd, done, armed, due,
          yields, last, calls, started, tainted, eofok, budget>>
qvars == <<nxt, prv, npushed, present, closed>>
hvars == <<yields, last, calls, started, tainted, eofok>>

Init == /\ nxt = [n \in Node |-> IF n = 0 THEN 0 ELSE Nil] /\ prv = [n \in Node |-> IF n = 0 THEN 0 ELSE Nil]
        /\ npushed = 0 /\ present = {} /\ closed = FALSE
        /\ mu = Free /\ waitq = [c \in Conds |-> <<>>] /\ woken = {}
        /\ pc = [i \in Iters |-> "idle"] /\ cur = [i \in Iters |-> Nil] /\ capt = [i \in Iters |-> Nil]
        /\ cnd = [i \in Iters |-> UP] /\ done = [i \in Iters |-> FALSE]
        /\ armed = [i \in Iters |-> FALSE] /\ due = [c \in Conds |-> 0]
        /\ yields = [i \in Iters |-> <<>>] /\ last = [i \in Iters |-> "-"] /\ calls = [i \in Iters |-> 0]
        /\ started = [i \in Iters |-> FALSE] /\ tainted = [i \in Iters |-> FALSE] /\ eofok = [i \in Iters |-> TRUE]
        /\ budget = Budget

SeqToSet(s) == {s[k] : k \in 1..Len(s)}
Sig(w, c) == IF w[1][c] = <<>> THEN w ELSE <<[w[1] EXCEPT ![c] = Tail(@)], w[2] \cup {Head(w[1][c])}>>
Bc(w, c)  == <<[w[1] EXCEPT ![c] = <<>>], w[2] \cup SeqToSet(w[1][c])>>
W0 == <<waitq, woken>>
SetW(w) == waitq' = w[1] /\ woken' = w[2]

\* getNextOrPrevious(direction)
Get(n) == IF Dir = "fwd" THEN nxt[n] ELSE prv[n]

\* the list in iteration direction, as a sequence of nodes
RECURSIVE Walk(_, _)
Walk(n, k) == IF n = 0 \/ k = 0 THEN <<>> ELSE <<n>> \o Walk(Get(n), k - 1)
ListSeq == Walk(Get(0), MaxPush)

InCall(i) == pc[i] # "idle"

(* ------------------------------------------------------------ External *)
Start(i) == /\ pc[i] = "idle" /\ calls[i] < MaxCalls /\ last[i] # "eof"
            /\ pc' = [pc EXCEPT ![i] = "enter"] /\ calls' = [calls EXCEPT ![i] = @ + 1]
            /\ done' = [done EXCEPT ![i] = FALSE] /\ last' = [last EXCEPT ![i] = "-"]
            /\ started' = [started EXCEPT ![i] = TRUE]
            /\ UNCHANGED <<qvars, mu, waitq, woken, cur, capt, cnd, armed, due, yields, tainted, eofok, budget>>

Cancel(i) == /\ InCall(i) /\ ~done[i] /\ done' = [done EXCEPT ![i] = TRUE]
             /\ UNCHANGED <<qvars, mu, waitq, woken, pc, cur, capt, cnd, armed, due, hvars, budget>>

\* addAfter(value, after) (deque.go:354-382): PushBack -> after = root.prev, PushFront -> after = root
Push == /\ budget > 0 /\ mu = Free /\ ~closed /\ npushed < MaxPush /\ budget' = budget - 1
        /\ LET after == IF Dir = "fwd" THEN prv[0] ELSE 0
               n == npushed + 1
               an == nxt[after]
               nxt2 == [nxt EXCEPT ![n] = an, ![after] = n]
               prv2 == [[prv EXCEPT ![n] = after] EXCEPT ![an] = n]
               sf == IF SignalFixed THEN nxt2[n] = 0 ELSE after = 0
               sb == IF SignalFixed THEN prv2[n] = 0 ELSE prv2[after] = 0
               w1 == IF sf THEN Sig(W0, NF) ELSE W0
               w2 == IF sb THEN Sig(w1, NB) ELSE w1
           IN /\ nxt' = nxt2 /\ prv' = prv2 /\ npushed' = n /\ present' = present \cup {n}
              /\ SetW(Sig(w2, UP))
        /\ UNCHANGED <<closed, mu, pc, cur, capt, cnd, done, armed, due, hvars>>

\* PopFront / PopBack -> pop(root.next / root.prev) (deque.go:388-412); a pop after an iterator's first
\* call is a concurrent removal for that iterator
Pop(end) == /\ AllowPop /\ budget > 0 /\ mu = Free /\ ~closed /\ present # {} /\ budget' = budget - 1
            /\ LET it == IF end = "f" THEN nxt[0] ELSE prv[0]
                   w1 == Bc(W0, UP)
                   w2 == IF nxt[it] = 0 THEN Sig(w1, NB) ELSE w1
                   w3 == IF prv[it] = 0 THEN Sig(w2, NF) ELSE w2
               IN /\ nxt' = [nxt EXCEPT ![prv[it]] = nxt[it]]
                  /\ prv' = [prv EXCEPT ![nxt[it]] = prv[it]]
                  /\ present' = present \ {it} /\ SetW(w3)
            /\ tainted' = [i \in Iters |-> tainted[i] \/ started[i]]
            /\ UNCHANGED <<npushed, closed, mu, pc, cur, capt, cnd, done, armed, due, yields, last, calls, started, eofok>>

Close == /\ budget > 0 /\ mu = Free /\ ~closed /\ budget' = budget - 1 /\ closed' = TRUE
         /\ IF CloseBroadcasts THEN SetW(Bc(Bc(Bc(W0, NF), NB), UP)) ELSE UNCHANGED <<waitq, woken>>
         /\ UNCHANGED <<nxt, prv, npushed, present, mu, pc, cur, capt, cnd, done, armed, due, hvars>>

External == Push \/ Close \/ (\E e \in {"f", "b"} : Pop(e)) \/ \E i \in Iters : Start(i) \/ Cancel(i)

(* ------------------------------------------------------------ Internal *)
LeaveWait(i) == /\ armed' = [armed EXCEPT ![i] = FALSE]
                /\ due' = IF armed[i] THEN [due EXCEPT ![cnd[i]] = @ + 1] ELSE due

\* deque.go:321-327: next := current.getNextOrPrevious(direction); root -> io.EOF; else advance and yield
Finish(i, c) ==
  LET nx == Get(c) IN
  /\ pc' = [pc EXCEPT ![i] = "idle"]
  /\ IF nx = 0
       THEN /\ last' = [last EXCEPT ![i] = "eof"] /\ cur' = [cur EXCEPT ![i] = c] /\ UNCHANGED yields
            /\ eofok' = [eofok EXCEPT ![i] = tainted[i] \/ (Len(yields[i]) = Len(ListSeq) /\ i \notin Blocking)]
       ELSE /\ last' = [last EXCEPT ![i] = "item"] /\ cur' = [cur EXCEPT ![i] = nx]
            /\ yields' = [yields EXCEPT ![i] = Append(@, nx)] /\ UNCHANGED eofok

\* WithLock: lock; if current == nil { current = root }; blocking and at the end -> element.wait
\* (choose the cond, start the helper, capture the neighbour); otherwise finish in this critical section
DEnter(i) ==
  /\ pc[i] = "enter" /\ mu = Free
  /\ LET c == IF cur[i] = Nil THEN 0 ELSE cur[i] IN
     IF Get(c) = 0 /\ i \in Blocking
       THEN /\ mu' = i /\ cur' = [cur EXCEPT ![i] = c] /\ capt' = [capt EXCEPT ![i] = Get(c)]
            /\ cnd' = [cnd EXCEPT ![i] = IF Dir = "rev" /\ prv[c] = 0 THEN NB
                                         ELSE IF Dir = "fwd" /\ nxt[c] = 0 THEN NF ELSE UP]
            /\ armed' = [armed EXCEPT ![i] = TRUE] /\ pc' = [pc EXCEPT ![i] = "loop"]
            /\ UNCHANGED <<yields, last, eofok>>
       ELSE Finish(i, c) /\ UNCHANGED <<mu, capt, cnd, armed>>
  /\ UNCHANGED <<qvars, waitq, woken, done, due, calls, started, tainted, budget>>

\* element.wait (deque.go:474-490): for next == it.getNextOrPrevious(direction) { closed -> ErrQueueClosed;
\* cond.Signal(); ctx.Done -> ctx.Err(); default -> cond.Wait() }
DLoop(i) ==
  /\ pc[i] = "loop" /\ mu = i
  /\ IF Get(cur[i]) # capt[i]
       THEN LeaveWait(i) /\ Finish(i, cur[i]) /\ mu' = Free /\ UNCHANGED <<waitq, woken>>
       ELSE IF closed
         THEN /\ LeaveWait(i) /\ pc' = [pc EXCEPT ![i] = "idle"] /\ last' = [last EXCEPT ![i] = "eof"]
              /\ eofok' = [eofok EXCEPT ![i] = tainted[i] \/ Len(yields[i]) = Len(ListSeq)]
              /\ mu' = Free /\ UNCHANGED <<waitq, woken, cur, yields>>
       ELSE IF done[i]
         THEN /\ LeaveWait(i) /\ pc' = [pc EXCEPT ![i] = "idle"] /\ last' = [last EXCEPT ![i] = "ctx"]
              /\ mu' = Free /\ SetW(Sig(W0, cnd[i])) /\ UNCHANGED <<cur, yields, eofok>>
       ELSE /\ SetW(Sig(W0, cnd[i])) /\ pc' = [pc EXCEPT ![i] = "prepark"]
            /\ UNCHANGED <<mu, armed, due, cur, yields, last, eofok>>
  /\ UNCHANGED <<qvars, capt, cnd, done, calls, started, tainted, budget>>

Park(i) == /\ pc[i] = "prepark" /\ mu = i
           /\ waitq' = [waitq EXCEPT ![cnd[i]] = Append(@, i)] /\ mu' = Free
           /\ pc' = [pc EXCEPT ![i] = "parked"]
           /\ UNCHANGED <<qvars, woken, cur, capt, cnd, done, armed, due, hvars, budget>>
Wake(i) == /\ pc[i] = "parked" /\ i \in woken /\ mu = Free
           /\ woken' = woken \ {i} /\ mu' = i /\ pc' = [pc EXCEPT ![i] = "loop"]
           /\ UNCHANGED <<qvars, waitq, cur, capt, cnd, done, armed, due, hvars, budget>>

HelperCancel(i) == /\ armed[i] /\ done[i] /\ (HelperLocked => mu = Free)
                   /\ armed' = [armed EXCEPT ![i] = FALSE] /\ SetW(Bc(W0, cnd[i]))
                   /\ UNCHANGED <<qvars, mu, pc, cur, capt, cnd, done, due, hvars, budget>>
HelperDue(c) == /\ due[c] > 0 /\ (HelperLocked => mu = Free)
                /\ due' = [due EXCEPT ![c] = @ - 1] /\ SetW(Bc(W0, c))
                /\ UNCHANGED <<qvars, mu, pc, cur, capt, cnd, done, armed, hvars, budget>>

Internal == \/ \E i \in Iters : DEnter(i) \/ DLoop(i) \/ Park(i) \/ Wake(i) \/ HelperCancel(i)
            \/ \E c \in Conds : HelperDue(c)
Next == Internal \/ External
Spec == Init /\ [][Next]_vars /\ WF_vars(Internal)

(* ------------------------------------------------------------ Properties *)
TypeOK == /\ npushed \in 0..MaxPush /\ present \subseteq 1..npushed
          /\ mu \in Iters \cup {Free} /\ woken \subseteq Iters
          /\ \A i \in Iters : cur[i] \in Node \cup {Nil}

\* the ring through the root holds exactly the present nodes, consistently in both directions
ShapeOK == /\ SeqToSet(ListSeq) = present /\ Len(ListSeq) = Cardinality(present)
           /\ \A n \in present \cup {0} : prv[nxt[n]] = n /\ nxt[prv[n]] = n

\* never follows a nil pointer: every node that was pushed keeps both pointers, every cursor is such a node
PointersOK == /\ \A n \in 0..npushed : nxt[n] # Nil /\ prv[n] # Nil
              /\ \A i \in Iters : cur[i] # Nil => cur[i] \in 0..npushed

Quiescent == ~ENABLED Internal

YieldsArePushed == \A i \in Iters : \A k \in 1..Len(yields[i]) :
                      /\ yields[i][k] \in 1..npushed
                      /\ k > 1 => yields[i][k - 1] < yields[i][k]

IsPrefix(s, t) == Len(s) <= Len(t) /\ \A k \in 1..Len(s) : s[k] = t[k]
\* absent concurrent pops (and with pushes at the far end only) the list in iteration direction is: what was
\* present at the first call, then everything pushed later; the yields are a prefix of it
InOrderNoSkip == \A i \in Iters : ~tainted[i] => IsPrefix(yields[i], ListSeq)

Unseen(i) == Len(yields[i]) < Len(ListSeq)

\* only blocking iterators ever wait; at quiescence none is blocked that the property obliges to return
NoStuckIter == Quiescent => \A i \in Iters : InCall(i) =>
                  /\ i \in Blocking /\ ~closed /\ ~done[i]
                  /\ ~tainted[i] => ~Unseen(i)

\* io.EOF: non-blocking at the end, blocking only when closed - and (absent pops) only after everything was yielded
ResultsOK == \A i \in Iters : eofok[i] /\ (last[i] = "ctx" => done[i])
             /\ (last[i] = "eof" /\ i \in Blocking /\ ~tainted[i] => closed)
NoLeak == Quiescent => mu = Free /\ (\A c \in Conds : due[c] = 0) /\ \A i \in Iters : ~InCall(i) => ~armed[i]

Settles == <>[]Quiescent
=============================================================================
