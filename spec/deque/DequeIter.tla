----------------------------- MODULE DequeIter -----------------------------
(* Implementation-shaped specification of the non-destructive iterators of    *)
(* pubsub.Deque (/repo/pubsub/deque.go) for property C20.                      *)
(*                                                                            *)
(*   Iters     each runs successive calls of the closure built by             *)
(*             confProducer(direction, blocking) (deque.go:311-332) wrapped   *)
(*             in WithLock(dq.mtx): Producer / ProducerReverse (non-blocking) *)
(*             ProducerBlocking / ProducerReverseBlocking, and the Iterator / *)
(*             IteratorReverse built on them.  Dir is the direction of every  *)
(*             iterator of the model, Blocking the set of blocking ones.      *)
(*   helpers   the per-wait goroutine of element.wait (deque.go:478) and the  *)
(*             `defer cancel()` that fires it when the wait returns           *)
(*   External  Push (at the far end in iteration direction: PushBack for      *)
(*             forward, PushFront for reverse iterators), ForcePush (same     *)
(*             end: ForcePushBack / ForcePushFront, deque.go:179-205 - on a   *)
(*             deque at capacity it pops the element at the opposite end and  *)
(*             pushes, in one critical section), PopFront, PopBack, Close,    *)
(*             the start of a call, cancellation of a call's context          *)
(*                                                                            *)
(* The list is modelled as it is: node 0 is the root of the circular doubly   *)
(* linked list, node n the n-th element pushed, nxt/prv the pointers.  pop    *)
(* (deque.go:392-417) unlinks the element from its neighbours and leaves the  *)
(* element's own pointers untouched ("in case we're using this item in an     *)
(* iterator"), so no pointer an iterator can reach is ever nil: the nil       *)
(* check of confProducer (deque.go:325) is dead code and `never follows a nil *)
(* pointer` is the structural invariant PointersOK.  An element popped while  *)
(* it was last keeps pointing at the root for ever.                           *)
(*                                                                            *)
(* The whole producer call runs under the deque mutex; element.wait releases  *)
(* it only inside cond.Wait() (Park / Wake).  Every waiter Signals its own    *)
(* cond before each cond.Wait() (deque.go:486): two waiters on one cond wake  *)
(* each other for ever (DESIGN.md 3.3) - explored for safety only             *)
(* (MC_iter_pingpong.cfg), liveness is checked with one blocking iterator.    *)
(*                                                                            *)
(* Switches (TRUE = /repo HEAD, FALSE = before the fix: commit):              *)
(*   SignalFixed     1bb36cf addAfter signals nfront when the new element is  *)
(*                   last and nback when it is first                          *)
(*   CloseBroadcasts 58b061a Close wakes all waiters                          *)
(*   HelperLocked    8d14576 helpers broadcast under the mutex                *)
(*                                                                            *)
(*   EvictKeepsItem  (no commit: /repo HEAD never touches element.item) -     *)
(*                   FALSE: a Force push zeroes the item of the element it    *)
(*                   evicts; an iterator walking through that element yields  *)
(*                   a value nobody pushed (non-vacuity of YieldsArePushed)   *)
(*                                                                            *)
(* Deliberate deviations: item[n] = n is the value pushed with node n (0 is   *)
(* the zero value); pushes at the near end (which a positioned iterator can   *)
(* never see) are left out; the tracker is a fixed capacity Cap (0: none) -   *)
(* a plain Push on a full deque fails (addAfter broadcasts `updates`).        *)
(***************************************************************************)
EXTENDS Integers, Sequences, FiniteSets, TLC

CONSTANTS Iters, Blocking, Dir, MaxPush, MaxCalls, Budget, AllowPop, Cap, AllowForce,
          SignalFixed, CloseBroadcasts, HelperLocked, EvictKeepsItem

ASSUME Dir \in {"fwd", "rev"} /\ Blocking \subseteq Iters

Node == 0..MaxPush
Nil == -1
Free == "free"
NF == "nfront"
NB == "nback"
UP == "updates"
Conds == {NF, NB, UP}

VARIABLES nxt, prv, item, npushed, present, closed,       \* the deque
          mu, waitq, woken,                               \* mutex, notify lists, signalled waiters
          pc, cur, capt, cnd, done, armed, due,           \* per iterator: control, cursor, captured neighbour, cond, ctx, helpers
          yields, last, calls, started, tainted, eofok,   \* history variables
          budget

vars == <<nxt, prv, item, npushed, present, closed, mu, waitq, woken, pc, cur, capt, cnd, done, armed, due,
          yields, last, calls, started, tainted, eofok, budget>>
qvars == <<nxt, prv, item, npushed, present, closed>>
hvars == <<yields, last, calls, started, tainted, eofok>>

Init == /\ nxt = [n \in Node |-> IF n = 0 THEN 0 ELSE Nil] /\ prv = [n \in Node |-> IF n = 0 THEN 0 ELSE Nil]
        /\ item = [n \in Node |-> 0] /\ npushed = 0 /\ present = {} /\ closed = FALSE
        /\ mu = Free /\ waitq = [c \in Conds |-> <<>>] /\ woken = {}
        /\ pc = [i \in Iters |-> "idle"] /\ cur = [i \in Iters |-> Nil] /\ capt = [i \in Iters |-> Nil]
        /\ cnd = [i \in Iters |-> UP] /\ done = [i \in Iters |-> FALSE]
        /\ armed = [i \in Iters |-> FALSE] /\ due = [c \in Conds |-> 0]
        /\ yields = [i \in Iters |-> <<>>] /\ last = [i \in Iters |-> "-"] /\ calls = [i \in Iters |-> 0]
        /\ started = [i \in Iters |-> FALSE] /\ tainted = [i \in Iters |-> FALSE] /\ eofok = [i \in Iters |-> TRUE]
        /\ budget = Budget

SeqToSet(s) == {s[k] : k \in 1..Len(s)}
Sig(w, c) == IF w[1][c] = <<>> THEN w ELSE <<[w[1] EXCEPT ![c] = Tail(@)], w[2] \cup {Head(w[1][c])}>>
Bc(w, c)  == <<[w[1] EXCEPT ![c] = <<>>], w[2] \cup SeqToSet(w[1][c])>>
W0 == <<waitq, woken>>
SetW(w) == waitq' = w[1] /\ woken' = w[2]

\* getNextOrPrevious(direction)
Get(n) == IF Dir = "fwd" THEN nxt[n] ELSE prv[n]

\* the list in iteration direction, as a sequence of nodes
RECURSIVE Walk(_, _)
Walk(n, k) == IF n = 0 \/ k = 0 THEN <<>> ELSE <<n>> \o Walk(Get(n), k - 1)
ListSeq == Walk(Get(0), MaxPush)

InCall(i) == pc[i] # "idle"

(* ------------------------------------------------------------ External *)
Start(i) == /\ pc[i] = "idle" /\ calls[i] < MaxCalls /\ last[i] # "eof"
            /\ pc' = [pc EXCEPT ![i] = "enter"] /\ calls' = [calls EXCEPT ![i] = @ + 1]
            /\ done' = [done EXCEPT ![i] = FALSE] /\ last' = [last EXCEPT ![i] = "-"]
            /\ started' = [started EXCEPT ![i] = TRUE]
            /\ UNCHANGED <<qvars, mu, waitq, woken, cur, capt, cnd, armed, due, yields, tainted, eofok, budget>>

Cancel(i) == /\ InCall(i) /\ ~done[i] /\ done' = [done EXCEPT ![i] = TRUE]
             /\ UNCHANGED <<qvars, mu, waitq, woken, pc, cur, capt, cnd, armed, due, hvars, budget>>

\* addAfter(value, after) (deque.go:357-386) on the list <<nx, pv>> with notify state w: PushBack -> after =
\* root.prev, PushFront -> after = root.  Result: <<nxt, prv, w>>
AddAfter(nx, pv, w, n) ==
  LET after == IF Dir = "fwd" THEN pv[0] ELSE 0
      an == nx[after]
      nxt2 == [nx EXCEPT ![n] = an, ![after] = n]
      prv2 == [[pv EXCEPT ![n] = after] EXCEPT ![an] = n]
      sf == IF SignalFixed THEN nxt2[n] = 0 ELSE after = 0
      sb == IF SignalFixed THEN prv2[n] = 0 ELSE prv2[after] = 0
      w1 == IF sf THEN Sig(w, NF) ELSE w
      w2 == IF sb THEN Sig(w1, NB) ELSE w1
  IN <<nxt2, prv2, Sig(w2, UP)>>

\* pop(it) (deque.go:392-417): unlink it from its neighbours, keep its own pointers; deferred notifications
Unlink(nx, pv, w, it) ==
  LET w1 == Bc(w, UP)
      w2 == IF nx[it] = 0 THEN Sig(w1, NB) ELSE w1
      w3 == IF pv[it] = 0 THEN Sig(w2, NF) ELSE w2
  IN <<[nx EXCEPT ![pv[it]] = nx[it]], [pv EXCEPT ![nx[it]] = pv[it]], w3>>

Full == Cap > 0 /\ Cardinality(present) >= Cap

\* PushBack / PushFront; on a full deque tracker.add fails: addAfter broadcasts `updates` and changes nothing
Push == /\ budget > 0 /\ mu = Free /\ ~closed /\ npushed < MaxPush /\ budget' = budget - 1
        /\ IF Full THEN SetW(Bc(W0, UP)) /\ UNCHANGED <<nxt, prv, item, npushed, present>>
           ELSE LET n == npushed + 1
                    r == AddAfter(nxt, prv, W0, n)
                IN /\ nxt' = r[1] /\ prv' = r[2] /\ SetW(r[3])
                   /\ item' = [item EXCEPT ![n] = n] /\ npushed' = n /\ present' = present \cup {n}
        /\ UNCHANGED <<closed, mu, pc, cur, capt, cnd, done, armed, due, hvars>>

\* ForcePushBack / ForcePushFront (deque.go:179-205): if cap() == len() pop the element at the opposite (near)
\* end, then addAfter - one critical section.  The eviction is a concurrent removal for every started iterator.
ForcePush ==
  /\ AllowForce /\ budget > 0 /\ mu = Free /\ ~closed /\ npushed < MaxPush /\ budget' = budget - 1
  /\ LET n == npushed + 1
         evict == Cap > 0 /\ Cardinality(present) = Cap
         it == IF Dir = "fwd" THEN nxt[0] ELSE prv[0]
         u == IF evict THEN Unlink(nxt, prv, W0, it) ELSE <<nxt, prv, W0>>
         r == AddAfter(u[1], u[2], u[3], n)
     IN /\ nxt' = r[1] /\ prv' = r[2] /\ SetW(r[3]) /\ npushed' = n
        /\ present' = (IF evict THEN present \ {it} ELSE present) \cup {n}
        /\ item' = [item EXCEPT ![n] = n, ![it] = IF evict /\ ~EvictKeepsItem /\ it # n THEN 0 ELSE @]
        /\ tainted' = IF evict THEN [i \in Iters |-> tainted[i] \/ started[i]] ELSE tainted
  /\ UNCHANGED <<closed, mu, pc, cur, capt, cnd, done, armed, due, yields, last, calls, started, eofok>>

\* PopFront / PopBack -> pop(root.next / root.prev); a pop after an iterator's first call is a concurrent
\* removal for that iterator
Pop(end) == /\ AllowPop /\ budget > 0 /\ mu = Free /\ ~closed /\ present # {} /\ budget' = budget - 1
            /\ LET it == IF end = "f" THEN nxt[0] ELSE prv[0]
                   u == Unlink(nxt, prv, W0, it)
               IN nxt' = u[1] /\ prv' = u[2] /\ SetW(u[3]) /\ present' = present \ {it}
            /\ tainted' = [i \in Iters |-> tainted[i] \/ started[i]]
            /\ UNCHANGED <<item, npushed, closed, mu, pc, cur, capt, cnd, done, armed, due, yields, last, calls, started, eofok>>

Close == /\ budget > 0 /\ mu = Free /\ ~closed /\ budget' = budget - 1 /\ closed' = TRUE
         /\ IF CloseBroadcasts THEN SetW(Bc(Bc(Bc(W0, NF), NB), UP)) ELSE UNCHANGED <<waitq, woken>>
         /\ UNCHANGED <<nxt, prv, item, npushed, present, mu, pc, cur, capt, cnd, done, armed, due, hvars>>

External == Push \/ ForcePush \/ Close \/ (\E e \in {"f", "b"} : Pop(e)) \/ \E i \in Iters : Start(i) \/ Cancel(i)

(* ------------------------------------------------------------ Internal *)
LeaveWait(i) == /\ armed' = [armed EXCEPT ![i] = FALSE]
                /\ due' = IF armed[i] THEN [due EXCEPT ![cnd[i]] = @ + 1] ELSE due

\* deque.go:324-330: next := current.getNextOrPrevious(direction); root -> io.EOF; else advance and yield
Finish(i, c) ==
  LET nx == Get(c) IN
  /\ pc' = [pc EXCEPT ![i] = "idle"]
  /\ IF nx = 0
       THEN /\ last' = [last EXCEPT ![i] = "eof"] /\ cur' = [cur EXCEPT ![i] = c] /\ UNCHANGED yields
            /\ eofok' = [eofok EXCEPT ![i] = tainted[i] \/ (Len(yields[i]) = Len(ListSeq) /\ i \notin Blocking)]
       ELSE /\ last' = [last EXCEPT ![i] = "item"] /\ cur' = [cur EXCEPT ![i] = nx]
            /\ yields' = [yields EXCEPT ![i] = Append(@, item[nx])] /\ UNCHANGED eofok

\* WithLock: lock; if current == nil { current = root }; blocking and at the end -> element.wait
\* (choose the cond, start the helper, capture the neighbour); otherwise finish in this critical section
DEnter(i) ==
  /\ pc[i] = "enter" /\ mu = Free
  /\ LET c == IF cur[i] = Nil THEN 0 ELSE cur[i] IN
     IF Get(c) = 0 /\ i \in Blocking
       THEN /\ mu' = i /\ cur' = [cur EXCEPT ![i] = c] /\ capt' = [capt EXCEPT ![i] = Get(c)]
            /\ cnd' = [cnd EXCEPT ![i] = IF Dir = "rev" /\ prv[c] = 0 THEN NB
                                         ELSE IF Dir = "fwd" /\ nxt[c] = 0 THEN NF ELSE UP]
            /\ armed' = [armed EXCEPT ![i] = TRUE] /\ pc' = [pc EXCEPT ![i] = "loop"]
            /\ UNCHANGED <<yields, last, eofok>>
       ELSE Finish(i, c) /\ UNCHANGED <<mu, capt, cnd, armed>>
  /\ UNCHANGED <<qvars, waitq, woken, done, due, calls, started, tainted, budget>>

\* element.wait (deque.go:481-497): for next == it.getNextOrPrevious(direction) { closed -> ErrQueueClosed;
\* cond.Signal(); ctx.Done -> ctx.Err(); default -> cond.Wait() }
DLoop(i) ==
  /\ pc[i] = "loop" /\ mu = i
  /\ IF Get(cur[i]) # capt[i]
       THEN LeaveWait(i) /\ Finish(i, cur[i]) /\ mu' = Free /\ UNCHANGED <<waitq, woken>>
       ELSE IF closed
         THEN /\ LeaveWait(i) /\ pc' = [pc EXCEPT ![i] = "idle"] /\ last' = [last EXCEPT ![i] = "eof"]
              /\ eofok' = [eofok EXCEPT ![i] = tainted[i] \/ Len(yields[i]) = Len(ListSeq)]
              /\ mu' = Free /\ UNCHANGED <<waitq, woken, cur, yields>>
       ELSE IF done[i]
         THEN /\ LeaveWait(i) /\ pc' = [pc EXCEPT ![i] = "idle"] /\ last' = [last EXCEPT ![i] = "ctx"]
              /\ mu' = Free /\ SetW(Sig(W0, cnd[i])) /\ UNCHANGED <<cur, yields, eofok>>
       ELSE /\ SetW(Sig(W0, cnd[i])) /\ pc' = [pc EXCEPT ![i] = "prepark"]
            /\ UNCHANGED <<mu, armed, due, cur, yields, last, eofok>>
  /\ UNCHANGED <<qvars, capt, cnd, done, calls, started, tainted, budget>>

Park(i) == /\ pc[i] = "prepark" /\ mu = i
           /\ waitq' = [waitq EXCEPT ![cnd[i]] = Append(@, i)] /\ mu' = Free
           /\ pc' = [pc EXCEPT ![i] = "parked"]
           /\ UNCHANGED <<qvars, woken, cur, capt, cnd, done, armed, due, hvars, budget>>
Wake(i) == /\ pc[i] = "parked" /\ i \in woken /\ mu = Free
           /\ woken' = woken \ {i} /\ mu' = i /\ pc' = [pc EXCEPT ![i] = "loop"]
           /\ UNCHANGED <<qvars, waitq, cur, capt, cnd, done, armed, due, hvars, budget>>

HelperCancel(i) == /\ armed[i] /\ done[i] /\ (HelperLocked => mu = Free)
                   /\ armed' = [armed EXCEPT ![i] = FALSE] /\ SetW(Bc(W0, cnd[i]))
                   /\ UNCHANGED <<qvars, mu, pc, cur, capt, cnd, done, due, hvars, budget>>
HelperDue(c) == /\ due[c] > 0 /\ (HelperLocked => mu = Free)
                /\ due' = [due EXCEPT ![c] = @ - 1] /\ SetW(Bc(W0, c))
                /\ UNCHANGED <<qvars, mu, pc, cur, capt, cnd, done, armed, hvars, budget>>

Internal == \/ \E i \in Iters : DEnter(i) \/ DLoop(i) \/ Park(i) \/ Wake(i) \/ HelperCancel(i)
            \/ \E c \in Conds : HelperDue(c)
Next == Internal \/ External
Spec == Init /\ [][Next]_vars /\ WF_vars(Internal)

(* ------------------------------------------------------------ Properties *)
TypeOK == /\ npushed \in 0..MaxPush /\ present \subseteq 1..npushed
          /\ mu \in Iters \cup {Free} /\ woken \subseteq Iters
          /\ \A i \in Iters : cur[i] \in Node \cup {Nil}

\* the ring through the root holds exactly the present nodes, consistently in both directions
ShapeOK == /\ SeqToSet(ListSeq) = present /\ Len(ListSeq) = Cardinality(present)
           /\ \A n \in present \cup {0} : prv[nxt[n]] = n /\ nxt[prv[n]] = n

\* never follows a nil pointer: every node that was pushed keeps both pointers, every cursor is such a node
PointersOK == /\ \A n \in 0..npushed : nxt[n] # Nil /\ prv[n] # Nil
              /\ \A i \in Iters : cur[i] # Nil => cur[i] \in 0..npushed

Quiescent == ~ENABLED Internal

YieldsArePushed == \A i \in Iters : \A k \in 1..Len(yields[i]) :
                      /\ yields[i][k] \in 1..npushed
                      /\ k > 1 => yields[i][k - 1] < yields[i][k]

IsPrefix(s, t) == Len(s) <= Len(t) /\ \A k \in 1..Len(s) : s[k] = t[k]
\* absent concurrent pops (and with pushes at the far end only) the list in iteration direction is: what was
\* present at the first call, then everything pushed later; the yields are a prefix of it
InOrderNoSkip == \A i \in Iters : ~tainted[i] => IsPrefix(yields[i], ListSeq)

Unseen(i) == Len(yields[i]) < Len(ListSeq)

\* only blocking iterators ever wait; at quiescence none is blocked that the property obliges to return
NoStuckIter == Quiescent => \A i \in Iters : InCall(i) =>
                  /\ i \in Blocking /\ ~closed /\ ~done[i]
                  /\ ~tainted[i] => ~Unseen(i)

\* io.EOF: non-blocking at the end, blocking only when closed - and (absent pops) only after everything was yielded
ResultsOK == \A i \in Iters : eofok[i] /\ (last[i] = "ctx" => done[i])
             /\ (last[i] = "eof" /\ i \in Blocking /\ ~tainted[i] => closed)
NoLeak == Quiescent => mu = Free /\ (\A c \in Conds : due[c] = 0) /\ \A i \in Iters : ~InCall(i) => ~armed[i]

Settles == <>[]Quiescent
=============================================================================
