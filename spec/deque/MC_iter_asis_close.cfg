SPECIFICATION Spec
CONSTANTS
  Iters = {i1}
  Blocking = {i1}
  Dir = "rev"
  MaxPush = 1
  MaxCalls = 1
  Budget = 1
  AllowPop = FALSE
  SignalFixed = TRUE
  CloseBroadcasts = FALSE
  HelperLocked = TRUE
INVARIANTS NoStuckIter

CHECK_DEADLOCK FALSE
