SPECIFICATION Spec
CONSTANTS
  Iters = {i1}
  Blocking = {i1}
  Dir = "rev"
  MaxPush = 1
  MaxCalls = 1
  Budget = 1
  AllowPop = FALSE
  Cap = 0
  AllowForce = FALSE
  SignalFixed = TRUE
  CloseBroadcasts = FALSE
  HelperLocked = TRUE
  EvictKeepsItem = TRUE
INVARIANTS NoStuckIter

CHECK_DEADLOCK FALSE
