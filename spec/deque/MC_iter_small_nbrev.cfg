SPECIFICATION Spec
CONSTANTS
  Iters = {i1, i2}
  Blocking = {i1}
  Dir = "rev"
  MaxPush = 2
  MaxCalls = 3
  Budget = 3
  AllowPop = TRUE
  Cap = 0
  AllowForce = FALSE
  SignalFixed = TRUE
  CloseBroadcasts = TRUE
  HelperLocked = TRUE
  EvictKeepsItem = TRUE
INVARIANTS TypeOK ShapeOK PointersOK YieldsArePushed InOrderNoSkip NoStuckIter ResultsOK NoLeak
PROPERTIES Settles
CHECK_DEADLOCK FALSE
