SPECIFICATION Spec
CONSTANTS
  FrontW = {f1}
  BackW = {b1}
  Pushers = {p1}
  Cap = 1
  Budget = 3
  PopFirst = TRUE
  SignalFixed = TRUE
  CloseBroadcasts = TRUE
  HelperLocked = FALSE
INVARIANTS TypeOK NoStuck

CHECK_DEADLOCK FALSE
