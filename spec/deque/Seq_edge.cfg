SPECIFICATION Spec
CONSTANTS
  Scale = 60
  Depth = 30
  Configs <- CfgAll
INVARIANTS Inv 
VIEW view
ACTION_CONSTRAINT EmitEdge
CHECK_DEADLOCK FALSE
