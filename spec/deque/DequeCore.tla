----------------------------- MODULE DequeCore -----------------------------
(* Sequential meaning of pubsub.Deque (property C06) and the enabling         *)
(* conditions of its blocking operations (C07), as pure operators.            *)
(* A deque value is [items, closed, tr]; items[1] is the front.               *)
(* Every operator returns the SET of allowed outcomes [q, res, amb].          *)
(* Results: "ok" "full" "nocredit" "closed" "none" "ctx", an item, a length.  *)
(*                                                                            *)
(* Readings (DESIGN.md 5.0): after Close every push fails with "closed" and   *)
(* every pop reports "none" (not-ok), also when items remain.  A Force push   *)
(* on a full fixed-capacity deque evicts exactly one item from the opposite   *)
(* end and succeeds; for a deque built on QueueOptions (quota tracker) only   *)
(* the generic obligations are stated, so both "evicted one" and "evicted     *)
(* none" are allowed around the tracker's own verdict.                        *)
(***************************************************************************)
EXTENDS Tracker, Sequences, TLC

QNew(tr) == [items |-> <<>>, closed |-> FALSE, tr |-> tr]
Out(q, r, a) == [q |-> q, res |-> r, amb |-> a]

Front == "f"
Back == "b"
Ins(s, v, end) == IF end = Front THEN <<v>> \o s ELSE Append(s, v)
Rm(s, end) == IF end = Front THEN Tail(s) ELSE SubSeq(s, 1, Len(s) - 1)
At(s, end) == IF end = Front THEN Head(s) ELSE s[Len(s)]
Opp(end) == IF end = Front THEN Back ELSE Front

\* PushFront / PushBack: a failed push has no effect
DPush(q, v, end) ==
  IF q.closed THEN {Out(q, "closed", FALSE)}
  ELSE {IF o.res = "ok" THEN Out([q EXCEPT !.items = Ins(@, v, end), !.tr = o.t], "ok", o.amb)
                        ELSE Out(q, o.res, o.amb) : o \in TrAdd(q.tr)}

\* PopFront / PopBack: the item at the requested end; not-ok when empty or closed
DPop(q, end) ==
  IF q.closed \/ q.items = <<>> THEN {Out(q, "none", FALSE)}
  ELSE {Out([q EXCEPT !.items = Rm(@, end), !.tr = TrRemove(@)], At(q.items, end), FALSE)}

Evicted(q, end) == [q EXCEPT !.items = Rm(@, Opp(end)), !.tr = TrRemove(@)]

\* ForcePushFront / ForcePushBack
DForce(q, v, end) ==
  IF q.closed THEN {Out(q, "closed", FALSE)}
  ELSE IF q.tr.kind = "quota"
    THEN DPush(q, v, end) \cup (IF q.items # <<>> THEN DPush(Evicted(q, end), v, end) ELSE {})
    ELSE IF TrCap(q.tr) = TrLen(q.tr) /\ q.items # <<>> THEN DPush(Evicted(q, end), v, end)
    ELSE DPush(q, v, end)

DLen(q) == {Out(q, ToString(Len(q.items)), FALSE)}
DClose(q) == {Out([q EXCEPT !.closed = TRUE], "ok", FALSE)}

\* WaitFront / WaitBack / Distributor.Receive: an item whenever non-empty (and open);
\* ErrQueueClosed once closed; context error (no effect) when cancelled
DWaitPop(q, end, cancelled) ==
  (IF ~q.closed /\ q.items # <<>> THEN DPop(q, end) ELSE {})
  \cup (IF q.closed THEN {Out(q, "closed", FALSE)} ELSE {})
  \cup (IF cancelled THEN {Out(q, "ctx", FALSE)} ELSE {})

\* WaitPushFront / WaitPushBack / Distributor.Send: completes whenever cap() > len()
DWaitPush(q, v, end, cancelled) ==
  (IF q.closed THEN {Out(q, "closed", FALSE)} ELSE {})
  \cup (IF ~q.closed /\ TrCap(q.tr) > TrLen(q.tr) THEN DPush(q, v, end) ELSE {})
  \cup (IF cancelled THEN {Out(q, "ctx", FALSE)} ELSE {})

BlockingOps == {"wfront", "wback", "wpushf", "wpushb", "dsend", "drecv"}
IsBlocking(op) == op \in BlockingOps
PushOps == {"pushf", "pushb", "fpushf", "fpushb", "wpushf", "wpushb", "dsend", "nbsend"}

Apply(q, op, arg, cancelled) ==
  CASE op = "pushf"  -> DPush(q, arg, Front)
    [] op = "pushb"  -> DPush(q, arg, Back)
    [] op = "popf"   -> DPop(q, Front)
    [] op = "popb"   -> DPop(q, Back)
    [] op = "fpushf" -> DForce(q, arg, Front)
    [] op \in {"fpushb", "nbsend"} -> DForce(q, arg, Back)
    [] op \in {"wfront", "drecv"}  -> DWaitPop(q, Front, cancelled)
    [] op = "wback"  -> DWaitPop(q, Back, cancelled)
    [] op = "wpushf" -> DWaitPush(q, arg, Front, cancelled)
    [] op \in {"wpushb", "dsend"}  -> DWaitPush(q, arg, Back, cancelled)
    [] op \in {"len", "dlen"} -> DLen(q)
    [] op = "close"  -> DClose(q)

Enabled(q, op, arg, cancelled) == Apply(q, op, arg, cancelled) # {}

QOK(q) == /\ TrOK(q.tr)
          /\ TrLen(q.tr) = Len(q.items)
          /\ q.tr.kind = "hard" => Len(q.items) <= q.tr.hard
=============================================================================
