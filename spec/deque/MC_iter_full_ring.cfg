SPECIFICATION Spec
CONSTANTS
  Iters = {i1, i2}
  Blocking = {i1}
  Dir = "fwd"
  MaxPush = 4
  MaxCalls = 3
  Budget = 5
  AllowPop = TRUE
  Cap = 2
  AllowForce = TRUE
  SignalFixed = TRUE
  CloseBroadcasts = TRUE
  HelperLocked = TRUE
  EvictKeepsItem = TRUE
INVARIANTS TypeOK ShapeOK PointersOK YieldsArePushed InOrderNoSkip NoStuckIter ResultsOK NoLeak
PROPERTIES Settles
CHECK_DEADLOCK FALSE
