SPECIFICATION Spec
CONSTANTS
  Scale = 60
  Depth = 4
  Configs <- CfgSmall
INVARIANTS Inv 
CONSTRAINT EmitAll
CHECK_DEADLOCK FALSE
