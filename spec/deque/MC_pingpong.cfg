SPECIFICATION Spec
CONSTANTS
  FrontW = {f1, f2}
  BackW = {}
  Pushers = {p1}
  Cap = 1
  Budget = 3
  PopFirst = TRUE
  SignalFixed = TRUE
  CloseBroadcasts = TRUE
  HelperLocked = TRUE
INVARIANTS TypeOK ResultsOK

CHECK_DEADLOCK FALSE
