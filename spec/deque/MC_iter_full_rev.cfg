SPECIFICATION Spec
CONSTANTS
  Iters = {i1, i2}
  Blocking = {i1}
  Dir = "rev"
  MaxPush = 3
  MaxCalls = 3
  Budget = 5
  AllowPop = TRUE
  SignalFixed = TRUE
  CloseBroadcasts = TRUE
  HelperLocked = TRUE
INVARIANTS TypeOK ShapeOK PointersOK YieldsArePushed InOrderNoSkip NoStuckIter ResultsOK NoLeak
PROPERTIES Settles
CHECK_DEADLOCK FALSE
