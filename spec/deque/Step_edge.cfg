SPECIFICATION Spec
CONSTANTS
  MaxBurst = 2
  Scale = 60
  Depth = 12
  MaxPerCond = 1
  Configs <- CfgStep
INVARIANT Inv
VIEW view
ACTION_CONSTRAINT EmitEdge
CHECK_DEADLOCK FALSE
