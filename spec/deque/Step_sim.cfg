SPECIFICATION Spec
CONSTANTS
  MaxBurst = 2
  Scale = 60
  Depth = 16
  MaxPerCond = 1
  Configs <- CfgStep
INVARIANT Inv
CONSTRAINT EmitAll
CHECK_DEADLOCK FALSE
