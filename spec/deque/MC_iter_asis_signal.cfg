SPECIFICATION Spec
CONSTANTS
  Iters = {i1}
  Blocking = {i1}
  Dir = "fwd"
  MaxPush = 2
  MaxCalls = 2
  Budget = 2
  AllowPop = FALSE
  Cap = 0
  AllowForce = FALSE
  SignalFixed = FALSE
  CloseBroadcasts = TRUE
  HelperLocked = TRUE
  EvictKeepsItem = TRUE
INVARIANTS NoStuckIter

CHECK_DEADLOCK FALSE
