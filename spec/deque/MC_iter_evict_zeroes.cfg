SPECIFICATION Spec
CONSTANTS
  Iters = {i1}
  Blocking = {}
  Dir = "fwd"
  MaxPush = 4
  MaxCalls = 2
  Budget = 5
  AllowPop = FALSE
  Cap = 2
  AllowForce = TRUE
  SignalFixed = TRUE
  CloseBroadcasts = TRUE
  HelperLocked = TRUE
  EvictKeepsItem = FALSE
INVARIANTS YieldsArePushed

CHECK_DEADLOCK FALSE
