SPECIFICATION Spec
CONSTANTS
  FrontW = {f1}
  BackW = {b1}
  Pushers = {p1}
  Cap = 2
  Budget = 4
  PopFirst = TRUE
  SignalFixed = TRUE
  CloseBroadcasts = TRUE
  HelperLocked = TRUE
INVARIANTS TypeOK NoStuck NoLeak ResultsOK
PROPERTIES Settles
CHECK_DEADLOCK FALSE
